# Regenerates the hand-written seeds of corpus/C17 (run: python3 corpus/C17/mkcorpus.py). The check reads only the *.json files.
import json, os
OUT = "/verif/corpus/C17"
def w(name, obj):
    json.dump(obj, open(os.path.join(OUT, name + ".json"), "w"), indent=1, sort_keys=True)

# ---------------------------------------------------------------- repo: subset.eql
subset = {"carriers": ["Carrier"], "model": "Subs", "members": [{"name": "element", "cols": [0]}], "gpreds": [], "consts": [], "rules": []}
EL = ["m", 0]
def N(t): return ["new", t]
def I(k, hs): return ["insert", k, hs]
C = ["close"]
hs = []
# test_singleton_subset_propagates: a b mor el
hs.append({"name": "test_singleton_subset_propagates", "calls": [N("M"), N("M"), N("F"), I(["dom"], [2, 0]), I(["cod"], [2, 1]), N(0), I(EL, [0, 3]), C]})
# test_subset_union: a b c ac bc
hs.append({"name": "test_subset_union", "calls": [N("M"), N("M"), N("M"), N("F"), N("F"), I(["dom"], [3, 0]), I(["dom"], [4, 1]), I(["cod"], [3, 2]), I(["cod"], [4, 2]),
            N(0), N(0), N(0), I(EL, [0, 5]), I(EL, [1, 6]), I(EL, [1, 7]), C]})
# test_subset_disjoint_diagrams
hs.append({"name": "test_subset_disjoint_diagrams", "calls": [N("M")] * 5 + [N("F")] * 3 + [I(["dom"], [5, 0]), I(["dom"], [6, 1]), I(["dom"], [7, 3]),
            I(["cod"], [5, 2]), I(["cod"], [6, 2]), I(["cod"], [7, 4])] + [N(0)] * 4 + [I(EL, [0, 8]), I(EL, [1, 9]), I(EL, [1, 10]), I(EL, [3, 11]), C]})
# test_transitive
hs.append({"name": "test_transitive", "calls": [N("M")] * 3 + [N("F")] * 2 + [I(["dom"], [3, 0]), I(["dom"], [4, 1]), I(["cod"], [3, 1]), I(["cod"], [4, 2])] + [N(0)] * 3 +
           [I(EL, [0, 5]), I(EL, [1, 6]), I(EL, [2, 7]), C]})
# the same facts, morphisms after an intermediate close (no rules: queries are right, nothing is lost)
hs.append({"name": "transitive_morphisms_after_close", "calls": [N("M")] * 3 + [N(0)] * 3 + [I(EL, [0, 3]), I(EL, [1, 4]), I(EL, [2, 5]), C] +
           [N("F")] * 2 + [I(["dom"], [6, 0]), I(["dom"], [7, 1]), I(["cod"], [6, 1]), C, I(["cod"], [7, 2]), C]})
w("repo-subset", {"eql_file": "/repo/eqlog-test-eval/src/subset.eql", "prog": subset, "histories": hs})

# ---------------------------------------------------------------- repo: subset_rules.eql
A, B, AB, CC, D = 0, 1, 2, 3, 4
sr = {"carriers": ["Carrier"], "model": "Subs", "members": [{"name": "element", "cols": [0]}],
      "gpreds": [{"name": "ab_element", "cols": [0]}, {"name": "abc_element", "cols": [0]}],
      "consts": [{"name": "a", "ty": "M"}, {"name": "b", "ty": "M"}, {"name": "a_b", "ty": "F"}, {"name": "c", "ty": "M"}, {"name": "d", "ty": "M"}],
      "cmors": [[AB, A, B]],
      "rules": [
        {"name": "ab_inclusion_dom", "prem": [[["c", A], [0]], [["c", AB], [1]]], "concl": [[["dom"], [1, 0]]]},
        {"name": "ab_inclusion_cod", "prem": [[["c", B], [0]], [["c", AB], [1]]], "concl": [[["cod"], [1, 0]]]},
        {"name": "ab_elements_rule", "prem": [[["c", A], [0]], [EL, [0, 1]], [["c", B], [2]], [EL, [2, 1]]], "concl": [[["g", 0], [1]]]},
        {"name": "ab_c_element_rule", "prem": [[["g", 0], [0]], [["c", CC], [1]], [EL, [1, 0]]], "concl": [[["g", 1], [0]]]},
        {"name": "a_subset_d", "prem": [[["c", A], [0]], [EL, [0, 1]], [["c", D], [2]]], "concl": [[EL, [2, 1]]]},
      ]}
Df = lambda c: ["define", c]
hs = []
hs.append({"name": "test_ab_inclusion_no_dom", "calls": [Df(AB), C]})
hs.append({"name": "test_ab_inclusion_dom", "calls": [Df(A), Df(AB), C]})
hs.append({"name": "test_ab_inclusion_cod", "calls": [Df(B), Df(AB), C]})
# the shipped test: a, b, a_b, c0, element(a, c0), close  -- the test only asserts element(b, c0); ab_element(c0) is forced too
hs.append({"name": "test_singleton_subset_propagates", "calls": [Df(A), Df(B), Df(AB), N(0), I(EL, [0, 3]), C]})
hs.append({"name": "test_member_pred_rule_fires", "calls": [Df(A), Df(B), N(0), I(EL, [0, 2]), I(EL, [1, 2]), C]})
hs.append({"name": "test_member_pred_rule_doesnt_fire", "calls": [Df(A), Df(B), N(0), N(0), I(EL, [0, 2]), I(EL, [1, 2]), C]})
# F7, history A: fact, close, define the morphism constant, close
hs.append({"name": "f7_fact_close_define_morphism_close", "calls": [Df(A), Df(B), N(0), I(EL, [0, 2]), C, Df(AB), C]})
# F7, history C: direct dom/cod insertion after the close
hs.append({"name": "f7_fact_close_insert_dom_cod_close", "calls": [Df(A), Df(B), N(0), I(EL, [0, 2]), C, N("F"), I(["dom"], [3, 0]), I(["cod"], [3, 1]), C]})
# F7, history D: dom before the close, cod after it
hs.append({"name": "f7_dom_before_cod_after_close", "calls": [Df(A), Df(B), N(0), N("F"), I(["dom"], [3, 0]), I(EL, [0, 2]), C, I(["cod"], [3, 1]), C]})
# control: direct morphism complete before the first close: agrees with the specification
hs.append({"name": "control_morphism_before_close", "calls": [Df(A), Df(B), N(0), N("F"), I(["dom"], [3, 0]), I(["cod"], [3, 1]), I(EL, [0, 2]), C]})
# control: morphism constant closed first (dom/cod derived), then the fact
hs.append({"name": "control_define_morphism_close_fact_close", "calls": [Df(A), Df(B), Df(AB), C, N(0), I(EL, [0, 3]), C]})
# a_subset_d then inheritance d -> c via a direct morphism added late
hs.append({"name": "derived_member_fact_then_late_morphism", "calls": [Df(A), Df(D), Df(CC), Df(B), N(0), I(EL, [0, 4]), I(EL, [3, 4]), C, N("F"), I(["dom"], [5, 1]), I(["cod"], [5, 2]), C]})
w("repo-subset-rules", {"eql_file": "/repo/eqlog-test-eval/src/subset_rules.eql", "prog": sr, "histories": hs})

# ---------------------------------------------------------------- seed: the minimal F7 program
f7 = {"carriers": ["Ta"], "model": "Mm", "members": [{"name": "pa", "cols": [0]}], "gpreds": [{"name": "qa", "cols": [0]}],
      "consts": [{"name": "ca", "ty": "M"}, {"name": "cb", "ty": "M"}], "cmors": [],
      "rules": [{"name": "ra", "prem": [[["c", 1], [0]], [["m", 0], [0, 1]]], "concl": [[["g", 0], [1]]], "sugar": True}]}
PA = ["m", 0]
hs = [
 {"name": "f7_minimal", "calls": [Df(0), Df(1), N(0), I(PA, [0, 2]), C, N("F"), I(["dom"], [3, 0]), I(["cod"], [3, 1]), C]},
 {"name": "f7_minimal_extra_close", "calls": [Df(0), Df(1), N(0), I(PA, [0, 2]), C, N("F"), I(["dom"], [3, 0]), I(["cod"], [3, 1]), C, C]},
 {"name": "f7_morphism_created_before_dom_cod_after", "calls": [Df(0), Df(1), N(0), N("F"), I(PA, [0, 2]), C, I(["dom"], [3, 0]), I(["cod"], [3, 1]), C]},
 {"name": "f7_cod_after", "calls": [Df(0), Df(1), N(0), N("F"), I(["dom"], [3, 0]), I(PA, [0, 2]), C, I(["cod"], [3, 1]), C]},
 {"name": "f7_dom_after", "calls": [Df(0), Df(1), N(0), N("F"), I(["cod"], [3, 1]), I(PA, [0, 2]), C, I(["dom"], [3, 0]), C]},
 {"name": "control_early", "calls": [Df(0), Df(1), N(0), N("F"), I(["dom"], [3, 0]), I(["cod"], [3, 1]), I(PA, [0, 2]), C]},
 {"name": "control_morphism_close_fact_close", "calls": [Df(0), Df(1), N("F"), I(["dom"], [2, 0]), I(["cod"], [2, 1]), C, N(0), I(PA, [0, 3]), C]},
 {"name": "control_fact_then_morphism_no_close_between", "calls": [Df(0), Df(1), N(0), I(PA, [0, 2]), N("F"), I(["dom"], [3, 0]), I(["cod"], [3, 1]), C]},
 {"name": "control_cod_model_created_late", "calls": [Df(0), N(0), I(PA, [0, 1]), C, Df(1), N("F"), I(["dom"], [3, 0]), I(["cod"], [3, 2]), C]},
]
w("seed-f7-minimal", {"prog": f7, "histories": hs})

# ---------------------------------------------------------------- seed: chains, diamond, member conclusions
ch = {"carriers": ["Ta"], "model": "Mm", "members": [{"name": "pa", "cols": [0]}, {"name": "pz", "cols": []}],
      "gpreds": [{"name": "qa", "cols": ["M", 0]}, {"name": "qm", "cols": ["M"]}],
      "consts": [], "cmors": [],
      "rules": [{"name": "ra", "prem": [[["ty", "M"], [0]], [["m", 0], [0, 1]]], "concl": [[["g", 0], [0, 1]]]},
                {"name": "rb", "prem": [[["g", 1], [0]], [["m", 0], [0, 1]]], "concl": [[["m", 1], [0]]]},
                {"name": "rc", "prem": [[["cod"], [0, 1]], [["m", 1], [1]], [["dom"], [0, 2]]], "concl": [[["g", 1], [2]]]}]}
PZ = ["m", 1]
hs = [
 # chain m0 -> m1 -> m2, everything early
 {"name": "chain_early", "calls": [N("M")] * 3 + [N("F")] * 2 + [I(["dom"], [3, 0]), I(["cod"], [3, 1]), I(["dom"], [4, 1]), I(["cod"], [4, 2]), N(0), I(PA, [0, 5]), I(["g", 1], [2]), C]},
 # second morphism late
 {"name": "chain_second_morphism_late", "calls": [N("M")] * 3 + [N("F")] * 2 + [I(["dom"], [3, 0]), I(["cod"], [3, 1]), N(0), I(PA, [0, 5]), I(["g", 1], [2]), C, I(["dom"], [4, 1]), I(["cod"], [4, 2]), C]},
 # first morphism late
 {"name": "chain_first_morphism_late", "calls": [N("M")] * 3 + [N("F")] * 2 + [I(["dom"], [4, 1]), I(["cod"], [4, 2]), N(0), I(PA, [0, 5]), I(["g", 1], [2]), C, I(["dom"], [3, 0]), I(["cod"], [3, 1]), C]},
 # diamond m0 -> m1, m0 -> m2, m1 -> m3, m2 -> m3, parallel morphisms
 {"name": "diamond_early", "calls": [N("M")] * 4 + [N("F")] * 5 + [I(["dom"], [4, 0]), I(["cod"], [4, 1]), I(["dom"], [5, 0]), I(["cod"], [5, 2]), I(["dom"], [6, 1]), I(["cod"], [6, 3]),
                                   I(["dom"], [7, 2]), I(["cod"], [7, 3]), I(["dom"], [8, 0]), I(["cod"], [8, 1]), N(0), N(0), I(PA, [0, 9]), I(PA, [2, 10]), I(["g", 1], [3]), C]},
 {"name": "diamond_facts_between_closes", "calls": [N("M")] * 4 + [N("F")] * 4 + [I(["dom"], [4, 0]), I(["cod"], [4, 1]), I(["dom"], [5, 0]), I(["cod"], [5, 2]), I(["dom"], [6, 1]), I(["cod"], [6, 3]),
                                   I(["dom"], [7, 2]), I(["cod"], [7, 3]), C, N(0), I(PA, [0, 8]), C, N(0), I(PA, [2, 9]), I(["g", 1], [3]), C, I(PZ, [0]), C]},
 # unconnected models
 {"name": "unconnected", "calls": [N("M")] * 4 + [N("F")] * 2 + [I(["dom"], [4, 0]), I(["cod"], [4, 1]), I(["dom"], [5, 2]), I(["cod"], [5, 3]), N(0), N(0), I(PA, [0, 6]), I(PA, [2, 7]), I(["g", 1], [1]), C]},
 # incomplete morphism (dom only) never transports
 {"name": "dom_only", "calls": [N("M")] * 2 + [N("F"), I(["dom"], [2, 0]), N(0), I(PA, [0, 3]), I(["g", 1], [1]), C]},
]
w("seed-chains", {"prog": ch, "histories": hs})
print("ok")

# ---------------------------------------------------------------- seed: a member predicate with two (and three) columns
# pins /repo 9ee0d26 (`mapped(None\nNone)`: the module generated for an accepted program did not compile)
tc = {"carriers": ["Ta"], "model": "Mm", "members": [{"name": "pb", "cols": [0, 0]}, {"name": "pc", "cols": [0, 0, 0]}],
      "gpreds": [{"name": "qa", "cols": ["M", 0, 0]}, {"name": "qs", "cols": ["M"]}, {"name": "qb", "cols": [0, 0]}, {"name": "qm", "cols": ["M"]}],
      "consts": [], "cmors": [],
      "rules": [{"name": "ra", "prem": [[["ty", "M"], [0]], [["m", 0], [0, 1, 2]]], "concl": [[["g", 0], [0, 2, 1]]]},
                {"name": "rb", "prem": [[["g", 1], [0]], [["m", 0], [0, 1, 2]]], "concl": [[["m", 0], [0, 2, 1]]]},
                {"name": "rc", "prem": [[["ty", "M"], [0]], [["m", 0], [0, 1, 2]], [["m", 0], [0, 2, 3]]], "concl": [[["m", 1], [0, 1, 2, 3]]]},
                # looks pb up by both columns: index selection chooses pb_*_order_1_2_0 (model element behind two columns;
                # pins /repo 46f4f25: `(*<index>_own)?.get_mut(el1)` did not compile)
                {"name": "rd", "prem": [[["g", 2], [1, 2]], [["ty", "M"], [0]], [["m", 0], [0, 1, 2]]], "concl": [[["g", 3], [0]]]}]}
PB, PC = ["m", 0], ["m", 1]
hs = [
 # m0 -> m1 -> m2, x y z; pb(m0,x,y), pb(m1,y,z), qs(m2): everything before the only close
 {"name": "two_columns_chain_early", "calls": [N("M")] * 3 + [N("F")] * 2 + [I(["dom"], [3, 0]), I(["cod"], [3, 1]), I(["dom"], [4, 1]), I(["cod"], [4, 2])] + [N(0)] * 3 +
           [I(PB, [0, 5, 6]), I(PB, [1, 6, 7]), I(["g", 1], [2]), C]},
 {"name": "two_columns_facts_after_morphisms_closed", "calls": [N("M")] * 3 + [N("F")] * 2 + [I(["dom"], [3, 0]), I(["cod"], [3, 1]), I(["dom"], [4, 1]), I(["cod"], [4, 2]), C] + [N(0)] * 3 +
           [I(PB, [0, 5, 6]), C, I(PB, [1, 6, 7]), I(["g", 1], [2]), C, I(PC, [0, 5, 5, 7]), C]},
 # the known finding with a two-column predicate
 # qb(x, y) selects the tuple pb(., x, y) in every model that has it: own in m0, inherited in m1 and m2 (rule rd)
 {"name": "two_columns_lookup_by_columns_early", "calls": [N("M")] * 3 + [N("F")] * 2 + [I(["dom"], [3, 0]), I(["cod"], [3, 1]), I(["dom"], [4, 1]), I(["cod"], [4, 2])] + [N(0)] * 3 +
           [I(PB, [0, 5, 6]), I(PB, [2, 6, 7]), I(["g", 2], [5, 6]), C]},
 {"name": "two_columns_lookup_by_columns_facts_between_closes", "calls": [N("M")] * 3 + [N("F")] * 2 + [I(["dom"], [3, 0]), I(["cod"], [3, 1]), I(["dom"], [4, 1]), I(["cod"], [4, 2]), C] + [N(0)] * 3 +
           [I(["g", 2], [5, 6]), C, I(PB, [0, 5, 6]), C, I(PB, [1, 6, 7]), I(["g", 2], [6, 7]), C]},
 # the inherited tuples are OLD when qb arrives: rule rd reads them through pb_old_order_1_2_0_all (the repaired path)
 {"name": "two_columns_lookup_old_inherited", "calls": [N("M")] * 3 + [N("F")] * 2 + [I(["dom"], [3, 0]), I(["cod"], [3, 1]), I(["dom"], [4, 1]), I(["cod"], [4, 2])] + [N(0)] * 2 +
           [I(PB, [0, 5, 6]), C, I(["g", 2], [5, 6]), C]},
 {"name": "two_columns_lookup_by_columns_morphism_late", "calls": [N("M")] * 2 + [N(0)] * 2 + [I(PB, [0, 2, 3]), I(["g", 2], [2, 3]), C, N("F"), I(["dom"], [4, 0]), I(["cod"], [4, 1]), C]},
 {"name": "two_columns_morphism_late", "calls": [N("M")] * 2 + [N(0)] * 2 + [I(PB, [0, 2, 3]), I(["g", 1], [1]), C, N("F"), I(["dom"], [4, 0]), I(["cod"], [4, 1]), C]},
]
w("seed-two-columns", {"prog": tc, "histories": hs})
print("ok two columns")
