"""Compiles a generated eqlog program with /repo's compiler, generates a Rust driver for its API, builds it
with rustc against the path crate eqlog-runtime, and runs API histories.

Protocol of the generated driver (one history per process, on stdin, calls separated by ';'):
   n T            new_<T>()                 -> "n <id>"
   i R h..        insert_<R>(handles)       -> "i"
   d F h..        define_<F>(handles)       -> "d <id>"
   e T a b        equate_<T>                -> "e"
   c              close()                   -> "c"
   u <cond>       close_until(cond)         -> "u <0|1> <cond evaluated after return 0|1>"
   D              dump                      -> "D <types> | <rels>"   (see parse_dump)
   qp R h..       predicate query           -> "qp 0|1"
   qf F h..       function evaluation       -> "qf -|<id>"
   qe T a b       are_equal                 -> "qe 0|1"
   qr T a         root                      -> "qr <id>"
   qi R           iterate relation          -> "qi a,b a,b ..."
   qt T           iterate type              -> "qt a b ..."
 cond (prefix): P r k h.. | F f k h.. | E t a b | A c c | O c c
Element ids printed are the raw u32 ids of their type; handles are creation indices (n/d calls).
"""
import glob
import os
import shutil
import subprocess

from common import CACHE, VERIF, sh, tail
from progs import tname, prog_eql

RT = None


def runtime_rlib():
    """The rlib of the *path* crate /repo/eqlog-runtime (the registry eqlog-runtime 0.8.0 that the compiler's
    own front end links has the same crate name): ask cargo which artifact belongs to which package."""
    global RT
    if RT is not None and os.path.exists(RT):
        return RT
    import json
    rc, out = sh("cargo build --offline --release --message-format=json --manifest-path %s/harness/rt-driver/Cargo.toml 2>/dev/null"
                 % VERIF, env={"CARGO_TARGET_DIR": os.path.join(CACHE, "target")}, timeout=1800)
    for line in out.splitlines():
        if not line.startswith("{"):
            continue
        try:
            m = json.loads(line)
        except ValueError:
            continue
        if m.get("reason") == "compiler-artifact" and "/repo/eqlog-runtime" in m.get("package_id", ""):
            for f in m.get("filenames", []):
                if f.endswith(".rlib"):
                    RT = f
    if RT is None:
        raise RuntimeError("cannot locate the rlib of /repo/eqlog-runtime")
    return RT


def snake(t):
    # TypeName "Ta" -> "ta"
    return t[0].lower() + t[1:]


def gen_driver_rs(prog, module_path, extra="", inspect_path=None):
    """inspect_path: Rust source (translate/desc.py::inspect_rs) included in the same `mod th` as the generated
    module (its fields are private); enables `x inspect` and the observation of every point where close_until
    evaluates its condition (lines starting with "X ")."""
    sig = prog["sig"]
    nt = sig["ntypes"]
    rels = sig["rels"]
    T = [tname(i) for i in range(nt)]
    L = []
    w = L.append
    w("#![allow(warnings)]")
    if inspect_path is None:
        w("mod th { include!(\"%s\"); }" % module_path)
        w("const INSPECT: bool = false;")
        w("fn inspect_state(m: &th::Thy) -> String { String::new() }")
    else:
        w("mod th { include!(\"%s\"); include!(\"%s\"); }" % (module_path, inspect_path))
        w("const INSPECT: bool = true;")
        w("fn inspect_state(m: &th::Thy) -> String { m.verif_inspect() }")
    w("use th::*;")
    w("use std::io::{self, Read, Write};")
    w("type M = Thy;")
    w("fn new_el(m: &mut M, t: usize) -> u32 { match t {")
    enums = sig.get("enums", {})
    for i in range(nt):
        if i not in enums:
            w("  %d => m.new_%s().0," % (i, snake(T[i])))
    w("  _ => panic!(\"bad type or enum type\") } }")
    w("fn root(m: &M, t: usize, a: u32) -> u32 { match t {")
    for i in range(nt):
        w("  %d => m.root_%s(%s(a)).0," % (i, snake(T[i]), T[i]))
    w("  _ => panic!() } }")
    w("fn are_equal(m: &M, t: usize, a: u32, b: u32) -> bool { match t {")
    for i in range(nt):
        w("  %d => m.are_equal_%s(%s(a), %s(b))," % (i, snake(T[i]), T[i], T[i]))
    w("  _ => panic!() } }")
    w("fn equate(m: &mut M, t: usize, a: u32, b: u32) { match t {")
    for i in range(nt):
        w("  %d => m.equate_%s(%s(a), %s(b))," % (i, snake(T[i]), T[i], T[i]))
    w("  _ => panic!() } }")
    w("fn iter_type(m: &M, t: usize) -> Vec<u32> { match t {")
    for i in range(nt):
        w("  %d => m.iter_%s().map(|e| e.0).collect()," % (i, snake(T[i])))
    w("  _ => panic!() } }")

    def args(cols, base="a"):
        return ", ".join("%s(%s[%d])" % (T[c], base, j) for j, c in enumerate(cols))
    w("fn insert(m: &mut M, r: usize, a: &[u32]) { match r {")
    for ri, r in enumerate(rels):
        w("  %d => m.insert_%s(%s)," % (ri, r["name"], args(r["cols"])))
    w("  _ => panic!() } }")
    w("fn define(m: &mut M, r: usize, a: &[u32]) -> u32 { match r {")
    for ri, r in enumerate(rels):
        if r["func"]:
            w("  %d => m.define_%s(%s).0," % (ri, r["name"], args(r["cols"][:-1])))
    w("  _ => panic!(\"not a function\") } }")
    w("fn holds(m: &M, r: usize, a: &[u32]) -> bool { match r {")
    for ri, r in enumerate(rels):
        if r["func"]:
            w("  %d => m.%s(%s) .map_or(false, |v| m.are_equal_%s(v, %s(a[%d])))," % (
                ri, r["name"], args(r["cols"][:-1]), snake(T[r["cols"][-1]]), T[r["cols"][-1]], len(r["cols"]) - 1))
        else:
            w("  %d => m.%s(%s)," % (ri, r["name"], args(r["cols"])))
    w("  _ => panic!() } }")
    w("fn eval(m: &M, r: usize, a: &[u32]) -> Option<u32> { match r {")
    for ri, r in enumerate(rels):
        if r["func"]:
            w("  %d => m.%s(%s).map(|v| v.0)," % (ri, r["name"], args(r["cols"][:-1])))
    w("  _ => panic!(\"not a function\") } }")
    w("fn iter_rel(m: &M, r: usize) -> Vec<Vec<u32>> { match r {")
    for ri, r in enumerate(rels):
        n = len(r["cols"])
        if n == 0:
            w("  %d => if m.%s() { vec![vec![]] } else { vec![] }," % (ri, r["name"]))
        elif n == 1:
            w("  %d => m.iter_%s().map(|e| vec![e.0]).collect()," % (ri, r["name"]))
        else:
            pat = ", ".join("e%d" % j for j in range(n))
            w("  %d => m.iter_%s().map(|(%s)| vec![%s]).collect()," % (ri, r["name"], pat, ", ".join("e%d.0" % j for j in range(n))))
    w("  _ => panic!() } }")
    w("const NT: usize = %d; const NR: usize = %d;" % (nt, len(rels)))
    w("const REL_TYPES: &[&[usize]] = &[%s];" % ", ".join("&[%s]" % ", ".join(str(c) for c in r["cols"]) for r in rels))
    w("const REL_FUNC: &[bool] = &[%s];" % ", ".join("true" if r["func"] else "false" for r in rels))
    w(DRIVER_BODY)
    w(extra)
    return "\n".join(L)


DRIVER_BODY = r'''
#[derive(Clone, Debug)]
enum Cond { P(usize, Vec<usize>), F(usize, Vec<usize>), E(usize, usize, usize), A(Box<Cond>, Box<Cond>), O(Box<Cond>, Box<Cond>) }

fn parse_cond(t: &[&str], pos: &mut usize) -> Cond {
    let k = t[*pos]; *pos += 1;
    let mut num = |pos: &mut usize| -> usize { let v = t[*pos].parse().unwrap(); *pos += 1; v };
    match k {
        "P" | "F" => { let r = num(pos); let n = num(pos); let mut hs = vec![]; for _ in 0..n { hs.push(num(pos)); }
                       if k == "P" { Cond::P(r, hs) } else { Cond::F(r, hs) } }
        "E" => { let ty = num(pos); let a = num(pos); let b = num(pos); Cond::E(ty, a, b) }
        "A" => { let a = parse_cond(t, pos); let b = parse_cond(t, pos); Cond::A(Box::new(a), Box::new(b)) }
        "O" => { let a = parse_cond(t, pos); let b = parse_cond(t, pos); Cond::O(Box::new(a), Box::new(b)) }
        _ => panic!("bad cond"),
    }
}

fn eval_cond(m: &M, c: &Cond, h: &[(usize, u32)]) -> bool {
    match c {
        Cond::P(r, hs) => { let a: Vec<u32> = hs.iter().map(|&i| h[i].1).collect(); holds(m, *r, &a) }
        Cond::F(r, hs) => { let a: Vec<u32> = hs.iter().map(|&i| h[i].1).collect(); eval(m, *r, &a).is_some() }
        Cond::E(t, a, b) => are_equal(m, *t, h[*a].1, h[*b].1),
        Cond::A(a, b) => eval_cond(m, a, h) && eval_cond(m, b, h),
        Cond::O(a, b) => eval_cond(m, a, h) || eval_cond(m, b, h),
    }
}

fn main() {
    let mut input = String::new();
    io::stdin().read_to_string(&mut input).unwrap();
    let out = io::stdout();
    let mut out = io::BufWriter::new(out.lock());
    let mut m = M::new();
    let mut h: Vec<(usize, u32)> = Vec::new();
    let iters = std::cell::Cell::new(0usize);
    for call in input.split(';') {
        let t: Vec<&str> = call.split_whitespace().collect();
        if t.is_empty() { continue; }
        let nums = |from: usize| -> Vec<usize> { t[from..].iter().map(|x| x.parse().unwrap()).collect() };
        match t[0] {
            "n" => { let ty: usize = t[1].parse().unwrap(); let e = new_el(&mut m, ty); h.push((ty, e)); writeln!(out, "n {}", e).unwrap(); }
            "i" => { let a = nums(1); let els: Vec<u32> = a[1..].iter().map(|&i| h[i].1).collect(); insert(&mut m, a[0], &els); writeln!(out, "i").unwrap(); }
            "d" => { let a = nums(1); let els: Vec<u32> = a[1..].iter().map(|&i| h[i].1).collect(); let e = define(&mut m, a[0], &els);
                     let ty = *REL_TYPES[a[0]].last().unwrap(); h.push((ty, e)); writeln!(out, "d {}", e).unwrap(); }
            "e" => { let a = nums(1); equate(&mut m, a[0], h[a[1]].1, h[a[2]].1); writeln!(out, "e").unwrap(); }
            "c" => { iters.set(0); let obs: std::cell::RefCell<Vec<String>> = std::cell::RefCell::new(Vec::new());
                     m.close_until(|mm| { iters.set(iters.get() + 1); if INSPECT { obs.borrow_mut().push(inspect_state(mm)); } false });
                     for o in obs.into_inner() { writeln!(out, "X{}", o).unwrap(); }
                     writeln!(out, "c {}", iters.get()).unwrap(); }
            "u" => { let mut pos = 1; let c = parse_cond(&t, &mut pos); let hh = h.clone();
                     let obs: std::cell::RefCell<Vec<String>> = std::cell::RefCell::new(Vec::new());
                     let r = m.close_until(|mm| { if INSPECT { obs.borrow_mut().push(inspect_state(mm)); } eval_cond(mm, &c, &hh) });
                     for o in obs.into_inner() { writeln!(out, "X{}", o).unwrap(); }
                     let after = eval_cond(&m, &c, &h);
                     writeln!(out, "u {} {}", r as u8, after as u8).unwrap(); }
            "D" => {
                let mut s = String::from("D");
                for ty in 0..NT {
                    let roots = iter_type(&m, ty);
                    s.push_str(&format!(" T{}:", ty));
                    s.push_str(&roots.iter().map(|x| x.to_string()).collect::<Vec<_>>().join(","));
                }
                s.push_str(" | H:");
                s.push_str(&h.iter().map(|(ty, e)| format!("{}/{}/{}", ty, e, root(&m, *ty, *e))).collect::<Vec<_>>().join(","));
                s.push_str(" |");
                for r in 0..NR {
                    let rows = iter_rel(&m, r);
                    s.push_str(&format!(" R{}#{}:", r, rows.len()));
                    s.push_str(&rows.iter().map(|row| row.iter().map(|x| x.to_string()).collect::<Vec<_>>().join(",")).collect::<Vec<_>>().join("+"));
                }
                writeln!(out, "{}", s).unwrap();
            }
            "qp" => { let a = nums(1); let els: Vec<u32> = a[1..].iter().map(|&i| h[i].1).collect(); writeln!(out, "qp {}", holds(&m, a[0], &els) as u8).unwrap(); }
            "qf" => { let a = nums(1); let els: Vec<u32> = a[1..].iter().map(|&i| h[i].1).collect();
                      match eval(&m, a[0], &els) { Some(v) => writeln!(out, "qf {}", v).unwrap(), None => writeln!(out, "qf -").unwrap() } }
            "qe" => { let a = nums(1); writeln!(out, "qe {}", are_equal(&m, a[0], h[a[1]].1, h[a[2]].1) as u8).unwrap(); }
            "qr" => { let a = nums(1); writeln!(out, "qr {}", root(&m, a[0], h[a[1]].1)).unwrap(); }
            "qi" => { let a = nums(1); let rows = iter_rel(&m, a[0]);
                      writeln!(out, "qi {}", rows.iter().map(|row| row.iter().map(|x| x.to_string()).collect::<Vec<_>>().join(",")).collect::<Vec<_>>().join(" ")).unwrap(); }
            "qt" => { let a = nums(1); writeln!(out, "qt {}", iter_type(&m, a[0]).iter().map(|x| x.to_string()).collect::<Vec<_>>().join(" ")).unwrap(); }
            "x" => { extra_call(&mut m, &t, &mut h, &mut out); }
            _ => panic!("bad call {}", t[0]),
        }
    }
    writeln!(out, "END").unwrap();
}
'''

DEFAULT_EXTRA = "fn extra_call(m: &mut M, t: &[&str], h: &mut Vec<(usize, u32)>, out: &mut dyn Write) {}\n"


def enum_extra(prog):
    """extra_call for programs with enums:
         x case T id      -> "x case <ctor rel> <arg ids..> eq=<0|1>"  (eq: ctor(args) evaluates to an element equal to id)
                             or "x case PANIC"
         x cases T id     -> "x cases <ctor>:<args,>|..."
         x newenum T C h..-> "x newenum <id>" (pushes a handle)"""
    sig = prog["sig"]
    rels = sig["rels"]
    L = []
    w = L.append
    w("fn case_of(m: &M, ty: usize, id: u32) -> (usize, Vec<u32>) { match ty {")
    for ty, ctors in sig.get("enums", {}).items():
        T = tname(ty)
        arms = []
        for c in ctors:
            n = len(rels[c]["cols"]) - 1
            pat = ", ".join("a%d" % j for j in range(n))
            arms.append("%sCase::%s(%s) => (%d, vec![%s])" % (T, rels[c]["name"][0].upper() + rels[c]["name"][1:], pat, c,
                                                              ", ".join("a%d.0" % j for j in range(n))))
        w("  %d => match m.%s_case(%s(id)) { %s }," % (ty, snake(T), T, ", ".join(arms)))
    w("  _ => panic!(\"not an enum\") } }")
    w("fn cases_of(m: &M, ty: usize, id: u32) -> Vec<(usize, Vec<u32>)> { match ty {")
    for ty, ctors in sig.get("enums", {}).items():
        T = tname(ty)
        arms = []
        for c in ctors:
            n = len(rels[c]["cols"]) - 1
            pat = ", ".join("a%d" % j for j in range(n))
            arms.append("%sCase::%s(%s) => (%d, vec![%s])" % (T, rels[c]["name"][0].upper() + rels[c]["name"][1:], pat, c,
                                                              ", ".join("a%d.0" % j for j in range(n))))
        w("  %d => m.%s_cases(%s(id)).map(|c| match c { %s }).collect()," % (ty, snake(T), T, ", ".join(arms)))
    w("  _ => panic!(\"not an enum\") } }")
    w("fn new_enum(m: &mut M, ty: usize, c: usize, a: &[u32]) -> u32 { match (ty, c) {")
    for ty, ctors in sig.get("enums", {}).items():
        T = tname(ty)
        for c in ctors:
            cols = rels[c]["cols"][:-1]
            args = ", ".join("%s(a[%d])" % (tname(t), j) for j, t in enumerate(cols))
            w("  (%d, %d) => m.new_%s(%sCase::%s(%s)).0," % (ty, c, snake(T), T, rels[c]["name"][0].upper() + rels[c]["name"][1:], args))
    w("  _ => panic!(\"bad enum ctor\") } }")
    w(r'''
fn extra_call(m: &mut M, t: &[&str], h: &mut Vec<(usize, u32)>, out: &mut dyn Write) {
    let n = |i: usize| -> usize { t[i].parse().unwrap() };
    match t[1] {
        "case" => {
            let ty = n(2); let id = n(3) as u32;
            let r = std::panic::catch_unwind(std::panic::AssertUnwindSafe(|| case_of(m, ty, id)));
            match r {
                Err(_) => writeln!(out, "x case PANIC").unwrap(),
                Ok((c, args)) => {
                    let eq = eval(m, c, &args).map_or(false, |v| are_equal(m, ty, v, id));
                    writeln!(out, "x case {} {} eq={}", c, args.iter().map(|x| x.to_string()).collect::<Vec<_>>().join(","), eq as u8).unwrap();
                }
            }
        }
        "cases" => {
            let ty = n(2); let id = n(3) as u32;
            let cs = cases_of(m, ty, id);
            writeln!(out, "x cases {}", cs.iter().map(|(c, a)| format!("{}:{}", c, a.iter().map(|x| x.to_string()).collect::<Vec<_>>().join(","))).collect::<Vec<_>>().join("|")).unwrap();
        }
        "newenum" => {
            let ty = n(2); let c = n(3);
            let a: Vec<u32> = t[4..].iter().map(|x| h[x.parse::<usize>().unwrap()].1).collect();
            let e = new_enum(m, ty, c, &a);
            h.push((ty, e));
            writeln!(out, "x newenum {}", e).unwrap();
        }
        _ => panic!("bad extra call"),
    }
}
''')
    return "\n".join(L)


# `x inspect` prints every private field ("X ..."); `x qp R id..` / `x qf F id..` query with RAW element ids (not
# handles), so that arguments can be replaced by arbitrary equal non-root elements.
INSPECT_EXTRA = r'''
fn extra_call(m: &mut M, t: &[&str], h: &[(usize, u32)], out: &mut dyn Write) {
    let nums = |from: usize| -> Vec<u32> { t[from..].iter().map(|x| x.parse().unwrap()).collect() };
    match t[1] {
        "inspect" => { writeln!(out, "X{}", inspect_state(m)).unwrap(); }
        "qp" => { let a = nums(2); writeln!(out, "xqp {}", holds(m, a[0] as usize, &a[1..]) as u8).unwrap(); }
        "qf" => { let a = nums(2); match eval(m, a[0] as usize, &a[1..]) { Some(v) => writeln!(out, "xqf {}", v).unwrap(), None => writeln!(out, "xqf -").unwrap() } }
        _ => panic!("bad extra call"),
    }
}
'''


def call_txt(c):
    k = c[0]
    if k == "new":
        return "n %d" % c[1]
    if k == "insert":
        return "i %d %s" % (c[1], " ".join(map(str, c[2])))
    if k == "define":
        return "d %d %s" % (c[1], " ".join(map(str, c[2])))
    if k == "equate":
        return "e %d %d %d" % (c[1], c[2], c[3])
    if k == "close":
        return "c"
    if k == "close_until":
        return "u " + cond_txt(c[1])
    if k == "dump":
        return "D"
    if k == "q":
        return c[1]
    raise ValueError(c)


def cond_txt(c):
    if c[0] in ("P", "F"):
        return "%s %d %d %s" % (c[0], c[1], len(c[2]), " ".join(map(str, c[2])))
    if c[0] == "E":
        return "E %d %d %d" % (c[1], c[2], c[3])
    return "%s %s %s" % (c[0], cond_txt(c[1]), cond_txt(c[2]))


class Built:
    def __init__(self, dirpath, exe, prog):
        self.dir = dirpath
        self.exe = exe
        self.prog = prog

    def run(self, calls, timeout=30, env=None, prefix=""):
        """Returns (lines, status) with status in ok|timeout|crash:<rc>."""
        inp = "; ".join(call_txt(c) for c in calls)
        # the limit is CPU time (robust against a loaded machine); the wall-clock limit is only a backstop
        cmd = "ulimit -v 4000000; ulimit -t %d; exec %s%s" % (timeout, prefix, self.exe)
        try:
            p = subprocess.run(cmd, shell=True, input=inp, stdout=subprocess.PIPE, stderr=subprocess.PIPE, text=True,
                               timeout=timeout * 30, env=env)
        except subprocess.TimeoutExpired:
            return [], "timeout"
        if p.returncode in (-9, -24, 137, 152) or "memory allocation of" in p.stderr:
            return [], "timeout"
        lines = p.stdout.splitlines()
        if p.returncode != 0 or not lines or lines[-1] != "END":
            return lines, "crash:%s:%s" % (p.returncode, p.stderr[-300:])
        return lines[:-1], "ok"

    def cleanup(self):
        shutil.rmtree(self.dir, ignore_errors=True)


def compile_program(prog, workdir, mode="module", extra=DEFAULT_EXTRA, text=None, inspect=False, build_driver=None):
    """-> (Built | None, status, log). status: ok | rejected | compiler_panic | rustc_failed | desc_failed
    inspect=True: the emitted text is translated by translate/desc.py (Built.desc, Built.module_text), the generated
    inspection impl is compiled into the module, `x inspect` / `x qp` / `x qf` work and every close observes the
    state at each condition-evaluation point.  build_driver: alternative compiler binary (scratch builds)."""
    shutil.rmtree(workdir, ignore_errors=True)
    ind, outd, comp = (os.path.join(workdir, x) for x in ("in", "out", "comp"))
    for d in (ind, outd, comp):
        os.makedirs(d)
    with open(os.path.join(ind, "thy.eql"), "w") as f:
        f.write(text if text is not None else prog_eql(prog))
    bd = build_driver or os.path.join(CACHE, "target", "release", "build-driver")
    rlib = runtime_rlib()
    if mode == "module":
        rc, out = sh([bd, "module", ind, outd], timeout=120)
    else:
        rc, out = sh([bd, "component", ind, outd, comp, shutil.which("rustc"), rlib], timeout=600,
                     env={"EQLOG_VERIF_TRACE": "", "RAYON_NUM_THREADS": "8"})
    if rc == 1:
        return None, "rejected", out
    if rc != 0:
        return None, "compiler_panic", out
    drv = os.path.join(workdir, "driver.rs")
    desc_, module_text, inspect_path = None, None, None
    if inspect:
        import sys
        if VERIF not in sys.path:
            sys.path.insert(0, VERIF)
        from translate import desc as _desc
        module_text = open(os.path.join(outd, "thy.eql.rs")).read()
        try:
            desc_ = _desc.parse_module(module_text)
        except _desc.DescError as ex:
            return None, "desc_failed", str(ex)
        inspect_path = os.path.join(outd, "inspect.rs")
        with open(inspect_path, "w") as f:
            f.write(_desc.inspect_rs(desc_))
        if extra is DEFAULT_EXTRA:
            extra = INSPECT_EXTRA
    with open(drv, "w") as f:
        f.write(gen_driver_rs(prog, os.path.join(outd, "thy.eql.rs"), extra, inspect_path))
    exe = os.path.join(workdir, "drv")
    deps = os.path.dirname(rlib)
    cmd = ["rustc", "--edition", "2021", "-C", "opt-level=0", "-C", "debuginfo=0", "--cap-lints", "allow", drv, "-o", exe,
           "--extern", "eqlog_runtime=%s" % rlib, "-L", "dependency=%s" % deps]
    if mode != "module":
        cdir = os.path.join(comp, "thy.eql")
        cmd += ["-L", "native=%s" % cdir]
        for f in sorted(os.listdir(cdir)):
            if f.endswith(".rlib"):
                cmd += ["-l", "static:+verbatim=%s" % f]
    rc, out = sh(cmd, timeout=600)
    if rc != 0:
        return None, "rustc_failed", out
    b = Built(workdir, exe, prog)
    b.desc, b.module_text = desc_, module_text
    return b, "ok", ""


def parse_dump(line, prog):
    """-> {"elems": {ty: [(gid, groot)]}, "rows": {rel: [[gid..]]}, "handles": [gid], "raw_handles": [(ty,id,root)]}
    with globally unique ids gid = id * ntypes + ty."""
    nt = prog["sig"]["ntypes"]
    assert line.startswith("D ")
    tpart, hpart, rpart = line[2:].split("|")
    elems = {t: [] for t in range(nt)}
    for tok in tpart.split():
        t, ids = tok.split(":")
        t = int(t[1:])
        for x in ids.split(","):
            if x != "":
                g = int(x) * nt + t
                elems[t].append((g, g))
    handles, raw = [], []
    hp = hpart.strip()[2:]
    for tok in hp.split(","):
        if tok == "":
            continue
        ty, e, r = (int(x) for x in tok.split("/"))
        raw.append((ty, e, r))
        g, gr = e * nt + ty, r * nt + ty
        handles.append(g)
        if (g, gr) not in elems[ty]:
            elems[ty].append((g, gr))
    rows = {}
    for tok in rpart.split():
        r, body = tok.split(":")
        r, n = r[1:].split("#")
        r, n = int(r), int(n)
        cols = prog["sig"]["rels"][r]["cols"]
        if len(cols) == 0:
            rows[r] = [[] for _ in range(n)]
        else:
            rows[r] = [[int(x) * nt + c for x, c in zip(row.split(","), cols)] for row in body.split("+") if row != ""]
            assert len(rows[r]) == n
    return {"elems": elems, "rows": rows, "handles": handles, "raw_handles": raw}
