"""Driver generation / compilation / running for programs with a `model` declaration (C17), modelled on lib/gendrv.py.

Protocol of the generated driver (one history per process on stdin, calls separated by ';'):
   n T            new_<type T>()                      -> "n <handle>"
   d C            define_<const C>()                  -> "d <handle>"   (existing handle when already defined)
   i R h..        insert_<relation R>(handles)        -> "i"
   c              close()                             -> "c <iterations>"
   D              dump                                -> "D R<id>#<n>:h,h+h,h ..."  rows as handle indices, relations
                                                         numbered like members_gen.rel_id; "?<type>/<id>" for an element
                                                         that is not a handle (cannot happen inside the fragment)
Relations R are Coq relation ids (members_gen.rel_id); the type relations are dumped through iter_<type>().
"""
import os
import shutil
import subprocess

import gendrv
import members_gen as mg
from common import CACHE, sh


def gen_driver_rs(prog, module_path):
    tys = mg.tyrefs(prog)
    TN = [mg.ty_name(prog, t) for t in tys]
    SN = [mg.snake(n) for n in TN]
    rels = mg.all_relkeys(prog)
    L = []
    w = L.append
    w("#![allow(warnings)]")
    w("mod th { include!(\"%s\"); }" % module_path)
    w("use th::*;")
    w("use std::io::{self, Read, Write};")
    w("use std::collections::HashMap;")
    w("type M = Thy;")
    w("const NT: usize = %d;" % len(tys))
    w("fn new_el(m: &mut M, t: usize) -> u32 { match t {")
    for i in range(len(tys)):
        w("  %d => m.new_%s().0," % (i, SN[i]))
    w("  _ => panic!(\"bad type\") } }")
    w("fn define(m: &mut M, c: usize) -> (usize, u32) { match c {")
    for ci, c in enumerate(prog["consts"]):
        w("  %d => (%d, m.define_%s().0)," % (ci, mg.ty_index(prog, c["ty"]), c["name"]))
    w("  _ => panic!(\"bad const\") } }")

    def args(cols):
        return ", ".join("%s(a[%d])" % (mg.ty_name(prog, t), j) for j, t in enumerate(cols))
    w("fn insert(m: &mut M, r: usize, a: &[u32]) { match r {")
    for k in rels:
        if k[0] == "ty":
            continue
        w("  %d => m.insert_%s(%s)," % (mg.rel_id(prog, k), mg.rel_name(prog, k), args(mg.rel_cols(prog, k))))
    w("  _ => panic!(\"bad relation\") } }")
    w("fn iter_rel(m: &M, r: usize) -> Vec<Vec<u32>> { match r {")
    for k in rels:
        cols = mg.rel_cols(prog, k)
        n = len(cols)
        name = mg.rel_name(prog, k)
        if n == 1:
            w("  %d => m.iter_%s().map(|e| vec![e.0]).collect()," % (mg.rel_id(prog, k), name))
        else:
            pat = ", ".join("e%d" % j for j in range(n))
            w("  %d => m.iter_%s().map(|(%s)| vec![%s]).collect()," % (mg.rel_id(prog, k), name, pat,
                                                                    ", ".join("e%d.0" % j for j in range(n))))
    w("  _ => panic!() } }")
    w("fn holds(m: &M, r: usize, a: &[u32]) -> bool { match r {")
    for k in rels:
        if k[0] in ("m", "g"):
            w("  %d => m.%s(%s)," % (mg.rel_id(prog, k), mg.rel_name(prog, k), args(mg.rel_cols(prog, k))))
    w("  _ => panic!() } }")
    w("const RELS: &[usize] = &[%s];" % ", ".join(str(mg.rel_id(prog, k)) for k in rels))
    w("const QRELS: &[usize] = &[%s];" % ", ".join(str(mg.rel_id(prog, k)) for k in rels if k[0] in ("m", "g")))
    w("fn rel_types(r: usize) -> &'static [usize] { match r {")
    for k in rels:
        w("  %d => &[%s]," % (mg.rel_id(prog, k), ", ".join(str(mg.ty_index(prog, t)) for t in mg.rel_cols(prog, k))))
    w("  _ => panic!() } }")
    w(DRIVER_BODY)
    return "\n".join(L)


DRIVER_BODY = r'''
fn main() {
    let mut input = String::new();
    io::stdin().read_to_string(&mut input).unwrap();
    let out = io::stdout();
    let mut out = io::BufWriter::new(out.lock());
    let mut m = M::new();
    let mut h: Vec<(usize, u32)> = Vec::new();
    let mut hof: HashMap<(usize, u32), usize> = HashMap::new();
    let iters = std::cell::Cell::new(0usize);
    for call in input.split(';') {
        let t: Vec<&str> = call.split_whitespace().collect();
        if t.is_empty() { continue; }
        let nums = |from: usize| -> Vec<usize> { t[from..].iter().map(|x| x.parse().unwrap()).collect() };
        match t[0] {
            "n" => { let ty: usize = t[1].parse().unwrap(); let e = new_el(&mut m, ty); hof.insert((ty, e), h.len()); h.push((ty, e));
                     writeln!(out, "n {}", h.len() - 1).unwrap(); }
            "d" => { let c: usize = t[1].parse().unwrap(); let (ty, e) = define(&mut m, c);
                     let hi = match hof.get(&(ty, e)) { Some(&hi) => hi, None => { hof.insert((ty, e), h.len()); h.push((ty, e)); h.len() - 1 } };
                     writeln!(out, "d {}", hi).unwrap(); }
            "i" => { let a = nums(1); let els: Vec<u32> = a[1..].iter().map(|&i| h[i].1).collect(); insert(&mut m, a[0], &els); writeln!(out, "i").unwrap(); }
            "c" => { iters.set(0); m.close_until(|_| { iters.set(iters.get() + 1); false }); writeln!(out, "c {}", iters.get()).unwrap(); }
            "D" => {
                let mut s = String::from("D");
                for &r in RELS {
                    let rows = iter_rel(&m, r);
                    let tys = rel_types(r);
                    s.push_str(&format!(" R{}#{}:", r, rows.len()));
                    s.push_str(&rows.iter().map(|row| row.iter().enumerate().map(|(j, x)| match hof.get(&(tys[j], *x)) {
                        Some(hi) => hi.to_string(), None => format!("?{}/{}", tys[j], x) }).collect::<Vec<_>>().join(",")).collect::<Vec<_>>().join("+"));
                }
                // the point queries must agree with the iterators: count disagreements over all handle tuples
                let mut bad = 0usize;
                for &r in QRELS {
                    let tys = rel_types(r);
                    let rows = iter_rel(&m, r);
                    let mut cand: Vec<Vec<u32>> = vec![vec![]];
                    for &ty in tys { let mut nxt = vec![]; for c in &cand { for (hty, e) in &h { if *hty == ty { let mut c2 = c.clone(); c2.push(*e); nxt.push(c2); } } } cand = nxt; }
                    for c in cand { if holds(&m, r, &c) != rows.contains(&c) { bad += 1; } }
                }
                s.push_str(&format!(" | Q{}", bad));
                writeln!(out, "{}", s).unwrap();
            }
            _ => panic!("bad call {}", t[0]),
        }
    }
    writeln!(out, "END").unwrap();
}
'''


def call_txt(prog, c):
    if c[0] == "new":
        return "n %d" % mg.ty_index(prog, c[1])
    if c[0] == "define":
        return "d %d" % c[1]
    if c[0] == "insert":
        return "i %d %s" % (mg.rel_id(prog, c[1]), " ".join(map(str, c[2])))
    if c[0] == "close":
        return "c; D"
    raise ValueError(c)


class Built:
    def __init__(self, dirpath, exe, prog):
        self.dir = dirpath
        self.exe = exe
        self.prog = prog

    def run(self, calls, timeout=20):
        """-> (lines, status); a dump line follows every close."""
        inp = "; ".join(call_txt(self.prog, c) for c in calls)
        cmd = "ulimit -v 4000000; exec %s" % self.exe
        try:
            p = subprocess.run(cmd, shell=True, input=inp, stdout=subprocess.PIPE, stderr=subprocess.PIPE, text=True, timeout=timeout)
        except subprocess.TimeoutExpired:
            return [], "timeout"
        lines = p.stdout.splitlines()
        if p.returncode != 0 or not lines or lines[-1] != "END":
            return lines, "crash:%s:%s" % (p.returncode, p.stderr[-300:])
        return lines[:-1], "ok"

    def cleanup(self):
        shutil.rmtree(self.dir, ignore_errors=True)


def compile_program(prog, workdir, text=None):
    """-> (Built | None, status, log). status: ok | rejected | compiler_panic | rustc_failed"""
    shutil.rmtree(workdir, ignore_errors=True)
    ind, outd = os.path.join(workdir, "in"), os.path.join(workdir, "out")
    os.makedirs(ind)
    os.makedirs(outd)
    with open(os.path.join(ind, "thy.eql"), "w") as f:
        f.write(text if text is not None else mg.prog_eql(prog))
    bd = os.path.join(CACHE, "target", "release", "build-driver")
    rlib = gendrv.runtime_rlib()
    rc, out = sh([bd, "module", ind, outd], timeout=120)
    if rc == 1:
        return None, "rejected", out
    if rc != 0:
        return None, "compiler_panic", out
    drv = os.path.join(workdir, "driver.rs")
    with open(drv, "w") as f:
        f.write(gen_driver_rs(prog, os.path.join(outd, "thy.eql.rs")))
    exe = os.path.join(workdir, "drv")
    cmd = ["rustc", "--edition", "2021", "-C", "opt-level=0", "-C", "debuginfo=0", "--cap-lints", "allow", drv, "-o", exe,
           "--extern", "eqlog_runtime=%s" % rlib, "-L", "dependency=%s" % os.path.dirname(rlib)]
    rc, out = sh(cmd, timeout=600)
    if rc != 0:
        return None, "rustc_failed", out
    return Built(workdir, exe, prog), "ok", ""


def parse_dump(line):
    """-> (set of (rel id, tuple of handles), foreign element count, query/iterator disagreements)"""
    assert line.startswith("D ")
    body, q = line[2:].split("|")
    facts, foreign = set(), 0
    for tok in body.split():
        r, rows = tok.split(":")
        r, n = r[1:].split("#")
        r, n = int(r), int(n)
        got = [row for row in rows.split("+") if row != ""]
        assert len(got) == n, line
        for row in got:
            cells = row.split(",")
            if any(c.startswith("?") for c in cells):
                foreign += 1
                continue
            facts.add((r, tuple(int(c) for c in cells)))
    return facts, foreign, int(q.strip()[1:])


def dumps_of(lines):
    return [parse_dump(l) for l in lines if l.startswith("D ")]
