"""Shared machinery for all property checks.

A check module (checks/cNN.py) implements `run(ctx)` and uses:
  ctx.coq_build(lib)                 build coq/<lib> from /verif sources (full .vo), gate on forbidden words
  ctx.coq_props(lib, "Props_C18.v")  re-print `Print Assumptions` of every theorem in a Props file -> obligations
  ctx.coq_eval(lib, name, text)      run generated .v text (Eval vm_compute ...) and return parsed results
  ctx.cargo_build(crate)             build harness/<crate> against /repo's working tree, return binary path
  ctx.obligation(name, ok, detail)   record a proof / instance obligation
  ctx.violation(replay, what, ...)   record a violation (consults known_findings.json)
  ctx.finish()                       write evidence, print VIOLATION / KNOWN-FINDING lines, exit
"""
import hashlib
import json
import os
import re
import subprocess
import sys
import time
from concurrent.futures import ThreadPoolExecutor

VERIF = os.path.dirname(os.path.dirname(os.path.abspath(__file__)))
REPO = "/repo"
# VERIF_CACHE / VERIF_OUT let a run against a mutated tree (seeded-change validation in a private mount
# namespace) keep its build cache, evidence and replays apart from the real ones.
CACHE = os.environ.get("VERIF_CACHE") or os.path.join(VERIF, ".cache")
OUT = os.environ.get("VERIF_OUT") or VERIF
TARGET = os.path.join(CACHE, "target")
NPROC = os.cpu_count() or 4

FORBIDDEN = [
    r"\bAdmitted\b", r"\badmit\b", r"\bAxiom\b", r"\bAxioms\b", r"\bParameter\b", r"\bParameters\b",
    r"\bConjecture\b", r"Unset\s+Guard", r"bypass_check", r"type-in-type", r"Admit\s+Obligations",
    r"impredicative-set", r"Unset\s+Positivity", r"Unset\s+Universe",
]

# Standard-library axioms that a theorem may depend on (named in DESIGN.md section 7). Empty: every
# property theorem must be closed under the global context.
AXIOM_ALLOWLIST = set()


def sh(cmd, timeout=None, cwd=None, env=None, input=None):
    e = dict(os.environ)
    e.setdefault("CARGO_NET_OFFLINE", "true")
    if env:
        e.update(env)
    try:
        p = subprocess.run(cmd, shell=isinstance(cmd, str), cwd=cwd, env=e, input=input,
                           stdout=subprocess.PIPE, stderr=subprocess.STDOUT, timeout=timeout, text=True)
        return p.returncode, p.stdout
    except subprocess.TimeoutExpired as ex:
        out = ex.stdout or ""
        if isinstance(out, bytes):
            out = out.decode("utf-8", "replace")
        return 124, out + "\n[timeout after %ss]" % timeout


def strip_coq_comments(text):
    out, depth, i, n = [], 0, 0, len(text)
    in_str = False
    while i < n:
        if not in_str and text.startswith("(*", i):
            depth += 1
            i += 2
            continue
        if depth > 0 and text.startswith("*)", i):
            depth -= 1
            i += 2
            continue
        if depth == 0:
            if text[i] == '"':
                in_str = not in_str
            out.append(text[i])
        i += 1
    return "".join(out)


# ---------------------------------------------------------------- Coq term parser (printed values)

class CoqParseError(Exception):
    pass


def parse_coq_value(s):
    """Parse a value printed by Coq built from numbers, lists, tuples, constructors.
    Returns python ints, lists, tuples, and ("Ctor", arg, ...) tuples / "Ctor" strings."""
    toks = re.findall(r"\d+|[A-Za-z_][A-Za-z_0-9'.]*|\[|\]|\(|\)|;|,|%[A-Za-z]+|\{\||\|\}|:=", s)
    toks = [t for t in toks if not t.startswith("%")]
    pos = [0]

    def peek():
        return toks[pos[0]] if pos[0] < len(toks) else None

    def eat(t=None):
        tok = peek()
        if tok is None or (t is not None and tok != t):
            raise CoqParseError("expected %r got %r at %d in %s" % (t, tok, pos[0], s[:200]))
        pos[0] += 1
        return tok

    def atom():
        t = peek()
        if t is None:
            raise CoqParseError("unexpected end")
        if t.isdigit():
            eat()
            return int(t)
        if t == "[":
            eat()
            items = []
            if peek() == "]":
                eat()
                return items
            while True:
                items.append(expr())
                if peek() == ";":
                    eat()
                    continue
                eat("]")
                return items
        if t == "(":
            eat()
            items = [expr()]
            while peek() == ",":
                eat()
                items.append(expr())
            eat(")")
            if len(items) == 1:
                return items[0]
            return tuple(items)
        if t == "{|":
            eat()
            fields = {}
            while peek() != "|}":
                name = eat()
                eat(":=")
                fields[name] = expr()
                if peek() == ";":
                    eat()
            eat("|}")
            return fields
        if re.match(r"[A-Za-z_]", t):
            eat()
            return t
        raise CoqParseError("unexpected token %r" % t)

    def expr():
        head = atom()
        if isinstance(head, str) and head not in ("true", "false"):
            args = []
            while peek() is not None and peek() not in ("]", ")", ";", ",", "|}"):
                args.append(atom())
            if args:
                return (head,) + tuple(args)
            return head
        return head

    v = expr()
    if pos[0] != len(toks):
        raise CoqParseError("trailing tokens at %d: %r" % (pos[0], toks[pos[0]:pos[0] + 5]))
    return v


def split_eval_outputs(out):
    """Split coqc output of several `Eval vm_compute in e.` commands into the printed values."""
    res = []
    cur = None
    for line in out.splitlines():
        if line.startswith("     = "):
            if cur is not None:
                res.append(cur)
            cur = line[7:]
        elif cur is not None:
            cur += " " + line.strip()
    if cur is not None:
        res.append(cur)
    vals = []
    for r in res:
        # drop the trailing ": type"
        depth = 0
        cut = None
        for i, ch in enumerate(r):
            if ch in "([{":
                depth += 1
            elif ch in ")]}":
                depth -= 1
            elif ch == ":" and depth == 0 and not r.startswith("=", i + 1):
                cut = i
        vals.append(r[:cut].strip() if cut is not None else r.strip())
    return vals


# ---------------------------------------------------------------- context

class Ctx:
    def __init__(self, pid, tier, level):
        self.pid = pid
        self.tier = tier
        self.level = level
        self.seed = int(os.environ.get("VERIF_SEED", "1") or 1)
        self.t0 = time.time()
        self.obligations = []      # (name, ok, detail)
        self.violations = []       # dicts
        self.known = []            # lines
        self.cov = {}              # extra coverage keys
        self.samples = []
        self.assumptions = []
        self.trusted = []
        self.checker_cmds = []
        self.broken = []           # names of proof obligations / correspondences that broke
        self.evaluations = 0
        self.distinct = set()
        self.findings = load_known_findings()
        os.makedirs(CACHE, exist_ok=True)
        os.makedirs(os.path.join(OUT, "evidence"), exist_ok=True)

    # ------------------------------------------------------------ coq
    def coq_gate(self, lib):
        d = os.path.join(VERIF, "coq", lib)
        bad = []
        for root, _, files in os.walk(d):
            for f in files:
                if not f.endswith(".v"):
                    continue
                p = os.path.join(root, f)
                txt = strip_coq_comments(open(p, encoding="utf-8", errors="replace").read())
                for pat in FORBIDDEN:
                    m = re.search(pat, txt)
                    if m:
                        bad.append("%s: %s" % (os.path.relpath(p, VERIF), m.group(0)))
                # Variable/Hypothesis outside sections
                depth = 0
                for line in txt.splitlines():
                    ls = line.strip()
                    if re.match(r"Section\b", ls):
                        depth += 1
                    elif re.match(r"End\b", ls) and depth > 0:
                        depth -= 1
                    elif depth == 0 and re.match(r"(Variable|Variables|Hypothesis|Hypotheses|Context)\b", ls):
                        bad.append("%s: %s outside Section" % (os.path.relpath(p, VERIF), ls[:40]))
        proj = os.path.join(d, "_CoqProject")
        if os.path.exists(proj):
            ptxt = open(proj).read()
            for w in ("-type-in-type", "-impredicative-set", "-vos", "-noinit", "bypass"):
                if w in ptxt:
                    bad.append("_CoqProject: %s" % w)
        return bad

    def coq_build(self, lib, timeout=2400):
        """Full .vo build of coq/<lib>. Returns (ok, log)."""
        d = os.path.join(VERIF, "coq", lib)
        bad = self.coq_gate(lib)
        if bad:
            self.obligation("gate:%s" % lib, False, "; ".join(bad[:10]))
            self.broken.append("gate:%s (%s)" % (lib, bad[0]))
            return False, "\n".join(bad)
        cmd = "coq_makefile -f _CoqProject -o Makefile >/dev/null && make -j%d" % NPROC
        self.checker_cmds.append("cd coq/%s && %s" % (lib, cmd))
        rc, out = sh(cmd, cwd=d, timeout=timeout)
        ok = rc == 0
        self.obligation("build:%s" % lib, ok, "" if ok else tail(out, 30))
        if not ok:
            m = re.search(r'File "\./([^"]+)", line (\d+)', out)
            self.broken.append("coq build of %s failed%s" % (lib, (" at %s:%s" % (m.group(1), m.group(2))) if m else ""))
        return ok, out

    def coq_props(self, lib, props_file, required=()):
        """Print Assumptions for every Theorem in props_file; each is one obligation.
        `required` lists theorem names that must exist (pinning the property's statements)."""
        d = os.path.join(VERIF, "coq", lib)
        p = os.path.join(d, props_file)
        if not os.path.exists(p):
            self.obligation("props:%s" % props_file, False, "missing file")
            self.broken.append("missing %s" % props_file)
            return []
        txt = strip_coq_comments(open(p).read())
        names = re.findall(r"^\s*(?:Theorem|Lemma|Corollary)\s+([A-Za-z_0-9']+)", txt, re.M)
        for r in required:
            if r not in names:
                self.obligation("thm:%s" % r, False, "theorem missing from %s" % props_file)
                self.broken.append("theorem %s missing from %s" % (r, props_file))
        # every proof in a Props file must be `exact ...`
        for m in re.finditer(r"(?:Theorem|Lemma|Corollary)\s+([A-Za-z_0-9']+).*?Proof\.(.*?)Qed\.", txt, re.S):
            body = m.group(2).strip()
            if not re.match(r"^exact\b", body):
                self.obligation("shape:%s" % m.group(1), False, "Props proof is not `exact`: %s" % body[:60])
        mod = props_file[:-2]
        gen = os.path.join(d, "gen")
        os.makedirs(gen, exist_ok=True)
        f = os.path.join(gen, "assump_%s.v" % mod)
        with open(f, "w") as fh:
            fh.write("Require Import %s.%s.\n" % (lib, mod))
            for n in names:
                fh.write('Print Assumptions %s.\n' % n)
        cmd = "coqc -noglob -Q . %s gen/assump_%s.v" % (lib, mod)
        self.checker_cmds.append("cd coq/%s && %s" % (lib, cmd))
        rc, out = sh(cmd, cwd=d, timeout=600)
        if rc != 0:
            self.obligation("assumptions:%s" % mod, False, tail(out, 20))
            self.broken.append("Print Assumptions run failed for %s" % mod)
            return names
        # split output per theorem: each Print Assumptions prints either "Closed under the global context" or "Axioms:\n..."
        chunks = re.split(r"(?=Closed under the global context|Axioms:)", out)
        chunks = [c for c in chunks if c.startswith("Closed") or c.startswith("Axioms:")]
        if len(chunks) != len(names):
            self.obligation("assumptions:%s" % mod, False, "could not split output (%d vs %d)" % (len(chunks), len(names)))
            self.broken.append("Print Assumptions output unparsable for %s" % mod)
            return names
        for n, c in zip(names, chunks):
            if c.startswith("Closed"):
                self.obligation("thm:%s" % n, True, "closed under the global context")
            else:
                axs = re.findall(r"^([A-Za-z_0-9.']+)\s*:", c, re.M)
                extra = [a for a in axs if a.split(".")[-1] not in AXIOM_ALLOWLIST]
                ok = not extra
                self.obligation("thm:%s" % n, ok, "axioms: %s" % ", ".join(axs))
                if not ok:
                    self.broken.append("theorem %s depends on axioms %s" % (n, extra))
        if self.tier == "thorough":
            # independent re-check of the compiled library and everything it depends on
            cmd = "coqchk -o -silent -Q . %s %s.%s" % (lib, lib, mod)
            self.checker_cmds.append("cd coq/%s && %s" % (lib, cmd))
            rc, out = sh(cmd, cwd=d, timeout=7200)
            ok = rc == 0 and "* Axioms: <none>" in out and "type-in-type: <none>" in out and \
                "unsafe (co)fixpoints: <none>" in out and "positivity is assumed: <none>" in out
            self.obligation("coqchk:%s.%s" % (lib, mod), ok, "" if ok else tail(out, 15))
            if not ok:
                self.broken.append("coqchk does not accept %s.%s without axioms / unsafe flags" % (lib, mod))
        return names

    def coq_eval(self, lib, name, bodies, requires, timeout=900):
        """bodies: list of lists of Gallina expressions (one shard each). Runs each shard with coqc,
        returns list (per shard) of list of parsed values, or raises RuntimeError with the log."""
        d = os.path.join(VERIF, "coq", lib)
        gen = os.path.join(d, "gen")
        os.makedirs(gen, exist_ok=True)

        def one(i_body):
            i, body = i_body
            f = os.path.join(gen, "cases_%s_%d.v" % (name, i))
            with open(f, "w") as fh:
                fh.write(requires + "\n")
                for e in body:
                    fh.write("Eval vm_compute in (%s).\n" % e)
            rc, out = sh("coqc -noglob -Q . %s gen/cases_%s_%d.v" % (lib, name, i), cwd=d, timeout=timeout)
            if rc != 0:
                raise RuntimeError("coqc failed on %s: %s" % (f, tail(out, 20)))
            vals = split_eval_outputs(out)
            if len(vals) != len(body):
                raise RuntimeError("coqc printed %d values for %d expressions in %s" % (len(vals), len(body), f))
            return [parse_coq_value(v) for v in vals]

        self.checker_cmds.append("cd coq/%s && coqc -noglob -Q . %s gen/cases_%s_*.v" % (lib, lib, name))
        with ThreadPoolExecutor(max_workers=NPROC) as ex:
            return list(ex.map(one, list(enumerate(bodies))))

    # ------------------------------------------------------------ cargo
    def cargo_build(self, crate, bins=None, release=True, features=None, timeout=3600):
        d = os.path.join(VERIF, "harness", crate)
        lock = os.path.join(d, "Cargo.lock")
        if not os.path.exists(lock):
            import shutil
            shutil.copy(os.path.join(REPO, "Cargo.lock"), lock)
        cmd = "cargo build --offline %s --manifest-path %s/Cargo.toml" % ("--release" if release else "", d)
        if features:
            cmd += " --features %s" % features
        rc, out = sh(cmd, env={"CARGO_TARGET_DIR": TARGET}, timeout=timeout)
        if rc != 0:
            self.broken.append("harness crate %s does not build against /repo" % crate)
            self.obligation("harness:%s" % crate, False, tail(out, 30))
            return None
        return os.path.join(TARGET, "release" if release else "debug")

    # ------------------------------------------------------------ bookkeeping
    def obligation(self, name, ok, detail=""):
        self.obligations.append((name, bool(ok), detail))

    def count(self, key, distinct_key=None, nontrivial=True):
        self.evaluations += 1
        if nontrivial and distinct_key is not None:
            self.distinct.add(distinct_key)

    def sample(self, s):
        if len(self.samples) < 5:
            self.samples.append(s)

    def write_replay(self, obj):
        d = os.path.join(OUT, "replays", self.pid)
        os.makedirs(d, exist_ok=True)
        txt = json.dumps(obj, indent=1, sort_keys=True)
        h = hashlib.sha256(txt.encode()).hexdigest()[:16]
        p = os.path.join(d, "%s.json" % h)
        with open(p, "w") as f:
            f.write(txt)
        return p

    def violation(self, replay, what, finding_key=None, found_input=True):
        """replay: json-able dict describing the failing case; finding_key: string compared with known_findings."""
        replay = dict(replay)
        replay.setdefault("property", self.pid)
        replay.setdefault("seed", self.seed)
        replay["what"] = what
        for kf in self.findings:
            if kf.get("property") == self.pid and kf.get("kind") == "finding" and finding_key is not None \
                    and kf.get("match") == finding_key:
                line = "KNOWN-FINDING: property=%s %s" % (self.pid, kf.get("what", what))
                if line not in self.known:
                    self.known.append(line)
                return
        path = self.write_replay(replay)
        self.violations.append({"replay": path, "what": what, "found_input": found_input})

    def finish(self):
        # a broken proof / correspondence without a concrete failing input is still a violation
        if self.broken and not any(v["found_input"] for v in self.violations):
            path = self.write_replay({"property": self.pid, "kind": "obligation", "broken": self.broken,
                                      "obligations": [o for o in self.obligations if not o[1]]})
            self.violations.append({"replay": path, "what": "; ".join(self.broken), "found_input": False})
        failed = [o for o in self.obligations if not o[1]]
        if failed and not self.violations:
            path = self.write_replay({"property": self.pid, "kind": "obligation",
                                      "broken": [o[0] for o in failed], "obligations": failed})
            self.violations.append({"replay": path, "what": "obligations failed: " + ", ".join(o[0] for o in failed),
                                    "found_input": False})
        n_ob = len(self.obligations)
        n_ok = sum(1 for o in self.obligations if o[1])
        cov = {
            "obligations": n_ob,
            "discharged": n_ok,
            "checker_cmd": " && ".join(dict.fromkeys(self.checker_cmds)) or "n/a",
            "trusted_base": self.trusted or ["coqc 8.16.1 kernel (vm_compute used for instance obligations)"],
            "evaluations": self.evaluations,
            "distinct_nontrivial": len(self.distinct),
            "samples": self.samples or ["(no cases run)"],
            "obligation_list": [{"name": n, "ok": ok, "detail": d[:300]} for (n, ok, d) in self.obligations],
            "known_findings_reported": self.known,
        }
        cov.update(self.cov)
        ev = {
            "property_id": self.pid,
            "tier": self.tier,
            "seed": self.seed,
            "level": self.level,
            "coverage": cov,
            "assumptions": self.assumptions,
            "wall_s": round(time.time() - self.t0, 2),
            "violations": len(self.violations),
        }
        with open(os.path.join(OUT, "evidence", "%s.json" % self.pid), "w") as f:
            json.dump(ev, f, indent=1)
        for line in self.known:
            print(line)
        for v in self.violations:
            rel = os.path.relpath(v["replay"], OUT)
            print("VIOLATION property=%s replay=%s%s" % (self.pid, rel, "" if v["found_input"] else " no-failing-input-found"))
            sys.stderr.write("  -> %s\n" % v["what"][:500])
        print("%s %s: %d/%d obligations, %d cases (%d distinct non-trivial), %d violation(s), %.1fs" % (
            self.pid, self.tier, n_ok, n_ob, self.evaluations, len(self.distinct), len(self.violations), time.time() - self.t0))
        sys.exit(1 if self.violations else 0)


def tail(s, n):
    return "\n".join(s.splitlines()[-n:])


def load_known_findings():
    p = os.path.join(VERIF, "known_findings.json")
    if not os.path.exists(p):
        return []
    return json.load(open(p)).get("findings", [])


class Rng:
    """Deterministic PRNG (splitmix64) so that every random choice derives from VERIF_SEED."""

    def __init__(self, seed):
        self.s = (seed * 0x9E3779B97F4A7C15 + 0x1234567) & 0xFFFFFFFFFFFFFFFF

    def next(self):
        self.s = (self.s + 0x9E3779B97F4A7C15) & 0xFFFFFFFFFFFFFFFF
        z = self.s
        z = ((z ^ (z >> 30)) * 0xBF58476D1CE4E5B9) & 0xFFFFFFFFFFFFFFFF
        z = ((z ^ (z >> 27)) * 0x94D049BB133111EB) & 0xFFFFFFFFFFFFFFFF
        return z ^ (z >> 31)

    def below(self, n):
        return self.next() % n if n > 0 else 0

    def choice(self, xs):
        return xs[self.below(len(xs))]

    def chance(self, num, den):
        return self.below(den) < num

    def shuffle(self, xs):
        xs = list(xs)
        for i in range(len(xs) - 1, 0, -1):
            j = self.below(i + 1)
            xs[i], xs[j] = xs[j], xs[i]
        return xs

    def fork(self, tag):
        h = int(hashlib.sha256(("%d:%s" % (self.s, tag)).encode()).hexdigest()[:15], 16)
        return Rng(h)


def coq_list(xs, f=str):
    return "[" + "; ".join(f(x) for x in xs) + "]"


def coq_N(n):
    return "%d%%N" % n
