"""Generator for C17: programs with ONE `model` declaration (member predicates only), global types, predicates,
constants of type M / Mor(M), global rules over member predicates; DAGs of <= 4 model elements; fact sets; histories
that move the creation of a morphism (and, separately, the assertion of its dom / cod tuple) before / after the
facts and before / after intermediate closes.

One AST is printed twice: as .eql text (prog_eql) and as a Gallina term of Members.Model.mprogram (prog_coq).

AST (plain dicts / tuples, json-able):
  prog = {"carriers": ["Ta", ...], "model": "Mm",
          "members": [{"name": "pa", "cols": [carrier index, ...]}, ...],       # relation arity = 1 + len(cols)
          "gpreds":  [{"name": "qa", "cols": [tyref, ...]}, ...],               # tyref: int (carrier) | "M" | "F"
          "consts":  [{"name": "ca", "ty": "M" | "F"}, ...],                    # nullary functions
          "rules":   [{"name": "ra", "prem": [atom], "concl": [atom], "vty": {var: tyref}}]}
  atom = [relkey, [var, ...]];  relkey = ["m", i] | ["g", i] | ["c", i] | ["dom"] | ["cod"] | ["ty", tyref]
  Flat reading: member atom [["m", i], [m, x..]] is  m.p(x..);  const atom [["c", i], [v]] is  v = c();
  [["dom"], [f, m]] is  dom(f) = m;  [["ty", t], [v]] is  v: T.
history call = ["new", tyref] | ["define", const index] | ["insert", relkey, [handle..]] | ["close"]
  handles are creation indices (one per new / first define); a dump is taken after every close.
Relation numbering on the Coq side (rel_id): dom = 0, cod = 1, then the type relations (carriers, M, Mor), members,
global predicates, constants.
"""
import json
import re

from common import Rng, coq_list

REL_DOM, REL_COD = 0, 1


# ------------------------------------------------------------------------------------------ names and ids

def snake(name):
    return re.sub(r"(?<!^)(?=[A-Z])", "_", name).lower()


def mor_type(prog):
    return prog["model"] + "Mor"


def tyrefs(prog):
    return list(range(len(prog["carriers"]))) + ["M", "F"]


def ty_name(prog, t):
    if t == "M":
        return prog["model"]
    if t == "F":
        return mor_type(prog)
    return prog["carriers"][t]


def ty_src(prog, t):
    """Type expression in .eql source."""
    if t == "F":
        return "Mor(%s)" % prog["model"]
    return ty_name(prog, t)


def ty_index(prog, t):
    return tyrefs(prog).index(t)


def relkey(k):
    return tuple(k) if isinstance(k, list) else k


def rel_id(prog, k):
    k = relkey(k)
    nty = len(prog["carriers"]) + 2
    if k[0] == "dom":
        return REL_DOM
    if k[0] == "cod":
        return REL_COD
    if k[0] == "ty":
        return 2 + ty_index(prog, k[1])
    if k[0] == "m":
        return 2 + nty + k[1]
    if k[0] == "g":
        return 2 + nty + len(prog["members"]) + k[1]
    if k[0] == "c":
        return 2 + nty + len(prog["members"]) + len(prog["gpreds"]) + k[1]
    raise ValueError(k)


def all_relkeys(prog):
    ks = [("dom",), ("cod",)] + [("ty", t) for t in tyrefs(prog)]
    ks += [("m", i) for i in range(len(prog["members"]))]
    ks += [("g", i) for i in range(len(prog["gpreds"]))]
    ks += [("c", i) for i in range(len(prog["consts"]))]
    return ks


def rel_cols(prog, k):
    """Column types of the flat relation."""
    k = relkey(k)
    if k[0] == "dom" or k[0] == "cod":
        return ["F", "M"]
    if k[0] == "ty":
        return [k[1]]
    if k[0] == "m":
        return ["M"] + list(prog["members"][k[1]]["cols"])
    if k[0] == "g":
        return list(prog["gpreds"][k[1]]["cols"])
    if k[0] == "c":
        return [prog["consts"][k[1]]["ty"]]
    raise ValueError(k)


def rel_name(prog, k):
    k = relkey(k)
    if k[0] == "dom":
        return snake(mor_type(prog)) + "_dom"
    if k[0] == "cod":
        return snake(mor_type(prog)) + "_cod"
    if k[0] == "ty":
        return snake(ty_name(prog, k[1]))
    if k[0] == "m":
        return prog["members"][k[1]]["name"]
    if k[0] == "g":
        return prog["gpreds"][k[1]]["name"]
    return prog["consts"][k[1]]["name"]


# ------------------------------------------------------------------------------------------ printers

def var_name(v):
    return "v" + "abcdefghijklmnopqrstuvwxyz"[v]


def rule_eql(prog, rule, sugar=False):
    """Source text of a flat rule. With sugar, a variable bound by a constant atom is inlined as `c()` wherever it is
    used in a later premise (the constant atom is dropped when at least one premise mentions it)."""
    occ = {}
    for (k, vs) in rule["prem"] + rule["concl"]:
        for v in vs:
            occ[v] = occ.get(v, 0) + 1
    inline = {}
    if sugar:
        for (k, vs) in rule["prem"]:
            k = relkey(k)
            if k[0] == "c" and vs[0] not in inline:
                used_in_prem = any(vs[0] in vs2 for (k2, vs2) in rule["prem"] if relkey(k2)[0] != "c")
                if used_in_prem:
                    inline[vs[0]] = prog["consts"][k[1]]["name"] + "()"

    def tm(v, allow_wild):
        if v in inline:
            return inline[v]
        if allow_wild and occ[v] == 1:
            return "_"
        return var_name(v)

    def atom(k, vs, prem):
        k = relkey(k)
        if k[0] == "m":
            return "%s.%s(%s)" % (tm(vs[0], False), prog["members"][k[1]]["name"], ", ".join(tm(v, prem) for v in vs[1:]))
        if k[0] == "g":
            return "%s(%s)" % (prog["gpreds"][k[1]]["name"], ", ".join(tm(v, prem) for v in vs))
        if k[0] == "c":
            if prem and occ[vs[0]] == 1:
                return "%s()!" % prog["consts"][k[1]]["name"]
            return "%s = %s()" % (var_name(vs[0]), prog["consts"][k[1]]["name"])
        if k[0] in ("dom", "cod"):
            if prem:
                return "%s = %s(%s)" % (tm(vs[1], False), k[0], tm(vs[0], False))
            return "%s(%s) = %s" % (k[0], tm(vs[0], False), tm(vs[1], False))
        if k[0] == "ty":
            return "%s: %s" % (var_name(vs[0]), ty_src(prog, k[1]))
        raise ValueError(k)

    lines = ["rule %s {" % rule["name"]]
    for (k, vs) in rule["prem"]:
        if relkey(k)[0] == "c" and vs[0] in inline:
            continue
        lines.append("    if %s;" % atom(k, vs, True))
    for (k, vs) in rule["concl"]:
        lines.append("    then %s;" % atom(k, vs, False))
    lines.append("}")
    return "\n".join(lines)


def prog_eql(prog):
    L = []
    for c in prog["carriers"]:
        L.append("type %s;" % c)
    L.append("model %s {" % prog["model"])
    for m in prog["members"]:
        L.append("    pred %s(%s);" % (m["name"], ", ".join("x%s: %s" % ("abcd"[j], prog["carriers"][c]) for j, c in enumerate(m["cols"]))))
    L.append("}")
    for g in prog["gpreds"]:
        L.append("pred %s(%s);" % (g["name"], ", ".join(ty_src(prog, t) for t in g["cols"])))
    for c in prog["consts"]:
        L.append("func %s() -> %s;" % (c["name"], ty_src(prog, c["ty"])))
    for r in prog["rules"]:
        L.append(rule_eql(prog, r, sugar=r.get("sugar", False)))
    return "\n".join(L) + "\n"


def atom_coq(prog, a):
    k, vs = a
    return "(%d%%N, %s)" % (rel_id(prog, k), coq_list(vs, lambda v: "%d%%N" % v))


def prog_coq(prog):
    members = [rel_id(prog, ("m", i)) for i in range(len(prog["members"]))]
    funcs = [REL_DOM, REL_COD] + [rel_id(prog, ("c", i)) for i in range(len(prog["consts"]))]
    rules = ["{| r_prem := %s; r_concl := %s |}" % (coq_list([atom_coq(prog, a) for a in r["prem"]]),
                                                     coq_list([atom_coq(prog, a) for a in r["concl"]])) for r in prog["rules"]]
    return "{| mp_members := %s; mp_funcs := %s; mp_rules := %s |}" % (
        coq_list(members, lambda x: "%d%%N" % x), coq_list(funcs, lambda x: "%d%%N" % x), coq_list(rules))


def fact_coq(prog, k, hs):
    return "(%d%%N, %s)" % (rel_id(prog, k), coq_list(hs, lambda v: "%d%%N" % v))


def history_flat(prog, calls):
    """-> (list of ("fact", relkey, [handles]) | ("close",), number of handles). `define` of an already defined
    constant produces nothing (it returns the existing element)."""
    out, nh, defined = [], 0, {}
    handle_ty = []
    for c in calls:
        if c[0] == "new":
            out.append(("fact", ("ty", c[1]), [nh]))
            handle_ty.append(c[1])
            nh += 1
        elif c[0] == "define":
            if c[1] not in defined:
                ty = prog["consts"][c[1]]["ty"]
                out.append(("fact", ("ty", ty), [nh]))
                out.append(("fact", ("c", c[1]), [nh]))
                defined[c[1]] = nh
                handle_ty.append(ty)
                nh += 1
        elif c[0] == "insert":
            out.append(("fact", relkey(c[1]), list(c[2])))
        elif c[0] == "close":
            out.append(("close",))
        else:
            raise ValueError(c)
    return out, handle_ty


def history_coq(prog, calls):
    flat, _ = history_flat(prog, calls)
    items = []
    for f in flat:
        if f[0] == "close":
            items.append("MClose")
        else:
            items.append("MFact %s" % fact_coq(prog, f[1], f[2]))
    return coq_list(items)


def handles_of(prog, calls):
    """handle index returned by each call (None for insert/close) and the type of every handle."""
    res, nh, defined, tys = [], 0, {}, []
    for c in calls:
        if c[0] == "new":
            res.append(nh)
            tys.append(c[1])
            nh += 1
        elif c[0] == "define":
            if c[1] not in defined:
                defined[c[1]] = nh
                tys.append(prog["consts"][c[1]]["ty"])
                nh += 1
            res.append(defined[c[1]])
        else:
            res.append(None)
    return res, tys


# ------------------------------------------------------------------------------------------ python reference (not the oracle)
# Used by the generator to keep cases inside the fragment (functional dom/cod/constants, acyclic morphisms), to count
# non-trivial cases and by the known-finding classifier. The deciding oracle is coq/Members.

def py_match(prem, lookup, sigma=None, i=0):
    if sigma is None:
        sigma = {}
    if i == len(prem):
        yield dict(sigma)
        return
    k, vs = prem[i]
    for row in lookup(i, relkey(k)):
        s2 = dict(sigma)
        ok = True
        for v, x in zip(vs, row):
            if v in s2:
                if s2[v] != x:
                    ok = False
                    break
            else:
                s2[v] = x
        if ok:
            yield from py_match(prem, lookup, s2, i + 1)


def py_spec_close(prog, facts):
    """Least fixed point of the rules and of inheritance. facts: set of (relkey, tuple). -> set"""
    S = set(facts)
    members = [("m", i) for i in range(len(prog["members"]))]
    while True:
        new = set()
        by_rel = {}
        for (k, row) in S:
            by_rel.setdefault(k, []).append(row)
        doms = by_rel.get(("dom",), [])
        cods = by_rel.get(("cod",), [])
        edges = [(d, c) for (f, d) in doms for (f2, c) in cods if f == f2]
        for k in members:
            for row in by_rel.get(k, []):
                for (d, c) in edges:
                    if row[0] == d:
                        new.add((k, (c,) + tuple(row[1:])))
        for r in prog["rules"]:
            for s in py_match(r["prem"], lambda i, k: by_rel.get(k, [])):
                for (k, vs) in r["concl"]:
                    new.add((relkey(k), tuple(s[v] for v in vs)))
        if new <= S:
            return S
        S |= new


def py_functional(prog, S):
    seen = {}
    for (k, row) in S:
        if k[0] in ("dom", "cod", "c"):
            key = (k, row[:-1])
            if key in seen and seen[key] != row[-1]:
                return False
            seen[key] = row[-1]
    return True


def py_acyclic(S):
    doms = {f: d for (k, (f, d)) in [(k, r) for (k, r) in S if k == ("dom",)]}
    cods = {f: c for (k, (f, c)) in [(k, r) for (k, r) in S if k == ("cod",)]}
    edges = [(doms[f], cods[f]) for f in doms if f in cods]
    nodes = set(x for e in edges for x in e)
    indeg = {n: 0 for n in nodes}
    for (_, c) in edges:
        indeg[c] += 1
    q = [n for n in nodes if indeg[n] == 0]
    seen = 0
    while q:
        n = q.pop()
        seen += 1
        for (d, c) in edges:
            if d == n:
                indeg[c] -= 1
                if indeg[c] == 0:
                    q.append(c)
    return seen == len(nodes)


def py_facts(prog, calls):
    flat, _ = history_flat(prog, calls)
    return set((f[1], tuple(f[2])) for f in flat if f[0] == "fact")


def in_fragment(prog, calls):
    """The history stays inside the fragment: the closed structure is functional (no equality is ever forced) and
    the morphism graph of the closed structure is acyclic."""
    S = py_spec_close(prog, py_facts(prog, calls))
    return py_functional(prog, S) and py_acyclic(S), S


# ------------------------------------------------------------------------------------------ known-finding classifier

def late_transport(prog, calls):
    """Syntactic test on (program, history) for the known finding `inherit-after-close`:
    a `close` lies strictly between the assertion of a member fact at model m and the creation of a morphism f
    (the later of its dom / cod tuples) with m ->* dom(f).  A dom / cod tuple that is derived by a rule is created
    *inside* a close, after the iteration that presented the facts asserted before that close: its creation time is
    that close itself.  A member fact derived by a rule counts as asserted at the close that derives it (at every close,
    for every model: conservative).  Returns a description of one witness or None."""
    flat, _ = history_flat(prog, calls)
    S = py_spec_close(prog, set((f[1], tuple(f[2])) for f in flat if f[0] == "fact"))
    doms = {r[0]: r[1] for (k, r) in S if k == ("dom",)}
    cods = {r[0]: r[1] for (k, r) in S if k == ("cod",)}
    mors = [f for f in doms if f in cods]
    # time of creation of each morphism: index (in flat) of the later of its asserted dom/cod tuples; a rule-derived
    # tuple exists from the first close after which its premises are available: we take the first close at which the
    # python chase of the prefix contains it.
    closes = [i for i, f in enumerate(flat) if f[0] == "close"]

    def first_time(fact):
        for i, f in enumerate(flat):
            if f[0] == "fact" and (f[1], tuple(f[2])) == fact:
                return i, False
        for ci in closes:
            pre = set((f[1], tuple(f[2])) for f in flat[:ci] if f[0] == "fact")
            if fact in py_spec_close(prog, pre):
                return ci, True
        return None, True

    reach = {}
    models = set(r[0] for (k, r) in S if k == ("ty", "M"))
    for m in models:
        seen, todo = {m}, [m]
        while todo:
            x = todo.pop()
            for f in mors:
                if doms[f] == x and cods[f] not in seen:
                    seen.add(cods[f])
                    todo.append(cods[f])
        reach[m] = seen
    member_concl = any(relkey(k)[0] == "m" for r in prog["rules"] for (k, _) in r["concl"])
    for f in mors:
        td, dd = first_time((("dom",), (f, doms[f])))
        tc, dc = first_time((("cod",), (f, cods[f])))
        if td is None or tc is None:
            continue
        (tm, derived) = max((td, dd), (tc, dc))
        # facts asserted by the history
        for i, c in enumerate(flat):
            if c[0] != "fact" or c[1][0] != "m":
                continue
            m = c[2][0]
            if doms[f] not in reach.get(m, {m}):
                continue
            between = [ci for ci in closes if i < ci and (ci < tm or (derived and ci <= tm))]
            if between:
                return {"fact": [list(c[1]), list(c[2])], "fact_at": i, "morphism": f, "dom": doms[f], "cod": cods[f],
                        "morphism_complete_at": tm, "rule_derived": derived, "close_at": between[0]}
        if member_concl:
            between = [ci for ci in closes if ci < tm]
            if between:
                return {"fact": "derived by a rule at a close", "morphism": f, "dom": doms[f], "cod": cods[f],
                        "morphism_complete_at": tm, "rule_derived": derived, "close_at": between[0]}
    return None


# ------------------------------------------------------------------------------------------ program generator

MEMBER_NAMES = ["pa", "pb", "pc"]
GPRED_NAMES = ["qa", "qb", "qc", "qd"]
CONST_M = ["ca", "cb", "cc", "cd"]
CONST_F = ["fa", "fb", "fc"]
RULE_NAMES = ["ra", "rb", "rc", "rd", "re", "rf", "rg", "rh", "ri", "rj", "rk", "rl", "rm", "rn"]


class Gen:
    def __init__(self, rng):
        self.rng = rng

    def program(self):
        rng = self.rng
        ncar = 1 + rng.below(2)
        prog = {"carriers": ["Ta", "Tb"][:ncar], "model": "Mm", "members": [], "gpreds": [], "consts": [], "rules": [],
                "cmors": []}
        for i in range(1 + rng.below(2)):
            # member predicates have 0..3 columns of non-member types (two or more columns used to make the compiler
            # emit `mapped(None\nNone)`, repaired in /repo 9ee0d26; corpus/C17/seed-two-columns.json pins it)
            ar = rng.choice([0, 1, 1, 1, 2, 2, 3])
            prog["members"].append({"name": MEMBER_NAMES[i], "cols": [rng.below(ncar) for _ in range(ar)]})
        for i in range(1 + rng.below(3)):
            # global predicates often mention the model type, so that rule conclusions can tell the models apart
            ar = rng.choice([1, 1, 2])
            cols = [rng.choice(list(range(ncar)) * 2 + ["M", "M"]) for _ in range(ar)]
            if i == 0 and "M" not in cols and rng.chance(2, 3):
                cols = ["M"] + cols[:1]
            prog["gpreds"].append({"name": GPRED_NAMES[i], "cols": cols})
        nm = rng.choice([0, 2, 2, 3])
        for i in range(nm):
            prog["consts"].append({"name": CONST_M[i], "ty": "M"})
        # constant morphisms whose dom / cod are derived by rules from the constants (the subset_rules.eql style)
        rn = 0
        if nm >= 2 and rng.chance(1, 2):
            nf = 1 + rng.below(2)
            for j in range(nf):
                a = rng.below(nm - 1)
                b = a + 1 + rng.below(nm - 1 - a)
                fi = len(prog["consts"])
                prog["consts"].append({"name": CONST_F[j], "ty": "F"})
                prog["cmors"].append([fi, a, b])
                for (kind, end) in (("dom", a), ("cod", b)):
                    prog["rules"].append({"name": RULE_NAMES[rn], "prem": [[["c", fi], [0]], [["c", end], [1]]],
                                          "concl": [[[kind], [0, 1]]], "vty": {"0": "F", "1": "M"}})
                    rn += 1
        want, got = 1 + rng.below(3), 0
        for _ in range(40):
            if got >= want:
                break
            r = self.rule(prog, RULE_NAMES[rn])
            if r is not None:
                prog["rules"].append(r)
                rn += 1
                got += 1
        return prog

    def rule(self, prog, name):
        """A flat rule: 1..3 premise atoms over member / global predicates / constants / dom / cod / type atoms, one
        conclusion atom (global or member predicate) over premise variables. Most rules read a member predicate."""
        rng = self.rng
        vty = {}           # var -> tyref
        prem = []

        def var_of(t, fresh_bias=2):
            cands = [v for v, tt in vty.items() if tt == t]
            if cands and not rng.chance(1, fresh_bias + 1):
                return rng.choice(cands)
            v = len(vty)
            vty[v] = t
            return v

        mconsts = [i for i, c in enumerate(prog["consts"]) if c["ty"] == "M"]
        natoms = 1 + rng.below(3)
        kinds = ["m"] + [rng.choice(["m", "m", "g", "g", "domcod", "ty"]) for _ in range(natoms - 1)]
        for kd in rng.shuffle(kinds):
            if kd == "m":
                i = rng.below(len(prog["members"]))
                vs = [var_of("M", 1)] + [var_of(t) for t in prog["members"][i]["cols"]]
                prem.append([["m", i], vs])
            elif kd == "g":
                i = rng.below(len(prog["gpreds"]))
                prem.append([["g", i], [var_of(t) for t in prog["gpreds"][i]["cols"]]])
            elif kd == "domcod":
                f = var_of("F")
                prem.append([[rng.choice(["dom", "cod"])], [f, var_of("M", 1)]])
            else:
                t = rng.choice(tyrefs(prog)[:-1])
                prem.append([["ty", t], [var_of(t, 1)]])
        # model-typed variables must have a determined type: bind by a constant or by an explicit type atom
        # (`v = dom(f)` determines the type of v only when the type of f is determined: morphism variables first)
        bound = set()
        for (k, vs) in prem:
            k = relkey(k)
            if k[0] in ("g", "ty", "c"):
                bound.update(vs)
        extra = []
        for v, t in list(vty.items()):
            if t == "F" and v not in bound:
                extra.append([["ty", "F"], [v]])
                bound.add(v)
        for (k, vs) in prem:
            if relkey(k)[0] in ("dom", "cod"):
                bound.update(vs)
        for v, t in list(vty.items()):
            if t == "M" and v not in bound:
                if mconsts and rng.chance(1, 2):
                    extra.append([["c", rng.choice(mconsts)], [v]])
                else:
                    extra.append([["ty", "M"], [v]])
                bound.add(v)
        prem = extra + prem
        # conclusion
        concl = None
        for _ in range(10):
            if rng.chance(2, 5):
                i = rng.below(len(prog["members"]))
                cols = ["M"] + list(prog["members"][i]["cols"])
                key = ["m", i]
            else:
                i = rng.below(len(prog["gpreds"]))
                cols = list(prog["gpreds"][i]["cols"])
                key = ["g", i]
            vs = []
            for t in cols:
                cands = [v for v, tt in vty.items() if tt == t]
                if not cands:
                    vs = None
                    break
                vs.append(rng.choice(cands))
            if vs is not None and [key, vs] not in prem:
                # prefer conclusions that mention a model variable: they depend on WHERE a member tuple holds
                if any(vty[v] == "M" for v in vs) or rng.chance(1, 3) or concl is None:
                    concl = [key, vs]
                    if any(vty[v] == "M" for v in vs):
                        break
        if concl is None:
            return None
        # a model variable used only in the conclusion's receiver position and bound by a constant is fine; every
        # variable must occur at least twice or be printable as a wildcard (premise, non-receiver position)
        occ = {}
        for (k, vs) in prem + [concl]:
            for v in vs:
                occ[v] = occ.get(v, 0) + 1
        for (k, vs) in prem:
            k = relkey(k)
            for j, v in enumerate(vs):
                if occ[v] == 1:
                    if k[0] == "m" and j == 0:
                        return None
                    if k[0] in ("dom", "cod", "ty"):
                        return None
                    if k[0] == "c":
                        pass    # printed as `c()!`
        return {"name": name, "prem": prem, "concl": [concl], "vty": {str(v): t for v, t in vty.items()},
                "sugar": rng.chance(1, 2)}

    # ------------------------------------------------------------------------------ fact sets and histories
    def world(self, prog):
        """Model elements (constants first), a DAG of morphisms over them, carrier elements, facts.
        -> dict of abstract items; histories order them."""
        rng = self.rng
        mconsts = [i for i, c in enumerate(prog["consts"]) if c["ty"] == "M"]
        used_consts = [i for i in mconsts if rng.chance(3, 4)]
        # constants that a defined constant morphism needs should usually be there
        nplain = rng.below(3) if used_consts else 2 + rng.below(3)
        nmodels = min(4, len(used_consts) + nplain)
        nplain = nmodels - len(used_consts)
        models = [("const", i) for i in used_consts] + [("plain", j) for j in range(nplain)]
        models = rng.shuffle(models)          # position in this list = topological rank
        cmors = [cm for cm in prog.get("cmors", []) if rng.chance(3, 4)]
        # direct morphisms: edges i -> j with i < j in the model order
        edges = []
        const_pos = {m[1]: p for p, m in enumerate(models) if m[0] == "const"}
        for cm in list(cmors):
            a, b = cm[1], cm[2]
            if a in const_pos and b in const_pos and const_pos[a] > const_pos[b]:
                # keep the DAG order compatible with the rule-derived morphism: swap ranks
                pa_, pb_ = const_pos[a], const_pos[b]
                models[pa_], models[pb_] = models[pb_], models[pa_]
                const_pos[a], const_pos[b] = pb_, pa_
        nedges = rng.choice([1, 1, 2, 2, 3, 4]) if nmodels >= 2 else 0
        for _ in range(nedges):
            i = rng.below(nmodels - 1)
            j = i + 1 + rng.below(nmodels - 1 - i)
            edges.append((i, j))
        ncar = [1 + rng.below(3) for _ in prog["carriers"]]
        mfacts = []
        for _ in range(1 + rng.below(5)):
            i = rng.below(len(prog["members"]))
            # member facts sit mostly in models that have outgoing morphisms
            srcs = [e[0] for e in edges]
            m = rng.choice(srcs) if srcs and rng.chance(2, 3) else rng.below(nmodels)
            mfacts.append((i, m, [rng.below(ncar[c]) for c in prog["members"][i]["cols"]]))
        gfacts = []
        for _ in range(rng.below(4)):
            i = rng.below(len(prog["gpreds"]))
            gfacts.append((i, [rng.below(nmodels) if t == "M" else rng.below(ncar[t]) for t in prog["gpreds"][i]["cols"]]))
        return {"models": models, "cmors": cmors, "edges": edges, "ncar": ncar, "mfacts": mfacts, "gfacts": gfacts}

    def history(self, prog, w, variant):
        """Order the items of world w into a history.
        variants: early  - all morphisms (with dom and cod) first, then facts, one close
                  late   - facts, close, morphisms, close
                  split  - dom tuples before the first close, cod tuples after it (or the other way round)
                  closes - random order compatible with creation, closes at random positions
                  mid    - morphisms first, close, facts, close (must agree: the partial theorem's side condition)"""
        rng = self.rng
        calls = []
        # element creation items
        items = []     # (tag, payload)
        for p, m in enumerate(w["models"]):
            items.append(("model", p))
        for t, n in enumerate(w["ncar"]):
            for j in range(n):
                items.append(("car", (t, j)))
        for e, (i, j) in enumerate(w["edges"]):
            items.append(("mor", e))
            items.append(("dom", e))
            items.append(("cod", e))
        for cm in w["cmors"]:
            items.append(("cmor", cm[0]))
        for fi, f in enumerate(w["mfacts"]):
            items.append(("mfact", fi))
        for gi, g in enumerate(w["gfacts"]):
            items.append(("gfact", gi))

        def deps(it):
            tag, pl = it
            if tag in ("dom", "cod"):
                i, j = w["edges"][pl]
                return [("mor", pl), ("model", i if tag == "dom" else j)]
            if tag == "mfact":
                i, m, xs = w["mfacts"][pl]
                return [("model", m)] + [("car", (c, x)) for c, x in zip(prog["members"][i]["cols"], xs)]
            if tag == "gfact":
                i, xs = w["gfacts"][pl]
                return [("model", x) if t == "M" else ("car", (t, x)) for t, x in zip(prog["gpreds"][i]["cols"], xs)]
            return []

        is_mor = lambda it: it[0] in ("mor", "dom", "cod", "cmor")
        is_fact = lambda it: it[0] in ("mfact", "gfact")
        is_el = lambda it: it[0] in ("model", "car")

        def topo(seq):
            """stable reorder so that dependencies come first"""
            out, done = [], set()

            def put(it):
                if it in done:
                    return
                for d in deps(it):
                    put(d)
                done.add(it)
                out.append(it)
            for it in seq:
                put(it)
            return out

        els = [it for it in items if is_el(it)]
        mors = [it for it in items if is_mor(it)]
        facts = [it for it in items if is_fact(it)]
        CL = ("close", None)
        if variant == "early":
            seq = topo(rng.shuffle(els) + rng.shuffle(mors) + rng.shuffle(facts)) + [CL]
        elif variant == "mid":
            seq = topo(rng.shuffle(els) + rng.shuffle(mors)) + [CL] + rng.shuffle(facts) + [CL]
        elif variant == "late":
            seq = topo(rng.shuffle(els) + rng.shuffle(facts)) + [CL] + topo(rng.shuffle(mors)) + [CL]
            seq = dedupe(seq)
        elif variant == "split":
            first = rng.choice(["dom", "cod"])
            a = [it for it in mors if it[0] in ("mor", first)]
            b = [it for it in mors if it not in a]
            seq = dedupe(topo(rng.shuffle(els) + rng.shuffle(a) + rng.shuffle(facts)) + [CL] + topo(rng.shuffle(b)) + [CL])
        else:
            base = topo(rng.shuffle(items))
            k = 1 + rng.below(3)
            cuts = sorted(rng.below(len(base) + 1) for _ in range(k))
            seq = []
            for pos, it in enumerate(base):
                while cuts and cuts[0] == pos:
                    seq.append(CL)
                    cuts.pop(0)
                seq.append(it)
            seq.append(CL)
            seq = dedupe(seq)
        # to calls
        handle = {}
        nh = 0
        defined = {}
        for it in seq:
            tag, pl = it
            if tag == "close":
                if calls and calls[-1] == ["close"]:
                    continue
                calls.append(["close"])
            elif tag == "model":
                kind, idx = w["models"][pl]
                if kind == "const":
                    calls.append(["define", idx])
                else:
                    calls.append(["new", "M"])
                handle[it] = nh
                nh += 1
            elif tag == "car":
                calls.append(["new", pl[0]])
                handle[it] = nh
                nh += 1
            elif tag == "mor":
                calls.append(["new", "F"])
                handle[it] = nh
                nh += 1
            elif tag == "cmor":
                calls.append(["define", pl])
                handle[it] = nh
                nh += 1
            elif tag in ("dom", "cod"):
                i, j = w["edges"][pl]
                calls.append(["insert", [tag], [handle[("mor", pl)], handle[("model", i if tag == "dom" else j)]]])
            elif tag == "mfact":
                i, m, xs = w["mfacts"][pl]
                calls.append(["insert", ["m", i], [handle[("model", m)]] +
                              [handle[("car", (c, x))] for c, x in zip(prog["members"][i]["cols"], xs)]])
            elif tag == "gfact":
                i, xs = w["gfacts"][pl]
                calls.append(["insert", ["g", i], [handle[("model", x)] if t == "M" else handle[("car", (t, x))]
                                                   for t, x in zip(prog["gpreds"][i]["cols"], xs)]])
        if not calls or calls[-1] != ["close"]:
            calls.append(["close"])
        return calls


def dedupe(seq):
    out, seen = [], set()
    for it in seq:
        if it[0] != "close" and it in seen:
            continue
        seen.add(it)
        out.append(it)
    return out


VARIANTS = ["early", "mid", "late", "split", "closes", "closes"]


def gen_case(seed, idx):
    """-> prog, [(variant, calls)] for a few worlds; all inside the fragment."""
    rng = Rng(seed).fork("c17-%d" % idx)
    g = Gen(rng)
    prog = g.program()
    return prog, g


def dumps_json(x):
    return json.dumps(x, sort_keys=True)
