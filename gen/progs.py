"""Generator of eqlog programs in the fragment of coq/Sem/Syntax.v, printing both the .eql text and the
Gallina `program` term, and of API histories / fact sets.

AST (python):
  sig  = {"ntypes": k, "rels": [{"name": str, "cols": [type idx..], "func": bool}]}
  rule = [("if"|"then", atom)]
  atom = ("pred", p, [term]) | ("eq", t1, t2) | ("def", t) | ("ty", x, T) | ("let", x, t)
  term = ("var", i) | ("wild", i) | ("app", f, [term])
"""
from common import coq_list

LETTERS = "abcdefghijklmnopqrstuvwxyz"


def suffix(i):
    s = ""
    i += 1
    while i > 0:
        i -= 1
        s = LETTERS[i % 26] + s
        i //= 26
    return s


def tname(i):
    return "T" + suffix(i)


def vname(i):
    return "x" + suffix(i)


# ------------------------------------------------------------------ printing

def term_eql(sig, t):
    if t[0] == "var":
        return vname(t[1])
    if t[0] == "wild":
        return "_"
    return "%s(%s)" % (rel_src_name(sig["rels"][t[1]]), ", ".join(term_eql(sig, a) for a in t[2]))


def rel_src_name(r):
    """Name of a relation in eqlog source: constructors are CamelCase (`Ka`), their API name is snake (`ka`)."""
    return r["name"][0].upper() + r["name"][1:] if r.get("ctor") else r["name"]


def atom_eql(sig, a):
    if a[0] == "pred":
        return "%s(%s)" % (sig["rels"][a[1]]["name"], ", ".join(term_eql(sig, t) for t in a[2]))
    if a[0] == "eq":
        return "%s = %s" % (term_eql(sig, a[1]), term_eql(sig, a[2]))
    if a[0] == "def":
        return "%s!" % term_eql(sig, a[1])
    if a[0] == "ty":
        return "%s: %s" % (vname(a[1]), tname(a[2]))
    if a[0] == "let":
        return "%s := %s!" % (vname(a[1]), term_eql(sig, a[2]))
    raise ValueError(a)


def stmts_eql(sig, stmts, ind, out):
    pad = "    " * ind
    for st in stmts:
        if st[0] in ("if", "then"):
            out.append("%s%s %s;" % (pad, st[0], atom_eql(sig, st[1])))
        elif st[0] == "branch":
            for bi, blk in enumerate(st[1]):
                out.append("%s%s {" % (pad, "branch" if bi == 0 else "} along"))
                stmts_eql(sig, blk, ind + 1, out)
            out.append("%s}" % pad)
        elif st[0] == "match":
            out.append("%smatch %s {" % (pad, term_eql(sig, st[1])))
            for (ctor, args, blk) in st[2]:
                out.append("%s    %s(%s) => {" % (pad, rel_src_name(sig["rels"][ctor]), ", ".join(term_eql(sig, a) for a in args)))
                stmts_eql(sig, blk, ind + 2, out)
                out.append("%s    }" % pad)
            out.append("%s}" % pad)
        else:
            raise ValueError(st)


def prog_eql(prog):
    sig = prog["sig"]
    out = []
    enums = sig.get("enums", {})
    for i in range(sig["ntypes"]):
        if i in enums:
            ctors = []
            for c in enums[i]:
                r = sig["rels"][c]
                ctors.append("%s(%s)" % (rel_src_name(r), ", ".join(tname(t) for t in r["cols"][:-1])))
            out.append("enum %s { %s }" % (tname(i), ", ".join(ctors)))
        else:
            out.append("type %s;" % tname(i))
    for r in sig["rels"]:
        if r.get("ctor"):
            continue
        if r["func"]:
            args = ", ".join(tname(c) for c in r["cols"][:-1])
            out.append("func %s(%s) -> %s;" % (r["name"], args, tname(r["cols"][-1])))
        else:
            out.append("pred %s(%s);" % (r["name"], ", ".join(tname(c) for c in r["cols"])))
    for ru in prog["rules"]:
        out.append("rule {")
        stmts_eql(sig, ru, 1, out)
        out.append("}")
    return "\n".join(out) + "\n"


def rule_paths(stmts):
    """A rule with branch/match statements denotes the set of its control-flow paths: a block sees the
    statements before the branch, statements after a branch do not see the blocks; a match case `C(xs) => b`
    is the block `if t = C(xs); b`. Returns flat if/then statement lists (those containing a then)."""
    out = []
    prefix = []
    for st in stmts:
        if st[0] in ("if", "then"):
            prefix.append(st)
        elif st[0] == "branch":
            for blk in st[1]:
                for p in rule_paths(blk):
                    out.append(prefix + p)
        elif st[0] == "match":
            for (ctor, args, blk) in st[2]:
                head = ("if", ("eq", st[1], ("app", ctor, list(args))))
                for p in rule_paths([head] + list(blk)):
                    out.append(prefix + p)
    if any(k == "then" for (k, _) in prefix):
        out.append(list(prefix))
    return out


def flat_rules(prog):
    return [p for ru in prog["rules"] for p in rule_paths(ru)]


def term_coq(t):
    if t[0] == "var":
        return "Var %d" % t[1]
    if t[0] == "wild":
        return "Wild %d" % t[1]
    return "App %d %s" % (t[1], coq_list(t[2], lambda a: "(%s)" % term_coq(a) if a[0] == "app" else term_coq(a)))


def atom_coq(a):
    def p(t):
        return "(%s)" % term_coq(t)
    if a[0] == "pred":
        return "APred %d %s" % (a[1], coq_list(a[2], term_coq))
    if a[0] == "eq":
        return "AEq %s %s" % (p(a[1]), p(a[2]))
    if a[0] == "def":
        return "ADef %s" % p(a[1])
    if a[0] == "ty":
        return "ATy %d %d" % (a[1], a[2])
    if a[0] == "let":
        return "ALet %d %s" % (a[1], p(a[2]))
    raise ValueError(a)


def prog_coq(prog):
    sig = prog["sig"]
    rels = coq_list(sig["rels"], lambda r: "{| rd_cols := %s; rd_func := %s |}" % (
        coq_list(r["cols"]), "true" if r["func"] else "false"))
    rules = coq_list(flat_rules(prog), lambda ru: coq_list(ru, lambda s: "%s (%s)" % ("If" if s[0] == "if" else "Then", atom_coq(s[1]))))
    return "{| pg_sig := {| sg_ntypes := %d; sg_rels := %s |}; pg_rules := %s |}" % (sig["ntypes"], rels, rules)


def cond_coq(c):
    if c[0] == "P":
        return "CPred %d %s" % (c[1], coq_list(c[2]))
    if c[0] == "F":
        return "CDefined %d %s" % (c[1], coq_list(c[2]))
    if c[0] == "E":
        return "CEqual %d %d %d" % (c[1], c[2], c[3])
    return "%s (%s) (%s)" % ("CAnd" if c[0] == "A" else "COr", cond_coq(c[1]), cond_coq(c[2]))


def call_coq(c):
    k = c[0]
    if k == "new":
        return "New %d" % c[1]
    if k == "insert":
        return "Insert %d %s" % (c[1], coq_list(c[2]))
    if k == "define":
        return "Define %d %s" % (c[1], coq_list(c[2]))
    if k == "equate":
        return "Equate %d %d %d" % (c[1], c[2], c[3])
    if k == "close":
        return "Close"
    if k == "close_until":
        return "CloseUntil (%s)" % cond_coq(c[1])
    if k == "dump":
        return "Dump"
    raise ValueError(c)


def structure_coq(st):
    """st = {"elems": {ty: [(el, root)]}, "rows": {rel: [tuple]}, "handles": [el]}"""
    el = coq_list(sorted(st["elems"].items()), lambda kv: "(%d, %s)" % (kv[0], coq_list(kv[1], lambda p: "(%d, %d)" % p)))
    rows = coq_list(sorted(st["rows"].items()), lambda kv: "(%d, %s)" % (kv[0], coq_list(kv[1], lambda t: coq_list(t))))
    return "{| st_elems := %s; st_rows := %s; st_handles := %s |}" % (el, rows, coq_list(st["handles"]))


# ------------------------------------------------------------------ program generator

class ProgGen:
    """Typed generator. Types are stratified: a function's result type index is >= all argument type
    indices, and element-creating conclusions (`!`) are only emitted for functions whose result type is
    strictly greater than every argument type ("level raising") or for constants, so that free models are
    finite. With allow_loops=True a small fraction of programs breaks that rule (they may diverge and are
    then skipped by the harness)."""

    def __init__(self, rng, surjective_only=False, max_rules=5, enums=False, control=False):
        self.rng = rng
        self.enums = enums        # generate enum declarations
        self.control = control    # generate branch / match statements
        self.surjective_only = surjective_only
        self.max_rules = max_rules

    def gen_sig(self):
        r = self.rng
        nt = 1 + r.below(3)
        rels = []
        npred = 1 + r.below(3)
        for i in range(npred):
            ar = r.choice([1, 1, 2, 2, 2, 3, 3, 4, 0])
            rels.append({"name": "p" + suffix(i), "cols": [r.below(nt) for _ in range(ar)], "func": False})
        nfunc = r.below(3) if not self.surjective_only else r.below(2)
        for i in range(nfunc):
            ar = r.choice([0, 1, 1, 2, 2])
            args = [r.below(nt) for _ in range(ar)]
            lo = max(args) if args else 0
            res = lo + r.below(nt - lo)
            rels.append({"name": "f" + suffix(i), "cols": args + [res], "func": True})
        enums = {}
        if self.enums and r.chance(1, 2):
            # the last type becomes an enum: its elements exist only as constructor values
            et = nt - 1
            rels = [x for x in rels if not (x["func"] and x["cols"][-1] == et)]
            ctors = []
            for i in range(1 + r.below(3)):
                ar = r.choice([0, 1, 1, 2])
                args = [r.below(nt) if (i > 0 and r.chance(1, 4)) else r.below(max(1, nt - 1)) for _ in range(ar)]
                if nt == 1:
                    args = [0 for _ in args] if i > 0 else []
                rels.append({"name": "k" + suffix(i), "cols": args + [et], "func": True, "ctor": True})
                ctors.append(len(rels) - 1)
            enums[et] = ctors
        return {"ntypes": nt, "rels": rels, "enums": enums}

    def gen_rule(self, sig):
        r = self.rng
        rels = sig["rels"]
        preds = [i for i, x in enumerate(rels) if not x["func"]]
        funcs = [i for i, x in enumerate(rels) if x["func"]]
        nvars = [0]
        vtype = {}
        wild = [0]

        def fresh(ty):
            v = nvars[0]
            nvars[0] += 1
            vtype[v] = ty
            return v

        def pick_var(ty, new_ok=True):
            cands = [v for v, t in vtype.items() if t == ty]
            if cands and (not new_ok or r.chance(2, 3)):
                return r.choice(cands)
            if not new_ok:
                return None
            return fresh(ty)

        terms_defined = []   # (term, type) known defined so far (premise terms and !-introduced terms)

        def gen_term(ty, depth, new_ok=True):
            # a term of type ty for a premise atom: variable, wildcard or application
            fs = [f for f in funcs if rels[f]["cols"][-1] == ty]
            if depth > 0 and fs and r.chance(1, 4):
                f = r.choice(fs)
                args = [gen_term(c, depth - 1, new_ok) for c in rels[f]["cols"][:-1]]
                if any(a is None for a in args):
                    return None
                t = ("app", f, args)
                terms_defined.append((t, ty))
                return t
            if new_ok and r.chance(1, 12):
                wild[0] += 1
                return ("wild", wild[0])
            v = pick_var(ty, new_ok)
            return None if v is None else ("var", v)

        # conclusions: only variables bound so far and defined terms
        def known_term(ty):
            cands = [("var", v) for v, t in vtype.items() if t == ty] + [t for (t, tt) in terms_defined if tt == ty and not has_wild(t)]
            return r.choice(cands) if cands else None

        rule = []
        # one or two stages: `if..; then..;` optionally followed by further `if..; then..;` (interleaved if/then)
        stages = [(1 + r.below(4), 1 + r.below(2))] + ([(1 + r.below(2), 1)] if r.chance(1, 3) else [])
        for (nprem, nconc) in stages:
          for _ in range(nprem):
              k = r.below(10)
              if k < 6 and preds:
                  p = r.choice(preds)
                  rule.append(("if", ("pred", p, [gen_term(c, 1) for c in rels[p]["cols"]])))
              elif k < 8 and funcs:
                  f = r.choice(funcs)
                  args = [gen_term(c, 1) for c in rels[f]["cols"][:-1]]
                  t = ("app", f, args)
                  terms_defined.append((t, rels[f]["cols"][-1]))
                  if r.chance(1, 2):
                      rule.append(("if", ("eq", ("var", pick_var(rels[f]["cols"][-1])), t)))
                  else:
                      rule.append(("if", ("def", t)))
              elif k < 9:
                  ty = r.below(sig["ntypes"])
                  rule.append(("if", ("ty", fresh(ty), ty)))
              else:
                  ty = r.below(sig["ntypes"])
                  a, b = pick_var(ty, False), pick_var(ty, False)
                  if a is not None and b is not None and a != b:
                      rule.append(("if", ("eq", ("var", a), ("var", b))))
                  else:
                      rule.append(("if", ("ty", fresh(ty), ty)))
          for _ in range(nconc):
              k = r.below(10)
              if k < 5 and preds:
                  p = r.choice(preds)
                  args = [known_term(c) for c in rels[p]["cols"]]
                  if all(a is not None for a in args):
                      rule.append(("then", ("pred", p, args)))
              elif k < 7:
                  ty = r.below(sig["ntypes"])
                  a, b = known_term(ty), known_term(ty)
                  if a is not None and b is not None and a != b:
                      rule.append(("then", ("eq", a, b)))
              elif not self.surjective_only and funcs:
                  f = r.choice(funcs)
                  cols = rels[f]["cols"]
                  raising = all(c < cols[-1] for c in cols[:-1])
                  if not raising and not r.chance(1, 15):
                      continue
                  args = [known_term(c) for c in cols[:-1]]
                  if all(a is not None for a in args):
                      t = ("app", f, args)
                      if r.chance(1, 2):
                          v = fresh(cols[-1])
                          rule.append(("then", ("let", v, t)))
                      else:
                          rule.append(("then", ("def", t)))
                      terms_defined.append((t, cols[-1]))
              elif funcs:
                  # f(args) = y with known args and known y: asserts a function value (surjective)
                  f = r.choice(funcs)
                  cols = rels[f]["cols"]
                  args = [known_term(c) for c in cols[:-1]]
                  y = known_term(cols[-1])
                  if y is not None and all(a is not None for a in args):
                      rule.append(("then", ("eq", ("app", f, args), y)))
        if not any(s[0] == "then" for s in rule):
            return None
        rule = fix_single_vars(rule)
        ks = [st[0] for st in (rule or [])]
        interleaved = "then" in ks and "if" in ks[ks.index("then"):]
        if rule is None or not self.control or interleaved:
            return rule
        return self.add_control(sig, rule, vtype, nvars)

    def add_control(self, sig, rule, vtype, nvars):
        """Turns a flat rule into one with a `branch` and/or a `match` statement (the flat rule stays valid on
        every path). vtype: types of the rule's variables."""
        r = self.rng
        rels = sig["rels"]
        ifs = [st for st in rule if st[0] == "if"]
        thens = [st for st in rule if st[0] == "then"]
        bound = set()
        for (_, a) in ifs:
            bound.update(atom_vars(a))
        out = list(ifs)
        enums = sig.get("enums", {})
        cand = [v for v in sorted(bound) if vtype.get(v) in enums]
        if cand and r.chance(2, 3):
            v = r.choice(cand)
            cases = []
            for c in enums[vtype[v]]:
                cols = rels[c]["cols"][:-1]
                args, body = [], []
                for ty in cols:
                    ps = [i for i, x in enumerate(rels) if not x["func"] and x["cols"] == [ty]]
                    if ps and r.chance(2, 3):
                        nv = nvars[0]
                        nvars[0] += 1
                        vtype[nv] = ty
                        args.append(("var", nv))
                        body.append(("then", ("pred", r.choice(ps), [("var", nv)])))
                    else:
                        args.append(("wild", 5000 + nvars[0] + len(args)))
                cases.append((c, args, body))
            out.append(("match", ("var", v), cases))
        if len(thens) >= 2 and r.chance(2, 3):
            k = 1 + r.below(len(thens) - 1)
            # `x := t!` binds x for later statements: keep such statements and their users on the main path
            if not any(t[1][0] == "let" for t in thens):
                out.append(("branch", [thens[:k], []][:1] + [[thens[k]]] if r.chance(1, 2) else [thens[:k], thens[k:]]))
                if out[-1][1][1] == [thens[k]]:
                    out.extend(thens[k + 1:])
                return out
        out.extend(thens)
        return out

    def gen(self):
        sig = self.gen_sig()
        rules = []
        for _ in range(1 + self.rng.below(self.max_rules)):
            ru = self.gen_rule(sig)
            if ru is not None:
                rules.append(ru)
        if not rules:
            return None
        return {"sig": sig, "rules": rules}


def has_wild(t):
    if t[0] == "wild":
        return True
    if t[0] == "app":
        return any(has_wild(a) for a in t[2])
    return False


def term_vars(t, acc):
    if t[0] == "var":
        acc.append(t[1])
    elif t[0] == "app":
        for a in t[2]:
            term_vars(a, acc)


def atom_vars(a):
    acc = []
    if a[0] == "pred":
        for t in a[2]:
            term_vars(t, acc)
    elif a[0] == "eq":
        term_vars(a[1], acc)
        term_vars(a[2], acc)
    elif a[0] == "def":
        term_vars(a[1], acc)
    elif a[0] == "ty":
        acc.append(a[1])
    elif a[0] == "let":
        acc.append(a[1])
        term_vars(a[2], acc)
    return acc


def fix_single_vars(rule):
    """eqlog rejects variables that occur only once: such occurrences in argument positions become
    wildcards, `x: T` atoms of otherwise unused variables are dropped, `x = f(..)` with unused x becomes
    `f(..)!`. Repeats until stable."""
    wid = [1000]
    for _ in range(6):
        count = {}
        for (_, a) in rule:
            for v in atom_vars(a):
                count[v] = count.get(v, 0) + 1

        def single(t):
            return t[0] == "var" and count.get(t[1], 0) == 1

        def fix_t(t):
            if single(t):
                wid[0] += 1
                return ("wild", wid[0])
            if t[0] == "app":
                return ("app", t[1], [fix_t(a) for a in t[2]])
            return t
        out = []
        changed = False
        for (k, a) in rule:
            b = a
            if k == "if" and a[0] == "pred":
                b = ("pred", a[1], [fix_t(t) for t in a[2]])
            elif k == "if" and a[0] == "def":
                b = ("def", fix_t(a[1]))
            elif k == "if" and a[0] == "ty" and count.get(a[1], 0) == 1:
                changed = True
                continue
            elif k == "if" and a[0] == "eq":
                if single(a[1]) and a[2][0] == "app":
                    b = ("def", fix_t(a[2]))
                elif single(a[1]) or single(a[2]):
                    changed = True
                    continue
                elif a[2][0] == "app":
                    b = ("eq", a[1], fix_t(a[2]))
            if k == "then" and a[0] == "let" and count.get(a[1], 0) == 1:
                b = ("def", a[2])
            if b != a:
                changed = True
            out.append((k, b))
        rule = out
        if not changed:
            break
    if not any(k == "if" for (k, _) in rule) or not any(k == "then" for (k, _) in rule):
        return None
    # conclusions must not mention variables that lost their binding occurrence
    bound = set()
    for (k, a) in rule:
        if k == "if" or a[0] == "let":
            bound.update(atom_vars(a))
    for (k, a) in rule:
        if k == "then" and any(v not in bound for v in atom_vars(a)):
            return None
    return rule


# ------------------------------------------------------------------ facts and histories

def gen_facts(rng, sig, size=None, rules=None):
    """A fact set over named elements: elements e0..e(n-1) with types, rows, equalities, and 'defined'
    function applications whose value is a further element created by define_."""
    nt = sig["ntypes"]
    per = size if size is not None else 2 + rng.below(3)
    elems = []   # type of element i
    facts = []   # ("row", r, [elem idx]) | ("eq", ty, a, b) | ("def", f, [elem idx], new elem idx)
    by_type = lambda t: [i for i, ty in enumerate(elems) if ty == t]
    enums = sig.get("enums", {})

    def new_elem(t, depth=0):
        """A new element of type t; elements of enum types can only be created as constructor values."""
        if t not in enums:
            elems.append(t)
            return len(elems) - 1
        ctors = enums[t]
        flat = [c for c in ctors if t not in sig["rels"][c]["cols"][:-1]]
        c = rng.choice(flat if (flat and (depth > 1 or rng.chance(2, 3))) else ctors)
        args = []
        for ty in sig["rels"][c]["cols"][:-1]:
            if by_type(ty) and (rng.chance(2, 3) or depth > 2):
                args.append(rng.choice(by_type(ty)))
            elif depth > 3:
                return None
            else:
                a = new_elem(ty, depth + 1)
                if a is None:
                    return None
                args.append(a)
        for f in facts:
            if f[0] == "def" and f[1] == c and f[2] == args:
                return f[3]
        elems.append(t)
        facts.append(("def", c, args, len(elems) - 1))
        return len(elems) - 1
    for t in range(nt):
        for _ in range(1 + rng.below(per)):
            new_elem(t)
    for ri, rel in enumerate(sig["rels"]):
        k = rng.below(5) if rel["cols"] else rng.below(2)
        for _ in range(k):
            if rel["func"] and rng.chance(1, 3):
                args = rel["cols"][:-1]
                if all(by_type(c) for c in args) and not any(f[0] == "def" and f[1] == ri for f in facts if rel.get("ctor")):
                    a = [rng.choice(by_type(c)) for c in args]
                    if not any(f[0] == "def" and f[1] == ri and f[2] == a for f in facts):
                        elems.append(rel["cols"][-1])
                        facts.append(("def", ri, a, len(elems) - 1))
                continue
            if all(by_type(c) for c in rel["cols"]):
                facts.append(("row", ri, [rng.choice(by_type(c)) for c in rel["cols"]]))
    # facts that make rule premises match: instantiate the premise of some rules with elements
    flat = [p for ru in (rules or []) for p in rule_paths(ru)]
    for ru in flat:
        # (almost) every path of every rule gets at least one matching instance of its premise
        if not rng.chance(9, 10):
            continue
        for _ in range(1 + rng.below(2)):
            instantiate_premise(rng, sig, ru, elems, facts, by_type, new_elem)
    if rng.chance(1, 3):
        for _ in range(1 + rng.below(2)):
            t = rng.below(nt)
            if len(by_type(t)) >= 2:
                a, b = rng.choice(by_type(t)), rng.choice(by_type(t))
                if a != b:
                    facts.append(("eq", t, a, b))
    return {"elems": elems, "facts": facts}


def var_types(sig, rule):
    """Types of variables from their argument positions / type atoms (best effort)."""
    vt = {}
    rels = sig["rels"]

    def visit(t, ty):
        if t[0] == "var" and ty is not None:
            vt.setdefault(t[1], ty)
        elif t[0] == "app":
            for a, c in zip(t[2], rels[t[1]]["cols"][:-1]):
                visit(a, c)

    def ttype(t):
        if t[0] == "app":
            return rels[t[1]]["cols"][-1]
        if t[0] == "var":
            return vt.get(t[1])
        return None
    for _ in range(2):
        for (_, a) in rule:
            if a[0] == "pred":
                for t, c in zip(a[2], rels[a[1]]["cols"]):
                    visit(t, c)
            elif a[0] == "eq":
                ty = ttype(a[1]) if ttype(a[1]) is not None else ttype(a[2])
                visit(a[1], ty)
                visit(a[2], ty)
            elif a[0] == "def":
                visit(a[1], None)
            elif a[0] == "ty":
                vt.setdefault(a[1], a[2])
            elif a[0] == "let":
                vt.setdefault(a[1], ttype(a[2]))
                visit(a[2], None)
    return vt


def instantiate_premise(rng, sig, rule, elems, facts, by_type, new_elem):
    rels = sig["rels"]
    vt = var_types(sig, rule)
    asg = {}

    def pick(ty):
        cands = by_type(ty)
        if cands and rng.chance(3, 4):
            return rng.choice(cands)
        e = new_elem(ty)
        if e is None:
            return rng.choice(cands) if cands else new_elem(ty, 3) or 0
        return e

    def value(t, ty):
        """element denoting term t (creating facts that define nested applications)"""
        if t[0] == "var":
            if t[1] not in asg:
                asg[t[1]] = pick(vt.get(t[1], ty if ty is not None else 0))
            return asg[t[1]]
        if t[0] == "wild":
            return pick(ty if ty is not None else 0)
        cols = rels[t[1]]["cols"]
        args = [value(a, c) for a, c in zip(t[2], cols[:-1])]
        for f in facts:
            if f[0] == "row" and f[1] == t[1] and f[2][:-1] == args:
                return f[2][-1]
            if f[0] == "def" and f[1] == t[1] and f[2] == args:
                return f[3]
        res = pick(cols[-1])
        facts.append(("row", t[1], args + [res]))
        return res
    for (k, a) in rule:
        if k != "if":
            continue
        if a[0] == "pred":
            row = [value(t, c) for t, c in zip(a[2], rels[a[1]]["cols"])]
            facts.append(("row", a[1], row))
            # near-diagonal rows: when a variable is repeated in the atom, also assert rows that agree with the matching row
            # except at one of the repeated positions (they are off the diagonal but share projections with it)
            vs = [t[1] if t[0] == "var" else None for t in a[2]]
            rep = [i for i, v in enumerate(vs) if v is not None and vs.count(v) >= 2]
            if rep and rng.chance(2, 3):
                for _ in range(1 + rng.below(2)):
                    i = rng.choice(rep)
                    other = [e for e in by_type(rels[a[1]]["cols"][i]) if e != row[i]]
                    if other:
                        r2 = list(row)
                        r2[i] = rng.choice(other)
                        facts.append(("row", a[1], r2))
        elif a[0] == "eq":
            if a[2][0] == "app" and a[1][0] == "var" and a[1][1] not in asg:
                asg[a[1][1]] = value(a[2], None)
            else:
                x, y = value(a[1], None), value(a[2], vt.get(a[1][1]) if a[1][0] == "var" else None)
                if x != y and elems[x] == elems[y]:
                    facts.append(("eq", elems[x], x, y))
        elif a[0] == "def":
            value(a[1], None)
        elif a[0] == "ty":
            value(("var", a[1]), a[2])


def history_from_facts(rng, fs, variant):
    """Returns (calls, handle_of_elem). variant: "canon" = creation order, facts in order, one close;
    "perm" = shuffled; "closes" = shuffled with intermediate closes; "dups" = with re-assertions."""
    elems, facts = fs["elems"], fs["facts"]
    calls = []
    handle = {}
    nh = [0]
    defined_by = {f[3]: f for f in facts if f[0] == "def"}

    def ensure(e):
        if e in handle:
            return
        if e in defined_by:
            f = defined_by[e]
            for a in f[2]:
                ensure(a)
            calls.append(("define", f[1], [handle[a] for a in f[2]]))
        else:
            calls.append(("new", elems[e]))
        handle[e] = nh[0]
        nh[0] += 1
    order = list(range(len(elems)))
    flist = [f for f in facts if f[0] != "def"]
    if variant != "canon":
        order = rng.shuffle(order)
        flist = rng.shuffle(flist)
    if variant == "canon" or rng.chance(1, 2):
        for e in order:
            ensure(e)
    for f in flist:
        es = f[2] if f[0] == "row" else [f[2], f[3]]
        for e in es:
            ensure(e)
        if f[0] == "row":
            calls.append(("insert", f[1], [handle[e] for e in f[2]]))
        else:
            calls.append(("equate", f[1], handle[f[2]], handle[f[3]]))
        if variant == "closes" and rng.chance(1, 3):
            calls.append(("close",))
        if variant == "dups" and rng.chance(1, 3):
            calls.append(calls[-1])
    for e in order:
        ensure(e)
    if variant == "dups":
        for f in flist:
            if rng.chance(1, 3):
                if f[0] == "row":
                    calls.append(("insert", f[1], [handle[e] for e in f[2]]))
                else:
                    calls.append(("equate", f[1], handle[f[3]], handle[f[2]]))
    calls.append(("close",))
    calls.append(("dump",))
    return calls, [handle[e] for e in range(len(elems))]


def wide_program(rng):
    """Programs that stress arities up to 9 and many rules (C09's range)."""
    nt = 1 + rng.below(3)
    rels = []
    ars = rng.shuffle([5, 6, 7, 8, 9]) + [3, 2]          # distinct high arities first, so that every arity 5-9 is hit often
    for i in range(2 + rng.below(3)):
        ar = ars[i]
        rels.append({"name": "p" + suffix(i), "cols": [rng.below(nt) for _ in range(ar)], "func": False})
    f_ar = rng.choice([4, 6, 8])
    args = [rng.below(nt) for _ in range(f_ar)]
    rels.append({"name": "fa", "cols": args + [rng.below(nt)], "func": True})
    sig = {"ntypes": nt, "rels": rels, "enums": {}}
    rules = []
    for _ in range(1 + rng.below(3)):
        vt = {}

        def var(ty):
            cands = [v for v, t in vt.items() if t == ty]
            if cands and rng.chance(2, 3):
                return ("var", rng.choice(cands))
            v = len(vt)
            vt[v] = ty
            return ("var", v)
        ru = []
        for _ in range(1 + rng.below(3)):
            p = rng.below(len(rels) - 1)
            ru.append(("if", ("pred", p, [var(c) for c in rels[p]["cols"]])))
        q = rng.below(len(rels) - 1)

        def known(ty):
            cands = [v for v, t in vt.items() if t == ty]
            return ("var", rng.choice(cands)) if cands else None
        a = [known(c) for c in rels[q]["cols"]]
        if all(x is not None for x in a):
            ru.append(("then", ("pred", q, a)))
        else:
            continue
        ru = fix_single_vars(ru)
        if ru:
            rules.append(ru)
    # a rule that permutes two same-typed columns of a wide relation: its closure re-derives rows that already exist
    for p in range(len(rels) - 1):
        cols = rels[p]["cols"]
        same = [(i, j) for i in range(len(cols)) for j in range(i + 1, len(cols)) if cols[i] == cols[j]]
        if same and rng.chance(1, 2):
            i, j = rng.choice(same)
            vs = [("var", k) for k in range(len(cols))]
            sw = list(vs)
            sw[i], sw[j] = sw[j], sw[i]
            rules.append([("if", ("pred", p, vs)), ("then", ("pred", p, sw))])
    if not rules:
        return None
    return {"sig": sig, "rules": rules}




def thenless_rule(rng, sig):
    """A rule without any `then` statement (accepted by eqlog; its rule module has no routines)."""
    preds = [i for i, r in enumerate(sig["rels"]) if not r["func"] and r["cols"]]
    if not preds:
        return None
    p = rng.choice(preds)
    vs = [("var", k) for k in range(len(sig["rels"][p]["cols"]))]
    return [("if", ("pred", p, vs)), ("if", ("pred", p, vs))]
