"""Typed generator, parser and single-defect mutators for the C10 fragment of eqlog
(type / pred / func / enum declarations; rules with if/then statements, nested terms, `branch`, `match`;
no `model`, no member syntax, no morphisms).

Every program exists in three forms: the python AST below, the .eql text (print_program, which also
records the source line of every node) and the Gallina `prog` term of coq/Static/Model.v (gallina).

AST
  Term:  k = "var" | "wild" | "app";  name; args; line
  atom:  ("eq", a, b) | ("def", t) | ("pred", p, [t]) | ("type", t, Ty)          in `if`
         ("eq", a, b) | ("def", x | None, t) | ("pred", p, [t])                  in `then`
  Stmt:  k = "if" | "then" | "branch" | "match"; atom / blocks / (term, cases); line
         cases = [Case(pat, body)], the case's line is the line of its pattern
  Decl:  k = "type" | "pred" | "func" | "enum" | "rule"; name; args (type names); res; ctors; body; line
         ctors = [Ctor(name, args)], one source line each

Casing rules of the compiler (eqlog/src/semantics/mod.rs, iter_symbol_casing_errors and
iter_variable_not_snake_case_errors, crate convert_case 0.12 with its default word boundaries):
  * type, enum, constructor (and model) names must satisfy  name == name.to_case(UpperCamel),
  * predicate, function, rule names and variables must satisfy  name == name.to_case(Snake).
  Words are split at `_`, `-`, blanks, lower|Upper, letter|digit, digit|letter and at the acronym boundary
  (`ABc` -> `A|Bc`).  Hence `r1` is rejected (snake form `r_1`), `b_0` is accepted, `TyAB` is rejected
  (camel form `TyAb`).  The generator only produces names of the shapes
      Ty<lower>* En<lower>* C<lower>*      (UpperCamel: one capital followed by lower-case letters)
      p<lower>* fu<lower>* r<lower>* v<lower>*      (snake: lower-case letters only)
  which are fixed points of both conversions, avoid the grammar's keywords (type pred func enum rule model
  if then branch along match dom cod Mor) and Rust keywords (no generated name is a Rust keyword: none of
  the prefixes p, fu, r, v followed by letters from the suffix alphabet yields one, checked by
  `assert_names_ok`).  Casing defects are therefore excluded from the fragment by construction; the
  identifiers of the Gallina term are numbers.
"""
import copy
import re

LETTERS = "abcdeghijklmnopqstuvwxyz"   # without f and r: keeps generated names away from keywords

GRAMMAR_KEYWORDS = {"type", "pred", "func", "enum", "rule", "model", "if", "then", "branch", "along",
                    "match", "dom", "cod", "Mor"}
RUST_KEYWORDS = {"as", "break", "const", "continue", "crate", "else", "enum", "extern", "false", "fn", "for",
                 "if", "impl", "in", "let", "loop", "match", "mod", "move", "mut", "pub", "ref", "return",
                 "self", "Self", "static", "struct", "super", "trait", "true", "type", "unsafe", "use",
                 "where", "while", "async", "await", "dyn", "abstract", "become", "box", "do", "final",
                 "macro", "override", "priv", "typeof", "unsized", "virtual", "yield", "try"}

CLASSES = {
    1: "SymbolDeclaredTwice", 2: "UndeclaredSymbol", 3: "BadSymbolKind", 4: "PredArgNumber",
    5: "FuncArgNumber", 6: "ConflictingTermType", 7: "UndeterminedTermType", 8: "VarIntroducedInThen",
    9: "WildcardInThen", 10: "VariableOccursOnlyOnce", 11: "ThenDefinedNotVar", 12: "ThenDefinedVarNotNew",
    13: "SurjectivityViolation", 14: "EnumCtorsNotSurjective", 15: "MatchPatternIsVariable",
    16: "MatchPatternIsWildcard", 17: "MatchPatternCtorArgIsApp", 18: "MatchPatternArgVarIsNotFresh",
    19: "MatchConflictingEnum", 20: "MatchNotExhaustive",
}
CODE = {v: k for k, v in CLASSES.items()}

# first line of a compiler message -> class code (eqlog/src/error.rs, impl Display)
MESSAGE_CLASS = [
    (r"^Error: symbol declared multiple times$", 1),
    (r'^Error: undeclared symbol ".*"$', 2),
    (r'^Error: expected (type|predicate|function|rule|enum|constructor|model), found .* ".*"$', 3),
    (r"^Error: predicate takes \d+ arguments but \d+ were supplied$", 4),
    (r"^Error: function takes \d+ arguments but \d+ were supplied$", 5),
    (r"^Error: term has conflicting types:$", 6),
    (r"^Error: type of term undetermined$", 7),
    (r"^Error: variable introduced in then statement$", 8),
    (r"^Error: wildcards must not appear in then statements$", 9),
    (r'^Error: variable ".*" occurs only once$', 10),
    (r"^Error: expected a variable$", 11),
    (r"^Error: variable has already been introduced earlier$", 12),
    (r"^Error: term does not appear earlier in this rule$", 13),
    (r'^Error: term of enum type ".*" is not introduced with constructor $', 14),
    (r"^Error: Pattern is a variable$", 15),
    (r"^Error: Pattern is a wildcard$", 16),
    (r"^Error: Nested patterns are not supported yet$", 17),
    (r"^Error: Variable in pattern has been used before$", 18),
    (r"^Error: Conflicting pattern types$", 19),
    (r"^Error: Missing match case:$", 20),
]


def message_class(first_line):
    for pat, code in MESSAGE_CLASS:
        if re.match(pat, first_line):
            return code
    return None


def suffix(i):
    s = ""
    i += 1
    n = len(LETTERS)
    while i > 0:
        i -= 1
        s = LETTERS[i % n] + s
        i //= n
    return s


def assert_names_ok(names):
    for n in names:
        assert n not in GRAMMAR_KEYWORDS and n not in RUST_KEYWORDS, n
        assert re.fullmatch(r"[A-Z][a-z]*|[a-z]+", n), n


# ---------------------------------------------------------------------------------------------- AST

class Term:
    __slots__ = ("k", "name", "args", "line", "ty")

    def __init__(self, k, name=None, args=None, line=0, ty=None):
        self.k, self.name, self.args, self.line, self.ty = k, name, (args if args is not None else []), line, ty

    def __repr__(self):
        return show_term(self)


def V(x, ty=None):
    return Term("var", x, ty=ty)


def W(ty=None):
    return Term("wild", ty=ty)


def A(f, args, ty=None):
    return Term("app", f, list(args), ty=ty)


class Stmt:
    __slots__ = ("k", "atom", "blocks", "term", "cases", "line")

    def __init__(self, k, atom=None, blocks=None, term=None, cases=None, line=0):
        self.k, self.atom, self.blocks, self.term, self.cases, self.line = k, atom, blocks, term, cases, line


class Case:
    __slots__ = ("pat", "body")

    def __init__(self, pat, body):
        self.pat, self.body = pat, body


class Ctor:
    __slots__ = ("name", "args", "line")

    def __init__(self, name, args, line=0):
        self.name, self.args, self.line = name, list(args), line


class Decl:
    __slots__ = ("k", "name", "args", "res", "ctors", "body", "line")

    def __init__(self, k, name=None, args=None, res=None, ctors=None, body=None, line=0):
        self.k, self.name, self.args, self.res, self.ctors, self.body, self.line = \
            k, name, (list(args) if args is not None else []), res, ctors, body, line


def show_term(t):
    if t.k == "var":
        return t.name
    if t.k == "wild":
        return "_"
    return "%s(%s)" % (t.name, ", ".join(show_term(a) for a in t.args))


def show_atom(kw, a):
    k = a[0]
    if k == "eq":
        return "%s = %s" % (show_term(a[1]), show_term(a[2]))
    if k == "pred":
        return "%s(%s)" % (a[1], ", ".join(show_term(t) for t in a[2]))
    if k == "type":
        return "%s: %s" % (show_term(a[1]), a[2])
    if k == "def":
        if kw == "if":
            return "%s!" % show_term(a[1])
        if a[1] is None:
            return "%s!" % show_term(a[2])
        return "%s := %s!" % (show_term(a[1]), show_term(a[2]))
    raise ValueError(k)


def atom_terms(kw, a):
    k = a[0]
    if k == "eq":
        return [a[1], a[2]]
    if k == "pred":
        return list(a[2])
    if k == "type":
        return [a[1]]
    if kw == "if":
        return [a[1]]
    return ([a[1]] if a[1] is not None else []) + [a[2]]


def subterms(t):
    yield t
    for a in t.args:
        for s in subterms(a):
            yield s


def term_vars(t):
    return [s.name for s in subterms(t) if s.k == "var"]


def walk_stmts(body):
    """All statements of a block, nested ones included, with their enclosing block list."""
    for s in body:
        yield s, body
        if s.k == "branch":
            for b in s.blocks:
                for x in walk_stmts(b):
                    yield x
        elif s.k == "match":
            for c in s.cases:
                for x in walk_stmts(c.body):
                    yield x


# ---------------------------------------------------------------------------------------------- printing

class Printer:
    def __init__(self):
        self.lines = []

    def emit(self, ind, text):
        self.lines.append("    " * ind + text)
        return len(self.lines)

    def term_lines(self, t, ln):
        for s in subterms(t):
            s.line = ln

    def block(self, body, ind):
        for s in body:
            if s.k in ("if", "then"):
                s.line = self.emit(ind, "%s %s;" % (s.k, show_atom(s.k, s.atom)))
                for t in atom_terms(s.k, s.atom):
                    self.term_lines(t, s.line)
            elif s.k == "branch":
                s.line = self.emit(ind, "branch {")
                for i, b in enumerate(s.blocks):
                    if i > 0:
                        self.emit(ind, "} along {")
                    self.block(b, ind + 1)
                self.emit(ind, "}")
            elif s.k == "match":
                s.line = self.emit(ind, "match %s {" % show_term(s.term))
                self.term_lines(s.term, s.line)
                for c in s.cases:
                    if c.body:
                        ln = self.emit(ind + 1, "%s => {" % show_term(c.pat))
                        self.term_lines(c.pat, ln)
                        self.block(c.body, ind + 2)
                        self.emit(ind + 1, "}")
                    else:
                        ln = self.emit(ind + 1, "%s => {}" % show_term(c.pat))
                        self.term_lines(c.pat, ln)
                self.emit(ind, "}")
            else:
                raise ValueError(s.k)

    def decl(self, d):
        if d.k == "type":
            d.line = self.emit(0, "type %s;" % d.name)
        elif d.k == "pred":
            d.line = self.emit(0, "pred %s(%s);" % (d.name, ", ".join(d.args)))
        elif d.k == "func":
            d.line = self.emit(0, "func %s(%s) -> %s;" % (d.name, ", ".join(d.args), d.res))
        elif d.k == "enum":
            if not d.ctors:
                d.line = self.emit(0, "enum %s {}" % d.name)
            else:
                d.line = self.emit(0, "enum %s {" % d.name)
                for i, c in enumerate(d.ctors):
                    c.line = self.emit(1, "%s(%s)%s" % (c.name, ", ".join(c.args), "," if i + 1 < len(d.ctors) else ""))
                self.emit(0, "}")
        elif d.k == "rule":
            d.line = self.emit(0, "rule %s{" % (d.name + " " if d.name else ""))
            self.block(d.body, 1)
            self.emit(0, "}")
        else:
            raise ValueError(d.k)


def print_program(prog):
    """Returns the .eql text and sets .line on every node."""
    p = Printer()
    for d in prog:
        p.decl(d)
    return "\n".join(p.lines) + "\n"


# ---------------------------------------------------------------------------------------------- Gallina

class Names:
    def __init__(self):
        self.ids = {}

    def id(self, s):
        if s not in self.ids:
            self.ids[s] = len(self.ids) + 1
        return self.ids[s]


def g_list(xs):
    return "[" + "; ".join(xs) + "]"


def g_term(t, nm):
    if t.k == "var":
        return "Var %d %d" % (t.line, nm.id(t.name))
    if t.k == "wild":
        return "Wild %d" % t.line
    return "App %d %d %s" % (t.line, nm.id(t.name), g_list(g_term(a, nm) for a in t.args))


def g_pterm(t, nm):
    return "(" + g_term(t, nm) + ")"


def g_atom(kw, a, nm):
    k = a[0]
    pre = "I" if kw == "if" else "T"
    if k == "eq":
        return "%sEq %s %s" % (pre, g_pterm(a[1], nm), g_pterm(a[2], nm))
    if k == "pred":
        return "%sPred %d %s" % (pre, nm.id(a[1]), g_list(g_term(t, nm) for t in a[2]))
    if k == "type":
        return "IType %s %d" % (g_pterm(a[1], nm), nm.id(a[2]))
    if kw == "if":
        return "IDef %s" % g_pterm(a[1], nm)
    if a[1] is None:
        return "TDef None %s" % g_pterm(a[2], nm)
    return "TDef (Some %s) %s" % (g_pterm(a[1], nm), g_pterm(a[2], nm))


def g_block(body, nm):
    return "(blk %s)" % g_list(g_stmt(s, nm) for s in body)


def g_stmt(s, nm):
    if s.k == "if":
        return "SIf %d (%s)" % (s.line, g_atom("if", s.atom, nm))
    if s.k == "then":
        return "SThen %d (%s)" % (s.line, g_atom("then", s.atom, nm))
    if s.k == "branch":
        return "SBranch %d (blks %s)" % (s.line, g_list(g_block(b, nm) for b in s.blocks))
    return "SMatch %d %s (css %s)" % (s.line, g_pterm(s.term, nm),
                                      g_list("(%s, %s)" % (g_term(c.pat, nm), g_block(c.body, nm)) for c in s.cases))


def g_names(xs, nm):
    return g_list(str(nm.id(x)) for x in xs)


def g_decl(d, nm):
    if d.k == "type":
        return "DType %d %d" % (d.line, nm.id(d.name))
    if d.k == "pred":
        return "DPred %d %d %s" % (d.line, nm.id(d.name), g_names(d.args, nm))
    if d.k == "func":
        return "DFunc %d %d %s %d" % (d.line, nm.id(d.name), g_names(d.args, nm), nm.id(d.res))
    if d.k == "enum":
        return "DEnum %d %d %s" % (d.line, nm.id(d.name),
                                   g_list("(%d, %d, %s)" % (c.line, nm.id(c.name), g_names(c.args, nm)) for c in d.ctors))
    return "DRule %d %s %s" % (d.line, ("(Some %d)" % nm.id(d.name)) if d.name else "None", g_block(d.body, nm))


def gallina(prog):
    """Gallina `prog` term; the lines must have been set (print_program or parse_program)."""
    nm = Names()
    return g_list(g_decl(d, nm) for d in prog)


# ---------------------------------------------------------------------------------------------- parser

class OutsideFragment(Exception):
    pass


class ParseError(Exception):
    pass


TOKEN = re.compile(r"\s+|//[^\n]*|(?P<id>[A-Za-z][A-Za-z0-9'_]*)|(?P<sym>:=|->|=>|[(){},;:=!_.@])")


def tokenize(text):
    toks = []
    pos, line = 0, 1
    while pos < len(text):
        m = TOKEN.match(text, pos)
        if not m:
            raise ParseError("bad character %r at line %d" % (text[pos], line))
        if m.group("id"):
            toks.append(("id", m.group("id"), line))
        elif m.group("sym"):
            toks.append(("sym", m.group("sym"), line))
        line += text[pos:m.end()].count("\n")
        pos = m.end()
    toks.append(("eof", "", line))
    return toks


class Parser:
    def __init__(self, text):
        self.t = tokenize(text)
        self.i = 0

    def peek(self, k=0):
        return self.t[min(self.i + k, len(self.t) - 1)]

    def next(self):
        tok = self.t[self.i]
        self.i += 1
        return tok

    def expect(self, val):
        tok = self.next()
        if tok[1] != val:
            raise ParseError("expected %r, got %r at line %d" % (val, tok[1], tok[2]))
        return tok

    def ident(self):
        tok = self.next()
        if tok[0] != "id":
            raise ParseError("expected identifier, got %r at line %d" % (tok[1], tok[2]))
        if tok[1] in ("dom", "cod", "Mor", "model"):
            raise OutsideFragment(tok[1])
        return tok

    def term(self):
        tok = self.peek()
        if tok[1] == "_":
            self.next()
            t = Term("wild", line=tok[2])
        else:
            tok = self.ident()
            if self.peek()[1] == "(":
                self.next()
                args = []
                while self.peek()[1] != ")":
                    args.append(self.term())
                    if self.peek()[1] == ",":
                        self.next()
                self.expect(")")
                t = Term("app", tok[1], args, tok[2])
            else:
                t = Term("var", tok[1], line=tok[2])
        if self.peek()[1] in (".", "@"):
            raise OutsideFragment("member / morphism syntax")
        return t

    def type_expr(self):
        tok = self.ident()
        if self.peek()[1] in (".", "("):
            raise OutsideFragment("member type")
        return tok[1]

    def arg_decls(self):
        self.expect("(")
        args = []
        while self.peek()[1] != ")":
            if self.peek(1)[1] == ":":
                self.next()
                self.next()
            args.append(self.type_expr())
            if self.peek()[1] == ",":
                self.next()
        self.expect(")")
        return args

    def atom(self, kw):
        t = self.term()
        nxt = self.peek()[1]
        if nxt == "=":
            self.next()
            return ("eq", t, self.term())
        if nxt == "!":
            self.next()
            return ("def", t) if kw == "if" else ("def", None, t)
        if nxt == ":=" and kw == "then":
            self.next()
            t2 = self.term()
            self.expect("!")
            return ("def", t, t2)
        if nxt == ":" and kw == "if":
            self.next()
            return ("type", t, self.type_expr())
        if t.k == "app":
            return ("pred", t.name, t.args)
        raise ParseError("bad atom at line %d" % t.line)

    def block(self):
        self.expect("{")
        body = []
        while self.peek()[1] != "}":
            body.append(self.stmt())
        self.expect("}")
        return body

    def stmt(self):
        tok = self.next()
        if tok[1] in ("if", "then"):
            a = self.atom(tok[1])
            self.expect(";")
            return Stmt(tok[1], atom=a, line=tok[2])
        if tok[1] == "branch":
            blocks = [self.block()]
            while self.peek()[1] == "along":
                self.next()
                blocks.append(self.block())
            return Stmt("branch", blocks=blocks, line=tok[2])
        if tok[1] == "match":
            d = self.term()
            self.expect("{")
            cases = []
            while self.peek()[1] != "}":
                pat = self.term()
                self.expect("=>")
                cases.append(Case(pat, self.block()))
            self.expect("}")
            return Stmt("match", term=d, cases=cases, line=tok[2])
        raise ParseError("bad statement %r at line %d" % (tok[1], tok[2]))

    def decl(self):
        tok = self.next()
        if tok[1] == "type":
            n = self.ident()
            self.expect(";")
            return Decl("type", n[1], line=tok[2])
        if tok[1] == "pred":
            n = self.ident()
            args = self.arg_decls()
            self.expect(";")
            return Decl("pred", n[1], args, line=tok[2])
        if tok[1] == "func":
            n = self.ident()
            args = self.arg_decls()
            self.expect("->")
            res = self.type_expr()
            self.expect(";")
            return Decl("func", n[1], args, res, line=tok[2])
        if tok[1] == "enum":
            n = self.ident()
            self.expect("{")
            ctors = []
            while self.peek()[1] != "}":
                c = self.ident()
                ctors.append(Ctor(c[1], self.arg_decls(), c[2]))
                if self.peek()[1] == ",":
                    self.next()
            self.expect("}")
            return Decl("enum", n[1], ctors=ctors, line=tok[2])
        if tok[1] == "rule":
            name = None
            if self.peek()[0] == "id":
                name = self.ident()[1]
            return Decl("rule", name, body=self.block(), line=tok[2])
        if tok[1] == "model":
            raise OutsideFragment("model")
        raise ParseError("bad declaration %r at line %d" % (tok[1], tok[2]))

    def program(self):
        prog = []
        while self.peek()[0] != "eof":
            prog.append(self.decl())
        return prog


def parse_program(text):
    """AST with the lines of the given text; raises OutsideFragment / ParseError."""
    return Parser(text).program()


# ---------------------------------------------------------------------------------------------- generator

class Sig:
    """Declared symbols of a generated program."""

    def __init__(self):
        self.types = []      # normal types
        self.enums = {}      # enum -> [(ctor, [arg types])]
        self.preds = {}      # pred -> [arg types]
        self.funcs = {}      # func or ctor -> ([arg types], result)
        self.ctor_names = set()

    def all_types(self):
        return self.types + list(self.enums)

    def funcs_into(self, ty):
        return [f for f, (dom, cod) in self.funcs.items() if cod == ty]


class Ctx:
    """State along one control-flow path of a rule under construction."""

    def __init__(self, scope=None, defined=None, eqs=None):
        self.scope = dict(scope or {})        # variable -> type
        self.defined = dict(defined or {})    # printed term -> (term, type)
        self.eqs = list(eqs or [])            # (term, term) asserted equal on this path

    def copy(self):
        return Ctx(self.scope, self.defined, self.eqs)


class Gen:
    def __init__(self, rng, size=2):
        self.rng = rng
        self.size = size
        self.sig = Sig()
        self.used_names = set()
        self._def_pool = {}

    # ---- names
    def fresh(self, prefix):
        i = 0
        while True:
            n = prefix + suffix(i)
            if n not in self.used_names and n not in GRAMMAR_KEYWORDS and n not in RUST_KEYWORDS:
                self.used_names.add(n)
                return n
            i += 1

    # ---- declarations
    def gen_sig(self):
        rng, sg = self.rng, self.sig
        for _ in range(1 + rng.below(3)):
            sg.types.append(self.fresh("Ty"))
        for _ in range(rng.below(3)):
            sg.enums[self.fresh("En")] = []
        for e in sg.enums:
            for _ in range(rng.below(2) if rng.chance(1, 8) else 1 + rng.below(3)):
                c = self.fresh("C")
                dom = [rng.choice(sg.all_types()) for _ in range(rng.choice([0, 0, 1, 1, 2]))]
                sg.enums[e].append((c, dom))
                sg.funcs[c] = (dom, e)
                sg.ctor_names.add(c)
        for _ in range(1 + rng.below(4)):
            sg.preds[self.fresh("p")] = [rng.choice(sg.all_types()) for _ in range(rng.choice([0, 1, 1, 2, 2, 3]))]
        for _ in range(1 + rng.below(5)):
            dom = [rng.choice(sg.all_types()) for _ in range(rng.choice([0, 1, 1, 1, 2, 2, 3]))]
            sg.funcs[self.fresh("fu")] = (dom, rng.choice(sg.all_types()))
        # every normal type is the result of some function, so that terms of every type exist
        for ty in sg.types:
            if not sg.funcs_into(ty):
                sg.funcs[self.fresh("fu")] = ([rng.choice(sg.all_types())] if rng.chance(1, 2) else [], ty)

    def sig_decls(self):
        sg = self.sig
        ds = [Decl("type", t) for t in sg.types]
        ds += [Decl("enum", e, ctors=[Ctor(c, dom) for (c, dom) in cs]) for e, cs in sg.enums.items()]
        ds += [Decl("pred", p, dom) for p, dom in sg.preds.items()]
        ds += [Decl("func", f, dom, cod) for f, (dom, cod) in sg.funcs.items() if f not in sg.ctor_names]
        return self.rng.shuffle(ds)

    # ---- rules
    def new_var(self, rule, ctx, ty):
        """A variable name that is not in scope (names of closed blocks may come back)."""
        rng = self.rng
        cands = [v for v in rule["retired"] if v not in ctx.scope]
        if cands and rng.chance(1, 3):
            v = rng.choice(cands)
        else:
            v = "v" + suffix(rule["nvars"])
            rule["nvars"] += 1
        ctx.scope[v] = ty
        rule["intro"][-1].append(v)
        rule["fresh_now"].add(v)
        return v

    def note_defined(self, ctx, t, ty):
        k = show_term(t)
        t = copy.deepcopy(t)       # the statement's own nodes may still be edited (wildcards)
        ctx.defined[k] = (t, ty)
        self._def_pool[k] = (t, ty)

    def type_of(self, ctx, t):
        if t.k == "var":
            return ctx.scope[t.name]
        return self.sig.funcs[t.name][1]

    def note_term(self, ctx, t):
        """Everything below an asserted term is defined from now on."""
        for s in subterms(t):
            if not any(x.k == "wild" for x in subterms(s)):
                self.note_defined(ctx, s, self.type_of(ctx, s))

    def if_term(self, rule, ctx, ty, depth, allow_wild=False, allow_new=True, exclude=()):
        """A term of type ty for an if-atom (may introduce variables), or None."""
        rng = self.rng
        vars_ = [v for v, t in ctx.scope.items() if t == ty and v not in exclude]
        fs = self.sig.funcs_into(ty)
        r = rng.below(10)
        if allow_wild and r == 0:
            return W(ty)
        if vars_ and r <= 4:
            return V(rng.choice(vars_), ty)
        if fs and depth > 0 and (r <= 7 or not allow_new):
            f = rng.choice(fs)
            args = [self.if_term(rule, ctx, a, depth - 1, allow_wild, allow_new) for a in self.sig.funcs[f][0]]
            if all(a is not None for a in args):
                return A(f, args, ty)
        if allow_new:
            return V(self.new_var(rule, ctx, ty), ty)
        if vars_:
            return V(rng.choice(vars_), ty)
        return None

    def defined_of(self, ctx, ty):
        return [t for (t, ty2) in ctx.defined.values() if ty2 == ty]

    def then_term(self, ctx, ty):
        """A term of type ty that is present earlier on this path -- syntactically, or (one time in four)
        after replacing a subterm by a term asserted equal to it, which the congruence closure must see
        through -- or None."""
        c = self.defined_of(ctx, ty)
        if not c:
            return None
        t = copy.deepcopy(self.rng.choice(c))
        if ctx.eqs and self.rng.chance(1, 4):
            t = self.rewrite_once(ctx, t)
        return t

    def rewrite_once(self, ctx, t):
        """Replace one occurrence of a side of an asserted equation by the other side."""
        rng = self.rng
        a, b = rng.choice(ctx.eqs)
        if rng.chance(1, 2):
            a, b = b, a
        if any(x.k == "wild" for x in subterms(a)) or any(x.k == "wild" for x in subterms(b)):
            return t
        if any(x not in ctx.scope for x in term_vars(b)):
            return t
        ka = show_term(a)
        if show_term(t) == ka:
            return copy.deepcopy(b)
        slots = [(s.args, i) for s in subterms(t) if s.k == "app" for i in range(len(s.args))
                 if show_term(s.args[i]) == ka]
        if slots:
            lst, i = rng.choice(slots)
            lst[i] = copy.deepcopy(b)
        return t

    def new_app(self, ctx, want=None, plain_ok=True):
        """f(args) with defined args; returns (term, type) or None.  plain_ok=False excludes functions
        (other than constructors) whose result is an enum."""
        rng = self.rng
        for f in rng.shuffle(list(self.sig.funcs)):
            dom, cod = self.sig.funcs[f]
            if want is not None and cod != want:
                continue
            if cod in self.sig.enums and f not in self.sig.ctor_names and not plain_ok:
                continue
            args = [self.then_term(ctx, a) for a in dom]
            if any(a is None for a in args):
                continue
            return A(f, args, cod), cod
        return None

    def gen_if(self, rule, ctx):
        rng, sg = self.rng, self.sig
        r = rng.below(10)
        d = 1 + rng.below(2)
        atom = None
        if 2 <= r <= 5 and sg.preds:
            p = rng.choice(list(sg.preds))
            atom = ("pred", p, [self.if_term(rule, ctx, a, d, allow_wild=True) for a in sg.preds[p]])
        elif r <= 7 and r >= 2:
            f = rng.choice(list(sg.funcs))
            atom = ("def", A(f, [self.if_term(rule, ctx, a, d, allow_wild=True) for a in sg.funcs[f][0]],
                             sg.funcs[f][1]))
        elif r >= 8:
            ty = rng.choice(sg.all_types())
            rule["fresh_now"] = set()
            a = self.if_term(rule, ctx, ty, d)
            a_new = a.k == "var" and a.name in rule["fresh_now"]
            b = self.if_term(rule, ctx, ty, d, allow_new=not a_new, exclude=[a.name] if a_new else ())
            if b is not None:
                atom = ("eq", a, b) if rng.chance(1, 2) else ("eq", b, a)
            else:
                atom = ("type", a, ty)
        if atom is None:
            ty = rng.choice(sg.all_types())
            atom = ("type", V(self.new_var(rule, ctx, ty), ty), ty)
        for t in atom_terms("if", atom):
            self.note_term(ctx, t)
        if atom[0] == "eq":
            ctx.eqs.append(copy.deepcopy((atom[1], atom[2])))
        return Stmt("if", atom=atom)

    def gen_then(self, rule, ctx):
        """A then-statement all of whose terms are present earlier, or None."""
        rng, sg = self.rng, self.sig
        r = rng.below(10)
        if r <= 3 and sg.preds:
            for p in rng.shuffle(list(sg.preds)):
                args = [self.then_term(ctx, a) for a in sg.preds[p]]
                if all(a is not None for a in args):
                    return Stmt("then", atom=("pred", p, args))
            return None
        if r <= 5:
            tys = [ty for ty in sg.all_types() if self.defined_of(ctx, ty)]
            if not tys:
                return None
            ty = rng.choice(tys)
            a = self.then_term(ctx, ty)
            if rng.chance(1, 3):
                # f(args) = a with f(args) new: the equation itself makes it equal to an earlier term
                na = self.new_app(ctx, want=ty)
                if na is not None:
                    b = na[0]
                    self.note_defined(ctx, b, ty)
                    ctx.eqs.append(copy.deepcopy((a, b)))
                    return Stmt("then", atom=("eq", b, a) if rng.chance(1, 2) else ("eq", a, b))
            b = self.then_term(ctx, ty)
            ctx.eqs.append(copy.deepcopy((a, b)))
            return Stmt("then", atom=("eq", a, b))
        na = self.new_app(ctx, plain_ok=False)
        if na is None:
            return None
        t, ty = na
        if r <= 7:
            self.note_defined(ctx, t, ty)
            return Stmt("then", atom=("def", None, t))
        x = self.new_var(rule, ctx, ty)
        self.note_defined(ctx, t, ty)
        self.note_defined(ctx, V(x, ty), ty)
        ctx.eqs.append(copy.deepcopy((V(x, ty), t)))
        return Stmt("then", atom=("def", V(x, ty), t))

    def close_block(self, rule, ctx, body, pattern_vars=(), pat_args=None):
        """Give every variable introduced at this block's level a second occurrence; retire the names."""
        intro = rule["intro"].pop()
        for v in intro:
            if v in pattern_vars:
                n = pattern_vars[v] + sum(1 for s, _ in walk_stmts(body) for t in stmt_terms(s)
                                          for x in term_vars(t) if x == v)
            else:
                # occurrences from the statement that introduces v on (the name may have been used by a
                # nested block before)
                idx = [i for i, s in enumerate(body) if any(v in term_vars(t) for t in top_terms(s))]
                n = sum(1 for s, _ in walk_stmts(body[idx[0]:]) for t in stmt_terms(s)
                        for x in term_vars(t) if x == v) if idx else 0
            if n < 2:
                # a variable that is used once becomes a wildcard where the language allows one (argument
                # positions of if-statements and patterns), or gets a second occurrence `if v: T;`
                slots = []
                if v in pattern_vars:
                    slots = [(pat_args, i) for i, a in enumerate(pat_args or []) if a.k == "var" and a.name == v]
                else:
                    for s, _ in walk_stmts(body[idx[0]:] if idx else []):
                        if s.k == "if" or s.k == "match":
                            slots += [(lst, i) for (lst, i) in parent_slots(s) if lst[i].k == "var" and lst[i].name == v]
                if slots and self.rng.chance(2, 3):
                    lst, i = slots[0]
                    lst[i] = W(lst[i].ty)
                else:
                    body.append(Stmt("if", atom=("type", V(v, ctx.scope[v]), ctx.scope[v])))
            rule["retired"].append(v)

    def gen_block(self, rule, ctx, depth, nstmts):
        """Generates statements; ctx is updated to the state at the end of the block.
        Returns (body, what was defined before the last statement)."""
        rng = self.rng
        body = []
        before_last = dict(ctx.defined)
        for i in range(nstmts):
            if rule["budget"] <= 0:
                break
            rule["budget"] -= 1
            before_last = dict(ctx.defined)
            r = rng.below(20)
            s = None
            if r <= 6 or not ctx.defined:
                s = self.gen_if(rule, ctx)
            elif r <= 13:
                s = self.gen_then(rule, ctx)
            elif r <= 16 and depth > 0 and rule["forks"] > 0:
                rule["forks"] -= 1
                s = self.gen_branch(rule, ctx, depth - 1)
            elif depth > 0 and self.sig.enums and rule["forks"] > 0:
                rule["forks"] -= 1
                s = self.gen_match(rule, ctx, depth - 1)
            body.append(s if s is not None else self.gen_if(rule, ctx))
        return body, before_last

    def end_defined(self, c, body, before_last, outer):
        """Terms over the outer variables that are defined at the end of a nested block.  If the block ends
        in a branch or match, only what was defined before that statement counts: the compiler does not
        carry the contents of such a statement out of the enclosing block (reported as a defect; the
        generator stays on the common ground)."""
        src = before_last if (body and body[-1].k in ("branch", "match")) else c.defined
        return {k for k, (t, _) in src.items() if all(x in outer for x in term_vars(t))}

    def gen_branch(self, rule, ctx, depth):
        rng = self.rng
        outer = dict(ctx.scope)
        blocks, ends = [], []
        for _ in range(1 + rng.below(3)):
            c = ctx.copy()
            rule["intro"].append([])
            body, before_last = self.gen_block(rule, c, depth, rng.below(2 + self.size))
            self.close_block(rule, c, body)
            blocks.append(body)
            ends.append(self.end_defined(c, body, before_last, outer))
        keep = set.intersection(*ends)
        ctx.defined = {k: self._def_pool[k] for k in keep}
        return Stmt("branch", blocks=blocks)

    def gen_match(self, rule, ctx, depth):
        rng, sg = self.rng, self.sig
        # (no match on an enum without constructors: what follows a match without cases is dead code
        #  that the compiler does not check; reported, and kept out of the generator)
        cands = [v for v, t in ctx.scope.items() if sg.enums.get(t)]
        terms = [t for (t, ty) in ctx.defined.values() if sg.enums.get(ty) and t.k == "app"]
        if cands and (not terms or rng.chance(2, 3)):
            d = V(rng.choice(cands))
            d.ty = ctx.scope[d.name]
        elif terms:
            d = copy.deepcopy(rng.choice(terms))
        else:
            return None
        e = self.type_of(ctx, d)
        self.note_term(ctx, d)
        outer = dict(ctx.scope)
        cases, ends = [], []
        ctors = rng.shuffle(sg.enums[e])
        if ctors and rng.chance(1, 10):
            ctors = ctors + [rng.choice(ctors)]      # a repeated case is allowed
        for (cname, dom) in ctors:
            c = ctx.copy()
            rule["intro"].append([])
            args = []
            for a in dom:
                args.append(W(a) if rng.chance(1, 4) else V(self.new_var(rule, c, a), a))
            pat = A(cname, args, e)
            pvars = {}
            for x in term_vars(pat):
                pvars[x] = pvars.get(x, 0) + 1
            self.note_term(c, pat)
            c.eqs.append(copy.deepcopy((d, pat)))
            body, before_last = self.gen_block(rule, c, depth, rng.below(1 + self.size))
            self.close_block(rule, c, body, pvars, pat.args)
            cases.append(Case(pat, body))
            ends.append(self.end_defined(c, body, before_last, outer))
        if ends:
            keep = set.intersection(*ends)
            ctx.defined = {k: self._def_pool[k] for k in keep}
        return Stmt("match", term=d, cases=cases)

    def gen_rule(self, named):
        rng = self.rng
        rule = {"nvars": 0, "retired": [], "intro": [[]], "fresh_now": set(),
                "budget": 4 + 4 * self.size, "forks": 1 + self.size}   # keeps the number of paths small
        self._def_pool = {}
        ctx = Ctx()
        body, _ = self.gen_block(rule, ctx, 2 if self.size > 1 else 1, 1 + rng.below(2 + 2 * self.size))
        self.close_block(rule, ctx, body)
        return Decl("rule", self.fresh("r") if named else None, body=body)

    def gen_program(self):
        rng = self.rng
        self.gen_sig()
        decls = self.sig_decls()
        rules = [self.gen_rule(rng.chance(2, 3)) for _ in range(1 + rng.below(1 + self.size))]
        # rules may stand anywhere among the declarations
        prog = list(decls)
        for r in rules:
            pos = len(prog) if rng.chance(2, 3) else rng.below(len(prog) + 1)
            prog.insert(pos, r)
        names = [d.name for d in prog if d.name] + [c.name for d in prog if d.k == "enum" for c in d.ctors]
        assert_names_ok(names)
        return prog


def stmt_terms(s):
    """All terms written in the statement itself (patterns included, nested statements excluded)."""
    if s.k in ("if", "then"):
        return atom_terms(s.k, s.atom)
    if s.k == "match":
        return [s.term] + [c.pat for c in s.cases]
    return []


def top_terms(s):
    """Terms through which a statement introduces variables into the enclosing block."""
    if s.k in ("if", "then"):
        return atom_terms(s.k, s.atom)
    if s.k == "match":
        return [s.term]
    return []


def generate(rng, size=2):
    """A well-formed program of the fragment: (ast, text, gallina)."""
    g = Gen(rng, size)
    prog = g.gen_program()
    text = print_program(prog)
    return prog, text, gallina(prog)


# ---------------------------------------------------------------------------------------------- mutators
#
# A mutator takes (prog, rng) -- prog is a private copy -- and returns (class code, node) where `node` is
# the AST node whose source line the defect is expected at (its .line is valid after print_program),
# or None when the program offers no place for this defect.

class Info:
    """Symbol tables of a program (read back from its declarations)."""

    def __init__(self, prog):
        self.types = [d.name for d in prog if d.k == "type"]
        self.enums = {d.name: [(c.name, list(c.args)) for c in d.ctors] for d in prog if d.k == "enum"}
        self.preds = {d.name: list(d.args) for d in prog if d.k == "pred"}
        self.funcs = {d.name: (list(d.args), d.res) for d in prog if d.k == "func"}
        self.ctors = {c.name: (list(c.args), d.name) for d in prog if d.k == "enum" for c in d.ctors}
        self.rules = [d for d in prog if d.k == "rule"]
        self.rule_names = [d.name for d in prog if d.k == "rule" and d.name]

    def all_types(self):
        return self.types + list(self.enums)

    def camel_names(self):
        return self.types + list(self.enums) + list(self.ctors)

    def snake_names(self):
        return list(self.preds) + list(self.funcs) + self.rule_names


def sites(prog):
    """Every statement with the variables in scope before it: (rule, block list, index, stmt, scope)
    where scope maps variable -> type (types from the generator's annotations)."""
    out = []

    def add_vars(scope, terms):
        for t in terms:
            for s in subterms(t):
                if s.k == "var" and s.name not in scope:
                    scope[s.name] = s.ty

    def block(rule, body, scope):
        scope = dict(scope)
        for i, s in enumerate(body):
            out.append((rule, body, i, s, dict(scope)))
            if s.k in ("if", "then"):
                add_vars(scope, atom_terms(s.k, s.atom))
            elif s.k == "branch":
                for b in s.blocks:
                    block(rule, b, scope)
            else:
                add_vars(scope, [s.term])
                for c in s.cases:
                    sc = dict(scope)
                    add_vars(sc, [c.pat])
                    block(rule, c.body, sc)

    for d in prog:
        if d.k == "rule":
            block(d, d.body, {})
    return out


def insertion_points(prog):
    """(rule, block list, index, scope before that index), including the end of every block."""
    out = []

    def add_vars(scope, terms):
        for t in terms:
            for s in subterms(t):
                if s.k == "var" and s.name not in scope:
                    scope[s.name] = s.ty

    def block(rule, body, scope):
        scope = dict(scope)
        for i, s in enumerate(body):
            out.append((rule, body, i, dict(scope)))
            if s.k in ("if", "then"):
                add_vars(scope, atom_terms(s.k, s.atom))
            elif s.k == "branch":
                for b in s.blocks:
                    block(rule, b, scope)
            else:
                add_vars(scope, [s.term])
                for c in s.cases:
                    sc = dict(scope)
                    add_vars(sc, [c.pat])
                    block(rule, c.body, sc)
        out.append((rule, body, len(body), dict(scope)))

    for d in prog:
        if d.k == "rule":
            block(d, d.body, {})
    return out


def app_nodes(stmt):
    """Application nodes written in a statement (not in nested statements), patterns excluded."""
    ts = atom_terms(stmt.k, stmt.atom) if stmt.k in ("if", "then") else [stmt.term] if stmt.k == "match" else []
    return [s for t in ts for s in subterms(t) if s.k == "app"]


def parent_slots(stmt):
    """(container list, index) for every argument position of the statement's own terms."""
    out = []
    ts = []
    if stmt.k in ("if", "then"):
        a = stmt.atom
        if a[0] == "pred":
            out += [(a[2], i) for i in range(len(a[2]))]
        ts = atom_terms(stmt.k, a)
    elif stmt.k == "match":
        ts = [stmt.term]
    for t in ts:
        for s in subterms(t):
            if s.k == "app":
                out += [(s.args, i) for i in range(len(s.args))]
    return out


def epic_slots(stmt):
    """Argument positions of a then-statement that are checked for new variables / wildcards
    (everything except the variable of `x := t!`); (container, index)."""
    a = stmt.atom
    out = []
    roots = []
    if a[0] == "pred":
        out += [(a[2], i) for i in range(len(a[2]))]
        roots = list(a[2])
    elif a[0] == "eq":
        roots = [a[1], a[2]]
    else:
        roots = [a[2]]
    for t in roots:
        for s in subterms(t):
            if s.k == "app":
                out += [(s.args, i) for i in range(len(s.args))]
    return out


def set_atom_term(stmt, old, new):
    """Replace a top-level term of the statement's atom."""
    a = list(stmt.atom)
    for i, x in enumerate(a):
        if x is old:
            a[i] = new
    stmt.atom = tuple(a)


ZZ = "zz"      # suffix of the names a mutator invents (never produced by the generator)


def m_declared_twice(prog, rng):
    inf = Info(prog)
    cands = [(i, d.name) for i, d in enumerate(prog) if d.name] + \
            [(i, c.name) for i, d in enumerate(prog) if d.k == "enum" for c in d.ctors]
    if not cands:
        return None
    i, n = rng.choice(cands)
    # A second declaration of the same kind repeats the signature: two different signatures of one
    # predicate / function make the compiler identify the *type names* involved and blame a type
    # declaration (reported; corpus case dup-func-blames-types).
    if n[0].isupper():
        new = Decl("type", n) if rng.chance(1, 2) else Decl("enum", n, ctors=[])
    else:
        r = rng.below(3)
        if r == 0:
            new = Decl("pred", n, inf.preds.get(n, []))
        elif r == 1 and inf.all_types():
            new = Decl("func", n, inf.funcs[n][0] if n in inf.funcs else [],
                       inf.funcs[n][1] if n in inf.funcs else rng.choice(inf.all_types()))
        else:
            new = Decl("rule", n, body=[])
    prog.insert(i + 1 + rng.below(len(prog) - i), new)
    return CODE["SymbolDeclaredTwice"], new


def m_undeclared(prog, rng):
    inf = Info(prog)
    st = sites(prog)
    r = rng.below(4)
    if r == 0:
        c = [s for (_, _, _, s, _) in st if s.k in ("if", "then") and s.atom[0] == "pred"]
        if c:
            s = rng.choice(c)
            s.atom = ("pred", "p" + ZZ, s.atom[2])
            return CODE["UndeclaredSymbol"], s
    if r == 1:
        c = [(s, a) for (_, _, _, s, _) in st for a in app_nodes(s)]
        if c:
            s, a = rng.choice(c)
            a.name = "fu" + ZZ
            return CODE["UndeclaredSymbol"], a
    if r == 2:
        c = [s for (_, _, _, s, _) in st if s.k == "if" and s.atom[0] == "type"]
        if c:
            s = rng.choice(c)
            s.atom = ("type", s.atom[1], "Ty" + ZZ)
            return CODE["UndeclaredSymbol"], s
    c = [d for d in prog if d.k in ("pred", "func") and (d.args or d.k == "func")]
    c2 = [(d, ct) for d in prog if d.k == "enum" for ct in d.ctors if ct.args]
    if c2 and (not c or rng.chance(1, 3)):
        d, ct = rng.choice(c2)
        ct.args[rng.below(len(ct.args))] = "Ty" + ZZ
        return CODE["UndeclaredSymbol"], ct
    if c:
        d = rng.choice(c)
        if d.k == "func" and (not d.args or rng.chance(1, 3)):
            d.res = "Ty" + ZZ
        else:
            d.args[rng.below(len(d.args))] = "Ty" + ZZ
        return CODE["UndeclaredSymbol"], d
    return None


def m_bad_kind(prog, rng):
    inf = Info(prog)
    st = sites(prog)
    r = rng.below(5)
    if r == 0:
        c = [s for (_, _, _, s, _) in st if s.k in ("if", "then") and s.atom[0] == "pred"]
        wrong = list(inf.funcs) + list(inf.ctors) + inf.all_types() + inf.rule_names
        if c and wrong:
            s = rng.choice(c)
            s.atom = ("pred", rng.choice(wrong), s.atom[2])
            return CODE["BadSymbolKind"], s
    if r == 1:
        c = [(s, a) for (_, _, _, s, _) in st for a in app_nodes(s)]
        wrong = list(inf.preds) + inf.all_types() + inf.rule_names
        if c and wrong:
            s, a = rng.choice(c)
            a.name = rng.choice(wrong)
            return CODE["BadSymbolKind"], a
    if r == 2:
        c = [s for (_, _, _, s, _) in st if s.k == "if" and s.atom[0] == "type"]
        wrong = list(inf.preds) + list(inf.funcs) + list(inf.ctors) + inf.rule_names
        if c and wrong:
            s = rng.choice(c)
            s.atom = ("type", s.atom[1], rng.choice(wrong))
            return CODE["BadSymbolKind"], s
    if r == 3:
        c = [(s, cs) for (_, _, _, s, _) in st if s.k == "match" for cs in s.cases if cs.pat.k == "app"]
        wrong = list(inf.funcs)
        if c and wrong:
            s, cs = rng.choice(c)
            cs.pat.name = rng.choice(wrong)
            return CODE["BadSymbolKind"], cs.pat
    c = [d for d in prog if d.k in ("pred", "func") and (d.args or d.k == "func")]
    wrong = list(inf.preds) + list(inf.funcs) + list(inf.ctors) + inf.rule_names
    if c and wrong:
        d = rng.choice(c)
        if d.k == "func" and (not d.args or rng.chance(1, 3)):
            d.res = rng.choice(wrong)
        else:
            d.args[rng.below(len(d.args))] = rng.choice(wrong)
        return CODE["BadSymbolKind"], d
    return None


def some_term(inf, scope, rng):
    """Any term that can stand as an extra argument: a variable in scope or a constant."""
    if scope and rng.chance(3, 4):
        v = rng.choice(sorted(scope))
        return V(v, scope[v])
    consts = [f for f, (dom, _) in list(inf.funcs.items()) + list(inf.ctors.items()) if not dom]
    if consts:
        f = rng.choice(consts)
        return A(f, [], (inf.funcs.get(f) or inf.ctors.get(f))[1])
    if scope:
        v = rng.choice(sorted(scope))
        return V(v, scope[v])
    return None


def m_pred_argnum(prog, rng):
    inf = Info(prog)
    c = [(s, sc) for (_, _, _, s, sc) in sites(prog) if s.k in ("if", "then") and s.atom[0] == "pred"]
    for s, sc in rng.shuffle(c):
        args = s.atom[2]
        if args and rng.chance(1, 2):
            args.pop(rng.below(len(args)))
            return CODE["PredArgNumber"], s
        extra = copy.deepcopy(rng.choice(args)) if args and rng.chance(1, 2) else some_term(inf, sc, rng)
        if extra is not None and not (s.k == "then" and any(x.k == "wild" for x in subterms(extra))):
            args.insert(rng.below(len(args) + 1), extra)
            return CODE["PredArgNumber"], s
    return None


def m_func_argnum(prog, rng):
    inf = Info(prog)
    c = [(s, a, sc) for (_, _, _, s, sc) in sites(prog) for a in app_nodes(s)]
    for s, a, sc in rng.shuffle(c):
        if a.args and rng.chance(1, 2):
            a.args.pop(rng.below(len(a.args)))
            return CODE["FuncArgNumber"], a
        extra = copy.deepcopy(rng.choice(a.args)) if a.args and rng.chance(1, 2) else some_term(inf, sc, rng)
        if extra is not None and not (s.k == "then" and any(x.k == "wild" for x in subterms(extra))):
            a.args.insert(rng.below(len(a.args) + 1), extra)
            return CODE["FuncArgNumber"], a
    return None


def m_conflicting(prog, rng):
    inf = Info(prog)
    st = sites(prog)
    # an argument position holding a variable gets a variable of another type that is in scope
    c = []
    for (_, _, _, s, sc) in st:
        for (lst, i) in parent_slots(s):
            t = lst[i]
            if t.k == "var" and t.ty is not None:
                others = [v for v, ty in sc.items() if ty is not None and ty != t.ty]
                if others:
                    c.append((s, lst, i, others, sc))
    if c and rng.chance(2, 3):
        s, lst, i, others, sc = rng.choice(c)
        v = rng.choice(sorted(others))
        lst[i] = V(v, sc[v])
        return CODE["ConflictingTermType"], s
    # or a second, different type annotation for a variable in scope
    pts = [(body, i, sc) for (_, body, i, sc) in insertion_points(prog) if sc]
    if pts and len(inf.all_types()) >= 2:
        body, i, sc = rng.choice(pts)
        v = rng.choice(sorted(sc))
        tys = [t for t in inf.all_types() if t != sc[v]]
        if sc[v] is not None and tys:
            new = Stmt("if", atom=("type", V(v, sc[v]), rng.choice(tys)))
            body.insert(i, new)
            return CODE["ConflictingTermType"], new
    return None


def m_undetermined(prog, rng):
    pts = insertion_points(prog)
    if not pts:
        return None
    _, body, i, sc = rng.choice(pts)
    new = Stmt("if", atom=("eq", V("v" + ZZ), V("v" + ZZ)))
    body.insert(i, new)
    return CODE["UndeterminedTermType"], new


def m_var_in_then(prog, rng):
    c = [(s, lst, i) for (_, _, _, s, _) in sites(prog) if s.k == "then" for (lst, i) in epic_slots(s)]
    c2 = [s for (_, _, _, s, _) in sites(prog) if s.k == "then" and s.atom[0] == "eq"]
    if c and (not c2 or rng.chance(3, 4)):
        s, lst, i = rng.choice(c)
        lst[i] = V("v" + ZZ, lst[i].ty)
        return CODE["VarIntroducedInThen"], s
    if c2:
        s = rng.choice(c2)
        old = s.atom[1 + rng.below(2)]
        set_atom_term(s, old, V("v" + ZZ, old.ty))
        return CODE["VarIntroducedInThen"], s
    return None


def m_wild_in_then(prog, rng):
    c = [(s, lst, i) for (_, _, _, s, _) in sites(prog) if s.k == "then" for (lst, i) in epic_slots(s)]
    c2 = [s for (_, _, _, s, _) in sites(prog) if s.k == "then" and s.atom[0] == "eq"]
    if c and (not c2 or rng.chance(3, 4)):
        s, lst, i = rng.choice(c)
        lst[i] = W(lst[i].ty)
        return CODE["WildcardInThen"], s
    if c2:
        s = rng.choice(c2)
        old = s.atom[1 + rng.below(2)]
        set_atom_term(s, old, W(old.ty))
        return CODE["WildcardInThen"], s
    return None


def m_once(prog, rng):
    inf = Info(prog)
    pts = insertion_points(prog)
    if not pts or not inf.all_types():
        return None
    _, body, i, sc = rng.choice(pts)
    ty = rng.choice(inf.all_types())
    new = Stmt("if", atom=("type", V("v" + ZZ, ty), ty))
    body.insert(i, new)
    return CODE["VariableOccursOnlyOnce"], new


def m_then_defined_not_var(prog, rng):
    c = [s for (_, _, _, s, _) in sites(prog) if s.k == "then" and s.atom[0] == "def"]
    if not c:
        return None
    s = rng.choice(c)
    t = s.atom[2]
    apps = [x for x in subterms(t) if x.k == "app" and not any(y.k == "wild" for y in subterms(x))]
    if not apps:
        return None
    s.atom = ("def", copy.deepcopy(rng.choice(apps)), t)
    return CODE["ThenDefinedNotVar"], s


def m_then_defined_not_new(prog, rng):
    c = [(s, sc) for (_, _, _, s, sc) in sites(prog) if s.k == "then" and s.atom[0] == "def" and sc]
    if not c:
        return None
    s, sc = rng.choice(c)
    t = s.atom[2]
    same = [v for v, ty in sc.items() if ty == t.ty]
    v = rng.choice(sorted(same)) if same else rng.choice(sorted(sc))
    s.atom = ("def", V(v, sc[v]), t)
    return CODE["ThenDefinedVarNotNew"], s


def m_surjectivity(prog, rng):
    inf = Info(prog)
    pts = [(body, i, sc) for (_, body, i, sc) in insertion_points(prog) if any(ty for ty in sc.values())]
    if not pts:
        return None
    body, i, sc = rng.choice(pts)
    v = rng.choice(sorted(x for x in sc if sc[x]))
    ty = sc[v]
    f = "fu" + ZZ
    prog.append(Decl("func", f, [ty], ty))
    t = A(f, [V(v, ty)], ty)
    preds = [p for p, dom in inf.preds.items() if dom == [ty]]
    if preds and rng.chance(1, 2):
        new = Stmt("then", atom=("pred", rng.choice(preds), [t]))
    elif rng.chance(1, 2):
        new = Stmt("then", atom=("eq", t, copy.deepcopy(t)))
    else:
        new = Stmt("then", atom=("def", None, A(f, [t], ty)))
    body.insert(i, new)
    return CODE["SurjectivityViolation"], new


def m_enum_ctors(prog, rng):
    inf = Info(prog)
    pts = insertion_points(prog)
    if not pts:
        return None
    if not inf.enums:
        prog.append(Decl("enum", "En" + ZZ, ctors=[Ctor("C" + ZZ, [])]))
        e = "En" + ZZ
    else:
        e = rng.choice(sorted(inf.enums))
    f = "fu" + ZZ
    prog.append(Decl("func", f, [], e))
    _, body, i, sc = rng.choice(pts)
    if rng.chance(1, 2):
        new = Stmt("then", atom=("def", None, A(f, [], e)))
        body.insert(i, new)
    else:
        new = Stmt("then", atom=("def", V("v" + ZZ, e), A(f, [], e)))
        body.insert(i, new)
        body.insert(i + 1, Stmt("if", atom=("type", V("v" + ZZ, e), e)))
    return CODE["EnumCtorsNotSurjective"], new


def match_sites(prog):
    return [(s, sc) for (_, _, _, s, sc) in sites(prog) if s.k == "match"]


def m_pattern_var(prog, rng):
    c = [(s, cs) for (s, _) in match_sites(prog) for cs in s.cases]
    if not c:
        return None
    s, cs = rng.choice(c)
    cs.pat = V("v" + ZZ, cs.pat.ty)
    return CODE["MatchPatternIsVariable"], cs.pat


def m_pattern_wild(prog, rng):
    c = [(s, cs) for (s, _) in match_sites(prog) for cs in s.cases]
    if not c:
        return None
    s, cs = rng.choice(c)
    cs.pat = W(cs.pat.ty)
    return CODE["MatchPatternIsWildcard"], cs.pat


def m_pattern_arg_app(prog, rng):
    inf = Info(prog)
    c = [(s, cs) for (s, _) in match_sites(prog) for cs in s.cases if cs.pat.k == "app" and cs.pat.args]
    if not c:
        return None
    s, cs = rng.choice(c)
    i = rng.below(len(cs.pat.args))
    ty = cs.pat.args[i].ty
    consts = [f for f, (dom, cod) in inf.funcs.items() if not dom and cod == ty]
    if consts:
        f = rng.choice(consts)
    else:
        f = "fu" + ZZ
        prog.append(Decl("func", f, [], ty))
    cs.pat.args[i] = A(f, [], ty)
    return CODE["MatchPatternCtorArgIsApp"], cs.pat


def m_pattern_arg_not_fresh(prog, rng):
    c = [(s, cs, sc) for (s, sc) in match_sites(prog) for cs in s.cases if cs.pat.k == "app" and cs.pat.args]
    for s, cs, sc in rng.shuffle(c):
        sc = dict(sc)
        for x in subterms(s.term):
            if x.k == "var" and x.name not in sc:
                sc[x.name] = x.ty
        i = rng.below(len(cs.pat.args))
        ty = cs.pat.args[i].ty
        same = [v for v, t in sc.items() if t == ty]
        if same:
            v = rng.choice(sorted(same))
            cs.pat.args[i] = V(v, ty)
            return CODE["MatchPatternArgVarIsNotFresh"], cs.pat
        earlier = [a for a in cs.pat.args[:i] if a.k == "var" and a.ty == ty]
        if earlier:
            cs.pat.args[i] = V(earlier[0].name, ty)
            return CODE["MatchPatternArgVarIsNotFresh"], cs.pat
    return None


def m_match_conflicting(prog, rng):
    inf = Info(prog)
    c = [s for (s, _) in match_sites(prog) if s.cases and s.term.ty in inf.enums]
    if not c:
        return None
    s = rng.choice(c)
    others = [(cn, dom) for e, cs in inf.enums.items() if e != s.term.ty for (cn, dom) in cs]
    if others:
        cn, dom = rng.choice(others)
        e2 = inf.ctors[cn][1]
    else:
        cn, dom, e2 = "C" + ZZ, [], "En" + ZZ
        prog.append(Decl("enum", e2, ctors=[Ctor(cn, [])]))
    s.cases.insert(rng.below(len(s.cases) + 1), Case(A(cn, [W(a) for a in dom], e2), []))
    return CODE["MatchConflictingEnum"], s


def m_match_not_exhaustive(prog, rng):
    inf = Info(prog)
    c = [s for (s, _) in match_sites(prog) if s.term.ty in inf.enums]
    if not c:
        return None
    s = rng.choice(c)
    if s.cases and rng.chance(1, 2):
        victim = rng.choice(s.cases).pat.name
        s.cases = [cs for cs in s.cases if cs.pat.name != victim]
        return CODE["MatchNotExhaustive"], s
    for d in prog:
        if d.k == "enum" and d.name == s.term.ty:
            d.ctors.append(Ctor("C" + ZZ, []))
    return CODE["MatchNotExhaustive"], s


MUTATORS = [
    ("SymbolDeclaredTwice", m_declared_twice), ("UndeclaredSymbol", m_undeclared), ("BadSymbolKind", m_bad_kind),
    ("PredArgNumber", m_pred_argnum), ("FuncArgNumber", m_func_argnum),
    ("ConflictingTermType", m_conflicting), ("UndeterminedTermType", m_undetermined),
    ("VarIntroducedInThen", m_var_in_then), ("WildcardInThen", m_wild_in_then),
    ("VariableOccursOnlyOnce", m_once),
    ("ThenDefinedNotVar", m_then_defined_not_var), ("ThenDefinedVarNotNew", m_then_defined_not_new),
    ("SurjectivityViolation", m_surjectivity), ("EnumCtorsNotSurjective", m_enum_ctors),
    ("MatchPatternIsVariable", m_pattern_var), ("MatchPatternIsWildcard", m_pattern_wild),
    ("MatchPatternCtorArgIsApp", m_pattern_arg_app), ("MatchPatternArgVarIsNotFresh", m_pattern_arg_not_fresh),
    ("MatchConflictingEnum", m_match_conflicting), ("MatchNotExhaustive", m_match_not_exhaustive),
]


def mutate(prog, rng, which):
    """Applies mutator `which` (index into MUTATORS) to a copy of prog.
    Returns (text, gallina, class code, line) or None."""
    p = copy.deepcopy(prog)
    r = MUTATORS[which][1](p, rng)
    if r is None:
        return None
    code, node = r
    text = print_program(p)
    return text, gallina(p), code, node.line


# ---- edits without an intended verdict: the reference and the compiler are simply compared

def wild_edit(prog, rng):
    """A random small edit (delete / swap / if<->then / variable replaced / statement moved into a new
    branch).  Returns (text, gallina, description) or None."""
    p = copy.deepcopy(prog)
    st = sites(p)
    if not st:
        return None
    r = rng.below(6)
    rule, body, i, s, sc = rng.choice(st)
    what = None
    if r == 0:
        body.pop(i)
        what = "delete statement"
    elif r == 1 and i + 1 < len(body):
        body[i], body[i + 1] = body[i + 1], body[i]
        what = "swap statements"
    elif r == 2 and s.k in ("if", "then"):
        a = s.atom
        if s.k == "if" and a[0] in ("eq", "pred"):
            s.k = "then"
            what = "if -> then"
        elif s.k == "if" and a[0] == "def":
            s.k, s.atom = "then", ("def", None, a[1])
            what = "if -> then"
        elif s.k == "then" and a[0] in ("eq", "pred"):
            s.k = "if"
            what = "then -> if"
        elif s.k == "then" and a[0] == "def" and a[1] is None:
            s.k, s.atom = "if", ("def", a[2])
            what = "then -> if"
    elif r == 3:
        slots = parent_slots(s)
        allv = sorted({x.name: x.ty for (_, _, _, s2, _) in st if s2.k != "branch" for t in stmt_terms(s2)
                       for x in subterms(t) if x.k == "var"}.items())
        if slots and allv:
            lst, j = rng.choice(slots)
            v, ty = rng.choice(allv)
            lst[j] = V(v, ty)
            what = "argument replaced by variable %s" % v
    elif r == 4:
        n = 1 + rng.below(2)
        inner = body[i:i + n]
        del body[i:i + n]
        blocks = [inner] + ([[]] if rng.chance(1, 2) else [])
        body.insert(i, Stmt("branch", blocks=rng.shuffle(blocks)))
        what = "statements wrapped in a branch"
    elif r == 5 and s.k == "branch" and s.blocks:
        b = rng.choice(s.blocks)
        body[i:i + 1] = b
        what = "branch replaced by one of its blocks"
    if what is None:
        return None
    return print_program(p), gallina(p), what


# ---------------------------------------------------------------------------------------------- corpus

FINDING_CASES = {
    # key: (text, what the property demands, what the compiler did when the case was written)
    "nested-last-branch": ('''type A;
func foo(A) -> A;
rule {
    if x: A;
    branch {
        branch {
            if foo(x)!;
        } along {
            if foo(x)!;
        }
    } along {
        if foo(x)!;
    }
    then foo(x) = foo(x);
}
''', "well-formed: foo(x) is asserted on every path before line 14",
                           "rejects with 'term does not appear earlier in this rule' at line 14: the contents of a "
                           "branch/match that is the last statement of a nested block do not reach the statement "
                           "after the enclosing branch (cfg_edge_stmts_stmt_singleton links the inner branch "
                           "statement itself, and cfg_edge_branch_join_blocks needs a following statement in the "
                           "same list)"),
    "then-defined-self-reference": ('''type A;
func foo(A) -> A;
rule {
    if x: A;
    then y := foo(y)!;
    then x = y;
}
''', "ill-formed: y is used inside the term that defines it (variable introduced in a then statement, line 5)",
                                    "passes the static checks and panics in flatten.rs ('Arguments to obtain new "
                                    "element should be in image'): scopes_then_atom_defined puts x of `x := t!` in "
                                    "scope before t"),
    "empty-match-dead-code": ('''type A;
type B;
enum E {}
pred p(B);
rule {
    if x: E;
    if y: A;
    match x {}
    then p(y);
}
''', "ill-formed: p expects B, y has type A (line 9)",
                              "accepts: statements after a match without cases get no structure "
                              "(no cfg edge leaves the match), so nothing in them is type- or surjectivity-checked"),
    "dup-func-blames-types": ('''type Tyc;
type Tyb;
func fub(Tyb) -> Tyc;
func fub() -> Tyb;
''', "ill-formed: fub is declared twice (line 4)",
                              "reports 'symbol declared multiple times' at line 2 (`type Tyb;`, 'previously declared' "
                              "at `type Tyc;`): the two result types of the one semantic function are identified "
                              "and, through type_name, so are the identifiers Tyb and Tyc"),
    "match-discriminee-scope-leak": ('''type A;
type B;
enum E { Ca(), Cb(A) }
pred q(B);
rule {
    branch {
        match z { Ca() => {} Cb(_) => {} }
    } along {
        if q(z);
        if q(z);
    }
}
''', "ill-formed: the variable z of the first block (line 7) occurs only once; the z of the second block is "
     "another variable (it even has another type)",
                                     "accepts: the term matched on is also the left-hand side of the desugared "
                                     "`if z = pattern` statements, which identifies its entry and exit scope; a "
                                     "variable introduced by it in the first statement of a branch block is "
                                     "therefore in scope in the sibling blocks, whose z counts as a further "
                                     "occurrence of the same name"),
}


def make_corpus(outdir):
    import glob
    import hashlib
    import json
    import os
    os.makedirs(outdir, exist_ok=True)
    outside = []
    n = 0
    for d in sorted(glob.glob("/repo/eqlog-test-compile/error-test-source/*")):
        name = os.path.basename(d)
        text = open(os.path.join(d, "theory.eql")).read()
        exp = open(os.path.join(d, "expected-error.txt")).read().splitlines()
        try:
            prog = parse_program(text)
        except OutsideFragment as ex:
            outside.append({"source": "eqlog-test-compile/error-test-source/%s" % name, "why": str(ex)})
            continue
        line = int(re.search(r"--> .*:(\d+)$", [l for l in exp if "-->" in l][0]).group(1))
        obj = {"name": "neg-" + name, "source": "eqlog-test-compile/error-test-source/%s/theory.eql" % name,
               "text": text, "gallina": gallina(prog),
               "expect": {"class": message_class(exp[0]), "class_name": CLASSES.get(message_class(exp[0])),
                          "line": line, "first_line": exp[0]}}
        json.dump(obj, open(os.path.join(outdir, "neg-%s.json" % name), "w"), indent=1)
        n += 1
    for f in sorted(glob.glob("/repo/eqlog-test-eval/src/*.eql")):
        name = os.path.basename(f)[:-4]
        text = open(f).read()
        try:
            prog = parse_program(text)
        except OutsideFragment as ex:
            outside.append({"source": "eqlog-test-eval/src/%s.eql" % name, "why": str(ex)})
            continue
        obj = {"name": "pos-" + name, "source": "eqlog-test-eval/src/%s.eql" % name, "text": text,
               "gallina": gallina(prog), "expect": "ok"}
        json.dump(obj, open(os.path.join(outdir, "pos-%s.json" % name), "w"), indent=1)
        n += 1
    for key, (text, demand, observed) in FINDING_CASES.items():
        prog = parse_program(text)
        obj = {"name": "finding-" + key, "finding_key": key, "text": text, "gallina": gallina(prog),
               "expect": "finding", "property_demands": demand, "compiler_observed": observed}
        json.dump(obj, open(os.path.join(outdir, "finding-%s.json" % key), "w"), indent=1)
        n += 1
    json.dump({"outside_fragment": outside}, open(os.path.join(outdir, "outside.json"), "w"), indent=1)
    h = hashlib.sha256(open("/repo/eqlog-eqlog/src/eqlog.eql", "rb").read()).hexdigest()
    open(os.path.join(outdir, "eqlog_eql.sha256"), "w").write(h + "\n")
    return n, outside


if __name__ == "__main__":
    import sys
    if len(sys.argv) >= 2 and sys.argv[1] == "--make-corpus":
        n, outside = make_corpus(sys.argv[2] if len(sys.argv) > 2 else "/verif/corpus/C10")
        print("%d corpus files; outside the fragment: %s" % (n, ", ".join(o["source"] for o in outside)))
