//! Correspondence driver for property C08: runs the real `PrefixTree0..9` on operation
//! sequences and prints, after every op, the return value and the observable state of two
//! families of four handles, in the text format defined at the top of /verif/coq/PTree/Run.v.
//! Input / output formats: see README.md next to Cargo.toml.

use eqlog_runtime::{
    PrefixTree0, PrefixTree1, PrefixTree2, PrefixTree3, PrefixTree4, PrefixTree5, PrefixTree6,
    PrefixTree7, PrefixTree8, PrefixTree9,
};
use std::io::{self, BufRead, Write};
use std::panic::{self, AssertUnwindSafe};

const HANDLES: usize = 4;

/// "." => 0, "(key size L R)" => 1 key size L R ; a mapping node prints the token M.
fn shape_tokens(sexp: &str, out: &mut Vec<String>) {
    let mut cur = String::new();
    for c in sexp.chars() {
        if c.is_ascii_digit() {
            cur.push(c);
            continue;
        }
        if !cur.is_empty() {
            out.push(std::mem::take(&mut cur));
        }
        match c {
            '(' => out.push("1".to_string()),
            '.' => out.push("0".to_string()),
            'M' => {
                out.pop();
                out.push("M".to_string());
            }
            _ => {}
        }
    }
    if !cur.is_empty() {
        out.push(cur);
    }
}

/// The listed methods of one arity (everything except get_mut / iter_restrictions_mut).
trait Tree: Clone {
    const ARITY: usize;
    type Sub: Tree;
    fn new_() -> Self;
    fn insert_(&mut self, x: &[u32]) -> bool;
    fn remove_(&mut self, x: &[u32]) -> bool;
    fn contains_(&self, x: &[u32]) -> bool;
    fn is_empty_(&self) -> bool;
    fn clear_(&mut self);
    fn iter_(&self) -> Vec<Vec<u32>>;
    fn union_(&self, other: &Self) -> Self;
    fn difference_(&self, other: &Self) -> Self;
    fn mapped_(&self, maps: &[Option<PrefixTree2>]) -> Self;
    /// every len field and every tree shape, walking the public fields
    fn enc_(&self, out: &mut Vec<String>);
    fn get_(&self, k: u32) -> Option<Self::Sub>;
    fn iter_restrictions_(&self) -> Vec<(u32, Self::Sub)>;
    fn insert_restriction_(&mut self, k: u32, r: Self::Sub);
    fn remove_restriction_(&mut self, k: u32, r: &Self::Sub);
}

fn arr<const K: usize>(x: &[u32]) -> [u32; K] {
    x.try_into()
        .unwrap_or_else(|_| panic!("tuple {:?} does not have arity {}", x, K))
}

impl Tree for PrefixTree0 {
    const ARITY: usize = 0;
    type Sub = PrefixTree0;
    fn new_() -> Self {
        PrefixTree0::new()
    }
    fn insert_(&mut self, x: &[u32]) -> bool {
        self.insert(arr::<0>(x))
    }
    fn remove_(&mut self, x: &[u32]) -> bool {
        self.remove(arr::<0>(x))
    }
    fn contains_(&self, x: &[u32]) -> bool {
        self.contains(arr::<0>(x))
    }
    fn is_empty_(&self) -> bool {
        self.is_empty()
    }
    fn clear_(&mut self) {
        self.clear()
    }
    fn iter_(&self) -> Vec<Vec<u32>> {
        self.iter().map(|t| t.to_vec()).collect()
    }
    fn union_(&self, other: &Self) -> Self {
        self.union(other)
    }
    fn difference_(&self, other: &Self) -> Self {
        self.difference(other)
    }
    fn mapped_(&self, _maps: &[Option<PrefixTree2>]) -> Self {
        self.mapped()
    }
    fn enc_(&self, out: &mut Vec<String>) {
        out.push(if self.0.is_some() { "1" } else { "0" }.to_string());
    }
    fn get_(&self, _k: u32) -> Option<Self::Sub> {
        panic!("arity 0 has no get")
    }
    fn iter_restrictions_(&self) -> Vec<(u32, Self::Sub)> {
        panic!("arity 0 has no iter_restrictions")
    }
    fn insert_restriction_(&mut self, _k: u32, _r: Self::Sub) {
        panic!("arity 0 has no insert_restriction")
    }
    fn remove_restriction_(&mut self, _k: u32, _r: &Self::Sub) {
        panic!("arity 0 has no remove_restriction")
    }
}

impl Tree for PrefixTree1 {
    const ARITY: usize = 1;
    type Sub = PrefixTree0;
    fn new_() -> Self {
        PrefixTree1::new()
    }
    fn insert_(&mut self, x: &[u32]) -> bool {
        self.insert(arr::<1>(x))
    }
    fn remove_(&mut self, x: &[u32]) -> bool {
        self.remove(arr::<1>(x))
    }
    fn contains_(&self, x: &[u32]) -> bool {
        self.contains(arr::<1>(x))
    }
    fn is_empty_(&self) -> bool {
        self.is_empty()
    }
    fn clear_(&mut self) {
        self.clear()
    }
    fn iter_(&self) -> Vec<Vec<u32>> {
        self.iter().map(|t| t.to_vec()).collect()
    }
    fn union_(&self, other: &Self) -> Self {
        self.union(other)
    }
    fn difference_(&self, other: &Self) -> Self {
        self.difference(other)
    }
    fn mapped_(&self, maps: &[Option<PrefixTree2>]) -> Self {
        self.mapped(maps[0].clone())
    }
    fn enc_(&self, out: &mut Vec<String>) {
        out.push(self.set.len().to_string());
        shape_tokens(&self.set.verif_shape(), out);
    }
    fn get_(&self, k: u32) -> Option<Self::Sub> {
        self.get(k).cloned()
    }
    fn iter_restrictions_(&self) -> Vec<(u32, Self::Sub)> {
        self.iter_restrictions().collect()
    }
    fn insert_restriction_(&mut self, k: u32, r: Self::Sub) {
        self.insert_restriction(k, r)
    }
    fn remove_restriction_(&mut self, k: u32, r: &Self::Sub) {
        self.remove_restriction(k, r)
    }
}

macro_rules! impl_tree {
    ($ty:ident, $sub:ident, $k:expr, [$($i:expr),*]) => {
        impl Tree for $ty {
            const ARITY: usize = $k;
            type Sub = $sub;
            fn new_() -> Self {
                $ty::new()
            }
            fn insert_(&mut self, x: &[u32]) -> bool {
                self.insert(arr::<$k>(x))
            }
            fn remove_(&mut self, x: &[u32]) -> bool {
                self.remove(arr::<$k>(x))
            }
            fn contains_(&self, x: &[u32]) -> bool {
                self.contains(arr::<$k>(x))
            }
            fn is_empty_(&self) -> bool {
                self.is_empty()
            }
            fn clear_(&mut self) {
                self.clear()
            }
            fn iter_(&self) -> Vec<Vec<u32>> {
                self.iter().map(|t| t.to_vec()).collect()
            }
            fn union_(&self, other: &Self) -> Self {
                self.union(other)
            }
            fn difference_(&self, other: &Self) -> Self {
                self.difference(other)
            }
            fn mapped_(&self, maps: &[Option<PrefixTree2>]) -> Self {
                self.mapped($(maps[$i].clone()),*)
            }
            fn enc_(&self, out: &mut Vec<String>) {
                out.push(self.map.len().to_string());
                shape_tokens(&self.map.verif_shape(), out);
                for (_, v) in self.map.iter() {
                    v.enc_(out);
                }
            }
            fn get_(&self, k: u32) -> Option<Self::Sub> {
                self.get(k).cloned()
            }
            fn iter_restrictions_(&self) -> Vec<(u32, Self::Sub)> {
                self.iter_restrictions().map(|(k, v)| (k, v.clone())).collect()
            }
            fn insert_restriction_(&mut self, k: u32, r: Self::Sub) {
                self.insert_restriction(k, r)
            }
            fn remove_restriction_(&mut self, k: u32, r: &Self::Sub) {
                self.remove_restriction(k, r)
            }
        }
    };
}

impl_tree!(PrefixTree2, PrefixTree1, 2, [0, 1]);
impl_tree!(PrefixTree3, PrefixTree2, 3, [0, 1, 2]);
impl_tree!(PrefixTree4, PrefixTree3, 4, [0, 1, 2, 3]);
impl_tree!(PrefixTree5, PrefixTree4, 5, [0, 1, 2, 3, 4]);
impl_tree!(PrefixTree6, PrefixTree5, 6, [0, 1, 2, 3, 4, 5]);
impl_tree!(PrefixTree7, PrefixTree6, 7, [0, 1, 2, 3, 4, 5, 6]);
impl_tree!(PrefixTree8, PrefixTree7, 8, [0, 1, 2, 3, 4, 5, 6, 7]);
impl_tree!(PrefixTree9, PrefixTree8, 9, [0, 1, 2, 3, 4, 5, 6, 7, 8]);

fn fmt_tuple(t: &[u32]) -> String {
    let strs: Vec<String> = t.iter().map(|x| x.to_string()).collect();
    format!("[{}]", strs.join(";"))
}

fn fmt_tuples(ts: &[Vec<u32>]) -> String {
    let strs: Vec<String> = ts.iter().map(|t| fmt_tuple(t)).collect();
    format!("[{}]", strs.join(";"))
}

fn r_bool(b: bool) -> String {
    format!("Some[[{}]]", if b { 1 } else { 0 })
}

fn r_unit() -> String {
    "Some[]".to_string()
}

fn observe<T: Tree>(t: &T) -> String {
    let mut enc = Vec::new();
    t.enc_(&mut enc);
    format!(
        "({},{},[{}])",
        if t.is_empty_() { "true" } else { "false" },
        fmt_tuples(&t.iter_()),
        enc.join(";")
    )
}

fn handle(x: u32) -> usize {
    assert!((x as usize) < HANDLES, "handle out of range: {}", x);
    x as usize
}

struct Args<'a> {
    op: &'a [u32],
    pos: usize,
}

impl<'a> Args<'a> {
    fn next(&mut self) -> u32 {
        let v = *self
            .op
            .get(self.pos)
            .unwrap_or_else(|| panic!("op {:?}: missing argument {}", self.op, self.pos));
        self.pos += 1;
        v
    }
    fn tuple(&mut self, k: usize) -> Vec<u32> {
        (0..k).map(|_| self.next()).collect()
    }
    fn done(&self) {
        assert!(
            self.pos == self.op.len(),
            "op {:?}: {} superfluous argument(s)",
            self.op,
            self.op.len() - self.pos
        );
    }
}

fn step<T: Tree>(ms: &mut Vec<T>, ss: &mut Vec<T::Sub>, op: &[u32]) -> String {
    let mut a = Args { op, pos: 0 };
    let code = a.next();
    let sub_arity = if T::ARITY == 0 { 0 } else { T::ARITY - 1 };
    match code {
        0 => {
            let h = handle(a.next());
            let x = a.tuple(T::ARITY);
            a.done();
            r_bool(ms[h].insert_(&x))
        }
        1 => {
            let h = handle(a.next());
            let x = a.tuple(T::ARITY);
            a.done();
            r_bool(ms[h].remove_(&x))
        }
        2 => {
            let h = handle(a.next());
            let x = a.tuple(T::ARITY);
            a.done();
            r_bool(ms[h].contains_(&x))
        }
        3 => {
            let h = handle(a.next());
            a.done();
            r_bool(ms[h].is_empty_())
        }
        4 => {
            let h = handle(a.next());
            a.done();
            ms[h].clear_();
            r_unit()
        }
        5 => {
            let h = handle(a.next());
            a.done();
            format!("Some{}", fmt_tuples(&ms[h].iter_()))
        }
        6 => {
            let h = handle(a.next());
            let k = a.next();
            a.done();
            match ms[h].get_(k) {
                None => "Some[[0]]".to_string(),
                Some(r) => {
                    let mut items = vec![vec![1u32]];
                    items.extend(r.iter_());
                    format!("Some{}", fmt_tuples(&items))
                }
            }
        }
        7 => {
            let h = handle(a.next());
            a.done();
            let mut items: Vec<Vec<u32>> = Vec::new();
            for (k, r) in ms[h].iter_restrictions_() {
                let ts = r.iter_();
                items.push(vec![k, ts.len() as u32]);
                items.extend(ts);
            }
            format!("Some{}", fmt_tuples(&items))
        }
        8 => {
            let (dst, x, y) = (handle(a.next()), handle(a.next()), handle(a.next()));
            a.done();
            let r = ms[x].union_(&ms[y]);
            ms[dst] = r;
            r_unit()
        }
        9 => {
            let (dst, x, y) = (handle(a.next()), handle(a.next()), handle(a.next()));
            a.done();
            let r = ms[x].difference_(&ms[y]);
            ms[dst] = r;
            r_unit()
        }
        10 => {
            let (h, k, s) = (handle(a.next()), a.next(), handle(a.next()));
            a.done();
            let r = ss[s].clone();
            ms[h].insert_restriction_(k, r);
            r_unit()
        }
        11 => {
            let (h, k, s) = (handle(a.next()), a.next(), handle(a.next()));
            a.done();
            ms[h].remove_restriction_(k, &ss[s]);
            r_unit()
        }
        12 => {
            let (dst, h) = (handle(a.next()), handle(a.next()));
            let mut maps: Vec<Option<PrefixTree2>> = Vec::new();
            for _ in 0..T::ARITY {
                if a.next() == 0 {
                    maps.push(None);
                } else {
                    let cnt = a.next();
                    let mut m = PrefixTree2::new();
                    for _ in 0..cnt {
                        let (k, v) = (a.next(), a.next());
                        m.insert([k, v]);
                    }
                    maps.push(Some(m));
                }
            }
            a.done();
            let r = ms[h].mapped_(&maps);
            ms[dst] = r;
            r_unit()
        }
        13 => {
            let (src, dst) = (handle(a.next()), handle(a.next()));
            a.done();
            let c = ms[src].clone();
            ms[dst] = c;
            r_unit()
        }
        14 => {
            let (sdst, h, k) = (handle(a.next()), handle(a.next()), a.next());
            a.done();
            match ms[h].get_(k) {
                None => r_bool(false),
                Some(r) => {
                    ss[sdst] = r;
                    r_bool(true)
                }
            }
        }
        15 => {
            let s = handle(a.next());
            let x = a.tuple(sub_arity);
            a.done();
            r_bool(ss[s].insert_(&x))
        }
        16 => {
            let s = handle(a.next());
            let x = a.tuple(sub_arity);
            a.done();
            r_bool(ss[s].remove_(&x))
        }
        _ => panic!("unknown opcode {}", code),
    }
}

/// Lossless delta encoding: a handle whose observation is unchanged since the previous printed
/// line prints `None`; the first printed line prints every handle.
fn delta(prev: &Option<Vec<String>>, cur: &[String]) -> String {
    let items: Vec<String> = cur
        .iter()
        .enumerate()
        .map(|(i, c)| match prev {
            Some(p) if p[i] == *c => "None".to_string(),
            _ => format!("Some{}", c),
        })
        .collect();
    format!("[{}]", items.join(";"))
}

fn run_seq<T: Tree>(ops: &[Vec<u32>], lines: &mut Vec<String>) {
    let mut ms: Vec<T> = (0..HANDLES).map(|_| T::new_()).collect();
    let mut ss: Vec<T::Sub> = (0..HANDLES).map(|_| <T::Sub as Tree>::new_()).collect();
    let mut prev_m: Option<Vec<String>> = None;
    let mut prev_s: Option<Vec<String>> = None;
    // ops before the pseudo-op 99 (if present) are executed silently
    let start = ops.iter().position(|o| o.first() == Some(&99));
    for (i, op) in ops.iter().enumerate() {
        if Some(i) == start {
            continue;
        }
        let ret = step::<T>(&mut ms, &mut ss, op);
        if start.map_or(false, |s| i < s) {
            continue;
        }
        let m: Vec<String> = ms.iter().map(observe).collect();
        let s: Vec<String> = ss.iter().map(observe).collect();
        lines.push(format!("({},{},{})", ret, delta(&prev_m, &m), delta(&prev_s, &s)));
        prev_m = Some(m);
        prev_s = Some(s);
    }
}

fn parse_ops(text: &str) -> Vec<Vec<u32>> {
    text.split(';')
        .map(|s| s.trim())
        .filter(|s| !s.is_empty())
        .map(|s| {
            s.split_whitespace()
                .map(|t| {
                    t.parse::<u32>()
                        .unwrap_or_else(|_| panic!("bad integer {:?}", t))
                })
                .collect()
        })
        .collect()
}

fn main() {
    // Panic messages are reported on stdout as part of the protocol; keep stderr quiet.
    panic::set_hook(Box::new(|_| {}));
    let stdin = io::stdin();
    let stdout = io::stdout();
    let mut out = io::BufWriter::new(stdout.lock());
    let mut index = 0usize;
    for line in stdin.lock().lines() {
        let line = line.expect("read error");
        if line.trim().is_empty() || line.trim_start().starts_with('#') {
            continue;
        }
        writeln!(out, "SEQ {}", index).unwrap();
        index += 1;
        let mut lines: Vec<String> = Vec::new();
        let result = panic::catch_unwind(AssertUnwindSafe(|| {
            let (head, body) = line
                .split_once('|')
                .unwrap_or_else(|| panic!("missing `<arity> |` header"));
            let arity: usize = head
                .trim()
                .parse()
                .unwrap_or_else(|_| panic!("bad arity {:?}", head));
            let ops = parse_ops(body);
            match arity {
                0 => run_seq::<PrefixTree0>(&ops, &mut lines),
                1 => run_seq::<PrefixTree1>(&ops, &mut lines),
                2 => run_seq::<PrefixTree2>(&ops, &mut lines),
                3 => run_seq::<PrefixTree3>(&ops, &mut lines),
                4 => run_seq::<PrefixTree4>(&ops, &mut lines),
                5 => run_seq::<PrefixTree5>(&ops, &mut lines),
                6 => run_seq::<PrefixTree6>(&ops, &mut lines),
                7 => run_seq::<PrefixTree7>(&ops, &mut lines),
                8 => run_seq::<PrefixTree8>(&ops, &mut lines),
                9 => run_seq::<PrefixTree9>(&ops, &mut lines),
                _ => panic!("arity {} out of range 0..9", arity),
            }
        }));
        for l in lines.iter() {
            writeln!(out, "{}", l).unwrap();
        }
        if let Err(e) = result {
            let msg = if let Some(s) = e.downcast_ref::<&str>() {
                s.to_string()
            } else if let Some(s) = e.downcast_ref::<String>() {
                s.clone()
            } else {
                "<non-string panic payload>".to_string()
            };
            writeln!(out, "PANIC {}", msg.replace('\n', " ")).unwrap();
        }
        writeln!(out, "END").unwrap();
    }
    out.flush().unwrap();
}
