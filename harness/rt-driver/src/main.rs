//! Driver for runtime data structures of /repo/eqlog-runtime.
//!   rt-driver topo   : one case per stdin line `dn|do|cn|co|oo|on`, each part a space separated list of
//!                      integers (pairs flattened); prints `OK m:d:c m:d:c ...`, `CYCLE` or `PANIC`.
use eqlog_runtime::*;
use std::io::{self, BufRead, Write};
use std::panic;

fn ints(s: &str) -> Vec<u32> {
    s.split_whitespace().map(|x| x.parse().unwrap()).collect()
}

fn tree2(v: &[u32]) -> PrefixTree2 {
    let mut t = PrefixTree2::new();
    for p in v.chunks(2) {
        t.insert([p[0], p[1]]);
    }
    t
}

fn tree1(v: &[u32]) -> PrefixTree1 {
    let mut t = PrefixTree1::new();
    for &x in v {
        t.insert([x]);
    }
    t
}

fn topo() {
    let stdin = io::stdin();
    let out = io::stdout();
    let mut out = io::BufWriter::new(out.lock());
    for line in stdin.lock().lines() {
        let line = line.unwrap();
        if line.trim().is_empty() {
            continue;
        }
        let parts: Vec<Vec<u32>> = line.split('|').map(ints).collect();
        assert_eq!(parts.len(), 6);
        let res = panic::catch_unwind(|| {
            let dn = tree2(&parts[0]);
            let d_o = tree2(&parts[1]);
            let cn = tree2(&parts[2]);
            let co = tree2(&parts[3]);
            let oo = tree1(&parts[4]);
            let on = tree1(&parts[5]);
            morphism_toposort(&dn, &d_o, &cn, &co, &oo, &on)
        });
        match res {
            Err(_) => writeln!(out, "PANIC").unwrap(),
            Ok(Err(_)) => writeln!(out, "CYCLE").unwrap(),
            Ok(Ok(v)) => {
                let s: Vec<String> = v
                    .iter()
                    .map(|m| format!("{}:{}:{}", m.morph, m.dom, m.cod))
                    .collect();
                writeln!(out, "OK {}", s.join(" ")).unwrap();
            }
        }
    }
}

fn main() {
    panic::set_hook(Box::new(|_| {}));
    let mode = std::env::args().nth(1).unwrap_or_default();
    match mode.as_str() {
        "topo" => topo(),
        _ => {
            eprintln!("usage: rt-driver topo");
            std::process::exit(2);
        }
    }
}
