//! Correspondence driver for property C05 (equality half): runs the real
//! `eqlog_runtime::Unification<El>` plus a verbatim transcription of the generated
//! `new_el_internal` / `equate_el` / `root_el` / `are_equal_el` on operation sequences and prints,
//! after every op, the return value, the representative of every element and the raw parents vector
//! (the field is private, but `Unification` derives `Debug`, which is public API).
//! Input / output formats and the Gallina spelling of every op: README.md next to Cargo.toml.
//! The model is /verif/coq/UF/Model.v, the model-side runner /verif/coq/UF/Run.v (`run_uf`).

use eqlog_runtime::Unification;
use std::fmt;
use std::fmt::Write as _;
use std::io::{self, BufRead, Write};
use std::panic::{self, AssertUnwindSafe};

// ---- verbatim from the generated module (semilattice.eql.rs:119-127) -------------------------
#[allow(dead_code)]
#[derive(Copy, Clone, PartialEq, Eq, Debug, Hash, PartialOrd, Ord)]
pub struct El(pub u32);
impl Into<u32> for El { fn into(self) -> u32 { self.0 } }
impl From<u32> for El { fn from(x: u32) -> Self { El(x) } }
impl fmt::Display for El {
    fn fmt(&self, f: &mut fmt::Formatter) -> fmt::Result {
        write!(f, "{:?}", self)
    }
}

/// The equality-related fields of the generated `Model` struct (semilattice.eql.rs:152-154).
/// The tuple tables `el_new_order_0` / `el_old_order_0` are outside this driver; the three
/// statements touching them are kept as comments at their original positions.
struct Model {
    el_equalities: Unification<El>,
el_weights: Vec<usize>,
el_uprooted: Vec<El>,
}

impl Model {
fn new() -> Self {
    Self {
el_equalities: Unification::new(),
el_weights: Vec::new(),
el_uprooted: Vec::new(),
    }
}

// ---- TRANSCRIPTION of generated code (semilattice.eql.rs:336-392); a later translator checks
// ---- this text against the generator's templates in eqlog/src/rust_gen/mod.rs ----------------

/// Returns the canonical representative of the equivalence class of `el`.
#[allow(dead_code)]
pub fn root_el(&self, el: El) -> El {
    if el.0 as usize >= self.el_equalities.len() {
        el
    } else {
        self.el_equalities.root_const(el)
    }
}
/// Returns `true` if `lhs` and `rhs` are in the same equivalence class.
#[allow(dead_code)]
pub fn are_equal_el(&self, lhs: El, rhs: El) -> bool {
    self.root_el(lhs) == self.root_el(rhs)
}

/// Adjoins a new element of type [El].
#[allow(dead_code)]
fn new_el_internal(&mut self, ) -> El {
    let old_len = self.el_equalities.len();
    self.el_equalities.increase_size_to(old_len + 1);
    let el = u32::try_from(old_len).unwrap();

    // self.el_new_order_0.insert([el]);

    assert!(self.el_weights.len() == old_len);
    self.el_weights.push(0);

    

    El::from(el)
}

/// Enforces the equality `lhs = rhs`.
#[allow(dead_code)]
pub fn equate_el(&mut self, mut lhs: El, mut rhs: El) {
    lhs = self.el_equalities.root(lhs);
    rhs = self.el_equalities.root(rhs);
    if lhs == rhs {
        return;
    }

    let lhs_weight = self.el_weights[lhs.0 as usize];
    let rhs_weight = self.el_weights[rhs.0 as usize];
    let (root, child) =
        if lhs_weight >= rhs_weight {
            (lhs, rhs)
        } else {
            (rhs, lhs)
        };

    self.el_equalities.union_roots_into(child, root);

    // self.el_new_order_0.remove([child.0]);
    // self.el_old_order_0.remove([child.0]);
    self.el_uprooted.push(child);
}
// ---- end of transcription ---------------------------------------------------------------------

/// `insert_<rel>`: `*weight = weight.saturating_add(REL_WEIGHT);` with an explicit amount.
fn add_weight(&mut self, x: usize, w: usize) {
    let weight0: &mut usize = &mut self.el_weights[x];
    *weight0 = weight0.saturating_add(w);
}
/// `canonicalize`: `*weight = weight.saturating_sub(REL_WEIGHT);` with an explicit amount.
fn sub_weight(&mut self, x: usize, w: usize) {
    let weight0: &mut usize = &mut self.el_weights[x];
    *weight0 = weight0.saturating_sub(w);
}

/// `[root_const(0), .., root_const(len-1)]`: the representative function, through the public API.
fn reps(&self) -> Vec<u32> {
    (0..self.el_equalities.len())
        .map(|i| self.el_equalities.root_const(El(i as u32)).0)
        .collect()
}

/// The raw parents vector, read off the derived `Debug` output
/// `Unification { parents: [El(1), El(1)], sizes: [] }`.
fn parents(&self) -> Vec<u64> {
    let dbg = format!("{:?}", self.el_equalities);
    let start = dbg.find("parents: [").expect("Debug output has a parents field") + "parents: [".len();
    let end = start + dbg[start..].find(']').expect("parents list is closed");
    let mut out = Vec::new();
    let mut cur = String::new();
    for c in dbg[start..end].chars() {
        if c.is_ascii_digit() {
            cur.push(c);
        } else if !cur.is_empty() {
            out.push(cur.parse::<u64>().expect("number"));
            cur.clear();
        }
    }
    if !cur.is_empty() {
        out.push(cur.parse::<u64>().expect("number"));
    }
    out
}
}

fn join(xs: &[u64]) -> String {
    xs.iter().map(|x| x.to_string()).collect::<Vec<_>>().join(" ")
}

/// Runs one op; returns its encoded return value. Advances `pos`.
fn run_op(m: &mut Model, toks: &[u64], pos: &mut usize) -> Result<Vec<u64>, String> {
    let mut arg = |what: &str| -> Result<u64, String> {
        let v = toks.get(*pos).copied().ok_or_else(|| format!("missing {what}"))?;
        *pos += 1;
        Ok(v)
    };
    let el = |v: u64| -> Result<El, String> {
        u32::try_from(v).map(El).map_err(|_| format!("element {v} does not fit u32"))
    };
    let us = |v: u64| -> Result<usize, String> {
        usize::try_from(v).map_err(|_| format!("{v} does not fit usize"))
    };
    let code = arg("opcode")?;
    Ok(match code {
        0 => {
            let n = us(arg("n")?)?;
            m.el_equalities.increase_size_to(n);
            vec![]
        }
        1 => {
            let x = el(arg("x")?)?;
            vec![m.el_equalities.root(x).0 as u64]
        }
        2 => {
            let x = el(arg("x")?)?;
            vec![m.el_equalities.root_const(x).0 as u64]
        }
        3 => {
            let a = el(arg("a")?)?;
            let b = el(arg("b")?)?;
            m.el_equalities.union_roots_into(a, b);
            vec![]
        }
        4 => vec![m.el_equalities.len() as u64],
        5 => vec![m.new_el_internal().0 as u64],
        6 => {
            let a = el(arg("a")?)?;
            let b = el(arg("b")?)?;
            m.equate_el(a, b);
            vec![]
        }
        7 => {
            let x = us(arg("x")?)?;
            let w = us(arg("w")?)?;
            m.add_weight(x, w);
            vec![]
        }
        8 => {
            let x = us(arg("x")?)?;
            let w = us(arg("w")?)?;
            m.sub_weight(x, w);
            vec![]
        }
        9 => {
            let a = el(arg("a")?)?;
            let b = el(arg("b")?)?;
            vec![if m.are_equal_el(a, b) { 1 } else { 0 }]
        }
        10 => {
            let a = el(arg("a")?)?;
            vec![m.root_el(a).0 as u64]
        }
        c => return Err(format!("unknown opcode {c}")),
    })
}

fn run_line(line: &str) -> String {
    let toks: Result<Vec<u64>, _> = line.split_whitespace().map(|t| t.parse::<u64>()).collect();
    let toks = match toks {
        Ok(t) => t,
        Err(e) => return format!("E bad token: {e}"),
    };
    let mut out = String::new();
    let mut m = Model::new();
    let mut pos = 0usize;
    let mut first = true;
    while pos < toks.len() {
        let r = panic::catch_unwind(AssertUnwindSafe(|| {
            let ret = run_op(&mut m, &toks, &mut pos)?;
            let reps: Vec<u64> = m.reps().into_iter().map(|x| x as u64).collect();
            let parents = m.parents();
            Ok::<_, String>((ret, reps, parents))
        }));
        if !first {
            out.push('|');
        }
        first = false;
        match r {
            Ok(Ok((ret, reps, parents))) => {
                let _ = write!(out, "{}:{}:{}", join(&ret), join(&reps), join(&parents));
            }
            Ok(Err(e)) => return format!("E {e}"),
            Err(_) => {
                out.push('P');
                break;
            }
        }
    }
    out
}

fn main() {
    panic::set_hook(Box::new(|_| {}));
    let stdin = io::stdin();
    let stdout = io::stdout();
    let mut w = io::BufWriter::new(stdout.lock());
    for line in stdin.lock().lines() {
        let line = line.expect("read stdin");
        writeln!(w, "{}", run_line(&line)).expect("write stdout");
    }
}
