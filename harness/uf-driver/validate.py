#!/usr/bin/env python3
"""Model-vs-implementation validation for coq/UF (property C05, equality half).

Compares /verif/coq/UF/Run.v::run_uf (through the flat encoding flat_batch) with
harness/uf-driver on
  * exhaustive suites: a setup prefix creating 4 elements followed by EVERY sequence of length 4
    over a fixed alphabet (shorter sequences are covered as prefixes: both sides print one entry
    per executed op), plus every sequence of length <= 4 over a small alphabet from the EMPTY state;
  * random sequences of length 50 over 12 elements (VERIF_SEED, default 1).

usage: validate.py [exhaustive] [random N] [--keep]
Scratch goes to /tmp/uf-validate-<pid> (removed unless --keep).  Requires `make` in coq/UF and the
release build of uf-driver in /verif/.cache/target.
"""
import itertools
import os
import random
import re
import shutil
import subprocess
import sys
from concurrent.futures import ThreadPoolExecutor

VERIF = "/verif"
DRIVER = os.path.join(VERIF, ".cache/target/release/uf-driver")
COQDIR = os.environ.get("UF_COQDIR", os.path.join(VERIF, "coq/UF"))   # override: mutation tests
SCRATCH = "/tmp/uf-validate-%d" % os.getpid()
PANIC = 1 << 64
NOFUEL = PANIC + 1
BATCH = 100       # sequences per Eval

# op = (name, args...)
CODES = {"Grow": 0, "Root": 1, "RootConst": 2, "Union": 3, "Len": 4, "NewEl": 5, "EquateOp": 6,
         "AddWeight": 7, "SubWeight": 8, "AreEqual": 9, "RootEl": 10}


def to_driver(seq):
    return " ".join(" ".join([str(CODES[o[0]])] + [str(a) for a in o[1:]]) for o in seq)


def to_coq(seq):
    return "[" + "; ".join(o[0] if len(o) == 1 else "%s %s" % (o[0], " ".join(map(str, o[1:])))
                           for o in seq) + "]"


def run_driver(seqs):
    inp = "\n".join(to_driver(s) for s in seqs) + "\n"
    p = subprocess.run("ulimit -v 4000000; exec timeout 600 %s" % DRIVER, shell=True, input=inp,
                       capture_output=True, text=True)
    if p.returncode != 0:
        raise RuntimeError("driver failed: %s" % p.stderr[-2000:])
    lines = p.stdout.split("\n")
    if lines and lines[-1] == "":
        lines.pop()
    assert len(lines) == len(seqs), (len(lines), len(seqs))
    res = []
    for ln in lines:
        if ln.startswith("E "):
            raise RuntimeError("driver input error: " + ln)
        ents = []
        if ln != "":
            for e in ln.split("|"):
                if e == "P":
                    ents.append("P")
                else:
                    ret, reps, par = e.split(":")
                    ents.append((tuple(map(int, ret.split())), tuple(map(int, reps.split())),
                                 tuple(map(int, par.split()))))
        res.append(ents)
    return res


def run_model_shard(args):
    idx, seqs = args
    f = os.path.join(SCRATCH, "cases_%d.v" % idx)
    with open(f, "w") as fh:
        fh.write("From Coq Require Import List NArith. Import ListNotations.\n"
                 "From UF Require Import Model Run.\nOpen Scope N_scope.\n")
        for i in range(0, len(seqs), BATCH):
            fh.write("Eval vm_compute in (flat_batch [%s]).\n" %
                     ";\n ".join(to_coq(s) for s in seqs[i:i + BATCH]))
    p = subprocess.run("ulimit -s unlimited 2>/dev/null; exec timeout 1800 coqc -noglob -Q %s UF %s" % (COQDIR, f),
                       shell=True, capture_output=True, text=True, cwd=SCRATCH)
    if p.returncode != 0:
        raise RuntimeError("coqc failed on %s: %s" % (f, (p.stdout + p.stderr)[-2000:]))
    nums = []
    for chunk in p.stdout.split(": list N"):
        body = chunk.split("=", 1)
        if len(body) == 2:
            nums.extend(int(x) for x in re.findall(r"\d+", body[1]))
    res = []
    pos = 0
    for _ in seqs:
        k = nums[pos]
        pos += 1
        ents = []
        for _ in range(k):
            v = nums[pos]
            pos += 1
            if v == PANIC:
                ents.append("P")
            elif v == NOFUEL:
                ents.append("F")
            else:
                ret = tuple(nums[pos:pos + v])
                pos += v
                m = nums[pos]
                pos += 1
                reps = tuple(nums[pos:pos + m])
                pos += m
                m = nums[pos]
                pos += 1
                par = tuple(nums[pos:pos + m])
                pos += m
                ents.append((ret, reps, par))
        res.append(ents)
    assert pos == len(nums), (pos, len(nums))
    return res


def run_model(seqs, shards=12):
    n = max(1, (len(seqs) + shards - 1) // shards)
    parts = [(i, seqs[j:j + n]) for i, j in enumerate(range(0, len(seqs), n))]
    with ThreadPoolExecutor(max_workers=shards) as ex:
        out = []
        for r in ex.map(run_model_shard, parts):
            out.extend(r)
        return out


def compare(name, seqs):
    d = run_driver(seqs)
    m = run_model(seqs)
    bad = [(s, a, b) for s, a, b in zip(seqs, d, m) if a != b]
    ops = sum(len(a) for a in d)
    panics = sum(1 for a in d if a and a[-1] == "P")
    print("%s: %d sequences, %d executed ops, %d sequences ending in a panic, %d mismatches"
          % (name, len(seqs), ops, panics, len(bad)))
    for s, a, b in bad[:5]:
        k = next((i for i, (x, y) in enumerate(zip(a, b)) if x != y), min(len(a), len(b)))
        print("  MISMATCH %s\n    first difference at op %d: driver %s / model %s"
              % (to_coq(s), k, a[k] if k < len(a) else "-", b[k] if k < len(b) else "-"))
    return len(bad)


def exhaustive():
    els = range(4)
    bad = 0
    # suite A: the runtime crate only, 4 elements made by Grow 4
    alpha_a = ([("Root", x) for x in els] + [("Union", a, b) for a in els for b in els]
               + [("RootConst", 4), ("Root", 4), ("Grow", 5), ("Len",)])
    seqs = [[("Grow", 4)] + list(t) for t in itertools.product(alpha_a, repeat=4)]
    bad += compare("exhaustive A (Grow 4; then all length-4 sequences over %d runtime ops)" % len(alpha_a), seqs)
    # suite B: the generated API, 4 elements made by NewEl x 4
    alpha_b = ([("EquateOp", a, b) for a in els for b in els] + [("AddWeight", x, 1) for x in els]
               + [("SubWeight", 0, 1), ("Root", 0), ("AreEqual", 0, 1), ("AreEqual", 3, 4),
                  ("RootEl", 4), ("NewEl",), ("EquateOp", 0, 4), ("Union", 0, 1)])
    seqs = [[("NewEl",)] * 4 + list(t) for t in itertools.product(alpha_b, repeat=4)]
    bad += compare("exhaustive B (NewEl x4; then all length-4 sequences over %d API ops)" % len(alpha_b), seqs)
    # suite C: from the empty state, every sequence of length <= 4
    alpha_c = [("Grow", 0), ("Grow", 2), ("NewEl",), ("Root", 0), ("RootConst", 1), ("Union", 0, 1),
               ("Union", 1, 0), ("EquateOp", 0, 1), ("EquateOp", 1, 0), ("EquateOp", 0, 0),
               ("AddWeight", 0, 1), ("AddWeight", 1, 2), ("SubWeight", 0, 1), ("AreEqual", 0, 1),
               ("AreEqual", 1, 1), ("RootEl", 0), ("RootEl", 1), ("Len",)]
    seqs = [list(t) for k in range(0, 5) for t in itertools.product(alpha_c, repeat=k)]
    bad += compare("exhaustive C (empty state; all sequences of length <= 4 over %d ops)" % len(alpha_c), seqs)
    return bad


def random_seq(rng, n_el, length):
    """Mostly panic-free sequences over at most n_el elements; about 1% of the ops are risky
    (out-of-range elements, Union of non-roots, weights of elements that have none).
    A shadow union-find without path compression (and shadow weights) is kept only to choose
    arguments that do not panic; it is not used for the comparison."""
    mode = rng.choice(["api", "api", "raw", "mixed"])
    seq = []
    parent = []       # shadow parents
    w = []            # shadow weights (may be shorter than parent after a Grow)
    umax = (1 << 64) - 1

    def find(x):
        while parent[x] != x:
            x = parent[x]
        return x

    while len(seq) < length:
        size, wsize = len(parent), len(w)
        risky = rng.random() < 0.01
        if size == 0 or (size < n_el and rng.random() < 0.2):
            use_new = mode == "api" or (mode == "mixed" and size == wsize and rng.random() < 0.7)
            if use_new and size == wsize:
                seq.append(("NewEl",))
                parent.append(size)
                w.append(0)
            else:
                new = rng.randint(size, min(n_el, size + 3))
                seq.append(("Grow", new))
                parent.extend(range(size, new))
            continue
        hi = size + (2 if risky else 0)
        x = rng.randrange(hi)
        y = rng.randrange(hi)
        kinds = ["Root", "RootConst", "Union", "Len", "AreEqual", "RootEl"]
        if mode != "raw" or risky:
            kinds += ["EquateOp", "EquateOp", "EquateOp", "AddWeight", "SubWeight"]
        k = rng.choice(kinds)
        if k == "Root":
            seq.append(("Root", x))
        elif k == "RootConst":
            seq.append(("RootConst", x))
        elif k == "Len":
            seq.append(("Len",))
        elif k == "AreEqual":
            seq.append(("AreEqual", x, rng.randrange(size + 2)))
        elif k == "RootEl":
            seq.append(("RootEl", rng.randrange(size + 2)))
        elif k == "Union":
            if x < size and y < size and not risky:
                x, y = find(x), find(y)
            seq.append(("Union", x, y))
            if x < size and y < size and find(x) == x and find(y) == y:
                parent[x] = y
            elif not (x < size and y < size and find(x) == x and find(y) == y):
                return seq            # panics: the rest would not be executed
        elif k == "EquateOp":
            if x >= size or y >= size:
                seq.append(("EquateOp", x, y))
                return seq
            l, r = find(x), find(y)
            if l != r and (l >= wsize or r >= wsize):
                if not risky:
                    continue
                seq.append(("EquateOp", x, y))
                return seq
            seq.append(("EquateOp", x, y))
            if l != r:
                if w[l] >= w[r]:
                    parent[r] = l
                else:
                    parent[l] = r
        elif k in ("AddWeight", "SubWeight"):
            if x >= wsize:
                if not risky:
                    continue
                seq.append((k, x, 1))
                return seq
            if k == "AddWeight":
                amt = rng.choice([1, 2, 6, 6, 6, umax])
                w[x] = min(w[x] + amt, umax)
            else:
                amt = rng.choice([1, 6, 7])
                w[x] = max(w[x] - amt, 0)
            seq.append((k, x, amt))
    return seq


def rand(n):
    rng = random.Random(int(os.environ.get("VERIF_SEED", "1")))
    seqs = [random_seq(rng, 12, 50) for _ in range(n)]
    return compare("random (%d sequences of length 50 over 12 elements)" % n, seqs)


def main():
    args = sys.argv[1:]
    keep = "--keep" in args
    shutil.rmtree(SCRATCH, ignore_errors=True)
    os.makedirs(SCRATCH)
    bad = 0
    try:
        if not args or "exhaustive" in args:
            bad += exhaustive()
        if not args or "random" in args:
            n = 2000
            if "random" in args and args.index("random") + 1 < len(args) and args[args.index("random") + 1].isdigit():
                n = int(args[args.index("random") + 1])
            bad += rand(n)
    finally:
        if not keep:
            shutil.rmtree(SCRATCH, ignore_errors=True)
    print("TOTAL mismatches: %d" % bad)
    sys.exit(1 if bad else 0)


if __name__ == "__main__":
    main()
