//! Correspondence driver for property C11: feeds byte strings to the real `eqlog::process`
//! and reports, per input, success, the formatted error, or the panic message.
//! Protocol: see README.md next to Cargo.toml.

use std::fs;
use std::io::{self, BufRead, Write};
use std::panic::{self, AssertUnwindSafe};
use std::path::{Path, PathBuf};
use std::sync::atomic::{AtomicU64, Ordering};
use std::sync::Mutex;
use std::time::{Duration, Instant};

/// Per-case time limit; `CLI_DRIVER_TIMEOUT_SECS` overrides it (for triage of slow inputs).
const DEFAULT_CASE_TIMEOUT_SECS: u64 = 20;

/// Milliseconds (since program start) at which the running case started; 0 = idle.
static CASE_STARTED_MS: AtomicU64 = AtomicU64::new(0);
/// Message + location of the last panic, recorded by the panic hook.
static LAST_PANIC: Mutex<Option<String>> = Mutex::new(None);

fn hex_encode(bytes: &[u8]) -> String {
    const DIGITS: &[u8; 16] = b"0123456789abcdef";
    let mut s = String::with_capacity(bytes.len() * 2);
    for b in bytes {
        s.push(DIGITS[(b >> 4) as usize] as char);
        s.push(DIGITS[(b & 15) as usize] as char);
    }
    s
}

fn hex_decode(s: &str) -> Option<Vec<u8>> {
    let s = s.as_bytes();
    if s.len() % 2 != 0 {
        return None;
    }
    let val = |c: u8| -> Option<u8> {
        match c {
            b'0'..=b'9' => Some(c - b'0'),
            b'a'..=b'f' => Some(c - b'a' + 10),
            b'A'..=b'F' => Some(c - b'A' + 10),
            _ => None,
        }
    };
    let mut out = Vec::with_capacity(s.len() / 2);
    for pair in s.chunks(2) {
        out.push(val(pair[0])? * 16 + val(pair[1])?);
    }
    Some(out)
}

fn emit(line: &str) {
    let stdout = io::stdout();
    let mut lock = stdout.lock();
    let _ = writeln!(lock, "{line}");
    let _ = lock.flush();
}

fn run_case(case_dir: &Path, source: &[u8]) -> String {
    let in_dir = case_dir.join("in");
    let out_dir = case_dir.join("out");
    if let Err(err) = fs::create_dir_all(&in_dir).and_then(|()| fs::write(in_dir.join("t.eql"), source)) {
        return format!("DRIVER_ERROR {}", hex_encode(format!("{err}").as_bytes()));
    }
    let config = eqlog::Config {
        in_dir,
        out_dir,
        component_build: None,
    };
    *LAST_PANIC.lock().unwrap() = None;
    let result = panic::catch_unwind(AssertUnwindSafe(|| eqlog::process(&config)));
    match result {
        Ok(Ok(())) => "OK".to_string(),
        Ok(Err(err)) => format!("ERR {}", hex_encode(format!("{err:#}").as_bytes())),
        Err(payload) => {
            let recorded = LAST_PANIC.lock().unwrap().take();
            let msg = match recorded {
                Some(msg) => msg,
                None => {
                    if let Some(s) = payload.downcast_ref::<&str>() {
                        s.to_string()
                    } else if let Some(s) = payload.downcast_ref::<String>() {
                        s.clone()
                    } else {
                        "<non-string panic payload>".to_string()
                    }
                }
            };
            format!("PANIC {}", hex_encode(msg.as_bytes()))
        }
    }
}

fn main() {
    let scratch: PathBuf = match std::env::args_os().nth(1) {
        Some(p) => PathBuf::from(p),
        None => {
            eprintln!("usage: cli-driver <scratch-dir>  (cases on stdin, one hex string per line)");
            std::process::exit(2);
        }
    };
    fs::create_dir_all(&scratch).expect("creating scratch dir");
    let program_start = Instant::now();
    let case_timeout = Duration::from_secs(
        std::env::var("CLI_DRIVER_TIMEOUT_SECS")
            .ok()
            .and_then(|s| s.parse::<u64>().ok())
            .unwrap_or(DEFAULT_CASE_TIMEOUT_SECS),
    );

    // Silence the default hook; remember message and location for the PANIC line.
    panic::set_hook(Box::new(|info| {
        let payload = info.payload();
        let msg = if let Some(s) = payload.downcast_ref::<&str>() {
            s.to_string()
        } else if let Some(s) = payload.downcast_ref::<String>() {
            s.clone()
        } else {
            "<non-string panic payload>".to_string()
        };
        let loc = match info.location() {
            Some(l) => format!(" @ {}:{}:{}", l.file(), l.line(), l.column()),
            None => String::new(),
        };
        if let Ok(mut slot) = LAST_PANIC.lock() {
            // Keep the first panic of a case (later ones are usually consequences).
            if slot.is_none() {
                *slot = Some(format!("{msg}{loc}"));
            }
        }
    }));

    // Watchdog: a case that runs longer than the time limit is reported as HANG and the process
    // is aborted (a hung thread cannot be cancelled); the caller restarts after that case.
    std::thread::spawn(move || loop {
        std::thread::sleep(Duration::from_millis(200));
        let started = CASE_STARTED_MS.load(Ordering::SeqCst);
        if started == 0 {
            continue;
        }
        let now = program_start.elapsed().as_millis() as u64;
        if now.saturating_sub(started) > case_timeout.as_millis() as u64 {
            emit("HANG");
            std::process::exit(3);
        }
    });

    let pid = std::process::id();
    let stdin = io::stdin();
    for (n, line) in stdin.lock().lines().enumerate() {
        let line = match line {
            Ok(l) => l,
            Err(_) => break,
        };
        let line = line.trim();
        let source = match hex_decode(line) {
            Some(s) => s,
            None => {
                emit("BADCASE");
                continue;
            }
        };
        let case_dir = scratch.join(format!("case-{pid}-{n}"));
        let _ = fs::remove_dir_all(&case_dir);
        CASE_STARTED_MS.store(
            (program_start.elapsed().as_millis() as u64).max(1),
            Ordering::SeqCst,
        );
        let out = run_case(&case_dir, &source);
        CASE_STARTED_MS.store(0, Ordering::SeqCst);
        emit(&out);
        let _ = fs::remove_dir_all(&case_dir);
    }
}
