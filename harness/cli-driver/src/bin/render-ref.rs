//! Exact reference for the excerpt renderer: the working-tree files
//! /repo/eqlog/src/source_display.rs and /repo/eqlog/src/grammar_util.rs are compiled into this
//! binary (the modules are private to the eqlog crate, so they cannot be called through it).
//! Protocol: see README.md next to Cargo.toml.
#![allow(dead_code)]

#[path = "/repo/eqlog/src/grammar_util.rs"]
mod grammar_util;
#[path = "/repo/eqlog/src/source_display.rs"]
mod source_display;

use grammar_util::Location;
use source_display::SourceDisplay;
use std::io::{self, BufRead, Write};
use std::panic::{self, AssertUnwindSafe};
use std::path::PathBuf;

fn hex_encode(bytes: &[u8]) -> String {
    let mut s = String::with_capacity(bytes.len() * 2);
    for b in bytes {
        s.push_str(&format!("{b:02x}"));
    }
    s
}

fn hex_decode(s: &str) -> Option<Vec<u8>> {
    if s.len() % 2 != 0 {
        return None;
    }
    (0..s.len() / 2)
        .map(|i| u8::from_str_radix(s.get(2 * i..2 * i + 2)?, 16).ok())
        .collect()
}

fn run(line: &str) -> Option<String> {
    let mut it = line.split_whitespace();
    let source = match it.next()? {
        "-" => String::new(),
        h => String::from_utf8(hex_decode(h)?).ok()?,
    };
    let begin: usize = it.next()?.parse().ok()?;
    let end: usize = it.next()?.parse().ok()?;
    let underlined = it.next()? == "1";
    let path: Option<PathBuf> = match it.next()? {
        "-" => None,
        h => Some(PathBuf::from(String::from_utf8(hex_decode(h)?).ok()?)),
    };
    let result = panic::catch_unwind(AssertUnwindSafe(|| {
        let displ = SourceDisplay {
            source: source.as_str(),
            location: Location(begin, end),
            source_path: path.as_deref(),
            underlined,
        };
        format!("{displ}")
    }));
    Some(match result {
        Ok(s) => format!("OUT {}", hex_encode(s.as_bytes())),
        Err(payload) => {
            let msg = if let Some(s) = payload.downcast_ref::<&str>() {
                s.to_string()
            } else if let Some(s) = payload.downcast_ref::<String>() {
                s.clone()
            } else {
                "<non-string panic payload>".to_string()
            };
            format!("PANIC {}", hex_encode(msg.as_bytes()))
        }
    })
}

fn main() {
    panic::set_hook(Box::new(|_| {}));
    let stdin = io::stdin();
    let stdout = io::stdout();
    for line in stdin.lock().lines() {
        let Ok(line) = line else { break };
        let out = run(line.trim()).unwrap_or_else(|| "BADCASE".to_string());
        let mut lock = stdout.lock();
        let _ = writeln!(lock, "{out}");
        let _ = lock.flush();
    }
}
