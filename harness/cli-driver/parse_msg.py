#!/usr/bin/env python3
"""Parse the text of an eqlog compile error (the `ERR <hex>` payload of cli-driver).

A message has the shape produced by `impl Display for CompileErrorWithContext` (eqlog/src/error.rs):

    Error: <class text>\n
    <excerpt>                      one or more; further excerpts may be preceded by a text line
    [<text>\n] [<excerpt>] ...

and every excerpt the shape produced by `impl Display for SourceDisplay` with a path and
`underlined: true` (eqlog/src/source_display.rs), W = number of digits of the last line number:

    <W blanks>--> <path>:<N>\n
    <W blanks> | \n
    <number right-aligned in W> | <line text>\n      } once per printed line,
    <W blanks> | <blanks and ^>\n                      } numbers N, N+1, ...
    <W blanks> | \n

Everything is done on bytes.  Rows start with a digit string, gutters with blanks, so a row is never
mistaken for the closing gutter whatever the line text is; the underline row has exactly one byte
per byte of the line text.

    parse_message(msg: bytes) -> dict(cls=bytes, excerpts=[dict(path, line, width, rows=[(num, text,
                                 underline)], raw=bytes)], notes=[bytes])
or raises ValueError when the message does not have that shape (e.g. an I/O error message).
"""
import re
import sys

_POINTER = re.compile(rb"^( *)--> (.*):([0-9]+)$")


def parse_excerpt(lines, start):
    """lines: list of bytes (message split at LF, last element is what follows the final LF).
    Returns (excerpt dict, index of the first line after the excerpt)."""
    m = _POINTER.match(lines[start])
    if not m:
        raise ValueError("no pointer line at %d: %r" % (start, lines[start]))
    width = len(m.group(1))
    path, first = m.group(2), int(m.group(3))
    gutter = b" " * width + b" | "
    i = start + 1
    if i >= len(lines) or lines[i] != gutter:
        raise ValueError("missing opening gutter after %r" % lines[start])
    i += 1
    rows = []
    num = first
    while True:
        if i >= len(lines):
            raise ValueError("excerpt not closed")
        prefix = str(num).encode().rjust(width) + b" | "
        # A row must start with the expected, right-aligned line number and be followed by an
        # underline row; otherwise this must be the closing gutter.
        if (lines[i].startswith(prefix) and i + 1 < len(lines)
                and lines[i + 1].startswith(gutter)
                and set(lines[i + 1][len(gutter):]) <= set(b" ^")
                and len(lines[i + 1]) - len(gutter) == len(lines[i]) - len(prefix)):
            rows.append((num, lines[i][len(prefix):], lines[i + 1][len(gutter):]))
            num += 1
            i += 2
            continue
        if lines[i] == gutter:
            i += 1
            break
        raise ValueError("unexpected line in excerpt: %r" % lines[i])
    raw = b"".join(l + b"\n" for l in lines[start:i])
    return dict(path=path, line=first, width=width, rows=rows, raw=raw), i


def parse_message(msg):
    if not msg.startswith(b"Error: "):
        raise ValueError("not a compile error: %r" % msg[:60])
    lines = msg.split(b"\n")
    cls = lines[0]
    excerpts, notes = [], []
    i = 1
    while i < len(lines):
        if i == len(lines) - 1 and lines[i] == b"":
            break
        if _POINTER.match(lines[i]):
            ex, i = parse_excerpt(lines, i)
            excerpts.append(ex)
        else:
            notes.append(lines[i])
            i += 1
    if not excerpts:
        raise ValueError("compile error without excerpt")
    return dict(cls=cls, excerpts=excerpts, notes=notes)


def summary(msg):
    """(class = first line of the message, line number, excerpt lines) of the primary excerpt."""
    p = parse_message(msg)
    ex = p["excerpts"][0]
    return p["cls"], ex["line"], [text for (_, text, _) in ex["rows"]]


if __name__ == "__main__":
    # usage: parse_msg.py < driver-output      (prints one summary per ERR line)
    for line in sys.stdin:
        line = line.strip()
        if not line.startswith("ERR "):
            print(line)
            continue
        msg = bytes.fromhex(line[4:])
        try:
            cls, n, texts = summary(msg)
            print("ERR", cls.decode("utf-8", "replace"), "| line", n, "|", [t.decode("utf-8", "replace") for t in texts])
        except ValueError as e:
            print("ERR (unparsed)", e)
