//! Correspondence driver for property C14: runs the real `WBTreeMap<u32>` on operation
//! sequences and prints, after every op, the return value and the observable state of a
//! family of four handles, in the text format defined at the top of /verif/coq/WBT/Run.v.
//! Input / output formats: see README.md next to Cargo.toml.

use eqlog_runtime::wbtree::map::{Entry, WBTreeMap};
use std::fmt::Write as _;
use std::io::{self, BufRead, Write};
use std::panic::{self, AssertUnwindSafe};

const M20: u32 = 1 << 20;
const HANDLES: usize = 4;

type Map = WBTreeMap<u32>;

fn merge_fn(fsel: u32, k: u32, x: u32, y: u32) -> u32 {
    (if fsel == 0 { 10 * x + y + k } else { x }) % M20
}

fn diff_fn(gsel: u32, k: u32, x: u32, y: u32) -> Option<u32> {
    if gsel == 0 {
        None
    } else if gsel == 1 {
        Some((10 * x + y) % M20)
    } else if k % 2 == 0 {
        Some((10 * x + y) % M20)
    } else {
        None
    }
}

fn r_opt(o: Option<u32>) -> String {
    match o {
        None => "Some[0]".to_string(),
        Some(v) => format!("Some[1;{}]", v),
    }
}

fn r_bool(b: bool) -> String {
    format!("Some[{}]", if b { 1 } else { 0 })
}

fn r_list(xs: &[u32]) -> String {
    let strs: Vec<String> = xs.iter().map(|x| x.to_string()).collect();
    format!("Some[{}]", strs.join(";"))
}

/// "." => 0, "(key size L R)" => 1 key size L R ; a mapping node prints the token M.
fn shape_tokens(sexp: &str) -> String {
    let mut toks: Vec<String> = Vec::new();
    let mut cur = String::new();
    for c in sexp.chars() {
        if c.is_ascii_digit() {
            cur.push(c);
            continue;
        }
        if !cur.is_empty() {
            toks.push(std::mem::take(&mut cur));
        }
        match c {
            '(' => toks.push("1".to_string()),
            '.' => toks.push("0".to_string()),
            'M' => {
                // "(M child)": the "(" already pushed a 1; turn it into M
                toks.pop();
                toks.push("M".to_string());
            }
            _ => {}
        }
    }
    if !cur.is_empty() {
        toks.push(cur);
    }
    format!("[{}]", toks.join(";"))
}

fn observe(m: &Map) -> String {
    let mut s = String::new();
    write!(s, "({},[", m.len()).unwrap();
    let mut first = true;
    for (k, v) in m.iter() {
        if !first {
            s.push(';');
        }
        first = false;
        write!(s, "({},{})", k, v).unwrap();
    }
    write!(s, "],{})", shape_tokens(&m.verif_shape())).unwrap();
    s
}

fn handle(x: u32) -> usize {
    assert!((x as usize) < HANDLES, "handle out of range: {}", x);
    x as usize
}

fn arg(op: &[u32], i: usize) -> u32 {
    *op.get(i)
        .unwrap_or_else(|| panic!("op {:?}: missing argument {}", op, i))
}

fn step(hs: &mut Vec<Map>, op: &[u32]) -> String {
    let code = arg(op, 0);
    match code {
        0 => {
            let (h, k, v) = (handle(arg(op, 1)), arg(op, 2), arg(op, 3));
            r_opt(hs[h].insert(k, v))
        }
        1 => {
            let (h, k) = (handle(arg(op, 1)), arg(op, 2));
            r_opt(hs[h].remove(&k))
        }
        2 => {
            let (h, k) = (handle(arg(op, 1)), arg(op, 2));
            r_opt(hs[h].get(&k).copied())
        }
        3 => {
            let (h, k, v) = (handle(arg(op, 1)), arg(op, 2), arg(op, 3));
            match hs[h].get_mut(&k) {
                Some(r) => {
                    let old = *r;
                    *r = v;
                    r_opt(Some(old))
                }
                None => r_opt(None),
            }
        }
        4 => {
            let (h, k) = (handle(arg(op, 1)), arg(op, 2));
            r_bool(hs[h].contains_key(&k))
        }
        5 => {
            let h = handle(arg(op, 1));
            r_list(&[hs[h].len() as u32])
        }
        6 => {
            let h = handle(arg(op, 1));
            r_bool(hs[h].is_empty())
        }
        7 => {
            let h = handle(arg(op, 1));
            hs[h].clear();
            r_list(&[])
        }
        8 => {
            let h = handle(arg(op, 1));
            let mut xs = Vec::new();
            for (k, v) in hs[h].iter() {
                xs.push(k);
                xs.push(*v);
            }
            r_list(&xs)
        }
        9 => {
            let (h, d) = (handle(arg(op, 1)), arg(op, 2));
            for (_, v) in hs[h].iter_mut() {
                *v = (*v + d) % M20;
            }
            r_list(&[])
        }
        10 => {
            let (h, k, v) = (handle(arg(op, 1)), arg(op, 2), arg(op, 3));
            let x = *hs[h].entry(k).or_insert(v);
            r_list(&[x])
        }
        11 => {
            let (h, k, v) = (handle(arg(op, 1)), arg(op, 2), arg(op, 3));
            let x = *hs[h].entry(k).or_insert_with(|| v);
            r_list(&[x])
        }
        12 => {
            let (h, k) = (handle(arg(op, 1)), arg(op, 2));
            match hs[h].entry(k) {
                Entry::Occupied(e) => r_opt(Some(e.remove())),
                Entry::Vacant(_) => r_opt(None),
            }
        }
        13 => {
            let (h, k, v) = (handle(arg(op, 1)), arg(op, 2), arg(op, 3));
            match hs[h].entry(k) {
                Entry::Occupied(mut e) => {
                    let old = *e.get_mut();
                    *e.get_mut() = v;
                    r_opt(Some(old))
                }
                Entry::Vacant(_) => r_opt(None),
            }
        }
        14 => {
            let (h, k, v) = (handle(arg(op, 1)), arg(op, 2), arg(op, 3));
            match hs[h].entry(k) {
                Entry::Occupied(e) => {
                    let r = e.into_mut();
                    let old = *r;
                    *r = v;
                    r_opt(Some(old))
                }
                Entry::Vacant(_) => r_opt(None),
            }
        }
        15 => {
            let (h, k, v) = (handle(arg(op, 1)), arg(op, 2), arg(op, 3));
            match hs[h].entry(k) {
                Entry::Occupied(_) => r_opt(None),
                Entry::Vacant(e) => r_opt(Some(*e.insert(v))),
            }
        }
        16 => {
            let (src, dst) = (handle(arg(op, 1)), handle(arg(op, 2)));
            let c = hs[src].clone();
            hs[dst] = c;
            r_list(&[])
        }
        17 => {
            let (dst, a, b, fsel) = (
                handle(arg(op, 1)),
                handle(arg(op, 2)),
                handle(arg(op, 3)),
                arg(op, 4),
            );
            let m = hs[a].union(&hs[b], |k, x, y| merge_fn(fsel, *k, x, y));
            hs[dst] = m;
            r_list(&[])
        }
        18 => {
            let (dst, a, b, gsel) = (
                handle(arg(op, 1)),
                handle(arg(op, 2)),
                handle(arg(op, 3)),
                arg(op, 4),
            );
            let m = hs[a].difference(&hs[b], |k, x, y| diff_fn(gsel, *k, x, y));
            hs[dst] = m;
            r_list(&[])
        }
        _ => panic!("unknown opcode {}", code),
    }
}

fn parse_line(line: &str) -> Vec<Vec<u32>> {
    line.split(';')
        .map(|s| s.trim())
        .filter(|s| !s.is_empty())
        .map(|s| {
            s.split_whitespace()
                .map(|t| {
                    t.parse::<u32>()
                        .unwrap_or_else(|_| panic!("bad integer {:?}", t))
                })
                .collect()
        })
        .collect()
}

fn main() {
    // Panic messages are reported on stdout as part of the protocol; keep stderr quiet.
    panic::set_hook(Box::new(|_| {}));
    let stdin = io::stdin();
    let stdout = io::stdout();
    let mut out = io::BufWriter::new(stdout.lock());
    let mut index = 0usize;
    for line in stdin.lock().lines() {
        let line = line.expect("read error");
        if line.trim().is_empty() || line.trim_start().starts_with('#') {
            continue;
        }
        writeln!(out, "SEQ {}", index).unwrap();
        index += 1;
        let mut lines: Vec<String> = Vec::new();
        let result = panic::catch_unwind(AssertUnwindSafe(|| {
            let ops = parse_line(&line);
            let mut hs: Vec<Map> = (0..HANDLES).map(|_| Map::new()).collect();
            for op in ops.iter() {
                let ret = step(&mut hs, op);
                let states: Vec<String> = hs.iter().map(observe).collect();
                lines.push(format!("({},[{}])", ret, states.join(";")));
            }
        }));
        for l in lines.iter() {
            writeln!(out, "{}", l).unwrap();
        }
        if let Err(e) = result {
            let msg = if let Some(s) = e.downcast_ref::<&str>() {
                s.to_string()
            } else if let Some(s) = e.downcast_ref::<String>() {
                s.clone()
            } else {
                "<non-string panic payload>".to_string()
            };
            writeln!(out, "PANIC {}", msg.replace('\n', " ")).unwrap();
        }
        writeln!(out, "END").unwrap();
    }
    out.flush().unwrap();
}
