#!/bin/bash
# Stand-in for rustc in build-protocol experiments: "compiles" <src> into the file given by -o by
# copying it behind a marker line. FAKE_RUSTC_FAIL is a space separated list of `<component>` or
# `<component>:torn`; for a listed component the fake fails (exit 1), leaving the output untouched or torn.
src=""; out=""
while [ $# -gt 0 ]; do
  case "$1" in
    -o) out="$2"; shift 2;;
    --extern|-C|--edition|--crate-type) shift 2;;
    --*|-g) shift;;
    *) src="$1"; shift;;
  esac
done
name="$(basename "$src" .rs)"
for f in $FAKE_RUSTC_FAIL; do
  if [ "$f" = "$name" ]; then exit 1; fi
  if [ "$f" = "$name:torn" ]; then printf 'RLIB-TORN' > "$out"; exit 1; fi
done
{ echo "RLIB"; cat "$src"; } > "$out"
