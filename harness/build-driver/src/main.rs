//! Runs the real `eqlog::process` once on <in_dir> -> <out_dir>.
//!   build-driver module    <in_dir> <out_dir>
//!   build-driver component <in_dir> <out_dir> <component_out_dir> <rustc_path> <runtime_rlib_path>
//! Exit status 0 = process returned Ok, 1 = it returned Err (message on stderr). The verif hook in
//! /repo/eqlog/src/build.rs (feature `verif`) reads EQLOG_VERIF_TRACE / EQLOG_VERIF_CRASH_AT /
//! EQLOG_VERIF_CRASH_KEY / EQLOG_VERIF_TORN and aborts the process at the chosen mutation point.
use std::path::PathBuf;

fn main() {
    let args: Vec<String> = std::env::args().collect();
    if args.len() < 4 {
        eprintln!("usage: build-driver module|component <in_dir> <out_dir> [<comp_dir> <rustc> <runtime_rlib>]");
        std::process::exit(2);
    }
    let component_build = match args[1].as_str() {
        "module" => None,
        "component" => Some(eqlog::ComponentConfig {
            component_out_dir: PathBuf::from(&args[4]),
            rustc_path: PathBuf::from(&args[5]),
            runtime_rlib_path: PathBuf::from(&args[6]),
            debug: false,
            opt_level: "0".to_string(),
        }),
        _ => std::process::exit(2),
    };
    let config = eqlog::Config {
        in_dir: PathBuf::from(&args[2]),
        out_dir: PathBuf::from(&args[3]),
        component_build,
    };
    match eqlog::process(&config) {
        Ok(()) => std::process::exit(0),
        Err(err) => {
            eprintln!("{err:#}");
            std::process::exit(1);
        }
    }
}
