(* Ram/FactsBasic.v -- list facts: prefix-tree operations on row lists, look-ups, boolean equalities. *)
From Coq Require Import List NArith Bool PeanoNat Lia.
From Ram Require Import Model.
Import ListNotations.

(* ---------- boolean equalities ---------- *)
Lemma frel_eqb_eq : forall a b, frel_eqb a b = true -> a = b.
Proof.
  intros [x|x] [y|y] H; cbn in H; try discriminate; apply N.eqb_eq in H; subst; reflexivity.
Qed.
Lemma frel_eqb_refl : forall a, frel_eqb a a = true.
Proof. intros [x|x]; cbn; apply N.eqb_refl. Qed.
Lemma iage_eqb_eq : forall a b, iage_eqb a b = true -> a = b.
Proof. intros [|] [|] H; cbn in H; try discriminate; reflexivity. Qed.
Lemma nats_eqb_eq : forall a b, nats_eqb a b = true -> a = b.
Proof.
  induction a as [|x a IH]; intros [|y b] H; cbn in H; try discriminate; [reflexivity|].
  apply andb_true_iff in H. destruct H as [H1 H2]. apply Nat.eqb_eq in H1. subst. f_equal. apply IH, H2.
Qed.
Lemma vars_eqb_eq : forall a b, vars_eqb a b = true -> a = b.
Proof.
  induction a as [|x a IH]; intros [|y b] H; cbn in H; try discriminate; [reflexivity|].
  apply andb_true_iff in H. destruct H as [H1 H2]. apply N.eqb_eq in H1. subst. f_equal. apply IH, H2.
Qed.
Lemma diag_eqb_eq : forall a b, diag_eqb a b = true -> a = b.
Proof.
  intros [x|] [y|] H; cbn in H; try discriminate; [|reflexivity]. apply nats_eqb_eq in H. subst. reflexivity.
Qed.
Lemma out_eqb_eq : forall a b, out_eqb a b = true -> a = b.
Proof.
  intros [x|x|x] [y|y|y] H; cbn in H; try discriminate; apply N.eqb_eq in H; subst; reflexivity.
Qed.
Lemma iages_eqb_eq : forall a b, iages_eqb a b = true -> a = b.
Proof.
  induction a as [|x a IH]; intros [|y b] H; cbn in H; try discriminate; [reflexivity|].
  apply andb_true_iff in H. destruct H as [H1 H2]. apply iage_eqb_eq in H1. subst. f_equal. apply IH, H2.
Qed.

Lemma memv_In : forall x l, memv x l = true <-> In x l.
Proof.
  intros x l. unfold memv. rewrite existsb_exists. split.
  - intros [y [Hy He]]. apply N.eqb_eq in He. subst. exact Hy.
  - intros H. exists x. split; [exact H | apply N.eqb_refl].
Qed.
Lemma memn_In : forall k l, memn k l = true <-> In k l.
Proof.
  intros k l. unfold memn. rewrite existsb_exists. split.
  - intros [y [Hy He]]. apply Nat.eqb_eq in He. subst. exact Hy.
  - intros H. exists k. split; [exact H | apply Nat.eqb_refl].
Qed.

(* ---------- restrict / heads / iters ---------- *)
Lemma In_restrict : forall v R t, In t (restrict v R) <-> In (v :: t) R.
Proof.
  intros v R t. unfold restrict. rewrite in_flat_map. split.
  - intros [r [Hr Ht]]. destruct r as [|v' t']; [destruct Ht|].
    destruct (N.eqb_spec v' v) as [e|ne]; [|destruct Ht].
    destruct Ht as [Ht|[]]. subst. exact Hr.
  - intros H. exists (v :: t). split; [exact H|]. rewrite N.eqb_refl. left. reflexivity.
Qed.

Lemma In_heads : forall v R, In v (heads R) <-> exists t, In (v :: t) R.
Proof.
  intros v R. unfold heads. rewrite nodup_In, in_flat_map. split.
  - intros [r [Hr Hv]]. destruct r as [|v' t]; [destruct Hv|]. destruct Hv as [Hv|[]]. subst. exists t. exact Hr.
  - intros [t Ht]. exists (v :: t). split; [exact Ht | left; reflexivity].
Qed.

Lemma NoDup_heads : forall R, NoDup (heads R).
Proof. intros R. unfold heads. apply NoDup_nodup. Qed.

Lemma In_iter_restrictions : forall R v sub,
  In (v, sub) (iter_restrictions R) <-> In v (heads R) /\ sub = restrict v R.
Proof.
  intros R v sub. unfold iter_restrictions. rewrite in_map_iff. split.
  - intros [w [Hw Hi]]. inversion Hw. subst. split; [exact Hi | reflexivity].
  - intros [Hv Hs]. exists v. subst. split; [reflexivity | exact Hv].
Qed.

Lemma In_iters : forall Rs v sub,
  In (v, sub) (iters Rs) <-> exists R, In R Rs /\ In v (heads R) /\ sub = restrict v R.
Proof.
  intros Rs v sub. unfold iters. rewrite in_flat_map. split.
  - intros [R [HR Hi]]. apply In_iter_restrictions in Hi. exists R. tauto.
  - intros [R [HR Hi]]. exists R. split; [exact HR|]. apply In_iter_restrictions. exact Hi.
Qed.

Lemma nonemptyb_true : forall R, nonemptyb R = true <-> exists t : row, In t R.
Proof.
  intros [|r R]; cbn; split.
  - discriminate.
  - intros [t []].
  - intros _. exists r. left. reflexivity.
  - reflexivity.
Qed.

(* ---------- valuations from binding lists ---------- *)
Definition val (sg : list (var * N)) (x : var) : N :=
  match lookup_var sg x with Some v => v | None => 0%N end.

Lemma val_cons_eq : forall sg x v, val ((x, v) :: sg) x = v.
Proof. intros. unfold val. cbn. rewrite N.eqb_refl. reflexivity. Qed.
Lemma val_cons_neq : forall sg x v y, y <> x -> val ((x, v) :: sg) y = val sg y.
Proof.
  intros sg x v y H. unfold val. cbn. destruct (N.eqb_spec y x) as [e|ne]; [contradiction | reflexivity].
Qed.

Lemma lookup_vars_val : forall sg xs vs, lookup_vars sg xs = Some vs -> map (val sg) xs = vs.
Proof.
  intros sg. induction xs as [|x xs IH]; intros vs H; cbn in H.
  - inversion H. reflexivity.
  - destruct (lookup_var sg x) as [v|] eqn:Hx; [|discriminate].
    destruct (lookup_vars sg xs) as [vs'|] eqn:Hxs; [|discriminate].
    inversion H. subst. cbn. unfold val at 1. rewrite Hx. f_equal. apply IH. reflexivity.
Qed.

(* ---------- set look-ups with a default ---------- *)
Definition getset (Sg : list (setvar * list row)) (s : setvar) : list row :=
  match lookup_set Sg s with Some R => R | None => [] end.

Lemma getset_cons : forall Sg s0 R s,
  getset ((s0, R) :: Sg) s = if setvar_eqb s s0 then R else getset Sg s.
Proof. intros. unfold getset. cbn. destruct (setvar_eqb s s0); reflexivity. Qed.

Lemma lookup_set_cons : forall A (Sg : list (setvar * A)) s0 d s,
  lookup_set ((s0, d) :: Sg) s = if setvar_eqb s s0 then Some d else lookup_set Sg s.
Proof. reflexivity. Qed.

Lemma lookup_sets_spec : forall A (Sg : list (setvar * A)) ss ds,
  lookup_sets Sg ss = Some ds -> Forall2 (fun s d => lookup_set Sg s = Some d) ss ds.
Proof.
  intros A Sg. induction ss as [|s ss IH]; intros ds H; cbn in H.
  - inversion H. constructor.
  - destruct (lookup_set Sg s) as [d|] eqn:Hs; [|discriminate].
    destruct (lookup_sets Sg ss) as [ds'|] eqn:Hss; [|discriminate].
    inversion H. subst. constructor; [exact Hs | apply IH; reflexivity].
Qed.

(* ---------- nth_error / firstn ---------- *)
Lemma firstn_S_nth_error : forall A (l : list A) j c,
  nth_error l j = Some c -> firstn (S j) l = firstn j l ++ [c].
Proof.
  intros A. induction l as [|h l IH]; intros j c H.
  - destruct j; discriminate.
  - destruct j as [|j]; cbn in H.
    + inversion H. reflexivity.
    + change (firstn (S (S j)) (h :: l)) with (h :: firstn (S j) l).
      change (firstn (S j) (h :: l)) with (h :: firstn j l).
      rewrite (IH j c H). reflexivity.
Qed.

Lemma firstn_length_all : forall A (l : list A), firstn (length l) l = l.
Proof. intros. apply firstn_all. Qed.

Lemma nth_error_In_firstn : forall A (l : list A) j c,
  nth_error l j = Some c -> In c (firstn (S j) l).
Proof.
  intros A l j c H. rewrite (firstn_S_nth_error _ _ _ _ H). apply in_or_app. right. left. reflexivity.
Qed.

Lemma seq_forallb_lt : forall (p : nat -> bool) n,
  forallb p (seq 0 n) = true -> forall k, k < n -> p k = true.
Proof.
  intros p n H k Hk. rewrite forallb_forall in H. apply H. apply in_seq. lia.
Qed.

Lemma forallb_map' : forall A B (f : A -> B) (p : B -> bool) l,
  forallb p (map f l) = forallb (fun x => p (f x)) l.
Proof. intros A B f p. induction l as [|x l IH]; cbn; [reflexivity | rewrite IH; reflexivity]. Qed.

Lemma In_insert_row_or : forall r l x, In x (insert_row r l) -> x = r \/ In x l.
Proof.
  intros r. induction l as [|h l IH]; intros x H; cbn in H.
  - destruct H as [H|[]]. left. auto.
  - destruct (row_cmp r h).
    + right. exact H.
    + destruct H as [H|H]; [left; auto | right; exact H].
    + destruct H as [H|H]; [right; left; exact H|]. apply IH in H. destruct H as [H|H]; [left; exact H | right; right; exact H].
Qed.
