(* Entry points for generated cases.  A case is a Gallina term `mkRuleFn decls ram flat` printed by
   translate/ram.py::to_coq from one emitted rule function.

     check_rule_fn rf = (wf_scoped (rf_decls rf) (rf_ram rf), ram_matches_flat (rf_ram rf) (rf_flat rf))

   first component true: Props_Ram.Ram_wf_scoped_progress applies (evaluation never gets Stuck);
   second component true: Props_Ram.Ram_matches_flat_sound applies (the pushes are the conclusions instantiated by
   exactly the matches of the flat rule, each match once when new and old rows are disjoint).

   Example:  Eval vm_compute in (check_rule_fns [mkRuleFn (mkDecls [] []) RDone (mkFlat [] [])]).  *)
From Coq Require Import List NArith Bool.
From Ram Require Import Model.
Import ListNotations.

Definition check_rule_fn (rf : rule_fn) : bool * bool :=
  (wf_scoped (rf_decls rf) (rf_ram rf), ram_matches_flat (rf_ram rf) (rf_flat rf)).
Definition check_rule_fns (l : list rule_fn) : list (bool * bool) := map check_rule_fn l.

(* evaluation on a concrete table state, for replays: tables are given as an association list *)
Fixpoint table_of (l : list (frel * iage * list row)) (rel : frel) (i : iage) : list row :=
  match l with
  | [] => []
  | (rel', i', rows) :: l' => if frel_eqb rel rel' && iage_eqb i i' then rows else table_of l' rel i
  end.
Definition run_rule_fn (rf : rule_fn) (l : list (frel * iage * list row)) : result :=
  eval_ram (rf_decls rf) (index_rows (table_of l)) (rf_ram rf).
