(* Ram/FactsScoped.v -- progress: a well-scoped rule function never gets Stuck (the logic part of C09). *)
From Coq Require Import List NArith Bool PeanoNat Lia.
From Ram Require Import Model FactsBasic.
Import ListNotations.

Definition arity_of (p : setvar * setval) : setvar * nat := (fst p, sv_arity (snd p)).

Lemma lookup_set_arity : forall Sg s,
  lookup_set (map arity_of Sg) s = option_map sv_arity (lookup_set Sg s).
Proof.
  induction Sg as [|[s0 sv] Sg IH]; intros s; cbn; [reflexivity|].
  destruct (setvar_eqb s s0); [reflexivity | apply IH].
Qed.

Lemma lookup_sets_arity : forall Sg ss,
  lookup_sets (map arity_of Sg) ss = option_map (map sv_arity) (lookup_sets Sg ss).
Proof.
  intros Sg. induction ss as [|s ss IH]; cbn; [reflexivity|].
  rewrite lookup_set_arity, IH.
  destruct (lookup_set Sg s); cbn; [|reflexivity].
  destruct (lookup_sets Sg ss); reflexivity.
Qed.

Lemma memv_lookup_var : forall sg x, memv x (map fst sg) = true -> exists v, lookup_var sg x = Some v.
Proof.
  induction sg as [|[y v] sg IH]; intros x H; cbn in H; [discriminate|].
  cbn. destruct (N.eqb x y); [exists v; reflexivity | apply IH; exact H].
Qed.

Lemma memv_lookup_vars : forall sg xs,
  forallb (fun x => memv x (map fst sg)) xs = true -> exists vs, lookup_vars sg xs = Some vs.
Proof.
  intros sg. induction xs as [|x xs IH]; intros H; cbn in H.
  - exists []. reflexivity.
  - apply andb_true_iff in H. destruct H as [H1 H2].
    destruct (memv_lookup_var _ _ H1) as [v Hv]. destruct (IH H2) as [vs Hvs].
    exists (v :: vs). cbn. rewrite Hv, Hvs. reflexivity.
Qed.

Lemma seq_res_ok : forall a b, a <> Stuck -> b <> Stuck -> seq_res a b <> Stuck.
Proof. intros [|x] [|y] Ha Hb; cbn; try congruence. Qed.

Lemma concat_res_ok : forall A (f : A -> result) l,
  (forall x, In x l -> f x <> Stuck) -> concat_res (map f l) <> Stuck.
Proof.
  intros A f. induction l as [|x l IH]; intros H; cbn; [discriminate|].
  apply seq_res_ok; [apply H; left; reflexivity | apply IH; intros y Hy; apply H; right; exact Hy].
Qed.

Lemma wf_progress : forall D E r sg Sg,
  wf D (map fst sg) (map arity_of Sg) r = true -> eval D E sg Sg r <> Stuck.
Proof.
  intros D E. induction r as [|s lz e k IHk|ss x s' body IHb k IHk|ss body IHb k IHk|o args k IHk];
    intros sg Sg H; cbn [wf] in H; cbn [eval].
  - discriminate.
  - destruct e as [ix|s0 x n].
    + destruct (lookup_index (d_in D) ix) as [n|]; [|discriminate].
      apply andb_true_iff in H. destruct H as [H1 H2]. rewrite H1.
      apply (IHk sg ((s, mkSet n (E ix)) :: Sg)). exact H2.
    + rewrite lookup_set_arity in H.
      destruct (lookup_set Sg s0) as [sv|]; cbn in H; [|discriminate].
      apply andb_true_iff in H. destruct H as [H12 H3]. apply andb_true_iff in H12. destruct H12 as [H1 H2].
      destruct (memv_lookup_var _ _ H2) as [v Hv]. rewrite Hv, H1.
      apply (IHk sg ((s, mkSet n (restrict v (sv_rows sv))) :: Sg)). exact H3.
  - rewrite lookup_sets_arity in H.
    destruct (lookup_sets Sg ss) as [svs|]; cbn in H; [|discriminate].
    destruct svs as [|sv0 svs]; cbn in H; [discriminate|].
    destruct (sv_arity sv0) as [|n]; [discriminate|].
    apply andb_true_iff in H. destruct H as [H12 H3]. apply andb_true_iff in H12. destruct H12 as [H1 H2].
    rewrite forallb_map' in H1. rewrite H1.
    apply seq_res_ok.
    + apply concat_res_ok. intros vs _.
      apply (IHb ((x, fst vs) :: sg) ((s', mkSet n (snd vs)) :: Sg)). exact H2.
    + apply IHk. exact H3.
  - rewrite lookup_sets_arity in H.
    destruct (lookup_sets Sg ss) as [svs|]; cbn in H; [|discriminate].
    apply andb_true_iff in H. destruct H as [H1 H2].
    destruct (existsb nonemptyb (map sv_rows svs)).
    + apply seq_res_ok; [apply IHb; exact H1 | apply IHk; exact H2].
    + apply IHk. exact H2.
  - destruct (lookup_out (d_out D) o) as [n|]; [|discriminate].
    apply andb_true_iff in H. destruct H as [H12 H3]. apply andb_true_iff in H12. destruct H12 as [H1 H2].
    destruct (memv_lookup_vars _ _ H2) as [vs Hvs]. rewrite Hvs, H1.
    apply seq_res_ok; [discriminate | apply IHk; exact H3].
Qed.

Theorem wf_scoped_progress : forall D r, wf_scoped D r = true -> forall E, eval_ram D E r <> Stuck.
Proof. intros D r H E. unfold eval_ram. apply wf_progress. exact H. Qed.
