(* Ram/FactsErase.v -- a check-free evaluator [evalT] (unbound names read as 0 / the empty tree, no arity tests)
   and the list [envsT] of element environments at the innermost points; whenever [eval] is not Stuck it returns
   what [evalT] computes.  [evalT] and [envsT] are proof devices: the soundness proof of the validator is about them. *)
From Coq Require Import List NArith Bool PeanoNat Lia.
From Ram Require Import Model FactsBasic.
Import ListNotations.

Fixpoint evalT (E : index -> list row) (sg : list (var * N)) (Sg : list (setvar * list row)) (r : ram)
  : list push :=
  match r with
  | RDone => []
  | RDef s _ (GetIndex ix) k => evalT E sg ((s, E ix) :: Sg) k
  | RDef s _ (Restrict s0 x _) k => evalT E sg ((s, restrict (val sg x) (getset Sg s0)) :: Sg) k
  | RIter ss x s' body k =>
      flat_map (fun vs => evalT E ((x, fst vs) :: sg) ((s', snd vs) :: Sg) body) (iters (map (getset Sg) ss))
      ++ evalT E sg Sg k
  | RGuard ss body k =>
      (if existsb nonemptyb (map (getset Sg) ss) then evalT E sg Sg body else []) ++ evalT E sg Sg k
  | RPush o args k => (o, map (val sg) args) :: evalT E sg Sg k
  end.

(* the element environments with which the innermost statement sequences are reached (blocks only; what follows
   a block is ignored: the validator demands that nothing follows) *)
Fixpoint envsT (E : index -> list row) (sg : list (var * N)) (Sg : list (setvar * list row)) (r : ram)
  : list (list (var * N)) :=
  match r with
  | RDone => [sg]
  | RPush _ _ _ => [sg]
  | RDef s _ (GetIndex ix) k => envsT E sg ((s, E ix) :: Sg) k
  | RDef s _ (Restrict s0 x _) k => envsT E sg ((s, restrict (val sg x) (getset Sg s0)) :: Sg) k
  | RIter ss x s' body _ =>
      flat_map (fun vs => envsT E ((x, fst vs) :: sg) ((s', snd vs) :: Sg) body) (iters (map (getset Sg) ss))
  | RGuard ss body _ =>
      if existsb nonemptyb (map (getset Sg) ss) then envsT E sg Sg body else []
  end.

Definition strip (p : setvar * setval) : setvar * list row := (fst p, sv_rows (snd p)).

Lemma getset_strip : forall Sg s sv, lookup_set Sg s = Some sv -> getset (map strip Sg) s = sv_rows sv.
Proof.
  induction Sg as [|[s0 sv0] Sg IH]; intros s sv H; cbn in H; [discriminate|].
  unfold getset. cbn. destruct (setvar_eqb s s0).
  - inversion H. reflexivity.
  - apply IH in H. unfold getset in H. exact H.
Qed.

Lemma getsets_strip : forall Sg ss svs,
  lookup_sets Sg ss = Some svs -> map (getset (map strip Sg)) ss = map sv_rows svs.
Proof.
  intros Sg. induction ss as [|s ss IH]; intros svs H; cbn in H.
  - inversion H. reflexivity.
  - destruct (lookup_set Sg s) as [sv|] eqn:Hs; [|discriminate].
    destruct (lookup_sets Sg ss) as [svs'|] eqn:Hss; [|discriminate].
    inversion H. subst. cbn. rewrite (getset_strip _ _ _ Hs). f_equal. apply IH. reflexivity.
Qed.

Lemma lookup_var_val : forall sg x v, lookup_var sg x = Some v -> val sg x = v.
Proof. intros sg x v H. unfold val. rewrite H. reflexivity. Qed.

Lemma seq_res_pushes : forall a b l,
  seq_res a b = Pushes l -> exists la lb, a = Pushes la /\ b = Pushes lb /\ l = la ++ lb.
Proof.
  intros [|la] [|lb] l H; cbn in H; try discriminate. inversion H. exists la, lb. auto.
Qed.

Lemma concat_res_pushes : forall A (f : A -> result) (g : A -> list push) xs l,
  concat_res (map f xs) = Pushes l ->
  (forall x lx, In x xs -> f x = Pushes lx -> g x = lx) ->
  flat_map g xs = l.
Proof.
  intros A f g. induction xs as [|x xs IH]; intros l H Hfg; cbn in H.
  - inversion H. reflexivity.
  - apply seq_res_pushes in H. destruct H as [la [lb [Ha [Hb Hl]]]]. subst l. cbn.
    rewrite (Hfg x la (or_introl eq_refl) Ha). f_equal.
    apply IH; [exact Hb | intros y ly Hy; apply Hfg; right; exact Hy].
Qed.

Lemma eval_evalT : forall D E r sg Sg l,
  eval D E sg Sg r = Pushes l -> evalT E sg (map strip Sg) r = l.
Proof.
  intros D E. induction r as [|s lz e k IHk|ss x s' body IHb k IHk|ss body IHb k IHk|o args k IHk];
    intros sg Sg l H; cbn [eval] in H; cbn [evalT].
  - inversion H. reflexivity.
  - destruct e as [ix|s0 x n].
    + destruct (lookup_index (d_in D) ix) as [n|]; [|discriminate].
      destruct (Nat.eqb n (length (ix_order ix))); [|discriminate].
      apply (IHk sg ((s, mkSet n (E ix)) :: Sg) l H).
    + destruct (lookup_set Sg s0) as [sv|] eqn:Hs; [|discriminate].
      destruct (lookup_var sg x) as [v|] eqn:Hx; [|discriminate].
      destruct (Nat.eqb (sv_arity sv) (S n)); [|discriminate].
      rewrite (getset_strip _ _ _ Hs), (lookup_var_val _ _ _ Hx).
      apply (IHk sg ((s, mkSet n (restrict v (sv_rows sv))) :: Sg) l H).
  - destruct (lookup_sets Sg ss) as [svs|] eqn:Hss; [|discriminate].
    destruct svs as [|sv0 svs]; [discriminate|].
    destruct (sv_arity sv0) as [|n]; [discriminate|].
    destruct (forallb (fun sv => Nat.eqb (sv_arity sv) (S n)) svs); [|discriminate].
    apply seq_res_pushes in H. destruct H as [la [lb [Ha [Hb Hl]]]]. subst l.
    rewrite (getsets_strip _ _ _ Hss). f_equal; [|apply IHk; exact Hb].
    apply (concat_res_pushes _ _ _ _ _ Ha).
    intros vs lx _ Hvs.
    apply (IHb ((x, fst vs) :: sg) ((s', mkSet n (snd vs)) :: Sg) lx Hvs).
  - destruct (lookup_sets Sg ss) as [svs|] eqn:Hss; [|discriminate].
    rewrite (getsets_strip _ _ _ Hss).
    destruct (existsb nonemptyb (map sv_rows svs)).
    + apply seq_res_pushes in H. destruct H as [la [lb [Ha [Hb Hl]]]]. subst l.
      f_equal; [apply IHb; exact Ha | apply IHk; exact Hb].
    + cbn. apply IHk. exact H.
  - destruct (lookup_out (d_out D) o) as [n|]; [|discriminate].
    destruct (lookup_vars sg args) as [vs|] eqn:Hvs; [|discriminate].
    destruct (Nat.eqb n (length args)); [|discriminate].
    apply seq_res_pushes in H. destruct H as [la [lb [Ha [Hb Hl]]]]. subst l.
    inversion Ha. subst la. cbn. rewrite (lookup_vars_val _ _ _ Hvs). f_equal. apply IHk. exact Hb.
Qed.

Theorem eval_ram_evalT : forall D E r l, eval_ram D E r = Pushes l -> evalT E [] [] r = l.
Proof. intros D E r l H. unfold eval_ram in H. apply (eval_evalT D E r [] [] l H). Qed.
