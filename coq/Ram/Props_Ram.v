(* Props_Ram.v -- what is proved about the emitted rule functions (serves C09: scoping, C01/C16: the loops
   enumerate exactly the matches of the flat rule with the stated ages).

   Fragment covered: everything that to_ram.rs / rust_gen/rule.rs emit -- index look-ups, lazy and strict
   restrictions, iteration over one tree or over the chained new and old tree of an [all] atom, inhabitedness
   guards, diagonal indices (rel[diag=..]), any statement order that sort_ram_stmts produces.  Interleaved if/then
   rules need nothing extra: every stage is emitted as an independent rule function with the cumulative premise
   (no calls between rule functions; the translator checks that the exported fn calls each of them exactly once).
   Nothing is left partial.  The theorems are about the Gallina term that translate/ram.py reads off the emitted
   text; that translation (and rustc's typing of the text) is the trusted tie. *)
From Coq Require Import List NArith Bool.
From Coq Require Import Sorted.
From Ram Require Import Model FactsBasic FactsScoped FactsErase FactsAtom FactsOrder FactsSound Run.
Import ListNotations.

(* C09, logic part: a well-scoped rule function never gets stuck, for any declared env and any trees *)
Theorem C09_wf_scoped_progress : forall D r, wf_scoped D r = true -> forall E, eval_ram D E r <> Stuck.
Proof. exact wf_scoped_progress. Qed.
Print Assumptions C09_wf_scoped_progress.

(* C01/C16 tie, set level: the pushes of an accepted rule function are exactly the conclusions instantiated by the
   matches of its flat rule (every atom a row of its relation with the age in the comment), for all coherent trees *)
Theorem C01_ram_matches_flat_sound : forall r f, ram_matches_flat r f = true ->
  forall D E T, coherent E T -> forall l, eval_ram D E r = Pushes l ->
  forall p, In p l <-> exists w, is_match T f w /\ In p (inst (f_conc f) w).
Proof. exact ram_matches_flat_sound. Qed.
Print Assumptions C01_ram_matches_flat_sound.

(* ... in emission order: the pushes are the conclusions instantiated by a list of environments that are matches
   and cover every match *)
Theorem C01_ram_matches_flat_sound_envs : forall r f, ram_matches_flat r f = true ->
  forall D E T, coherent E T -> forall l, eval_ram D E r = Pushes l ->
  exists ms : list (list (var * N)),
    l = flat_map (fun m => inst (f_conc f) (val m)) ms /\
    (forall m, In m ms -> is_match T f (val m)) /\
    (forall w, is_match T f w -> exists m, In m ms /\ agree (rule_vars f) (val m) w).
Proof. exact ram_matches_flat_sound_envs. Qed.
Print Assumptions C01_ram_matches_flat_sound_envs.

(* C16, per rule function: each match once -- when no row is both new and old, the environments are pairwise
   different on the premise variables *)
Theorem C16_ram_matches_flat_sound_once : forall r f, ram_matches_flat r f = true ->
  forall D E T, coherent E T -> disjoint_ages T -> forall l, eval_ram D E r = Pushes l ->
  exists ms : list (list (var * N)),
    l = flat_map (fun m => inst (f_conc f) (val m)) ms /\
    (forall m, In m ms -> is_match T f (val m)) /\
    (forall w, is_match T f w -> exists m, In m ms /\ agree (rule_vars f) (val m) w) /\
    ForallOrdPairs (fun m m' => ~ agree (prem_vars f) (val m) (val m')) ms.
Proof. exact ram_matches_flat_sound_once. Qed.
Print Assumptions C16_ram_matches_flat_sound_once.

(* both checks together: the function returns, and returns the right pushes *)
Theorem C01_rule_fn_correct : forall D r f, wf_scoped D r = true -> ram_matches_flat r f = true ->
  forall E T, coherent E T ->
  exists l, eval_ram D E r = Pushes l /\
            forall p, In p l <-> exists w, is_match T f w /\ In p (inst (f_conc f) w).
Proof. exact rule_fn_correct. Qed.
Print Assumptions C01_rule_fn_correct.

(* the sorted, duplicate-free row lists computed from a table state are a coherent environment *)
Theorem Ram_index_rows_coherent : forall T, coherent (index_rows T) T.
Proof. exact index_rows_coherent. Qed.
Print Assumptions Ram_index_rows_coherent.

(* ... presented in strictly increasing lexicographic order *)
Theorem Ram_index_rows_sorted : forall T ix, StronglySorted row_lt (index_rows T ix).
Proof. exact index_rows_sorted. Qed.
Print Assumptions Ram_index_rows_sorted.

(* one atom, one index: the permuted argument row is in the tree iff the atom holds of the table of that age
   (permutation of columns and diagonals) *)
Theorem Ram_atom_link : forall E T a ix (v : valuation), coherent E T -> atom_ix_ok a ix = true ->
  (In (map v (permute (ix_order ix) (a_args a))) (E ix) <-> atom_sat_i T a (ix_age ix) v).
Proof. exact atom_link. Qed.
Print Assumptions Ram_atom_link.

(* ---- non-vacuity ---- *)
(* rule rb_0_1 of `rule rb { if p(x, x); if p(x, y); if y = f(x); then x = y; }` as emitted (relations p = 0, f = 1;
   variables x0 = 0, y1 = 1):
     if:  p(x0, y1) [new]   f(x0, y1) [old]   p[diag=0,0](x0) [all]      then:  A==A(x0, y1)  A==A(y1, x0)         *)
Definition ix_p (g : iage) := mkIndex (FRel 0%N) g [1; 0]%nat None.
Definition ix_f (g : iage) := mkIndex (FRel 1%N) g [0; 1]%nat None.
Definition ix_pd (g : iage) := mkIndex (FRel 0%N) g [0]%nat (Some [0; 0]%nat).
Definition ex_decls : decls :=
  mkDecls [(ix_f INew, 2); (ix_f IOld, 2); (ix_p INew, 2); (ix_p IOld, 2); (ix_pd INew, 1); (ix_pd IOld, 1)]%nat
          [(OEq 0%N, 2%nat)].
Definition ex_flat : flat_rule :=
  mkFlat [mkAtom (FRel 0%N) None [0; 1]%N New; mkAtom (FRel 1%N) None [0; 1]%N Old;
          mkAtom (FRel 0%N) (Some [0; 0]%nat) [0]%N All]
         [(OEq 0%N, [0; 1]%N); (OEq 0%N, [1; 0]%N)].
Definition ex_ram_with (first : index) : ram :=
  RDef (0%nat, 0%N) false (GetIndex first)
  (RDef (1%nat, 1%N) false (GetIndex (ix_f IOld))
  (RDef (2%nat, 2%N) false (GetIndex (ix_pd INew))
  (RDef (2%nat, 3%N) false (GetIndex (ix_pd IOld))
  (RIter [(0%nat, 0%N)] 1%N (0%nat, 4%N)
    (RIter [(0%nat, 4%N)] 0%N (0%nat, 5%N)
      (RDef (1%nat, 6%N) true (Restrict (1%nat, 1%N) 0%N 1%nat)
      (RDef (2%nat, 7%N) true (Restrict (2%nat, 2%N) 0%N 0%nat)
      (RDef (2%nat, 8%N) true (Restrict (2%nat, 3%N) 0%N 0%nat)
      (RGuard [(2%nat, 7%N); (2%nat, 8%N)]
        (RDef (1%nat, 9%N) true (Restrict (1%nat, 6%N) 1%N 0%nat)
        (RGuard [(1%nat, 9%N)]
          (RPush (OEq 0%N) [0; 1]%N (RPush (OEq 0%N) [1; 0]%N RDone))
          RDone))
        RDone))))
      RDone)
    RDone)))).
Definition ex_ram : ram := ex_ram_with (ix_p INew).
Definition ex_fn : rule_fn := mkRuleFn ex_decls ex_ram ex_flat.

(* p new = {(1,2),(3,4),(3,3)}, p old = {(1,1)}, f old = {(1,2),(3,4),(3,3)}, f new = {} *)
Definition ex_tables : list (frel * iage * list row) :=
  [(FRel 0%N, INew, [[1; 2]; [3; 4]; [3; 3]]%N); (FRel 0%N, IOld, [[1; 1]]%N);
   (FRel 1%N, IOld, [[1; 2]; [3; 4]; [3; 3]]%N)].

Example ex_accepted : check_rule_fn ex_fn = (true, true).
Proof. vm_compute. reflexivity. Qed.

(* the hypotheses of the soundness theorems hold of it, and the pushes are what the flat rule says:
   x0=1,y1=2 (p(1,1) is old), x0=3,y1=3 and x0=3,y1=4 (p(3,3) is new) *)
Example ex_hyps :
  ram_matches_flat ex_ram ex_flat = true /\ wf_scoped ex_decls ex_ram = true /\
  coherent (index_rows (table_of ex_tables)) (table_of ex_tables) /\
  run_rule_fn ex_fn ex_tables =
    Pushes [(OEq 0, [1; 2]); (OEq 0, [2; 1]); (OEq 0, [3; 3]); (OEq 0, [3; 3]); (OEq 0, [3; 4]); (OEq 0, [4; 3])]%N.
Proof.
  split; [vm_compute; reflexivity|]. split; [vm_compute; reflexivity|].
  split; [apply index_rows_coherent | vm_compute; reflexivity].
Qed.

(* the hypothesis of Ram_atom_link: the diagonal atom p[diag=0,0](x0) and the index p_new_eqs_0_0_order_0 *)
Example ex_atom_ix_ok : atom_ix_ok (mkAtom (FRel 0%N) (Some [0; 0]%nat) [0]%N All) (ix_pd INew) = true.
Proof. vm_compute. reflexivity. Qed.

Example ex_disjoint : disjoint_ages (table_of ex_tables).
Proof.
  intros rel r H1 H2. destruct rel as [[|p]|t]; cbn in H1, H2; try contradiction.
  - destruct H1 as [H1|[H1|[H1|[]]]]; destruct H2 as [H2|[]]; subst; discriminate.
  - destruct p as [p|p|]; cbn in H1, H2; try contradiction.
Qed.

(* the compiler bug "bind the old table for a [new] atom" is rejected, and it does change the pushes *)
Example ex_mutant_rejected :
  ram_matches_flat (ex_ram_with (ix_p IOld)) ex_flat = false /\
  eval_ram ex_decls (index_rows (table_of ex_tables)) (ex_ram_with (ix_p IOld)) = Pushes [].
Proof. split; vm_compute; reflexivity. Qed.

(* an unbound variable is Stuck, and wf_scoped says so *)
Example ex_stuck :
  wf_scoped ex_decls (RPush (OEq 0%N) [0; 1]%N RDone) = false /\
  eval_ram ex_decls (index_rows (table_of ex_tables)) (RPush (OEq 0%N) [0; 1]%N RDone) = Stuck.
Proof. split; vm_compute; reflexivity. Qed.
