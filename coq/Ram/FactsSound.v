(* Ram/FactsSound.v -- soundness of the validator [check] / [ram_matches_flat]:
   the environments with which the push sequence of an accepted rule function is reached are exactly the matches
   of the flat rule (sound and complete), and the pushes are the conclusions instantiated by them, in that order. *)
From Coq Require Import List NArith Bool PeanoNat Lia.
From Ram Require Import Model FactsBasic FactsScoped FactsErase FactsAtom.
Import ListNotations.

Lemma flat_map_flat_map : forall A B C (g : B -> list C) (h : A -> list B) l,
  flat_map g (flat_map h l) = flat_map (fun x => flat_map g (h x)) l.
Proof.
  intros A B C g h. induction l as [|x l IH]; cbn; [reflexivity|]. rewrite flat_map_app, IH. reflexivity.
Qed.

Lemma nth_error_split_firstn : forall A (l : list A) j x,
  nth_error l j = Some x -> l = firstn j l ++ x :: skipn (S j) l.
Proof.
  intros A. induction l as [|h l IH]; intros j x H; destruct j as [|j]; cbn in H; try discriminate.
  - inversion H. reflexivity.
  - cbn. f_equal. apply IH. exact H.
Qed.

Lemma Forall2_In_l : forall A B (P : A -> B -> Prop) l1 l2 x,
  Forall2 P l1 l2 -> In x l1 -> exists y, In y l2 /\ P x y.
Proof.
  intros A B P l1 l2 x H. induction H as [|a b l1 l2 Hab H IH]; intros Hx; [destruct Hx|].
  destruct Hx as [Hx|Hx].
  - subst. exists b. split; [left; reflexivity | exact Hab].
  - destruct (IH Hx) as [y [Hy Hp]]. exists y. split; [right; exact Hy | exact Hp].
Qed.
Lemma Forall2_In_r : forall A B (P : A -> B -> Prop) l1 l2 y,
  Forall2 P l1 l2 -> In y l2 -> exists x, In x l1 /\ P x y.
Proof.
  intros A B P l1 l2 y H. induction H as [|a b l1 l2 Hab H IH]; intros Hy; [destruct Hy|].
  destruct Hy as [Hy|Hy].
  - subst. exists a. split; [left; reflexivity | exact Hab].
  - destruct (IH Hy) as [x [Hx Hp]]. exists x. split; [right; exact Hx | exact Hp].
Qed.

Lemma is_push_chain_evalT : forall E conc r sg Sg,
  is_push_chain conc r = true -> evalT E sg Sg r = inst conc (val sg).
Proof.
  intros E. induction conc as [|[o args] conc IH]; intros r sg Sg H; destruct r; cbn in H; try discriminate.
  - reflexivity.
  - apply andb_true_iff in H. destruct H as [H12 H3]. apply andb_true_iff in H12. destruct H12 as [H1 H2].
    apply out_eqb_eq in H1. apply vars_eqb_eq in H2. subst. cbn. f_equal. apply IH. exact H3.
Qed.

Lemma is_done_eq : forall k, is_done k = true -> k = RDone.
Proof. intros [] H; cbn in H; try discriminate. reflexivity. Qed.

Lemma full_args_incl : forall a y, diag_wf (a_diag a) (length (a_args a)) = true ->
  In y (full_args a) -> In y (a_args a).
Proof.
  intros a y H Hy. unfold full_args in Hy. destruct (a_diag a) as [eqs|]; [|exact Hy].
  destruct (diag_wf_some _ _ H) as [H1 H2].
  apply in_map_iff in Hy. destruct Hy as [e [He Hin]]. subst y.
  apply nth_In. rewrite <- H1. apply index_of_nth. apply H2. exact Hin.
Qed.

Lemma permute_incl : forall order (args : list var) y, In y (permute order args) ->
  (forall c, In c order -> c < length args) -> In y args.
Proof.
  intros order args y Hy Hlt. unfold permute in Hy. apply in_map_iff in Hy. destruct Hy as [c [Hc Hin]].
  subst y. apply nth_In. apply Hlt. exact Hin.
Qed.

Lemma permute_onto : forall order (args : list var) y, is_perm order (length args) = true ->
  In y args -> In y (permute order args).
Proof.
  intros order args y Hp Hy. apply In_nth with (d := 0%N) in Hy. destruct Hy as [i [Hi Hn]].
  pose proof (is_perm_onto _ _ Hp i Hi) as Hin. unfold permute. apply in_map_iff. exists i. split; assumption.
Qed.

Section Sound.
  Variable E : index -> list row.
  Variable T : tables.
  Variable f : flat_rule.
  Hypothesis Hc : coherent E T.

  Definition sat (ages : nat -> age) (v : valuation) : Prop :=
    forall k a, nth_error (f_prem f) k = Some a -> atom_sat T a (ages k) v.
  Definition ext (bound : list var) (sg : list (var * N)) (v : valuation) : Prop :=
    forall y, In y bound -> v y = val sg y.
  Definition rule_vars : list var := prem_vars f ++ flat_map snd (f_conc f).

  Definition cvars (a : atom) (d : sdesc) : list var :=
    firstn (sd_j d) (permute (ix_order (sd_ix d)) (a_args a)).

  Definition desc_ok (bound : list var) (sg : list (var * N)) (R : list row) (d : sdesc) : Prop :=
    exists a, nth_error (f_prem f) (sd_atom d) = Some a /\ atom_ix_ok a (sd_ix d) = true /\
      (forall y, In y (cvars a d) -> In y bound) /\
      (forall t, In t R <-> In (map (val sg) (cvars a d) ++ t) (E (sd_ix d))).

  Definition Inv (ages : nat -> age) (bound : list var) (sets : list (setvar * sdesc)) (done : list nat)
             (sg : list (var * N)) (Sg : list (setvar * list row)) : Prop :=
    (forall s d, lookup_set sets s = Some d -> desc_ok bound sg (getset Sg s) d) /\
    (forall k, In k done -> exists a, nth_error (f_prem f) k = Some a /\ atom_sat T a (ages k) (val sg) /\
                                     (forall y, In y (a_args a) -> In y bound) /\
                                     (forall y, In y (full_args a) -> In y bound)).

  (* ----- stability ----- *)
  Lemma atom_sat_i_agree : forall a i (v w : valuation),
    (forall y, In y (full_args a) -> v y = w y) -> atom_sat_i T a i v -> atom_sat_i T a i w.
  Proof.
    intros a i v w H Hs. unfold atom_sat_i in *. rewrite <- (map_ext_in _ _ _ H). exact Hs.
  Qed.
  Lemma atom_sat_agree : forall a g (v w : valuation),
    (forall y, In y (full_args a) -> v y = w y) -> atom_sat T a g v -> atom_sat T a g w.
  Proof.
    intros a g v w H [i [Hi Hs]]. exists i. split; [exact Hi | apply (atom_sat_i_agree a i v w H Hs)].
  Qed.

  Lemma desc_weaken : forall bound bound' sg sg' R d,
    desc_ok bound sg R d -> (forall y, In y bound -> In y bound') ->
    (forall y, In y bound -> val sg' y = val sg y) -> desc_ok bound' sg' R d.
  Proof.
    intros bound bound' sg sg' R d [a [Ha [Hok [Hb Hr]]]] Hsub Hval.
    exists a. split; [exact Ha|]. split; [exact Hok|]. split.
    - intros y Hy. apply Hsub, Hb, Hy.
    - intros t. rewrite (Hr t).
      rewrite (map_ext_in (val sg') (val sg) (cvars a d)); [tauto|].
      intros y Hy. apply Hval, Hb, Hy.
  Qed.

  Lemma desc_step : forall bound sg R d x,
    desc_ok bound sg R d -> next_var f d = Some x -> In x bound ->
    desc_ok bound sg (restrict (val sg x) R) (mkD (sd_atom d) (sd_ix d) (S (sd_j d))).
  Proof.
    intros bound sg R d x [a [Ha [Hok [Hb Hr]]]] Hn Hx.
    unfold next_var in Hn. rewrite Ha in Hn.
    exists a. cbn [sd_atom sd_ix sd_j]. split; [exact Ha|]. split; [exact Hok|].
    assert (Hcv : cvars a (mkD (sd_atom d) (sd_ix d) (S (sd_j d))) = cvars a d ++ [x]).
    { unfold cvars. cbn [sd_ix sd_j]. apply firstn_S_nth_error. exact Hn. }
    rewrite Hcv. split.
    - intros y Hy. apply in_app_or in Hy. destruct Hy as [Hy|[Hy|[]]]; [apply Hb, Hy | subst; exact Hx].
    - intros t. rewrite In_restrict, (Hr (val sg x :: t)), map_app, <- app_assoc. cbn. tauto.
  Qed.

  Lemma next_var_in_args : forall d a x, nth_error (f_prem f) (sd_atom d) = Some a ->
    atom_ix_ok a (sd_ix d) = true -> next_var f d = Some x -> In x (a_args a).
  Proof.
    intros d a x Ha Hok Hn. unfold next_var in Hn. rewrite Ha in Hn. apply nth_error_In in Hn.
    destruct (atom_ix_ok_parts _ _ Hok) as [_ [_ [Hp _]]].
    apply (permute_incl _ _ _ Hn). apply is_perm_lt. exact Hp.
  Qed.

  (* an exhausted set: every argument of its atom is bound, and it is inhabited iff the atom holds *)
  Lemma exhausted_bound : forall bound sg R d a, desc_ok bound sg R d ->
    nth_error (f_prem f) (sd_atom d) = Some a -> exhausted d = true ->
    (forall y, In y (a_args a) -> In y bound) /\ (forall y, In y (full_args a) -> In y bound).
  Proof.
    intros bound sg R d a [a' [Ha' [Hok [Hb _]]]] Ha Hex. rewrite Ha in Ha'. inversion Ha'. subst a'.
    unfold exhausted in Hex. apply Nat.eqb_eq in Hex.
    destruct (atom_ix_ok_parts _ _ Hok) as [_ [_ [Hp Hwf]]].
    assert (Hall : forall y, In y (a_args a) -> In y bound).
    { intros y Hy. apply Hb. unfold cvars. rewrite Hex, <- (permute_length (ix_order (sd_ix d)) (a_args a)), firstn_all.
      apply permute_onto; assumption. }
    split; [exact Hall|]. intros y Hy. apply Hall. apply full_args_incl; assumption.
  Qed.

  Lemma exhausted_sat : forall bound sg R d a, desc_ok bound sg R d ->
    nth_error (f_prem f) (sd_atom d) = Some a -> exhausted d = true ->
    ((exists t, In t R) <-> atom_sat_i T a (ix_age (sd_ix d)) (val sg)).
  Proof.
    intros bound sg R d a [a' [Ha' [Hok [Hb Hr]]]] Ha Hex. rewrite Ha in Ha'. inversion Ha'. subst a'.
    unfold exhausted in Hex. apply Nat.eqb_eq in Hex.
    assert (Hcv : cvars a d = permute (ix_order (sd_ix d)) (a_args a)).
    { unfold cvars. rewrite Hex, <- (permute_length (ix_order (sd_ix d)) (a_args a)). apply firstn_all. }
    rewrite Hcv in Hr. rewrite <- (atom_link E T a (sd_ix d) (val sg) Hc Hok). split.
    - intros [t Ht]. apply Hr in Ht. pose proof (coherent_length E T _ _ Hc Ht) as Hl.
      rewrite app_length, map_length, permute_length in Hl.
      destruct t as [|n t]; [|cbn in Hl; lia]. rewrite app_nil_r in Ht. exact Ht.
    - intros H. exists []. apply Hr. rewrite app_nil_r. exact H.
  Qed.

  (* ----- the pushes are the conclusions instantiated by the innermost environments ----- *)
  Lemma check_pushes : forall r ages bound sets done sg Sg,
    check f ages bound sets done r = true ->
    evalT E sg Sg r = flat_map (fun m => inst (f_conc f) (val m)) (envsT E sg Sg r).
  Proof.
    induction r as [|s lz e k IHk|ss x s' body IHb k IHk|ss body IHb k IHk|o args k IHk];
      intros ages bound sets done sg Sg H.
    - cbn [check] in H. apply andb_true_iff in H. destruct H as [_ H].
      rewrite (is_push_chain_evalT E _ _ sg Sg H). cbn. rewrite app_nil_r. reflexivity.
    - destruct e as [ix|s0 x n]; cbn [check] in H; cbn [evalT envsT].
      + destruct (nth_error (f_prem f) (fst s)) as [a|]; [|discriminate].
        apply andb_true_iff in H. destruct H as [_ H]. apply (IHk _ _ _ _ _ _ H).
      + destruct (lookup_set sets s0) as [d|]; [|discriminate].
        destruct (next_var f d) as [y|]; [|discriminate].
        apply andb_true_iff in H. destruct H as [_ H]. apply (IHk _ _ _ _ _ _ H).
    - cbn [check] in H. apply andb_true_iff in H. destruct H as [Hk H]. apply is_done_eq in Hk. subst k.
      destruct (lookup_sets sets ss) as [[|d0 ds]|]; try discriminate.
      apply andb_true_iff in H. destruct H as [_ H]. cbn [forallb] in H.
      apply andb_true_iff in H. destruct H as [H _]. apply andb_true_iff in H. destruct H as [_ H].
      cbn [evalT envsT]. rewrite app_nil_r, flat_map_flat_map. apply flat_map_ext. intros vs.
      apply (IHb _ _ _ _ _ _ H).
    - cbn [check] in H. apply andb_true_iff in H. destruct H as [Hk H]. apply is_done_eq in Hk. subst k.
      destruct (lookup_sets sets ss) as [[|d0 ds]|]; try discriminate.
      apply andb_true_iff in H. destruct H as [_ H].
      cbn [evalT envsT]. rewrite app_nil_r.
      destruct (existsb nonemptyb (map (getset Sg) ss)); [apply (IHb _ _ _ _ _ _ H) | reflexivity].
    - cbn [check] in H. apply andb_true_iff in H. destruct H as [_ H].
      rewrite (is_push_chain_evalT E _ _ sg Sg H). cbn. rewrite app_nil_r. reflexivity.
  Qed.

  (* ----- leaf ----- *)
  Lemma leaf_sound : forall ages bound sets done sg Sg r,
    forallb (fun k => memn k done) (seq 0 (length (f_prem f))) &&
    forallb (fun x => memv x bound) (flat_map snd (f_conc f)) && is_push_chain (f_conc f) r = true ->
    Inv ages bound sets done sg Sg ->
    (ext bound sg (val sg) /\ sat ages (val sg)) /\
    (forall w, ext bound sg w -> sat ages w -> agree rule_vars (val sg) w).
  Proof.
    intros ages bound sets done sg Sg r H [_ Hd].
    apply andb_true_iff in H. destruct H as [H12 _]. apply andb_true_iff in H12. destruct H12 as [H1 H2].
    assert (Hdone : forall k a, nth_error (f_prem f) k = Some a -> In k done).
    { intros k a Hk. apply memn_In. apply (seq_forallb_lt _ _ H1).
      apply nth_error_Some. rewrite Hk. discriminate. }
    split.
    - split; [intros y _; reflexivity|].
      intros k a Hk. destruct (Hd k (Hdone k a Hk)) as [a' [Ha' [Hs _]]].
      rewrite Hk in Ha'. inversion Ha'. subst a'. exact Hs.
    - intros w Hext _ x Hx. symmetry. apply Hext. unfold rule_vars in Hx. apply in_app_or in Hx.
      destruct Hx as [Hx|Hx].
      + unfold prem_vars in Hx. apply in_flat_map in Hx. destruct Hx as [a [Ha Hxa]].
        apply In_nth_error in Ha. destruct Ha as [k Hk].
        destruct (Hd k (Hdone k a Hk)) as [a' [Ha' [_ [Hb _]]]].
        rewrite Hk in Ha'. inversion Ha'. subst a'. apply Hb. exact Hxa.
      + rewrite forallb_forall in H2. apply memv_In. apply H2. exact Hx.
  Qed.

  (* ----- Inv is preserved by the bindings ----- *)
  Lemma Inv_bind_set : forall ages bound sets done sg Sg s d R,
    Inv ages bound sets done sg Sg -> desc_ok bound sg R d ->
    Inv ages bound ((s, d) :: sets) done sg ((s, R) :: Sg).
  Proof.
    intros ages bound sets done sg Sg s d R [Hs Hd] Hnew. split; [|exact Hd].
    intros s1 d1 H1. rewrite lookup_set_cons in H1. rewrite getset_cons.
    destruct (setvar_eqb s1 s); [inversion H1; subst; exact Hnew | apply Hs; exact H1].
  Qed.

  Lemma ages_of_age_of_iage : forall i, ages_of (age_of_iage i) = [i].
  Proof. intros [|]; reflexivity. Qed.

  (* binding x := v by an iteration over the set with description d, whose atom is k0 *)
  Lemma Inv_bind_iter : forall ages bound sets done sg Sg d x v s' R a,
    Inv ages bound sets done sg Sg ->
    desc_ok bound sg R d -> nth_error (f_prem f) (sd_atom d) = Some a ->
    next_var f d = Some x -> ~ In x bound -> In v (heads R) ->
    Inv (upd ages (sd_atom d) (age_of_iage (ix_age (sd_ix d)))) (x :: bound)
        ((s', mkD (sd_atom d) (sd_ix d) (S (sd_j d))) :: sets)
        (if Nat.eqb (S (sd_j d)) (length (ix_order (sd_ix d))) then sd_atom d :: done else done)
        ((x, v) :: sg) ((s', restrict v R) :: Sg).
  Proof.
    intros ages bound sets done sg Sg d x v s' R a [Hs Hd] Hdesc Ha Hn Hx Hv.
    assert (Hsub : forall y, In y bound -> In y (x :: bound)) by (intros y Hy; right; exact Hy).
    assert (Hval : forall y, In y bound -> val ((x, v) :: sg) y = val sg y).
    { intros y Hy. apply val_cons_neq. intros e. subst. contradiction. }
    assert (Hnew : desc_ok (x :: bound) ((x, v) :: sg) (restrict v R) (mkD (sd_atom d) (sd_ix d) (S (sd_j d)))).
    { pose proof (desc_weaken _ _ _ _ _ _ Hdesc Hsub Hval) as Hw.
      pose proof (desc_step _ _ _ _ x Hw Hn (or_introl eq_refl)) as Hst.
      rewrite val_cons_eq in Hst. exact Hst. }
    destruct Hdesc as [a' [Ha' [Hok _]]]. rewrite Ha in Ha'. inversion Ha'. subst a'.
    pose proof (next_var_in_args d a x Ha Hok Hn) as Hxa.
    split.
    - intros s1 d1 H1. rewrite lookup_set_cons in H1. rewrite getset_cons.
      destruct (setvar_eqb s1 s'); [inversion H1; subst; exact Hnew|].
      apply (desc_weaken bound (x :: bound) sg ((x, v) :: sg)); [apply Hs; exact H1 | exact Hsub | exact Hval].
    - assert (Hold : forall k, In k done -> exists a0, nth_error (f_prem f) k = Some a0 /\
                atom_sat T a0 (upd ages (sd_atom d) (age_of_iage (ix_age (sd_ix d))) k) (val ((x, v) :: sg)) /\
                (forall y, In y (a_args a0) -> In y (x :: bound)) /\
                (forall y, In y (full_args a0) -> In y (x :: bound))).
      { intros k Hk. destruct (Hd k Hk) as [a0 [Ha0 [Hsat [Hb1 Hb2]]]].
        exists a0. split; [exact Ha0|]. split; [|split; intros y Hy; right; auto].
        unfold upd. destruct (Nat.eqb_spec k (sd_atom d)) as [e|ne].
        - subst k. rewrite Ha in Ha0. inversion Ha0. subst a0. exfalso. apply Hx. apply Hb1. exact Hxa.
        - apply (atom_sat_agree a0 _ (val sg)); [|exact Hsat].
          intros y Hy. symmetry. apply Hval. apply Hb2. exact Hy. }
      destruct (Nat.eqb (S (sd_j d)) (length (ix_order (sd_ix d)))) eqn:Hex; [|exact Hold].
      intros k [Hk|Hk]; [|apply Hold; exact Hk]. subst k.
      assert (Hex' : exhausted (mkD (sd_atom d) (sd_ix d) (S (sd_j d))) = true) by exact Hex.
      apply In_heads in Hv. destruct Hv as [t Ht]. apply In_restrict in Ht.
      pose proof (exhausted_bound _ _ _ _ a Hnew Ha Hex') as [Hb1 Hb2].
      pose proof (proj1 (exhausted_sat _ _ _ _ a Hnew Ha Hex') (ex_intro _ t Ht)) as Hsat.
      exists a. split; [exact Ha|]. split; [|split; assumption].
      unfold upd. rewrite Nat.eqb_refl. exists (ix_age (sd_ix d)). cbn [sd_ix] in Hsat.
      split; [rewrite ages_of_age_of_iage; left; reflexivity | exact Hsat].
  Qed.

  (* ----- soundness and completeness of the enumeration ----- *)
  Lemma check_sound : forall r ages bound sets done sg Sg,
    check f ages bound sets done r = true -> Inv ages bound sets done sg Sg ->
    (forall m, In m (envsT E sg Sg r) -> ext bound sg (val m) /\ sat ages (val m)) /\
    (forall w, ext bound sg w -> sat ages w ->
               exists m, In m (envsT E sg Sg r) /\ agree rule_vars (val m) w).
  Proof.
    induction r as [|s lz e k IHk|ss x s' body IHb k IHk|ss body IHb k IHk|o args k IHk];
      intros ages bound sets done sg Sg H HI.
    - cbn [check] in H. destruct (leaf_sound _ _ _ _ _ _ _ H HI) as [H1 H2]. cbn [envsT]. split.
      + intros m [Hm|[]]. subst m. exact H1.
      + intros w Hw Hs. exists sg. split; [left; reflexivity | apply H2; assumption].
    - destruct e as [ix|s0 x n]; cbn [check] in H; cbn [envsT].
      + destruct (nth_error (f_prem f) (fst s)) as [a|] eqn:Ha; [|discriminate].
        apply andb_true_iff in H. destruct H as [Hok H].
        apply (IHk _ _ _ _ _ _ H). apply Inv_bind_set; [exact HI|].
        exists a. cbn [sd_atom sd_ix sd_j]. split; [exact Ha|]. split; [exact Hok|].
        unfold cvars. cbn [sd_j firstn]. split; [intros y []|]. intros t. cbn. tauto.
      + destruct (lookup_set sets s0) as [d|] eqn:Hd; [|discriminate].
        destruct (next_var f d) as [y|] eqn:Hn; [|discriminate].
        apply andb_true_iff in H. destruct H as [H12 H]. apply andb_true_iff in H12. destruct H12 as [H1 H2].
        apply N.eqb_eq in H1. subst y. apply memv_In in H2.
        apply (IHk _ _ _ _ _ _ H). apply Inv_bind_set; [exact HI|].
        apply desc_step; [apply (proj1 HI); exact Hd | exact Hn | exact H2].
    - (* RIter *)
      cbn [check] in H. apply andb_true_iff in H. destruct H as [Hk H]. apply is_done_eq in Hk. subst k.
      destruct (lookup_sets sets ss) as [dl|] eqn:Hss; [|discriminate].
      destruct dl as [|d0 ds]; [discriminate|].
      apply andb_true_iff in H. destruct H as [H12 H3]. apply andb_true_iff in H12. destruct H12 as [H1 H2].
      apply negb_true_iff in H1.
      assert (Hx : ~ In x bound). { intros Hin. apply memv_In in Hin. congruence. }
      apply iages_eqb_eq in H2. apply lookup_sets_spec in Hss. rewrite forallb_forall in H3.
      (* what the check says about one member of the chain *)
      assert (Hmember : forall s d, In d (d0 :: ds) -> lookup_set sets s = Some d ->
                exists a, nth_error (f_prem f) (sd_atom d) = Some a /\ sd_atom d = sd_atom d0 /\
                          next_var f d = Some x /\ desc_ok bound sg (getset Sg s) d /\
                          check f (upd ages (sd_atom d) (age_of_iage (ix_age (sd_ix d)))) (x :: bound)
                                ((s', mkD (sd_atom d) (sd_ix d) (S (sd_j d))) :: sets)
                                (if Nat.eqb (S (sd_j d)) (length (ix_order (sd_ix d))) then sd_atom d :: done else done)
                                body = true).
      { intros s d Hd Hl. pose proof (H3 d Hd) as Hd3.
        apply andb_true_iff in Hd3. destruct Hd3 as [Hd12 Hd3]. apply andb_true_iff in Hd12. destruct Hd12 as [Hd1 Hd2].
        apply Nat.eqb_eq in Hd1. destruct (next_var f d) as [y|] eqn:Hn; [|discriminate].
        apply N.eqb_eq in Hd2. subst y.
        pose proof (proj1 HI s d Hl) as Hdesc. destruct Hdesc as [a [Ha Hrest]].
        rewrite <- Hd1 in Hd3.
        exists a. split; [exact Ha|]. split; [exact Hd1|]. split; [reflexivity|].
        split; [exists a; split; [exact Ha | exact Hrest] | exact Hd3]. }
      cbn [envsT]. split.
      + intros m Hm. apply in_flat_map in Hm. destruct Hm as [[v sub] [Hvs Hm]]. cbn [fst snd] in Hm.
        apply In_iters in Hvs. destruct Hvs as [R [HR [Hv Hsub]]]. subst sub.
        apply in_map_iff in HR. destruct HR as [s [HRs Hs]]. subst R.
        destruct (Forall2_In_l _ _ _ _ _ s Hss Hs) as [d [Hd Hl]].
        destruct (Hmember s d Hd Hl) as [a [Ha [Hat [Hn [Hdesc Hchk]]]]].
        pose proof (Inv_bind_iter ages bound sets done sg Sg d x v s' (getset Sg s) a HI Hdesc Ha Hn Hx Hv) as HI'.
        destruct (IHb _ _ _ _ _ _ Hchk HI') as [IH1 _]. destruct (IH1 m Hm) as [He Hsat]. split.
        * intros y Hy. rewrite (He y (or_intror Hy)). apply val_cons_neq. intros e. subst. contradiction.
        * intros k ak Hk. pose proof (Hsat k ak Hk) as Hsk. unfold upd in Hsk.
          destruct (Nat.eqb_spec k (sd_atom d)) as [e|ne]; [|exact Hsk]. subst k.
          destruct Hsk as [i [Hi Hsi]]. rewrite ages_of_age_of_iage in Hi. destruct Hi as [Hi|[]]. subst i.
          exists (ix_age (sd_ix d)). split; [|exact Hsi]. rewrite Hat, <- H2. apply in_map_iff. exists d. auto.
      + intros w Hw Hsw.
        (* the atom served by the chain *)
        assert (Hd0 : In d0 (d0 :: ds)) by (left; reflexivity).
        destruct (Forall2_In_r _ _ _ _ _ d0 Hss Hd0) as [s0 [Hs0 Hl0]].
        destruct (Hmember s0 d0 Hd0 Hl0) as [a [Ha _]].
        destruct (Hsw _ a Ha) as [i [Hi Hsi]].
        rewrite <- H2 in Hi. apply in_map_iff in Hi. destruct Hi as [d [Hdi Hd]]. subst i.
        destruct (Forall2_In_r _ _ _ _ _ d Hss Hd) as [s [Hs Hl]].
        destruct (Hmember s d Hd Hl) as [a' [Ha' [Hat [Hn [Hdesc Hchk]]]]].
        rewrite Hat, Ha in Ha'. inversion Ha'. subst a'. clear Ha'.
        rewrite <- Hat in Ha.
        pose proof Hdesc as Hdesc'. destruct Hdesc' as [a' [Ha' [Hok [Hb Hr]]]].
        rewrite Ha in Ha'. inversion Ha'. subst a'. clear Ha'.
        (* the row of the atom under w is in the tree; split it at column j *)
        pose proof (proj2 (atom_link E T a (sd_ix d) w Hc Hok) Hsi) as Hrow.
        assert (Hnv : nth_error (permute (ix_order (sd_ix d)) (a_args a)) (sd_j d) = Some x).
        { unfold next_var in Hn. rewrite Ha in Hn. exact Hn. }
        rewrite (nth_error_split_firstn _ _ _ _ Hnv) in Hrow. rewrite map_app in Hrow. cbn [map] in Hrow.
        assert (Hcv : map w (firstn (sd_j d) (permute (ix_order (sd_ix d)) (a_args a))) = map (val sg) (cvars a d)).
        { unfold cvars. apply map_ext_in. intros y Hy. apply Hw. apply Hb. exact Hy. }
        unfold valuation, var in *. rewrite Hcv in Hrow. apply Hr in Hrow.
        set (v := w x) in *.
        assert (Hv : In v (heads (getset Sg s))).
        { apply In_heads. eexists. exact Hrow. }
        pose proof (Inv_bind_iter ages bound sets done sg Sg d x v s' (getset Sg s) a HI Hdesc Ha Hn Hx Hv) as HI'.
        destruct (IHb _ _ _ _ _ _ Hchk HI') as [_ IH2].
        assert (Hw' : ext (x :: bound) ((x, v) :: sg) w).
        { intros y [Hy|Hy].
          - subst y. rewrite val_cons_eq. reflexivity.
          - rewrite val_cons_neq; [apply Hw; exact Hy | intros e; subst; contradiction]. }
        assert (Hsw' : sat (upd ages (sd_atom d) (age_of_iage (ix_age (sd_ix d)))) w).
        { intros k ak Hk. unfold upd. destruct (Nat.eqb_spec k (sd_atom d)) as [e|ne]; [|apply Hsw; exact Hk].
          subst k. rewrite Ha in Hk. inversion Hk. subst ak.
          exists (ix_age (sd_ix d)). split; [rewrite ages_of_age_of_iage; left; reflexivity | exact Hsi]. }
        destruct (IH2 w Hw' Hsw') as [m [Hm Hag]]. exists m. split; [|exact Hag].
        apply in_flat_map. exists (v, restrict v (getset Sg s)). split; [|exact Hm].
        apply In_iters. exists (getset Sg s). split; [apply in_map; exact Hs | split; [exact Hv | reflexivity]].
    - (* RGuard *)
      cbn [check] in H. apply andb_true_iff in H. destruct H as [Hk H]. apply is_done_eq in Hk. subst k.
      destruct (lookup_sets sets ss) as [dl|] eqn:Hss; [|discriminate].
      destruct dl as [|d0 ds]; [discriminate|].
      apply andb_true_iff in H. destruct H as [H12 H3]. apply andb_true_iff in H12. destruct H12 as [H1 H2].
      apply iages_eqb_eq in H1. apply lookup_sets_spec in Hss. rewrite forallb_forall in H2.
      assert (Hmember : forall s d, In d (d0 :: ds) -> lookup_set sets s = Some d ->
                exists a, nth_error (f_prem f) (sd_atom d0) = Some a /\ sd_atom d = sd_atom d0 /\
                          exhausted d = true /\ desc_ok bound sg (getset Sg s) d).
      { intros s d Hd Hl. pose proof (H2 d Hd) as Hd2. apply andb_true_iff in Hd2. destruct Hd2 as [Hd1 Hd2].
        apply Nat.eqb_eq in Hd1. pose proof (proj1 HI s d Hl) as Hdesc. destruct Hdesc as [a [Ha Hrest]].
        exists a. split; [rewrite <- Hd1; exact Ha|]. split; [exact Hd1|]. split; [exact Hd2|].
        exists a. split; [exact Ha | exact Hrest]. }
      assert (Hd0 : In d0 (d0 :: ds)) by (left; reflexivity).
      destruct (Forall2_In_r _ _ _ _ _ d0 Hss Hd0) as [s0 [Hs0 Hl0]].
      destruct (Hmember s0 d0 Hd0 Hl0) as [a [Ha [_ [Hex0 Hdesc0]]]].
      destruct (exhausted_bound _ _ _ _ a Hdesc0 Ha Hex0) as [Hb1 Hb2].
      (* the guard holds iff the atom holds of the current environment *)
      assert (Hguard : existsb nonemptyb (map (getset Sg) ss) = true <-> atom_sat T a (ages (sd_atom d0)) (val sg)).
      { rewrite existsb_exists. split.
        - intros [R [HR Hne]]. apply in_map_iff in HR. destruct HR as [s [HRs Hs]]. subst R.
          apply nonemptyb_true in Hne.
          destruct (Forall2_In_l _ _ _ _ _ s Hss Hs) as [d [Hd Hl]].
          destruct (Hmember s d Hd Hl) as [a' [Ha' [Hat [Hex Hdesc]]]].
          rewrite Ha in Ha'. inversion Ha'. subst a'. rewrite <- Hat in Ha.
          exists (ix_age (sd_ix d)). split; [rewrite <- H1; apply in_map_iff; exists d; auto|].
          apply (proj1 (exhausted_sat _ _ _ _ a Hdesc Ha Hex) Hne).
        - intros [i [Hi Hsi]]. rewrite <- H1 in Hi. apply in_map_iff in Hi. destruct Hi as [d [Hdi Hd]]. subst i.
          destruct (Forall2_In_r _ _ _ _ _ d Hss Hd) as [s [Hs Hl]].
          destruct (Hmember s d Hd Hl) as [a' [Ha' [Hat [Hex Hdesc]]]].
          rewrite Ha in Ha'. inversion Ha'. subst a'. rewrite <- Hat in Ha.
          exists (getset Sg s). split; [apply in_map; exact Hs|]. apply nonemptyb_true.
          apply (proj2 (exhausted_sat _ _ _ _ a Hdesc Ha Hex) Hsi). }
      assert (HI' : atom_sat T a (ages (sd_atom d0)) (val sg) -> Inv ages bound sets (sd_atom d0 :: done) sg Sg).
      { intros Hs. split; [exact (proj1 HI)|]. intros k [Hk|Hk]; [|apply (proj2 HI); exact Hk].
        subst k. exists a. split; [exact Ha|]. split; [exact Hs|]. split; assumption. }
      cbn [envsT]. split.
      + intros m Hm. destruct (existsb nonemptyb (map (getset Sg) ss)) eqn:Hg; [|destruct Hm].
        destruct (IHb _ _ _ _ _ _ H3 (HI' (proj1 Hguard eq_refl))) as [IH1 _]. apply IH1. exact Hm.
      + intros w Hw Hsw.
        assert (Hs : atom_sat T a (ages (sd_atom d0)) (val sg)).
        { apply (atom_sat_agree a _ w); [|apply Hsw; exact Ha]. intros y Hy. apply Hw. apply Hb2. exact Hy. }
        rewrite (proj2 Hguard Hs).
        destruct (IHb _ _ _ _ _ _ H3 (HI' Hs)) as [_ IH2]. apply IH2; assumption.
    - cbn [check] in H. destruct (leaf_sound _ _ _ _ _ _ _ H HI) as [H1 H2]. cbn [envsT]. split.
      + intros m [Hm|[]]. subst m. exact H1.
      + intros w Hw Hs. exists sg. split; [left; reflexivity | apply H2; assumption].
  Qed.

  (* ----- each match once ----- *)
  Definition differ (m m' : list (var * N)) : Prop := ~ agree (prem_vars f) (val m) (val m').
  Definition distinct (l : list (list (var * N))) : Prop := ForallOrdPairs differ l.

  Lemma distinct_app : forall l1 l2, distinct l1 -> distinct l2 ->
    (forall a b, In a l1 -> In b l2 -> differ a b) -> distinct (l1 ++ l2).
  Proof.
    unfold distinct. induction l1 as [|a l1 IH]; intros l2 H1 H2 H12; cbn; [exact H2|].
    inversion H1 as [|x y Hfa Hop]. subst. constructor.
    - apply Forall_app. split; [exact Hfa|]. apply Forall_forall. intros b Hb. apply H12; [left; reflexivity | exact Hb].
    - apply IH; [exact Hop | exact H2 | intros a' b Ha' Hb; apply H12; [right; exact Ha' | exact Hb]].
  Qed.

  Lemma distinct_flat_map : forall A (g : A -> list (list (var * N))) l, NoDup l ->
    (forall v, In v l -> distinct (g v)) ->
    (forall v v' a b, In v l -> In v' l -> v <> v' -> In a (g v) -> In b (g v') -> differ a b) ->
    distinct (flat_map g l).
  Proof.
    intros A g. induction l as [|v l IH]; intros Hnd H1 H2; cbn; [constructor|].
    inversion Hnd as [|x y Hnotin Hnd']. subst. apply distinct_app.
    - apply H1. left. reflexivity.
    - apply IH; [exact Hnd' | intros v' Hv'; apply H1; right; exact Hv'|].
      intros v1 v2 a b Hv1 Hv2 Hne. apply H2; [right; exact Hv1 | right; exact Hv2 | exact Hne].
    - intros a b Ha Hb. apply in_flat_map in Hb. destruct Hb as [v' [Hv' Hb]].
      apply (H2 v v' a b); [left; reflexivity | right; exact Hv' | intros e; subst; contradiction | exact Ha | exact Hb].
  Qed.

  Lemma flat_map_map : forall A B C (g : B -> list C) (h : A -> B) l,
    flat_map g (map h l) = flat_map (fun x => g (h x)) l.
  Proof. intros A B C g h. induction l as [|x l IH]; cbn; [reflexivity | rewrite IH; reflexivity]. Qed.

  Lemma args_in_prem_vars : forall k a y, nth_error (f_prem f) k = Some a -> In y (a_args a) -> In y (prem_vars f).
  Proof.
    intros k a y Hk Hy. unfold prem_vars. apply in_flat_map. exists a. split; [|exact Hy].
    apply nth_error_In in Hk. exact Hk.
  Qed.

  Lemma check_distinct : disjoint_ages T -> forall r ages bound sets done sg Sg,
    check f ages bound sets done r = true -> Inv ages bound sets done sg Sg ->
    distinct (envsT E sg Sg r).
  Proof.
    intros Hdis.
    induction r as [|s lz e k IHk|ss x s' body IHb k IHk|ss body IHb k IHk|o args k IHk];
      intros ages bound sets done sg Sg H HI.
    - cbn [envsT]. constructor; [constructor | constructor].
    - destruct e as [ix|s0 x n]; cbn [check] in H; cbn [envsT].
      + destruct (nth_error (f_prem f) (fst s)) as [a|] eqn:Ha; [|discriminate].
        apply andb_true_iff in H. destruct H as [Hok H].
        apply (IHk _ _ _ _ _ _ H). apply Inv_bind_set; [exact HI|].
        exists a. cbn [sd_atom sd_ix sd_j]. split; [exact Ha|]. split; [exact Hok|].
        unfold cvars. cbn [sd_j firstn]. split; [intros y []|]. intros t. cbn. tauto.
      + destruct (lookup_set sets s0) as [d|] eqn:Hd; [|discriminate].
        destruct (next_var f d) as [y|] eqn:Hn; [|discriminate].
        apply andb_true_iff in H. destruct H as [H12 H]. apply andb_true_iff in H12. destruct H12 as [H1 H2].
        apply N.eqb_eq in H1. subst y. apply memv_In in H2.
        apply (IHk _ _ _ _ _ _ H). apply Inv_bind_set; [exact HI|].
        apply desc_step; [apply (proj1 HI); exact Hd | exact Hn | exact H2].
    - (* RIter *)
      cbn [check] in H. apply andb_true_iff in H. destruct H as [Hk H]. apply is_done_eq in Hk. subst k.
      destruct (lookup_sets sets ss) as [dl|] eqn:Hss; [|discriminate].
      destruct dl as [|d0 ds]; [discriminate|].
      apply andb_true_iff in H. destruct H as [H12 H3]. apply andb_true_iff in H12. destruct H12 as [H1 H2].
      apply negb_true_iff in H1.
      assert (Hx : ~ In x bound). { intros Hin. apply memv_In in Hin. congruence. }
      apply iages_eqb_eq in H2. apply lookup_sets_spec in Hss. rewrite forallb_forall in H3.
      assert (Hmember : forall s d, In d (d0 :: ds) -> lookup_set sets s = Some d ->
                exists a, nth_error (f_prem f) (sd_atom d) = Some a /\ sd_atom d = sd_atom d0 /\
                          next_var f d = Some x /\ desc_ok bound sg (getset Sg s) d /\
                          check f (upd ages (sd_atom d) (age_of_iage (ix_age (sd_ix d)))) (x :: bound)
                                ((s', mkD (sd_atom d) (sd_ix d) (S (sd_j d))) :: sets)
                                (if Nat.eqb (S (sd_j d)) (length (ix_order (sd_ix d))) then sd_atom d :: done else done)
                                body = true).
      { intros s d Hd Hl. pose proof (H3 d Hd) as Hd3.
        apply andb_true_iff in Hd3. destruct Hd3 as [Hd12 Hd3]. apply andb_true_iff in Hd12. destruct Hd12 as [Hd1 Hd2].
        apply Nat.eqb_eq in Hd1. destruct (next_var f d) as [y|] eqn:Hn; [|discriminate].
        apply N.eqb_eq in Hd2. subst y.
        pose proof (proj1 HI s d Hl) as Hdesc. destruct Hdesc as [a [Ha Hrest]].
        rewrite <- Hd1 in Hd3.
        exists a. split; [exact Ha|]. split; [exact Hd1|]. split; [reflexivity|].
        split; [exists a; split; [exact Ha | exact Hrest] | exact Hd3]. }
      (* one member of the chain: distinct environments, all extending x := v, all satisfying the narrowed ages *)
      assert (Hone : forall s d, In d (d0 :: ds) -> lookup_set sets s = Some d ->
                distinct (flat_map (fun vs => envsT E ((x, fst vs) :: sg) ((s', snd vs) :: Sg) body)
                                   (iter_restrictions (getset Sg s))) /\
                forall m, In m (flat_map (fun vs => envsT E ((x, fst vs) :: sg) ((s', snd vs) :: Sg) body)
                                         (iter_restrictions (getset Sg s))) ->
                          sat (upd ages (sd_atom d) (age_of_iage (ix_age (sd_ix d)))) (val m)).
      { intros s d Hd Hl. destruct (Hmember s d Hd Hl) as [a [Ha [Hat [Hn [Hdesc Hchk]]]]].
        assert (HI' : forall v, In v (heads (getset Sg s)) ->
                  Inv (upd ages (sd_atom d) (age_of_iage (ix_age (sd_ix d)))) (x :: bound)
                      ((s', mkD (sd_atom d) (sd_ix d) (S (sd_j d))) :: sets)
                      (if Nat.eqb (S (sd_j d)) (length (ix_order (sd_ix d))) then sd_atom d :: done else done)
                      ((x, v) :: sg) ((s', restrict v (getset Sg s)) :: Sg)).
        { intros v Hv. apply (Inv_bind_iter ages bound sets done sg Sg d x v s' (getset Sg s) a HI Hdesc Ha Hn Hx Hv). }
        unfold iter_restrictions. rewrite flat_map_map. cbn [fst snd]. split.
        - apply distinct_flat_map; [apply NoDup_heads | |].
          + intros v Hv. apply (IHb _ _ _ _ _ _ Hchk (HI' v Hv)).
          + intros v v' m m' Hv Hv' Hne Hm Hm' Hag.
            destruct (check_sound _ _ _ _ _ _ _ Hchk (HI' v Hv)) as [S1 _].
            destruct (check_sound _ _ _ _ _ _ _ Hchk (HI' v' Hv')) as [S1' _].
            destruct (S1 m Hm) as [He _]. destruct (S1' m' Hm') as [He' _].
            pose proof (He x (or_introl eq_refl)) as Ex. pose proof (He' x (or_introl eq_refl)) as Ex'.
            rewrite val_cons_eq in Ex, Ex'. apply Hne. rewrite <- Ex, <- Ex'. apply Hag.
            destruct Hdesc as [a' [Ha' [Hok _]]]. rewrite Ha in Ha'. inversion Ha'. subst a'.
            apply (args_in_prem_vars _ a _ Ha). apply (next_var_in_args d a x Ha Hok Hn).
        - intros m Hm. apply in_flat_map in Hm. destruct Hm as [v [Hv Hm]].
          destruct (check_sound _ _ _ _ _ _ _ Hchk (HI' v Hv)) as [S1 _]. apply (S1 m Hm). }
      cbn [envsT]. unfold iters. rewrite flat_map_flat_map.
      (* the chain has one or two members *)
      assert (Hd0 : In d0 (d0 :: ds)) by (left; reflexivity).
      inversion Hss as [|s0 d0' ss' ds' Hl0 Hss']. subst.
      destruct ds as [|d1 ds].
      + inversion Hss'. subst. cbn [map flat_map]. rewrite app_nil_r. apply (Hone s0 d0 Hd0 Hl0).
      + destruct ds as [|d2 ds].
        2:{ exfalso. destruct (ages (sd_atom d0)); cbn in H2; discriminate. }
        inversion Hss' as [|s1 d1' ss'' ds'' Hl1 Hss'']. subst. inversion Hss''. subst.
        assert (Hd1 : In d1 [d0; d1]) by (right; left; reflexivity).
        cbn [map flat_map]. rewrite app_nil_r.
        destruct (Hone s0 d0 Hd0 Hl0) as [D0 S0]. destruct (Hone s1 d1 Hd1 Hl1) as [D1 S1].
        apply distinct_app; [exact D0 | exact D1|].
        intros m m' Hm Hm' Hag.
        destruct (Hmember s0 d0 Hd0 Hl0) as [a [Ha [_ [_ [Hdesc _]]]]].
        destruct (Hmember s1 d1 Hd1 Hl1) as [a1 [Ha1 [Hat1 _]]].
        rewrite Hat1, Ha in Ha1. inversion Ha1. subst a1. clear Ha1.
        assert (Hages : ix_age (sd_ix d0) = INew /\ ix_age (sd_ix d1) = IOld).
        { destruct (ages (sd_atom d0)); cbn in H2; inversion H2. split; reflexivity. }
        destruct Hages as [Hg0 Hg1].
        pose proof (S0 m Hm (sd_atom d0) a Ha) as Hs0. pose proof (S1 m' Hm' (sd_atom d0) a Ha) as Hs1.
        unfold upd in Hs0, Hs1. rewrite Hat1 in Hs1. rewrite Nat.eqb_refl in Hs0, Hs1.
        rewrite Hg0 in Hs0. rewrite Hg1 in Hs1. cbn in Hs0, Hs1.
        destruct Hs0 as [i0 [[Hi0|[]] Hs0]]. destruct Hs1 as [i1 [[Hi1|[]] Hs1]]. subst i0 i1.
        destruct Hdesc as [a' [Ha' [Hok _]]]. rewrite Ha in Ha'. inversion Ha'. subst a'.
        destruct (atom_ix_ok_parts _ _ Hok) as [_ [_ [_ Hwf]]].
        unfold atom_sat_i in Hs0, Hs1.
        assert (Heq : map (val m) (full_args a) = map (val m') (full_args a)).
        { apply map_ext_in. intros y Hy. apply Hag. apply (args_in_prem_vars _ a _ Ha).
          apply full_args_incl; assumption. }
        rewrite Heq in Hs0. apply (Hdis _ _ Hs0 Hs1).
    - (* RGuard *)
      cbn [check] in H. apply andb_true_iff in H. destruct H as [Hk H]. apply is_done_eq in Hk. subst k.
      destruct (lookup_sets sets ss) as [dl|] eqn:Hss; [|discriminate].
      destruct dl as [|d0 ds]; [discriminate|].
      apply andb_true_iff in H. destruct H as [H12 H3]. apply andb_true_iff in H12. destruct H12 as [H1 H2].
      apply iages_eqb_eq in H1. apply lookup_sets_spec in Hss. rewrite forallb_forall in H2.
      cbn [envsT]. destruct (existsb nonemptyb (map (getset Sg) ss)) eqn:Hg; [|constructor].
      rewrite existsb_exists in Hg. destruct Hg as [R [HR Hne]].
      apply in_map_iff in HR. destruct HR as [s [HRs Hs]]. subst R. apply nonemptyb_true in Hne.
      destruct (Forall2_In_l _ _ _ _ _ s Hss Hs) as [d [Hd Hl]].
      pose proof (H2 d Hd) as Hd2. apply andb_true_iff in Hd2. destruct Hd2 as [Hd1 Hex].
      apply Nat.eqb_eq in Hd1.
      pose proof (proj1 HI s d Hl) as Hdesc. pose proof Hdesc as Hdesc'. destruct Hdesc' as [a [Ha _]].
      destruct (exhausted_bound _ _ _ _ a Hdesc Ha Hex) as [Hb1 Hb2].
      pose proof (proj1 (exhausted_sat _ _ _ _ a Hdesc Ha Hex) Hne) as Hsat.
      apply (IHb _ _ _ _ _ _ H3). split; [exact (proj1 HI)|].
      intros k [Hk|Hk]; [|apply (proj2 HI); exact Hk]. subst k. rewrite <- Hd1.
      exists a. split; [exact Ha|]. split; [|split; assumption].
      exists (ix_age (sd_ix d)). split; [|exact Hsat]. rewrite Hd1, <- H1. apply in_map_iff. exists d. auto.
    - cbn [envsT]. constructor; [constructor | constructor].
  Qed.

  Lemma Inv_init : forall ages, Inv ages [] [] [] [] [].
  Proof. intros ages. split; [intros s d H; discriminate | intros k []]. Qed.

  Lemma sat_init : forall w, sat (init_ages f) w <-> is_match T f w.
  Proof.
    intros w. unfold sat, is_match, init_ages. split; intros H k a Hk; specialize (H k a Hk); rewrite Hk in *; exact H.
  Qed.
End Sound.

(* ---------- the theorem: set level ---------- *)
Theorem ram_matches_flat_sound_envs : forall r f, ram_matches_flat r f = true ->
  forall D E T, coherent E T -> forall l, eval_ram D E r = Pushes l ->
  exists ms : list (list (var * N)),
    l = flat_map (fun m => inst (f_conc f) (val m)) ms /\
    (forall m, In m ms -> is_match T f (val m)) /\
    (forall w, is_match T f w -> exists m, In m ms /\ agree (rule_vars f) (val m) w).
Proof.
  intros r f H D E T Hc l Hl. exists (envsT E [] [] r). unfold ram_matches_flat in H.
  apply eval_ram_evalT in Hl. split; [|split].
  - rewrite <- Hl. apply (check_pushes E f r _ _ _ _ [] [] H).
  - intros m Hm. destruct (check_sound E T f Hc r _ _ _ _ [] [] H (Inv_init E T f _)) as [H1 _].
    apply sat_init. apply (H1 m Hm).
  - intros w Hw. destruct (check_sound E T f Hc r _ _ _ _ [] [] H (Inv_init E T f _)) as [_ H2].
    apply H2; [intros y [] | apply sat_init; exact Hw].
Qed.

Lemma inst_agree : forall conc (v w : valuation),
  (forall x, In x (flat_map snd conc) -> v x = w x) -> inst conc v = inst conc w.
Proof.
  intros conc v w H. unfold inst. apply map_ext_in. intros c Hc. f_equal. apply map_ext_in. intros x Hx.
  apply H. apply in_flat_map. exists c. split; assumption.
Qed.

(* the pushes are, as a set, the conclusions instantiated by the matches *)
Theorem ram_matches_flat_sound : forall r f, ram_matches_flat r f = true ->
  forall D E T, coherent E T -> forall l, eval_ram D E r = Pushes l ->
  forall p, In p l <-> exists w, is_match T f w /\ In p (inst (f_conc f) w).
Proof.
  intros r f H D E T Hc l Hl p.
  destruct (ram_matches_flat_sound_envs r f H D E T Hc l Hl) as [ms [Hms [H1 H2]]]. subst l. split.
  - intros Hp. apply in_flat_map in Hp. destruct Hp as [m [Hm Hp]]. exists (val m). split; [apply H1; exact Hm | exact Hp].
  - intros [w [Hw Hp]]. destruct (H2 w Hw) as [m [Hm Hag]]. apply in_flat_map. exists m. split; [exact Hm|].
    rewrite (inst_agree (f_conc f) (val m) w); [exact Hp|].
    intros x Hx. apply Hag. unfold rule_vars. apply in_or_app. right. exact Hx.
Qed.

(* each match once: the environments are pairwise different on the premise variables *)
Theorem ram_matches_flat_sound_once : forall r f, ram_matches_flat r f = true ->
  forall D E T, coherent E T -> disjoint_ages T -> forall l, eval_ram D E r = Pushes l ->
  exists ms : list (list (var * N)),
    l = flat_map (fun m => inst (f_conc f) (val m)) ms /\
    (forall m, In m ms -> is_match T f (val m)) /\
    (forall w, is_match T f w -> exists m, In m ms /\ agree (rule_vars f) (val m) w) /\
    ForallOrdPairs (fun m m' => ~ agree (prem_vars f) (val m) (val m')) ms.
Proof.
  intros r f H D E T Hc Hdis l Hl. exists (envsT E [] [] r). unfold ram_matches_flat in H.
  apply eval_ram_evalT in Hl. split; [|split; [|split]].
  - rewrite <- Hl. apply (check_pushes E f r _ _ _ _ [] [] H).
  - intros m Hm. destruct (check_sound E T f Hc r _ _ _ _ [] [] H (Inv_init E T f _)) as [H1 _].
    apply sat_init. apply (H1 m Hm).
  - intros w Hw. destruct (check_sound E T f Hc r _ _ _ _ [] [] H (Inv_init E T f _)) as [_ H2].
    apply H2; [intros y [] | apply sat_init; exact Hw].
  - apply (check_distinct E T f Hc Hdis r _ _ _ _ [] [] H (Inv_init E T f _)).
Qed.

(* with well-scopedness: the rule function does return, and what it returns is as above *)
Theorem rule_fn_correct : forall D r f, wf_scoped D r = true -> ram_matches_flat r f = true ->
  forall E T, coherent E T ->
  exists l, eval_ram D E r = Pushes l /\
            forall p, In p l <-> exists w, is_match T f w /\ In p (inst (f_conc f) w).
Proof.
  intros D r f Hwf H E T Hc.
  destruct (eval_ram D E r) as [|l] eqn:He.
  - exfalso. apply (FactsScoped.wf_scoped_progress D r Hwf E). exact He.
  - exists l. split; [reflexivity|]. apply (ram_matches_flat_sound r f H D E T Hc l He).
Qed.
