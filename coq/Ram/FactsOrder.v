(* Ram/FactsOrder.v -- [index_rows] presents the rows in strictly increasing lexicographic order (so
   [iter_restrictions] yields keys in ascending order, as the B-tree of the runtime does). *)
From Coq Require Import List NArith Bool PeanoNat Lia Sorted.
From Ram Require Import Model FactsBasic.
Import ListNotations.

Definition row_lt (a b : row) : Prop := row_cmp a b = Lt.

Lemma row_cmp_opp : forall a b, row_cmp b a = CompOpp (row_cmp a b).
Proof.
  induction a as [|x a IH]; intros [|y b]; cbn; try reflexivity.
  rewrite (N.compare_antisym x y). destruct (N.compare x y); cbn; [apply IH | reflexivity | reflexivity].
Qed.

Lemma row_lt_trans : forall a b c, row_lt a b -> row_lt b c -> row_lt a c.
Proof.
  unfold row_lt. induction a as [|x a IH]; intros [|y b] [|z c] H1 H2; cbn in *; try discriminate; try reflexivity.
  destruct (N.compare x y) eqn:Hxy; try discriminate.
  - apply N.compare_eq in Hxy. subst y. destruct (N.compare x z) eqn:Hxz; try discriminate; [|reflexivity].
    apply (IH b c H1 H2).
  - destruct (N.compare y z) eqn:Hyz; try discriminate.
    + apply N.compare_eq in Hyz. subst z. rewrite Hxy. reflexivity.
    + rewrite N.compare_lt_iff in *. assert (Hxz : (x < z)%N) by lia.
      apply N.compare_lt_iff in Hxz. rewrite Hxz. reflexivity.
Qed.

Lemma insert_row_sorted : forall r l, StronglySorted row_lt l -> StronglySorted row_lt (insert_row r l).
Proof.
  intros r. induction l as [|h t IH]; intros Hs; cbn.
  - constructor; constructor.
  - inversion Hs as [|x y Hst Hfa]. subst. destruct (row_cmp r h) eqn:Hc.
    + exact Hs.
    + constructor; [exact Hs|]. constructor; [exact Hc|].
      apply Forall_forall. intros x Hx. rewrite Forall_forall in Hfa.
      apply (row_lt_trans r h x Hc (Hfa x Hx)).
    + constructor; [apply IH; exact Hst|].
      apply Forall_forall. intros x Hx. apply In_insert_row_or in Hx. destruct Hx as [Hx|Hx].
      * subst x. unfold row_lt. rewrite (row_cmp_opp r h), Hc. reflexivity.
      * rewrite Forall_forall in Hfa. apply Hfa. exact Hx.
Qed.

Theorem sort_rows_sorted : forall l, StronglySorted row_lt (sort_rows l).
Proof.
  induction l as [|r l IH]; cbn; [constructor | apply insert_row_sorted; exact IH].
Qed.

Theorem index_rows_sorted : forall T ix, StronglySorted row_lt (index_rows T ix).
Proof. intros. apply sort_rows_sorted. Qed.
