(* Ram/Model.v -- the rule functions that eqlog emits (rust_gen/rule.rs, one per flat sub-rule), as terms, with
   an evaluator, and the flat rules they are supposed to implement.  Definitions only, no proofs.

   What is modelled.  A rule function is a sequence of the four RamStmt kinds of ram/ast.rs, printed by
   rust_gen/rule.rs::display_routine with the scopes of `for` and `if` extending to the end of the function:

     let S = env.FIELD;                                                  RDef S false (GetIndex ix)
     let S = LazyCell::new(|| { S0.get(x).unwrap_or_else(|| PrefixTreeN::empty()) });
                                                                         RDef S true  (Restrict S0 x N)
     for (x, S') in S1.iter_restrictions().chain(S2.iter_restrictions()) { body } rest
                                                                         RIter [S1;S2] x S' body rest
     if false || !S1.is_empty() || !S2.is_empty() { body } rest          RGuard [S1;S2] body rest
     env.OUT.push([x, y]);                                               RPush out [x;y]

   (the emitted code always has rest = RDone after a block; the AST allows more so that the translator never has
   to repair or reject text, the validator below rejects it).

   Abstractions (all stated here):
   * A prefix tree (PrefixTreeN) is its list of rows, all of length N.  `get(v)` = the rows that start with v,
     without v ([restrict]); `iter_restrictions()` = every distinct first element once, paired with the
     restriction ([iters]; ascending order when the rows are sorted, which [index_rows] guarantees);
     `is_empty()` = there is no row.  The last is exact for PrefixTree0 and PrefixTree1; a PrefixTreeN with N >= 2
     can hold a key with an empty subtree (finding F4), so [ram_matches_flat] only accepts guards on sets of arity 0,
     which is all that to_ram.rs emits.
   * LazyCell: the closure is pure and total, so laziness is not observable; the flag is kept in the term only.
   * Elements are [N].  A table state is [tables : frel -> iage -> list row]: for every relation / type set its
     new rows and its old rows.  An env struct field `<rel>_<age>[_eqs_<e0>_..]_order_<c0>_..` is an [index]; it
     DENOTES [index_spec]: the rows of that relation and age that satisfy the diagonal (row[i] = row[e_i]),
     projected to the representative columns (those i with e_i = i) and permuted by the order.
     [coherent E T] says that the trees handed to the rule function denote exactly that.
   * `Stuck` stands for what rustc would refuse (or what has no meaning): a set or element variable that is not in
     scope, an env field that the struct does not declare, a declared tree arity that differs from the length of
     the index order, `get`/`iter_restrictions` on a tree of arity 0, a `PrefixTreeN::empty()` of the wrong N, a
     push whose length differs from the declared row length.  Typing proper and borrow checking are rustc's. *)
From Coq Require Import List NArith Bool PeanoNat.
Import ListNotations.

Definition var := N.
Definition row := list N.

Inductive frel := FRel (r : N) | FTySet (t : N).
Inductive iage := INew | IOld.
Inductive age := New | Old | All.

Record index := mkIndex {
  ix_rel : frel;
  ix_age : iage;
  ix_order : list nat;            (* column i of the tree is column (nth i order) of the projected row *)
  ix_diag : option (list nat)     (* `eqs`: e_i = the smallest column that must equal column i *)
}.

Definition tables := frel -> iage -> list row.

(* ---------- flat rules (as printed above every rule function) ---------- *)
Record atom := mkAtom {
  a_rel : frel;
  a_diag : option (list nat);     (* rel[diag=e0,e1,..]: the arguments are those of the representative columns *)
  a_args : list var;
  a_age : age
}.
Inductive out_rel := ORel (r : N) | OEq (t : N) | ODef (f : N).
Record flat_rule := mkFlat { f_prem : list atom; f_conc : list (out_rel * list var) }.

(* ---------- the emitted code ---------- *)
Definition setvar := (nat * N)%type.   (* `set<K>_<field>_r<j>`: (K, a number for the whole name) *)
Inductive set_expr :=
  | GetIndex (ix : index)
  | Restrict (s : setvar) (x : var) (n : nat).      (* n: the N of PrefixTreeN::empty() *)
Inductive ram :=
  | RDone
  | RDef (s : setvar) (lz : bool) (e : set_expr) (k : ram)
  | RIter (ss : list setvar) (x : var) (s' : setvar) (body k : ram)
  | RGuard (ss : list setvar) (body k : ram)
  | RPush (o : out_rel) (args : list var) (k : ram).

Record decls := mkDecls {
  d_in : list (index * nat);        (* FIELD: &'a PrefixTree<n> *)
  d_out : list (out_rel * nat)      (* OUT: &'a mut Vec<[u32; n]> *)
}.
Record rule_fn := mkRuleFn { rf_decls : decls; rf_ram : ram; rf_flat : flat_rule }.

(* ---------- decidable equalities ---------- *)
Definition frel_eqb (a b : frel) : bool :=
  match a, b with
  | FRel x, FRel y => N.eqb x y
  | FTySet x, FTySet y => N.eqb x y
  | _, _ => false
  end.
Definition iage_eqb (a b : iage) : bool :=
  match a, b with INew, INew => true | IOld, IOld => true | _, _ => false end.
Fixpoint nats_eqb (a b : list nat) : bool :=
  match a, b with
  | [], [] => true
  | x :: a', y :: b' => Nat.eqb x y && nats_eqb a' b'
  | _, _ => false
  end.
Fixpoint vars_eqb (a b : list N) : bool :=
  match a, b with
  | [], [] => true
  | x :: a', y :: b' => N.eqb x y && vars_eqb a' b'
  | _, _ => false
  end.
Definition diag_eqb (a b : option (list nat)) : bool :=
  match a, b with
  | None, None => true
  | Some x, Some y => nats_eqb x y
  | _, _ => false
  end.
Definition index_eqb (a b : index) : bool :=
  frel_eqb (ix_rel a) (ix_rel b) && iage_eqb (ix_age a) (ix_age b) &&
  nats_eqb (ix_order a) (ix_order b) && diag_eqb (ix_diag a) (ix_diag b).
Definition out_eqb (a b : out_rel) : bool :=
  match a, b with
  | ORel x, ORel y => N.eqb x y
  | OEq x, OEq y => N.eqb x y
  | ODef x, ODef y => N.eqb x y
  | _, _ => false
  end.
Definition setvar_eqb (a b : setvar) : bool := Nat.eqb (fst a) (fst b) && N.eqb (snd a) (snd b).

(* ---------- meaning of an index ---------- *)
Definition permute (order : list nat) (r : row) : row := map (fun c => nth c r 0%N) order.

(* the representative columns of a diagonal: those i with e_i = i *)
Fixpoint reps_from (i : nat) (eqs : list nat) : list nat :=
  match eqs with
  | [] => []
  | e :: t => if Nat.eqb e i then i :: reps_from (S i) t else reps_from (S i) t
  end.
Definition reps (eqs : list nat) : list nat := reps_from 0 eqs.

Definition proj_diag (d : option (list nat)) (r : row) : row :=
  match d with
  | None => r
  | Some eqs => permute (reps eqs) r
  end.
Definition diag_ok (d : option (list nat)) (r : row) : bool :=
  match d with
  | None => true
  | Some eqs =>
      Nat.eqb (length r) (length eqs) &&
      forallb (fun i => N.eqb (nth i r 0%N) (nth (nth i eqs 0) r 0%N)) (seq 0 (length eqs))
  end.

(* the rows an index denotes (unordered specification) *)
Definition index_spec (T : tables) (ix : index) : list row :=
  map (fun r => permute (ix_order ix) (proj_diag (ix_diag ix) r))
      (filter (fun r => diag_ok (ix_diag ix) r &&
                        Nat.eqb (length (proj_diag (ix_diag ix) r)) (length (ix_order ix)))
              (T (ix_rel ix) (ix_age ix))).

(* ... and as the tree presents them: lexicographically sorted, without duplicates *)
Fixpoint row_cmp (a b : row) : comparison :=
  match a, b with
  | [], [] => Eq
  | [], _ :: _ => Lt
  | _ :: _, [] => Gt
  | x :: a', y :: b' => match N.compare x y with Eq => row_cmp a' b' | c => c end
  end.
Fixpoint insert_row (r : row) (l : list row) : list row :=
  match l with
  | [] => [r]
  | h :: t => match row_cmp r h with
              | Lt => r :: l
              | Eq => l
              | Gt => h :: insert_row r t
              end
  end.
Definition sort_rows (l : list row) : list row := fold_right insert_row [] l.
Definition index_rows (T : tables) (ix : index) : list row := sort_rows (index_spec T ix).

Definition coherent (E : index -> list row) (T : tables) : Prop :=
  forall ix r, In r (E ix) <-> In r (index_spec T ix).

(* ---------- prefix-tree operations on row lists ---------- *)
Definition head_of (r : row) : list N := match r with [] => [] | v :: _ => [v] end.
Definition heads (R : list row) : list N := nodup N.eq_dec (flat_map head_of R).
Definition restrict (v : N) (R : list row) : list row :=
  flat_map (fun r => match r with
                     | [] => []
                     | v' :: t => if N.eqb v' v then [t] else []
                     end) R.
Definition iter_restrictions (R : list row) : list (N * list row) := map (fun v => (v, restrict v R)) (heads R).
(* S1.iter_restrictions().chain(S2.iter_restrictions()) *)
Definition iters (Rs : list (list row)) : list (N * list row) := flat_map iter_restrictions Rs.
Definition nonemptyb (R : list row) : bool := match R with [] => false | _ => true end.

(* ---------- evaluation ---------- *)
Definition push := (out_rel * row)%type.
Inductive result := Stuck | Pushes (l : list push).

Definition seq_res (a b : result) : result :=
  match a, b with
  | Pushes x, Pushes y => Pushes (x ++ y)
  | _, _ => Stuck
  end.
Fixpoint concat_res (l : list result) : result :=
  match l with
  | [] => Pushes []
  | a :: t => seq_res a (concat_res t)
  end.

Record setval := mkSet { sv_arity : nat; sv_rows : list row }.

Fixpoint lookup_var (sg : list (var * N)) (x : var) : option N :=
  match sg with
  | [] => None
  | (y, v) :: sg' => if N.eqb x y then Some v else lookup_var sg' x
  end.
Fixpoint lookup_vars (sg : list (var * N)) (xs : list var) : option (list N) :=
  match xs with
  | [] => Some []
  | x :: xs' => match lookup_var sg x, lookup_vars sg xs' with
                | Some v, Some vs => Some (v :: vs)
                | _, _ => None
                end
  end.
Fixpoint lookup_set {A} (Sg : list (setvar * A)) (s : setvar) : option A :=
  match Sg with
  | [] => None
  | (s', v) :: Sg' => if setvar_eqb s s' then Some v else lookup_set Sg' s
  end.
Fixpoint lookup_sets {A} (Sg : list (setvar * A)) (ss : list setvar) : option (list A) :=
  match ss with
  | [] => Some []
  | s :: ss' => match lookup_set Sg s, lookup_sets Sg ss' with
                | Some v, Some vs => Some (v :: vs)
                | _, _ => None
                end
  end.
Fixpoint lookup_index (d : list (index * nat)) (ix : index) : option nat :=
  match d with
  | [] => None
  | (ix', n) :: d' => if index_eqb ix ix' then Some n else lookup_index d' ix
  end.
Fixpoint lookup_out (d : list (out_rel * nat)) (o : out_rel) : option nat :=
  match d with
  | [] => None
  | (o', n) :: d' => if out_eqb o o' then Some n else lookup_out d' o
  end.

Fixpoint eval (D : decls) (E : index -> list row) (sg : list (var * N)) (Sg : list (setvar * setval))
         (r : ram) : result :=
  match r with
  | RDone => Pushes []
  | RDef s _ (GetIndex ix) k =>
      match lookup_index (d_in D) ix with
      | Some n => if Nat.eqb n (length (ix_order ix))
                  then eval D E sg ((s, mkSet n (E ix)) :: Sg) k
                  else Stuck
      | None => Stuck
      end
  | RDef s _ (Restrict s0 x n) k =>
      match lookup_set Sg s0, lookup_var sg x with
      | Some sv, Some v =>
          if Nat.eqb (sv_arity sv) (S n)
          then eval D E sg ((s, mkSet n (restrict v (sv_rows sv))) :: Sg) k
          else Stuck
      | _, _ => Stuck
      end
  | RIter ss x s' body k =>
      match lookup_sets Sg ss with
      | Some (sv0 :: svs) =>
          match sv_arity sv0 with
          | S n =>
              if forallb (fun sv => Nat.eqb (sv_arity sv) (S n)) svs
              then seq_res
                     (concat_res (map (fun vs => eval D E ((x, fst vs) :: sg) ((s', mkSet n (snd vs)) :: Sg) body)
                                      (iters (map sv_rows (sv0 :: svs)))))
                     (eval D E sg Sg k)
              else Stuck
          | O => Stuck
          end
      | _ => Stuck
      end
  | RGuard ss body k =>
      match lookup_sets Sg ss with
      | Some svs =>
          if existsb nonemptyb (map sv_rows svs)
          then seq_res (eval D E sg Sg body) (eval D E sg Sg k)
          else eval D E sg Sg k
      | None => Stuck
      end
  | RPush o args k =>
      match lookup_out (d_out D) o, lookup_vars sg args with
      | Some n, Some vs =>
          if Nat.eqb n (length args) then seq_res (Pushes [(o, vs)]) (eval D E sg Sg k) else Stuck
      | _, _ => Stuck
      end
  end.

Definition eval_ram (D : decls) (E : index -> list row) (r : ram) : result := eval D E [] [] r.

(* ---------- C09, the logic part: scoping and arities ---------- *)
Definition memv (x : var) (l : list var) : bool := existsb (N.eqb x) l.

Fixpoint wf (D : decls) (bound : list var) (sets : list (setvar * nat)) (r : ram) : bool :=
  match r with
  | RDone => true
  | RDef s _ (GetIndex ix) k =>
      match lookup_index (d_in D) ix with
      | Some n => Nat.eqb n (length (ix_order ix)) && wf D bound ((s, n) :: sets) k
      | None => false
      end
  | RDef s _ (Restrict s0 x n) k =>
      match lookup_set sets s0 with
      | Some m => Nat.eqb m (S n) && memv x bound && wf D bound ((s, n) :: sets) k
      | None => false
      end
  | RIter ss x s' body k =>
      match lookup_sets sets ss with
      | Some (S n :: ms) =>
          forallb (fun m => Nat.eqb m (S n)) ms && wf D (x :: bound) ((s', n) :: sets) body && wf D bound sets k
      | _ => false
      end
  | RGuard ss body k =>
      match lookup_sets sets ss with
      | Some _ => wf D bound sets body && wf D bound sets k
      | None => false
      end
  | RPush o args k =>
      match lookup_out (d_out D) o with
      | Some n => Nat.eqb n (length args) && forallb (fun x => memv x bound) args && wf D bound sets k
      | None => false
      end
  end.

Definition wf_scoped (D : decls) (r : ram) : bool := wf D [] [] r.

(* ---------- meaning of a flat rule ---------- *)
Fixpoint index_of (c : nat) (l : list nat) : nat :=
  match l with
  | [] => 0
  | h :: t => if Nat.eqb h c then 0 else S (index_of c t)
  end.
(* the arguments of all columns of rel[diag=eqs](args): column i carries the argument of its representative *)
Definition full_args (a : atom) : list var :=
  match a_diag a with
  | None => a_args a
  | Some eqs => map (fun e => nth (index_of e (reps eqs)) (a_args a) 0%N) eqs
  end.

Definition ages_of (g : age) : list iage :=
  match g with New => [INew] | Old => [IOld] | All => [INew; IOld] end.
Definition age_of_iage (i : iage) : age := match i with INew => New | IOld => Old end.

Definition valuation := var -> N.
Definition atom_sat_i (T : tables) (a : atom) (i : iage) (v : valuation) : Prop :=
  In (map v (full_args a)) (T (a_rel a) i).
Definition atom_sat (T : tables) (a : atom) (g : age) (v : valuation) : Prop :=
  exists i, In i (ages_of g) /\ atom_sat_i T a i v.

(* a match of the premise: every atom is a row of its relation with the age written in the comment *)
Definition is_match (T : tables) (f : flat_rule) (v : valuation) : Prop :=
  forall k a, nth_error (f_prem f) k = Some a -> atom_sat T a (a_age a) v.

Definition inst (conc : list (out_rel * list var)) (v : valuation) : list push :=
  map (fun c => (fst c, map v (snd c))) conc.
Definition prem_vars (f : flat_rule) : list var := flat_map a_args (f_prem f).
Definition agree (xs : list var) (v w : valuation) : Prop := forall x, In x xs -> v x = w x.

(* rows are new or old, never both (what `insert` guarantees; needed only for "each match once") *)
Definition disjoint_ages (T : tables) : Prop := forall rel r, In r (T rel INew) -> In r (T rel IOld) -> False.

(* ---------- the validator ---------- *)
Definition is_perm (order : list nat) (n : nat) : bool :=
  Nat.eqb (length order) n &&
  forallb (fun c => Nat.ltb c n) order &&
  forallb (fun i => existsb (Nat.eqb i) order) (seq 0 n).

(* eqs is a well-formed diagonal for n representative arguments *)
Definition diag_wf (d : option (list nat)) (n : nat) : bool :=
  match d with
  | None => true
  | Some eqs =>
      Nat.eqb (length (reps eqs)) n &&
      forallb (fun e => existsb (Nat.eqb e) (reps eqs)) eqs
  end.

Definition atom_ix_ok (a : atom) (ix : index) : bool :=
  frel_eqb (ix_rel ix) (a_rel a) && diag_eqb (ix_diag ix) (a_diag a) &&
  is_perm (ix_order ix) (length (a_args a)) && diag_wf (a_diag a) (length (a_args a)).

(* what the validator knows about a set variable: it serves premise atom sd_atom through index sd_ix and the
   first sd_j columns of the order have been fixed to the values of the atom's arguments at these columns *)
Record sdesc := mkD { sd_atom : nat; sd_ix : index; sd_j : nat }.

Fixpoint is_push_chain (conc : list (out_rel * list var)) (r : ram) : bool :=
  match conc, r with
  | [], RDone => true
  | (o, args) :: c', RPush o' args' k => out_eqb o o' && vars_eqb args args' && is_push_chain c' k
  | _, _ => false
  end.

Definition is_done (r : ram) : bool := match r with RDone => true | _ => false end.
Definition memn (k : nat) (l : list nat) : bool := existsb (Nat.eqb k) l.
Definition upd (ages : nat -> age) (k : nat) (g : age) : nat -> age := fun i => if Nat.eqb i k then g else ages i.
Fixpoint iages_eqb (a b : list iage) : bool :=
  match a, b with
  | [], [] => true
  | x :: a', y :: b' => iage_eqb x y && iages_eqb a' b'
  | _, _ => false
  end.

(* the variable that column sd_j of the index order stands for, if the set is not exhausted *)
Definition next_var (f : flat_rule) (d : sdesc) : option var :=
  match nth_error (f_prem f) (sd_atom d) with
  | Some a => nth_error (permute (ix_order (sd_ix d)) (a_args a)) (sd_j d)
  | None => None
  end.
Definition exhausted (d : sdesc) : bool := Nat.eqb (sd_j d) (length (ix_order (sd_ix d))).

Fixpoint check (f : flat_rule) (ages : nat -> age) (bound : list var) (sets : list (setvar * sdesc))
         (done : list nat) (r : ram) : bool :=
  match r with
  | RDone | RPush _ _ _ =>
      forallb (fun k => memn k done) (seq 0 (length (f_prem f))) &&
      forallb (fun x => memv x bound) (flat_map snd (f_conc f)) &&
      is_push_chain (f_conc f) r
  | RDef s _ (GetIndex ix) k =>
      match nth_error (f_prem f) (fst s) with
      | Some a => atom_ix_ok a ix && check f ages bound ((s, mkD (fst s) ix 0) :: sets) done k
      | None => false
      end
  | RDef s _ (Restrict s0 x _) k =>
      match lookup_set sets s0 with
      | Some d =>
          match next_var f d with
          | Some y => N.eqb x y && memv x bound &&
                      check f ages bound ((s, mkD (sd_atom d) (sd_ix d) (S (sd_j d))) :: sets) done k
          | None => false
          end
      | None => false
      end
  | RIter ss x s' body k =>
      is_done k &&
      match lookup_sets sets ss with
      | Some (d0 :: ds) =>
          negb (memv x bound) &&
          iages_eqb (map (fun d => ix_age (sd_ix d)) (d0 :: ds)) (ages_of (ages (sd_atom d0))) &&
          forallb (fun d =>
                     Nat.eqb (sd_atom d) (sd_atom d0) &&
                     match next_var f d with Some y => N.eqb x y | None => false end &&
                     check f (upd ages (sd_atom d0) (age_of_iage (ix_age (sd_ix d)))) (x :: bound)
                           ((s', mkD (sd_atom d) (sd_ix d) (S (sd_j d))) :: sets)
                           (if Nat.eqb (S (sd_j d)) (length (ix_order (sd_ix d))) then sd_atom d0 :: done else done)
                           body)
                  (d0 :: ds)
      | _ => false
      end
  | RGuard ss body k =>
      is_done k &&
      match lookup_sets sets ss with
      | Some (d0 :: ds) =>
          iages_eqb (map (fun d => ix_age (sd_ix d)) (d0 :: ds)) (ages_of (ages (sd_atom d0))) &&
          forallb (fun d => Nat.eqb (sd_atom d) (sd_atom d0) && exhausted d) (d0 :: ds) &&
          check f ages bound sets (sd_atom d0 :: done) body
      | _ => false
      end
  end.

Definition init_ages (f : flat_rule) : nat -> age :=
  fun k => match nth_error (f_prem f) k with Some a => a_age a | None => All end.

Definition ram_matches_flat (r : ram) (f : flat_rule) : bool := check f (init_ages f) [] [] [] r.
