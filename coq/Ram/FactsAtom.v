(* Ram/FactsAtom.v -- one premise atom and one index that serves it: the permuted argument row is in the tree
   iff the atom holds of the table of the tree's age (permutation and diagonal reasoning is confined to this file). *)
From Coq Require Import List NArith Bool PeanoNat Lia.
From Ram Require Import Model FactsBasic.
Import ListNotations.

Lemma nth_map_lt : forall A B (f : A -> B) l i d d', i < length l -> nth i (map f l) d = f (nth i l d').
Proof.
  intros A B f l i d d' H. rewrite (nth_indep (map f l) d (f d')); [apply map_nth | rewrite map_length; exact H].
Qed.

(* ---------- permutations ---------- *)
Lemma permute_length : forall order r, length (permute order r) = length order.
Proof. intros. unfold permute. apply map_length. Qed.

Lemma permute_map : forall (v : N -> N) order l,
  (forall c, In c order -> c < length l) -> permute order (map v l) = map v (permute order l).
Proof.
  intros v order l H. unfold permute. rewrite map_map. apply map_ext_in. intros c Hc.
  apply nth_map_lt. apply H. exact Hc.
Qed.

Lemma is_perm_lt : forall order n, is_perm order n = true -> forall c, In c order -> c < n.
Proof.
  intros order n H c Hc. unfold is_perm in H.
  apply andb_true_iff in H. destruct H as [H12 _]. apply andb_true_iff in H12. destruct H12 as [_ H2].
  rewrite forallb_forall in H2. apply Nat.ltb_lt. apply H2. exact Hc.
Qed.
Lemma is_perm_length : forall order n, is_perm order n = true -> length order = n.
Proof.
  intros order n H. unfold is_perm in H.
  apply andb_true_iff in H. destruct H as [H12 _]. apply andb_true_iff in H12. destruct H12 as [H1 _].
  apply Nat.eqb_eq. exact H1.
Qed.
Lemma is_perm_onto : forall order n, is_perm order n = true -> forall i, i < n -> In i order.
Proof.
  intros order n H i Hi. unfold is_perm in H. apply andb_true_iff in H. destruct H as [_ H3].
  pose proof (seq_forallb_lt _ _ H3 i Hi) as He. cbn beta in He.
  rewrite existsb_exists in He. destruct He as [c [Hc Heq]]. apply Nat.eqb_eq in Heq. subst. exact Hc.
Qed.

Lemma permute_inj : forall order n (r r' : row),
  is_perm order n = true -> length r = n -> length r' = n ->
  permute order r = permute order r' -> r = r'.
Proof.
  intros order n r r' Hp Hr Hr' He.
  apply (nth_ext r r' 0%N 0%N); [congruence|].
  intros i Hi. rewrite Hr in Hi.
  pose proof (is_perm_onto _ _ Hp i Hi) as Hin.
  apply In_nth with (d := 0) in Hin. destruct Hin as [p [Hp1 Hp2]].
  assert (H1 : nth p (permute order r) 0%N = nth i r 0%N).
  { unfold permute. rewrite (nth_map_lt _ _ _ order p 0%N 0 Hp1). rewrite Hp2. reflexivity. }
  assert (H2 : nth p (permute order r') 0%N = nth i r' 0%N).
  { unfold permute. rewrite (nth_map_lt _ _ _ order p 0%N 0 Hp1). rewrite Hp2. reflexivity. }
  rewrite <- H1, <- H2, He. reflexivity.
Qed.

(* ---------- diagonals ---------- *)
Lemma reps_from_spec : forall eqs i c,
  In c (reps_from i eqs) -> i <= c /\ c < i + length eqs /\ nth (c - i) eqs 0 = c.
Proof.
  induction eqs as [|e eqs IH]; intros i c H; cbn in H; [destruct H|].
  destruct (Nat.eqb_spec e i) as [He|He].
  - destruct H as [H|H].
    + subst. cbn [length]. replace (c - c) with 0 by lia. cbn. split; [lia|]. split; [lia | reflexivity].
    + apply IH in H. destruct H as [H1 [H2 H3]]. cbn [length]. split; [lia|]. split; [lia|].
      replace (c - i) with (S (c - S i)) by lia. cbn. exact H3.
  - apply IH in H. destruct H as [H1 [H2 H3]]. cbn [length]. split; [lia|]. split; [lia|].
    replace (c - i) with (S (c - S i)) by lia. cbn. exact H3.
Qed.

Lemma reps_spec : forall eqs c, In c (reps eqs) -> c < length eqs /\ nth c eqs 0 = c.
Proof.
  intros eqs c H. apply reps_from_spec in H. destruct H as [_ [H2 H3]].
  rewrite Nat.sub_0_r in H3. split; [lia | exact H3].
Qed.

Lemma reps_from_NoDup : forall eqs i, NoDup (reps_from i eqs).
Proof.
  induction eqs as [|e eqs IH]; intros i; cbn; [constructor|].
  destruct (Nat.eqb e i); [|apply IH].
  constructor; [|apply IH]. intros H. apply reps_from_spec in H. lia.
Qed.
Lemma reps_NoDup : forall eqs, NoDup (reps eqs).
Proof. intros. apply reps_from_NoDup. Qed.

Lemma index_of_nth : forall l e, In e l -> index_of e l < length l /\ nth (index_of e l) l 0 = e.
Proof.
  induction l as [|h l IH]; intros e H; [destruct H|]. cbn.
  destruct (Nat.eqb_spec h e) as [He|He]; [split; [lia | exact He]|].
  destruct H as [H|H]; [contradiction|]. apply IH in H. destruct H as [H1 H2]. split; [lia | exact H2].
Qed.

Lemma map_index_of : forall (l : list nat) (args : list N),
  NoDup l -> length l = length args -> map (fun c => nth (index_of c l) args 0%N) l = args.
Proof.
  induction l as [|h l IH]; intros args Hnd Hlen; destruct args as [|a args]; try discriminate; [reflexivity|].
  inversion Hnd as [|x y Hnotin Hnd']. subst. cbn [map]. f_equal.
  - cbn. rewrite Nat.eqb_refl. reflexivity.
  - transitivity (map (fun c => nth (index_of c l) args 0%N) l); [|apply IH; [exact Hnd' | cbn in Hlen; lia]].
    apply map_ext_in. intros c Hc. cbn [index_of].
    destruct (Nat.eqb_spec h c) as [He|He]; [subst; contradiction | reflexivity].
Qed.

Section Diag.
  Variable eqs : list nat.
  Variable args : list var.
  Hypothesis Hlen : length (reps eqs) = length args.
  Hypothesis Hin : forall e, In e eqs -> In e (reps eqs).

  Let full := map (fun e => nth (index_of e (reps eqs)) args 0%N) eqs.

  Lemma full_length : length full = length eqs.
  Proof. unfold full. apply map_length. Qed.

  Lemma nth_full : forall (v : N -> N) i, i < length eqs ->
    nth i (map v full) 0%N = v (nth (index_of (nth i eqs 0) (reps eqs)) args 0%N).
  Proof.
    intros v i Hi.
    assert (Hi' : i < length full) by (rewrite full_length; exact Hi).
    rewrite (nth_map_lt _ _ v full i 0%N 0%N Hi').
    f_equal. unfold full.
    exact (nth_map_lt _ _ (fun e => nth (index_of e (reps eqs)) args 0%N) eqs i 0%N 0 Hi).
  Qed.

  Lemma proj_full : forall v : N -> N, permute (reps eqs) (map v full) = map v args.
  Proof.
    intros v. unfold permute.
    transitivity (map v (map (fun c => nth (index_of c (reps eqs)) args 0%N) (reps eqs)));
      [|f_equal; exact (map_index_of (reps eqs) args (reps_NoDup eqs) Hlen)].
    rewrite map_map. apply map_ext_in. intros c Hc.
    destruct (reps_spec _ _ Hc) as [Hc1 Hc2].
    rewrite (nth_full v c Hc1). rewrite Hc2. reflexivity.
  Qed.

  Lemma diag_ok_full : forall v : N -> N, diag_ok (Some eqs) (map v full) = true.
  Proof.
    intros v. cbn [diag_ok]. apply andb_true_iff. split.
    - unfold full. rewrite !map_length. apply Nat.eqb_refl.
    - apply forallb_forall. intros i Hi. apply in_seq in Hi. apply N.eqb_eq.
      assert (Hi' : i < length eqs) by lia.
      pose proof (Hin _ (nth_In eqs 0 Hi')) as He.
      destruct (reps_spec _ _ He) as [He1 He2].
      rewrite (nth_full v i Hi'), (nth_full v _ He1). rewrite He2. reflexivity.
  Qed.

  Lemma diag_inv : forall (v : N -> N) (r : row),
    diag_ok (Some eqs) r = true -> permute (reps eqs) r = map v args -> r = map v full.
  Proof.
    intros v r Hok Hproj. cbn [diag_ok] in Hok. apply andb_true_iff in Hok. destruct Hok as [Hl Hall].
    apply Nat.eqb_eq in Hl.
    apply (nth_ext r (map v full) 0%N 0%N); [unfold full; rewrite !map_length; exact Hl|].
    intros i Hi. rewrite Hl in Hi. rewrite (nth_full v i Hi).
    rewrite forallb_forall in Hall.
    assert (Hs : In i (seq 0 (length eqs))) by (apply in_seq; lia).
    apply Hall in Hs. apply N.eqb_eq in Hs. rewrite Hs.
    pose proof (Hin _ (nth_In eqs 0 Hi)) as He.
    destruct (index_of_nth _ _ He) as [Hp1 Hp2].
    set (e := nth i eqs 0) in *. set (p := index_of e (reps eqs)) in *.
    assert (H1 : nth p (permute (reps eqs) r) 0%N = nth e r 0%N).
    { unfold permute. rewrite (nth_map_lt _ _ _ (reps eqs) p 0%N 0 Hp1). rewrite Hp2. reflexivity. }
    rewrite <- H1, Hproj. apply nth_map_lt. rewrite <- Hlen. exact Hp1.
  Qed.
End Diag.

(* ---------- the link ---------- *)
Lemma diag_wf_some : forall eqs n, diag_wf (Some eqs) n = true ->
  length (reps eqs) = n /\ forall e, In e eqs -> In e (reps eqs).
Proof.
  intros eqs n H. cbn in H. apply andb_true_iff in H. destruct H as [H1 H2]. apply Nat.eqb_eq in H1.
  split; [exact H1|]. intros e He. rewrite forallb_forall in H2. apply H2 in He.
  rewrite existsb_exists in He. destruct He as [c [Hc Heq]]. apply Nat.eqb_eq in Heq. subst. exact Hc.
Qed.

Lemma proj_full_args : forall a (v : N -> N), diag_wf (a_diag a) (length (a_args a)) = true ->
  proj_diag (a_diag a) (map v (full_args a)) = map v (a_args a) /\
  diag_ok (a_diag a) (map v (full_args a)) = true.
Proof.
  intros a v H. unfold full_args. destruct (a_diag a) as [eqs|]; cbn [proj_diag].
  - destruct (diag_wf_some _ _ H) as [H1 H2]. split; [apply proj_full | apply diag_ok_full]; assumption.
  - split; reflexivity.
Qed.

Lemma full_args_inv : forall a (v : N -> N) (r : row), diag_wf (a_diag a) (length (a_args a)) = true ->
  diag_ok (a_diag a) r = true -> proj_diag (a_diag a) r = map v (a_args a) -> r = map v (full_args a).
Proof.
  intros a v r H Hok Hp. unfold full_args. destruct (a_diag a) as [eqs|]; cbn [proj_diag] in Hp.
  - destruct (diag_wf_some _ _ H) as [H1 H2]. apply diag_inv; assumption.
  - exact Hp.
Qed.

Lemma coherent_length : forall E T ix r, coherent E T -> In r (E ix) -> length r = length (ix_order ix).
Proof.
  intros E T ix r Hc H. apply Hc in H. unfold index_spec in H. apply in_map_iff in H.
  destruct H as [r0 [Hr0 _]]. subst. apply permute_length.
Qed.

Lemma atom_ix_ok_parts : forall a ix, atom_ix_ok a ix = true ->
  ix_rel ix = a_rel a /\ ix_diag ix = a_diag a /\ is_perm (ix_order ix) (length (a_args a)) = true /\
  diag_wf (a_diag a) (length (a_args a)) = true.
Proof.
  intros a ix H. unfold atom_ix_ok in H.
  apply andb_true_iff in H. destruct H as [H123 H4]. apply andb_true_iff in H123. destruct H123 as [H12 H3].
  apply andb_true_iff in H12. destruct H12 as [H1 H2].
  apply frel_eqb_eq in H1. apply diag_eqb_eq in H2. auto.
Qed.

Lemma atom_link : forall E T a ix (v : valuation),
  coherent E T -> atom_ix_ok a ix = true ->
  (In (map v (permute (ix_order ix) (a_args a))) (E ix) <-> atom_sat_i T a (ix_age ix) v).
Proof.
  intros E T a ix v Hc Hok.
  destruct (atom_ix_ok_parts _ _ Hok) as [Hrel [Hdiag [Hperm Hwf]]].
  pose proof (is_perm_length _ _ Hperm) as Hplen.
  assert (Hpm : permute (ix_order ix) (map v (a_args a)) = map v (permute (ix_order ix) (a_args a))).
  { apply permute_map. apply is_perm_lt. exact Hperm. }
  unfold atom_sat_i. rewrite (Hc ix). unfold index_spec. rewrite in_map_iff. rewrite Hrel, Hdiag.
  unfold valuation, var in *. split.
  - intros [r [Hr1 Hr2]]. apply filter_In in Hr2. destruct Hr2 as [Hin Hf].
    apply andb_true_iff in Hf. destruct Hf as [Hdok Hl]. apply Nat.eqb_eq in Hl.
    rewrite <- Hpm in Hr1.
    apply (permute_inj _ _ _ _ Hperm) in Hr1; [|congruence | rewrite map_length; reflexivity].
    rewrite (full_args_inv a v r Hwf Hdok Hr1) in Hin. exact Hin.
  - intros Hin. exists (map v (full_args a)).
    destruct (proj_full_args a v Hwf) as [Hp Hd]. rewrite Hp. split; [exact Hpm|].
    apply filter_In. split; [exact Hin|]. rewrite Hd, Hp, map_length, Hplen. cbn. apply Nat.eqb_refl.
Qed.

(* ---------- index_rows is a coherent environment ---------- *)
Lemma row_cmp_eq : forall a b, row_cmp a b = Eq -> a = b.
Proof.
  induction a as [|x a IH]; intros [|y b] H; cbn in H; try discriminate; [reflexivity|].
  destruct (N.compare x y) eqn:Hc; try discriminate. apply N.compare_eq in Hc. subst. f_equal. apply IH. exact H.
Qed.

Lemma In_insert_row : forall r l x, In x (insert_row r l) <-> x = r \/ In x l.
Proof.
  intros r. induction l as [|h l IH]; intros x; cbn.
  - split; [intros [H|[]]; left; auto | intros [H|[]]; left; auto].
  - destruct (row_cmp r h) eqn:Hc.
    + apply row_cmp_eq in Hc. subst. cbn. split; [intros H; right; exact H | intros [H|H]; [left; auto | exact H]].
    + cbn. split; [intros [H|H]; [left; auto | right; exact H] | intros [H|H]; [left; auto | right; exact H]].
    + cbn. rewrite IH. split; [intros [H|[H|H]]; auto | intros [H|[H|H]]; auto].
Qed.

Lemma In_sort_rows : forall l x, In x (sort_rows l) <-> In x l.
Proof.
  induction l as [|r l IH]; intros x; cbn; [tauto|]. rewrite In_insert_row, IH. split; intros [H|H]; auto.
Qed.

Theorem index_rows_coherent : forall T, coherent (index_rows T) T.
Proof. intros T ix r. unfold index_rows. apply In_sort_rows. Qed.
