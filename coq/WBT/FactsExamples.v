(* WBT/FactsExamples.v -- concrete instances used as non-vacuity witnesses in Props_C14.v. *)

From Coq Require Import NArith List Lia Bool.
From WBT Require Import Model Spec Run RefRun FactsList FactsBalance FactsOrder FactsInv FactsRun.
Import ListNotations.
Open Scope N_scope.

Definition ins_all (kvs : list (N * N)) (m : wbmap N) : wbmap N :=
  fold_left (fun m kv => fst (insert (fst kv) (snd kv) m)) kvs m.

(* ascending insertion: forces single rotations *)
Definition sample_a : wbmap N :=
  ins_all [(1,10);(2,20);(3,30);(4,40);(5,50);(6,60);(7,70);(8,80);(9,90)] empty.
(* zig-zag insertion 5, 50, 30, 40: the fourth insert triggers a double rotation at the root *)
Definition sample_b : wbmap N := ins_all [(5,1);(50,2);(30,3);(40,4);(0,4);(12,5)] empty.

Lemma sample_a_inv : Inv_map sample_a.
Proof. split; [apply inv_b_ok; vm_compute; reflexivity|vm_compute; reflexivity]. Qed.
Lemma sample_b_inv : Inv_map sample_b.
Proof. split; [apply inv_b_ok; vm_compute; reflexivity|vm_compute; reflexivity]. Qed.

Lemma sample_shapes :
  shape (root sample_a) =
    [1;4;9; 1;2;3; 1;1;1;0;0; 1;3;1;0;0; 1;6;5; 1;5;1;0;0; 1;7;3; 0; 1;8;2; 0; 1;9;1;0;0] /\
  shape (root (ins_all [(5,1);(50,2);(30,3)] empty)) = [1;5;3; 0; 1;50;2; 1;30;1;0;0; 0] /\
  shape (root (ins_all [(5,1);(50,2);(30,3);(40,4)] empty)) =
    [1;30;4; 1;5;1;0;0; 1;50;2; 1;40;1;0;0; 0].
Proof. vm_compute. repeat split; reflexivity. Qed.

Lemma sample_a_height : height (root sample_a) = 5 /\ len sample_a = 9.
Proof. vm_compute. split; reflexivity. Qed.

(* non-commutative merge: the value from the left operand comes first *)
Lemma sample_union_order :
  exists m, union (merge_fn 0) sample_a sample_b = Some m /\
            get 5 sample_a = Some 50 /\ get 5 sample_b = Some 1 /\
            get 5 m = Some (merge_fn 0 5 50 1) /\
            merge_fn 0 5 50 1 <> merge_fn 0 5 1 50 /\
            get 0 m = Some 4 /\ get 1 m = Some 10 /\ get 6 m = Some 60.
Proof.
  eexists. split; [vm_compute; reflexivity|]. vm_compute.
  repeat split; try reflexivity. discriminate.
Qed.

Lemma sample_difference_order :
  exists m, difference (diff_fn 1) sample_a sample_b = Some m /\
            get 5 m = Some 501 /\ get 1 m = Some 10 /\ get 0 m = None /\
            diff_fn 1 5 50 1 = Some 501 /\ diff_fn 1 5 1 50 = Some 60.
Proof. eexists. split; [vm_compute; reflexivity|]. vm_compute. repeat split; reflexivity. Qed.

Lemma sample_difference_drop :
  exists m, difference (diff_fn 0) sample_a sample_b = Some m /\
            iter m = [(1,10);(2,20);(3,30);(4,40);(6,60);(7,70);(8,80);(9,90)].
Proof. eexists. split; vm_compute; reflexivity. Qed.

(* join of an empty tree against a 9-node tree: recursion down the left spine *)
Lemma sample_join_hyps :
  Inv (@E N) /\ Inv (root sample_a) /\
  keys_lt (inorder (@E N)) 0 /\ keys_gt (inorder (root sample_a)) 0.
Proof.
  split; [apply Inv_E|]. split; [apply sample_a_inv|]. split; [constructor|].
  vm_compute. repeat constructor.
Qed.

Lemma sample_join_result :
  exists t, join E 0 0 (root sample_a) = Some t /\ inv_b t = true /\ size t = 10.
Proof. eexists. split; [vm_compute; reflexivity|]. vm_compute. split; reflexivity. Qed.

Lemma sample_persistence :
  1 <> target (Insert 0 5 7) /\
  get_h (step (step init_family (Insert 1 3 4)) (Insert 0 5 7)) 1 =
  get_h (step init_family (Insert 1 3 4)) 1 /\
  iter (get_h (step init_family (Insert 1 3 4)) 1) = [(3, 4)].
Proof. split; [discriminate|]. vm_compute. split; reflexivity. Qed.

Lemma sample_snapshot_hyps :
  (N.to_nat 1 < length (step init_family (Insert 0 3 4)))%nat /\
  Forall (fun o => target o <> 1) [Insert 0 5 6; Remove 0 3; Clear 0].
Proof. split; [vm_compute; lia|]. repeat constructor; discriminate. Qed.

Lemma sample_run :
  map strip (run_ops [Insert 0 2 5; Clone 0 1; Remove 0 2; Get 1 2]) =
  [ (Some [0],    [(1, [(2,5)]); (0, []); (0, []); (0, [])]);
    (Some [],     [(1, [(2,5)]); (1, [(2,5)]); (0, []); (0, [])]);
    (Some [1; 5], [(0, []); (1, [(2,5)]); (0, []); (0, [])]);
    (Some [1; 5], [(0, []); (1, [(2,5)]); (0, []); (0, [])]) ].
Proof. vm_compute. reflexivity. Qed.
