(* WBT/Props_C14.v -- property C14: "the ordered map stays balanced, exact and persistent".
   Only statements, each closed by `exact`.  Vocabulary: Model.v (the Rust code, faithfully),
   Spec.v (association lists, Inv), Run.v / RefRun.v (operation language and reference
   interpreter).  Inv t = bst t /\ sizes_ok t /\ balanced t;  Inv_map m = Inv (root m) /\
   len m = size (root m).  `None` results of the model stand for a Rust panic or for fuel
   exhaustion; every theorem below that says `exists m', op ... = Some ...` therefore also
   says that neither happens.

   Scope (see Model.v header): Node::Mapping / WBTreeMap::mapped are not modelled (created
   only by unit tests); Rc sharing is abstracted to value semantics, so clause (e) is true by
   construction here and is tied to the implementation only by the correspondence harness
   (harness/wbt-driver) and Miri.  Nothing in this file is partial or refuted. *)

From Coq Require Import NArith List Sorted.
From WBT Require Import Model Spec Run RefRun FactsList FactsBalance FactsOrder FactsInv FactsInvB
  FactsRun FactsExamples.
Import ListNotations.
Open Scope N_scope.

(* ================= (a) every public operation preserves Inv ================= *)

Theorem C14_insert :
  forall (V : Type) (key : N) (value : V) (m : wbmap V),
    Inv_map m ->
    Inv_map (fst (insert key value m)) /\
    iter (fst (insert key value m)) = assoc_insert key value (iter m) /\
    snd (insert key value m) = assoc key (iter m).
Proof. exact (@insert_spec). Qed.
Print Assumptions C14_insert.

Theorem C14_remove :
  forall (V : Type) (key : N) (m : wbmap V),
    Inv_map m ->
    exists m', remove key m = Some (m', assoc key (iter m)) /\
               Inv_map m' /\ iter m' = assoc_remove key (iter m).
Proof. exact (@remove_spec). Qed.
Print Assumptions C14_remove.

Theorem C14_clear :
  forall (V : Type) (m : wbmap V), Inv_map (clear m) /\ iter (clear m) = [].
Proof. exact (@clear_spec). Qed.
Print Assumptions C14_clear.

(* get_mut, then a write through the reference *)
Theorem C14_get_mut_write :
  forall (V : Type) (key : N) (f : V -> V) (m : wbmap V),
    Inv_map m ->
    Inv_map (modify key f m) /\ iter (modify key f m) = assoc_modify key f (iter m).
Proof. exact (@modify_spec). Qed.
Print Assumptions C14_get_mut_write.

(* iter_mut, writing every value *)
Theorem C14_iter_mut_write :
  forall (V : Type) (f : N -> V -> V) (m : wbmap V),
    Inv_map m ->
    Inv_map (iter_mut_map f m) /\ iter (iter_mut_map f m) = assoc_map_values f (iter m).
Proof. exact (@iter_mut_map_spec). Qed.
Print Assumptions C14_iter_mut_write.

(* (a)+(b)+(c) for union: no panic, Inv, contents, and the (left, right) callback order *)
Theorem C14_union :
  forall (V : Type) (f : N -> V -> V -> V) (a b : wbmap V),
    Inv_map a -> Inv_map b ->
    exists m, union f a b = Some m /\ Inv_map m /\
              iter m = assoc_union f (iter a) (iter b) /\
              forall key, get key m =
                match get key a, get key b with
                | Some x, Some y => Some (f key x y)
                | Some x, None => Some x
                | None, Some y => Some y
                | None, None => None
                end.
Proof. exact (@union_spec). Qed.
Print Assumptions C14_union.

(* difference: diff is called as diff(key, value in self, value in other) *)
Theorem C14_difference :
  forall (V : Type) (g : N -> V -> V -> option V) (a b : wbmap V),
    Inv_map a -> Inv_map b ->
    exists m, difference g a b = Some m /\ Inv_map m /\
              iter m = assoc_difference g (iter a) (iter b) /\
              forall key, get key m =
                match get key a, get key b with
                | Some x, Some y => g key x y
                | Some x, None => Some x
                | None, _ => None
                end.
Proof. exact (@difference_spec). Qed.
Print Assumptions C14_difference.

(* entry API; the unwrap()s never fire *)
Theorem C14_entry_or_insert :
  forall (V : Type) (key : N) (m : wbmap V) (default : V),
    Inv_map m ->
    exists m' x, or_insert (entry_of key m) default = Some (m', x) /\ Inv_map m' /\
      iter m' = (match assoc key (iter m) with
                 | Some _ => iter m
                 | None => assoc_insert key default (iter m)
                 end) /\
      x = (match assoc key (iter m) with Some y => y | None => default end).
Proof. exact (@or_insert_spec). Qed.
Print Assumptions C14_entry_or_insert.

Theorem C14_entry_or_insert_with :
  forall (V : Type) (key : N) (m : wbmap V) (default : unit -> V),
    or_insert_with (entry_of key m) default = or_insert (entry_of key m) (default tt).
Proof. exact (@or_insert_with_spec). Qed.
Print Assumptions C14_entry_or_insert_with.

Theorem C14_entry_occupied_ref :
  forall (V : Type) (key : N) (m : wbmap V),
    contains_key key m = true ->
    exists value, get key m = Some value /\ occ_into_mut key m = Some (m, value)
                  /\ occ_get_mut key m = Some (m, value).
Proof. exact (@occ_into_mut_spec). Qed.
Print Assumptions C14_entry_occupied_ref.

Theorem C14_entry_occupied_remove :
  forall (V : Type) (key : N) (m : wbmap V),
    Inv_map m -> contains_key key m = true ->
    exists m' value, occ_remove key m = Some (m', value) /\ get key m = Some value /\
                     Inv_map m' /\ iter m' = assoc_remove key (iter m).
Proof. exact (@occ_remove_spec). Qed.
Print Assumptions C14_entry_occupied_remove.

Theorem C14_entry_vacant_insert :
  forall (V : Type) (key : N) (m : wbmap V) (value : V),
    Inv_map m -> vac_insert key m value = Some (fst (insert key value m), value).
Proof. exact (@vac_insert_spec). Qed.
Print Assumptions C14_entry_vacant_insert.

(* the key lemma: join of arbitrarily unbalanced trees (join compares sizes, balance weights) *)
Theorem C14_join_inv :
  forall (V : Type) (l : tree V) (key : N) (value : V) (r : tree V),
    Inv l -> Inv r -> keys_lt (inorder l) key -> keys_gt (inorder r) key ->
    exists t, join l key value r = Some t /\ Inv t /\
              inorder t = inorder l ++ (key, value) :: inorder r /\
              size t = 1 + size l + size r.
Proof. exact (@join_Inv). Qed.
Print Assumptions C14_join_inv.

(* every reachable family of maps (clones included) satisfies the invariant *)
Theorem C14_inv_reachable :
  forall ops : list op, Inv_family (fold_left step ops init_family).
Proof. exact inv_reachable. Qed.
Print Assumptions C14_inv_reachable.

(* ... and no reachable operation panics or runs out of fuel in the model *)
Theorem C14_no_panic :
  forall ops : list op, Forall (fun x : out => fst x <> None) (run_ops ops).
Proof. exact run_ops_no_error. Qed.
Print Assumptions C14_no_panic.

(* ================= (b) refinement to association lists ================= *)

Theorem C14_get_refines :
  forall (V : Type) (key : N) (m : wbmap V), Inv_map m -> get key m = assoc key (iter m).
Proof. exact (@get_refines). Qed.
Print Assumptions C14_get_refines.

Theorem C14_contains_refines :
  forall (V : Type) (key : N) (m : wbmap V),
    Inv_map m ->
    contains_key key m = match assoc key (iter m) with Some _ => true | None => false end.
Proof. exact (@contains_key_refines). Qed.
Print Assumptions C14_contains_refines.

Theorem C14_len_refines :
  forall (V : Type) (m : wbmap V), Inv_map m -> len m = N.of_nat (length (iter m)).
Proof. exact (@len_refines). Qed.
Print Assumptions C14_len_refines.

Theorem C14_is_empty_refines :
  forall (V : Type) (m : wbmap V),
    Inv_map m -> is_empty m = match iter m with [] => true | _ => false end.
Proof. exact (@is_empty_refines). Qed.
Print Assumptions C14_is_empty_refines.

Theorem C14_iter_sorted :
  forall (V : Type) (m : wbmap V), Inv_map m -> StronglySorted N.lt (map fst (iter m)).
Proof. exact (@iter_sorted). Qed.
Print Assumptions C14_iter_sorted.

(* whole runs: what the model prints (minus shapes) is what the reference map prints *)
Theorem C14_run_refines :
  forall ops : list op, map strip (run_ops ops) = ref_run ops.
Proof. exact run_ops_refines. Qed.
Print Assumptions C14_run_refines.

(* ================= (d) logarithmic height ================= *)

Theorem C14_height_log :
  forall (V : Type) (t : tree V),
    balanced t -> sizes_ok t -> 4 ^ height t <= 3 ^ height t * (size t + 1).
Proof. exact (@height_log). Qed.
Print Assumptions C14_height_log.

Theorem C14_height_log_map :
  forall (V : Type) (m : wbmap V),
    Inv_map m -> 4 ^ height (root m) <= 3 ^ height (root m) * (len m + 1).
Proof. exact (@height_log_map). Qed.
Print Assumptions C14_height_log_map.

(* ================= (e) persistence (value semantics) ================= *)

Theorem C14_persistence :
  forall (f : family) (o : op) (h : N),
    h <> target o -> get_h (step f o) h = get_h f h.
Proof. exact step_other_unchanged. Qed.
Print Assumptions C14_persistence.

Theorem C14_clone_snapshot :
  forall (f : family) (src dst : N) (ops : list op),
    (N.to_nat dst < length f)%nat ->
    Forall (fun o => target o <> dst) ops ->
    get_h (fold_left step ops (step f (Clone src dst))) dst = get_h f src.
Proof. exact clone_is_snapshot. Qed.
Print Assumptions C14_clone_snapshot.

(* the boolean invariant checker used as search oracle is sound *)
Theorem C14_inv_b_sound :
  forall (V : Type) (t : tree V), inv_b t = true -> Inv t.
Proof. exact (@inv_b_ok). Qed.
Print Assumptions C14_inv_b_sound.

(* ... and complete: it accepts every tree that satisfies the invariant, so a rejection is a real
   invariant violation of the observed tree *)
Theorem C14_inv_b_complete :
  forall (V : Type) (t : tree V), Inv t -> inv_b t = true.
Proof. exact (@inv_b_complete). Qed.
Print Assumptions C14_inv_b_complete.

(* ================= non-vacuity ================= *)

(* Inv_map has non-trivial inhabitants: 9 ascending inserts (single rotations), and a
   zig-zag (double rotation) *)
Example C14_ex_inv_a : Inv_map sample_a.
Proof. exact sample_a_inv. Qed.
Example C14_ex_inv_b : Inv_map sample_b.
Proof. exact sample_b_inv. Qed.
Example C14_ex_shapes :
  shape (root sample_a) =
    [1;4;9; 1;2;3; 1;1;1;0;0; 1;3;1;0;0; 1;6;5; 1;5;1;0;0; 1;7;3; 0; 1;8;2; 0; 1;9;1;0;0] /\
  shape (root (ins_all [(5,1);(50,2);(30,3)] empty)) = [1;5;3; 0; 1;50;2; 1;30;1;0;0; 0] /\
  shape (root (ins_all [(5,1);(50,2);(30,3);(40,4)] empty)) =
    [1;30;4; 1;5;1;0;0; 1;50;2; 1;40;1;0;0; 0].
Proof. exact sample_shapes. Qed.
Example C14_ex_height : height (root sample_a) = 5 /\ len sample_a = 9.
Proof. exact sample_a_height. Qed.

(* the callback order is observable: merge_fn 0 is not commutative *)
Example C14_ex_union_order :
  exists m, union (merge_fn 0) sample_a sample_b = Some m /\
            get 5 sample_a = Some 50 /\ get 5 sample_b = Some 1 /\
            get 5 m = Some (merge_fn 0 5 50 1) /\
            merge_fn 0 5 50 1 <> merge_fn 0 5 1 50 /\
            get 0 m = Some 4 /\ get 1 m = Some 10 /\ get 6 m = Some 60.
Proof. exact sample_union_order. Qed.
Example C14_ex_difference_order :
  exists m, difference (diff_fn 1) sample_a sample_b = Some m /\
            get 5 m = Some 501 /\ get 1 m = Some 10 /\ get 0 m = None /\
            diff_fn 1 5 50 1 = Some 501 /\ diff_fn 1 5 1 50 = Some 60.
Proof. exact sample_difference_order. Qed.
Example C14_ex_difference_drop :
  exists m, difference (diff_fn 0) sample_a sample_b = Some m /\
            iter m = [(1,10);(2,20);(3,30);(4,40);(6,60);(7,70);(8,80);(9,90)].
Proof. exact sample_difference_drop. Qed.

(* C14_join_inv's hypotheses for a maximally unbalanced pair, and the result *)
Example C14_ex_join_hyps :
  Inv (@E N) /\ Inv (root sample_a) /\
  keys_lt (inorder (@E N)) 0 /\ keys_gt (inorder (root sample_a)) 0.
Proof. exact sample_join_hyps. Qed.
Example C14_ex_join_result :
  exists t, join E 0 0 (root sample_a) = Some t /\ inv_b t = true /\ size t = 10.
Proof. exact sample_join_result. Qed.

Example C14_ex_persistence :
  1 <> target (Insert 0 5 7) /\
  get_h (step (step init_family (Insert 1 3 4)) (Insert 0 5 7)) 1 =
  get_h (step init_family (Insert 1 3 4)) 1 /\
  iter (get_h (step init_family (Insert 1 3 4)) 1) = [(3, 4)].
Proof. exact sample_persistence. Qed.
Example C14_ex_snapshot_hyps :
  (N.to_nat 1 < length (step init_family (Insert 0 3 4)))%nat /\
  Forall (fun o => target o <> 1) [Insert 0 5 6; Remove 0 3; Clear 0].
Proof. exact sample_snapshot_hyps. Qed.
Example C14_ex_run :
  map strip (run_ops [Insert 0 2 5; Clone 0 1; Remove 0 2; Get 1 2]) =
  [ (Some [0],    [(1, [(2,5)]); (0, []); (0, []); (0, [])]);
    (Some [],     [(1, [(2,5)]); (1, [(2,5)]); (0, []); (0, [])]);
    (Some [1; 5], [(0, []); (1, [(2,5)]); (0, []); (0, [])]);
    (Some [1; 5], [(0, []); (1, [(2,5)]); (0, []); (0, [])]) ].
Proof. exact sample_run. Qed.
