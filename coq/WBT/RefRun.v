(* WBT/RefRun.v -- reference interpreter of the Run.v operation language over key-sorted
   association lists (the "BTreeMap" of the property statement).  Definitions only.
   FactsRun.run_ops_refines proves that the tree model, observed through iter/len and the
   return values, is indistinguishable from it. *)

From Coq Require Import NArith List.
From WBT Require Import Model Spec Run.
Import ListNotations.
Open Scope N_scope.

Definition alist : Type := list (N * N).

Definition ref_set (key value : N) (l : alist) : alist * ret :=
  match assoc key l with
  | Some old => (assoc_modify key (fun _ => value) l, r_opt (Some old))
  | None => (l, r_opt None)
  end.

Definition ref_or_insert (key value : N) (l : alist) : alist * ret :=
  match assoc key l with
  | Some y => (l, Some [y])
  | None => (assoc_insert key value l, Some [value])
  end.

Definition ref_step_map (o : op) (l a b : alist) : alist * ret :=
  match o with
  | Insert _ k v => (assoc_insert k v l, r_opt (assoc k l))
  | Remove _ k => (assoc_remove k l, r_opt (assoc k l))
  | Get _ k => (l, r_opt (assoc k l))
  | GetMutSet _ k v => ref_set k v l
  | Contains _ k => (l, r_bool (match assoc k l with Some _ => true | None => false end))
  | Len _ => (l, Some [N.of_nat (length l)])
  | IsEmpty _ => (l, r_bool (match l with [] => true | _ => false end))
  | Clear _ => ([], r_unit)
  | Iter _ => (l, Some (flatten_kv l))
  | IterMutAdd _ d => (assoc_map_values (fun _ v => (v + d) mod M20) l, r_unit)
  | EntryOrInsert _ k v => ref_or_insert k v l
  | EntryOrInsertWith _ k v => ref_or_insert k v l
  | EntryRemove _ k => (assoc_remove k l, r_opt (assoc k l))
  | EntryGetMutSet _ k v => ref_set k v l
  | EntryIntoMutSet _ k v => ref_set k v l
  | EntryVacantInsert _ k v =>
    match assoc k l with
    | Some _ => (l, r_opt None)
    | None => (assoc_insert k v l, r_opt (Some v))
    end
  | Clone _ _ => (a, r_unit)
  | Union _ _ _ fsel => (assoc_union (merge_fn fsel) a b, r_unit)
  | Difference _ _ _ gsel => (assoc_difference (diff_fn gsel) a b, r_unit)
  end.

Definition ref_family : Type := list alist.
Definition ref_init : ref_family := [[]; []; []; []].
Definition ref_get_h (f : ref_family) (h : N) : alist := nth (N.to_nat h) f [].

Definition ref_step_ret (f : ref_family) (o : op) : ref_family * ret :=
  let '(l', r) := ref_step_map o (ref_get_h f (target o)) (ref_get_h f (operand_a o))
                               (ref_get_h f (operand_b o)) in
  (set_nth (N.to_nat (target o)) l' f, r).

Definition ref_out : Type := ret * list (N * alist).
Definition ref_observe (l : alist) : N * alist := (N.of_nat (length l), l).

Fixpoint ref_run_from (f : ref_family) (ops : list op) : list ref_out :=
  match ops with
  | [] => []
  | o :: tl =>
    let '(f', r) := ref_step_ret f o in
    (r, map ref_observe f') :: ref_run_from f' tl
  end.

Definition ref_run (ops : list op) : list ref_out := ref_run_from ref_init ops.

(* forget the shapes in a model output *)
Definition strip (x : out) : ref_out := (fst x, map (fun st : hstate => fst st) (snd x)).
