(* WBT/FactsInvB.v -- the boolean invariant checker is also complete: it never rejects a tree that
   satisfies the invariant, so an oracle alarm is never a false alarm of the checker. *)
From Coq Require Import NArith List Lia Bool.
From WBT Require Import Model Spec FactsList.
Import ListNotations.
Open Scope N_scope.

Section InvB.
Context {V : Type}.

Lemma ssorted_sorted_b (l : list (N * V)) : ssorted l -> sorted_b (map fst l) = true.
Proof.
  induction l as [|p l IH]; cbn [map sorted_b ssorted]; [reflexivity|].
  intros [Hg Hs]. destruct l as [|q l]; [reflexivity|]. cbn [map] in *.
  apply keys_gt_cons in Hg. destruct Hg as [Hpq _].
  apply andb_true_iff. split; [apply N.ltb_lt; exact Hpq | apply IH; exact Hs].
Qed.

Lemma sizes_ok_b_complete (t : tree V) : sizes_ok t -> sizes_ok_b t = true.
Proof.
  induction t as [|s l IHl k v r IHr]; cbn [sizes_ok_b sizes_ok]; [reflexivity|].
  intros [Hs [Hl Hr]]. rewrite (IHl Hl), (IHr Hr). subst s. rewrite N.eqb_refl. reflexivity.
Qed.

Lemma balanced_b_complete (t : tree V) : balanced t -> balanced_b t = true.
Proof.
  induction t as [|s l IHl k v r IHr]; cbn [balanced_b balanced]; [reflexivity|].
  intros [[H1 H2] [Hl Hr]]. rewrite (IHl Hl), (IHr Hr).
  apply N.leb_le in H1. apply N.leb_le in H2. rewrite H1, H2. reflexivity.
Qed.

Lemma inv_b_complete (t : tree V) : Inv t -> inv_b t = true.
Proof.
  unfold inv_b, Inv, bst. intros [Hs [Hz Hb]].
  rewrite (ssorted_sorted_b _ Hs), (sizes_ok_b_complete _ Hz), (balanced_b_complete _ Hb). reflexivity.
Qed.

End InvB.
