(* WBT/FactsRun.v -- facts about the operation language of Run.v: every reachable family of
   maps satisfies the invariant, the model never reports a panic / fuel exhaustion, and an
   operation changes no handle but its target (persistence, value semantics). *)

From Coq Require Import NArith List Lia Bool.
From WBT Require Import Model Spec Run RefRun FactsList FactsBalance FactsOrder FactsInv.
Import ListNotations.
Open Scope N_scope.

Definition Inv_family (f : family) : Prop := Forall Inv_map f.

Lemma Inv_family_init : Inv_family init_family.
Proof. unfold init_family. repeat constructor; apply Inv_map_empty. Qed.

Lemma get_h_inv f h : Inv_family f -> Inv_map (get_h f h).
Proof.
  intros Hf. unfold get_h.
  destruct (nth_in_or_default (N.to_nat h) f empty) as [Hin|Hd].
  - unfold Inv_family in Hf. rewrite Forall_forall in Hf. apply Hf, Hin.
  - rewrite Hd. apply Inv_map_empty.
Qed.

Lemma set_nth_Forall {A} (P : A -> Prop) n x (l : list A) :
  Forall P l -> P x -> Forall P (set_nth n x l).
Proof.
  revert n. induction l as [|y l IH]; intros n Hl Hx; cbn [set_nth]; [constructor|].
  inversion Hl as [|? ? Hy Hl']; subst.
  destruct n; constructor; auto.
Qed.

Lemma set_h_inv f h m : Inv_family f -> Inv_map m -> Inv_family (set_h f h m).
Proof. intros Hf Hm. apply set_nth_Forall; assumption. Qed.

Lemma set_nth_length {A} n (x : A) l : length (set_nth n x l) = length l.
Proof.
  revert n. induction l as [|y l IH]; intros n; cbn [set_nth]; [reflexivity|].
  destruct n; cbn [length]; [reflexivity|]. rewrite IH. reflexivity.
Qed.

Lemma nth_set_nth_other {A} n n' (x d : A) l :
  n <> n' -> nth n (set_nth n' x l) d = nth n l d.
Proof.
  revert n n'. induction l as [|y l IH]; intros n n' Hne; cbn [set_nth]; [reflexivity|].
  destruct n' as [|n']; destruct n as [|n]; cbn [nth]; try reflexivity; try congruence.
  apply IH. congruence.
Qed.

Lemma nth_set_nth_same {A} n (x d : A) l :
  (n < length l)%nat -> nth n (set_nth n x l) d = x.
Proof.
  revert n. induction l as [|y l IH]; intros n Hn; cbn [length] in Hn; [lia|].
  cbn [set_nth]. destruct n as [|n]; cbn [nth]; [reflexivity|]. apply IH. lia.
Qed.

Ltac fin H := cbn [fst snd]; split; [exact H|unfold r_opt, r_bool, r_unit; discriminate].

(* one op on invariant-satisfying operands: result satisfies the invariant, and the model
   does not take any of the panic / out-of-fuel exits *)
Lemma step_map_ok o m a b :
  Inv_map m -> Inv_map a -> Inv_map b ->
  Inv_map (fst (step_map o m a b)) /\ snd (step_map o m a b) <> None.
Proof.
  intros Hm Ha Hb. destruct o; cbn [step_map].
  - (* Insert *)
    destruct (insert_spec k v m Hm) as (H & _ & _).
    destruct (insert k v m) as [m' old]. cbn [fst] in H. fin H.
  - (* Remove *)
    destruct (remove_spec k m Hm) as (m' & -> & H & _). fin H.
  - fin Hm.
  - (* GetMutSet *)
    destruct (get_mut k m); [|fin Hm].
    destruct (modify_spec k (fun _ => v) m Hm) as (H & _). fin H.
  - fin Hm.
  - fin Hm.
  - fin Hm.
  - (* Clear *) destruct (clear_spec m) as (H & _). fin H.
  - fin Hm.
  - (* IterMutAdd *)
    destruct (iter_mut_map_spec (fun _ v => (v + d) mod M20) m Hm) as (H & _). fin H.
  - (* EntryOrInsert *)
    destruct (or_insert_spec k m v Hm) as (m' & x & -> & H & _). fin H.
  - (* EntryOrInsertWith *)
    rewrite or_insert_with_spec.
    destruct (or_insert_spec k m v Hm) as (m' & x & -> & H & _). fin H.
  - (* EntryRemove *)
    destruct (entry_of_cases k m) as [(Hc & ->)|(Hc & ->)]; [|fin Hm].
    destruct (occ_remove_spec k m Hm Hc) as (m' & x & -> & _ & H & _). fin H.
  - (* EntryGetMutSet *)
    destruct (entry_of_cases k m) as [(Hc & ->)|(Hc & ->)]; [|fin Hm].
    destruct (occ_into_mut_spec k m Hc) as (x & _ & _ & Hg). rewrite Hg. rewrite Hg.
    destruct (modify_spec k (fun _ => v) m Hm) as (H & _). fin H.
  - (* EntryIntoMutSet *)
    destruct (entry_of_cases k m) as [(Hc & ->)|(Hc & ->)]; [|fin Hm].
    destruct (occ_into_mut_spec k m Hc) as (x & _ & Hg & _). rewrite Hg.
    destruct (modify_spec k (fun _ => v) m Hm) as (H & _). fin H.
  - (* EntryVacantInsert *)
    destruct (entry_of_cases k m) as [(Hc & ->)|(Hc & ->)]; [fin Hm|].
    rewrite (vac_insert_spec k m v Hm).
    destruct (insert_spec k v m Hm) as (H & _ & _). fin H.
  - (* Clone *) fin Ha.
  - (* Union *)
    destruct (union_spec (merge_fn fsel) a b Ha Hb) as (m' & -> & H & _). fin H.
  - (* Difference *)
    destruct (difference_spec (diff_fn gsel) a b Ha Hb) as (m' & -> & H & _). fin H.
Qed.

Lemma step_ret_ok f o :
  Inv_family f -> Inv_family (fst (step_ret f o)) /\ snd (step_ret f o) <> None.
Proof.
  intros Hf. unfold step_ret.
  destruct (step_map_ok o (get_h f (target o)) (get_h f (operand_a o)) (get_h f (operand_b o)))
    as (Hm & Hr); try (apply get_h_inv; exact Hf).
  destruct (step_map o (get_h f (target o)) (get_h f (operand_a o)) (get_h f (operand_b o)))
    as [m' r].
  cbn [fst snd] in *. split; [|exact Hr]. apply set_h_inv; assumption.
Qed.

Lemma step_inv f o : Inv_family f -> Inv_family (step f o).
Proof. intros Hf. apply (step_ret_ok f o Hf). Qed.

Lemma fold_step_inv ops f : Inv_family f -> Inv_family (fold_left step ops f).
Proof.
  revert f. induction ops as [|o ops IH]; intros f Hf; cbn [fold_left]; [exact Hf|].
  apply IH, step_inv, Hf.
Qed.

Theorem inv_reachable ops : Inv_family (fold_left step ops init_family).
Proof. apply fold_step_inv, Inv_family_init. Qed.

(* what run_ops prints is the sequence of states of that fold *)
Lemma run_from_snoc f ops o :
  run_from f (ops ++ [o]) =
  run_from f ops ++
  [(snd (step_ret (fold_left step ops f) o), map observe (fold_left step (ops ++ [o]) f))].
Proof.
  revert f. induction ops as [|o' ops IH]; intros f; cbn [app run_from fold_left].
  - change (step f o) with (fst (step_ret f o)).
    destruct (step_ret f o) as [f' r]. reflexivity.
  - change (step f o') with (fst (step_ret f o')).
    destruct (step_ret f o') as [f' r]. cbn [fst].
    rewrite IH. reflexivity.
Qed.

Lemma run_from_no_error f ops :
  Inv_family f -> Forall (fun x : out => fst x <> None) (run_from f ops).
Proof.
  revert f. induction ops as [|o ops IH]; intros f Hf; cbn [run_from]; [constructor|].
  destruct (step_ret_ok f o Hf) as (Hf' & Hr).
  destruct (step_ret f o) as [f' r]. cbn [fst snd] in *.
  constructor; [exact Hr|apply IH, Hf'].
Qed.

Theorem run_ops_no_error ops : Forall (fun x : out => fst x <> None) (run_ops ops).
Proof. apply run_from_no_error, Inv_family_init. Qed.

(* persistence: only the target handle changes *)
Theorem step_other_unchanged f o h :
  h <> target o -> get_h (step f o) h = get_h f h.
Proof.
  intros Hne. unfold step, step_ret.
  destruct (step_map o (get_h f (target o)) (get_h f (operand_a o)) (get_h f (operand_b o)))
    as [m' r].
  cbn [fst]. unfold get_h, set_h. apply nth_set_nth_other.
  intros Heq. apply Hne. apply N2Nat.inj, Heq.
Qed.

Lemma step_length f o : length (step f o) = length f.
Proof.
  unfold step, step_ret.
  destruct (step_map o (get_h f (target o)) (get_h f (operand_a o)) (get_h f (operand_b o)))
    as [m' r].
  cbn [fst]. apply set_nth_length.
Qed.

(* a clone is a snapshot: later operations on the source never show through it *)
Theorem clone_is_snapshot f src dst ops :
  (N.to_nat dst < length f)%nat ->
  Forall (fun o => target o <> dst) ops ->
  get_h (fold_left step ops (step f (Clone src dst))) dst = get_h f src.
Proof.
  intros Hlen Hops.
  assert (H0 : get_h (step f (Clone src dst)) dst = get_h f src).
  { unfold step, step_ret. cbn [target operand_a operand_b step_map fst].
    unfold get_h at 1. unfold set_h. apply nth_set_nth_same. exact Hlen. }
  rewrite <- H0. generalize (step f (Clone src dst)) as f0. clear H0 Hlen.
  induction ops as [|o ops IH]; intros f0; cbn [fold_left]; [reflexivity|].
  inversion Hops as [|? ? Ho Hops']; subst.
  rewrite (IH Hops'). apply step_other_unchanged. congruence.
Qed.

(* ---------- the model is observationally a sorted association list ---------- *)

Lemma step_map_refines o m a b :
  Inv_map m -> Inv_map a -> Inv_map b ->
  (iter (fst (step_map o m a b)), snd (step_map o m a b)) =
  ref_step_map o (iter m) (iter a) (iter b).
Proof.
  intros Hm Ha Hb. destruct o; cbn [step_map ref_step_map].
  - (* Insert *)
    destruct (insert_spec k v m Hm) as (_ & Hi & Ho).
    destruct (insert k v m) as [m' old]. cbn [fst snd] in *. rewrite Hi, Ho. reflexivity.
  - (* Remove *)
    destruct (remove_spec k m Hm) as (m' & -> & _ & Hi). cbn [fst snd]. rewrite Hi. reflexivity.
  - (* Get *) cbn [fst snd]. rewrite (get_refines k m Hm). reflexivity.
  - (* GetMutSet *)
    unfold get_mut, ref_set. rewrite (get_refines k m Hm).
    destruct (assoc k (iter m)) as [old|]; [|reflexivity].
    destruct (modify_spec k (fun _ => v) m Hm) as (_ & Hi). cbn [fst snd]. rewrite Hi. reflexivity.
  - (* Contains *) cbn [fst snd]. rewrite (contains_key_refines k m Hm). reflexivity.
  - (* Len *) cbn [fst snd]. rewrite (len_refines m Hm). reflexivity.
  - (* IsEmpty *) cbn [fst snd]. rewrite (is_empty_refines m Hm). reflexivity.
  - (* Clear *) reflexivity.
  - (* Iter *) reflexivity.
  - (* IterMutAdd *)
    destruct (iter_mut_map_spec (fun _ v => (v + d) mod M20) m Hm) as (_ & Hi).
    cbn [fst snd]. rewrite Hi. reflexivity.
  - (* EntryOrInsert *)
    destruct (or_insert_spec k m v Hm) as (m' & x & -> & _ & Hi & Hx). cbn [fst snd].
    unfold ref_or_insert. rewrite Hi, Hx. destruct (assoc k (iter m)); reflexivity.
  - (* EntryOrInsertWith *)
    rewrite or_insert_with_spec.
    destruct (or_insert_spec k m v Hm) as (m' & x & -> & _ & Hi & Hx). cbn [fst snd].
    unfold ref_or_insert. rewrite Hi, Hx. destruct (assoc k (iter m)); reflexivity.
  - (* EntryRemove *)
    destruct (entry_of_cases k m) as [(Hc & ->)|(Hc & ->)].
    + destruct (occ_remove_spec k m Hm Hc) as (m' & x & -> & Hg & _ & Hi). cbn [fst snd].
      rewrite (get_refines k m Hm) in Hg. rewrite Hi, Hg. reflexivity.
    + cbn [fst snd]. rewrite (contains_key_refines k m Hm) in Hc.
      destruct (assoc k (iter m)) eqn:Ea; [discriminate|].
      rewrite (assoc_remove_absent _ _ Ea). reflexivity.
  - (* EntryGetMutSet *)
    unfold ref_set.
    destruct (entry_of_cases k m) as [(Hc & ->)|(Hc & ->)].
    + destruct (occ_into_mut_spec k m Hc) as (x & Hx & _ & Hg). rewrite Hg. rewrite Hg.
      rewrite (get_refines k m Hm) in Hx. rewrite Hx.
      destruct (modify_spec k (fun _ => v) m Hm) as (_ & Hi). cbn [fst snd]. rewrite Hi. reflexivity.
    + rewrite (contains_key_refines k m Hm) in Hc.
      destruct (assoc k (iter m)); [discriminate|reflexivity].
  - (* EntryIntoMutSet *)
    unfold ref_set.
    destruct (entry_of_cases k m) as [(Hc & ->)|(Hc & ->)].
    + destruct (occ_into_mut_spec k m Hc) as (x & Hx & Hg & _). rewrite Hg.
      rewrite (get_refines k m Hm) in Hx. rewrite Hx.
      destruct (modify_spec k (fun _ => v) m Hm) as (_ & Hi). cbn [fst snd]. rewrite Hi. reflexivity.
    + rewrite (contains_key_refines k m Hm) in Hc.
      destruct (assoc k (iter m)); [discriminate|reflexivity].
  - (* EntryVacantInsert *)
    destruct (entry_of_cases k m) as [(Hc & ->)|(Hc & ->)];
      rewrite (contains_key_refines k m Hm) in Hc.
    + destruct (assoc k (iter m)); [reflexivity|discriminate].
    + rewrite (vac_insert_spec k m v Hm).
      destruct (insert_spec k v m Hm) as (_ & Hi & _). cbn [fst snd]. rewrite Hi.
      destruct (assoc k (iter m)); [discriminate|reflexivity].
  - (* Clone *) reflexivity.
  - (* Union *)
    destruct (union_spec (merge_fn fsel) a b Ha Hb) as (m' & -> & _ & Hi & _).
    cbn [fst snd]. rewrite Hi. reflexivity.
  - (* Difference *)
    destruct (difference_spec (diff_fn gsel) a b Ha Hb) as (m' & -> & _ & Hi & _).
    cbn [fst snd]. rewrite Hi. reflexivity.
Qed.

Lemma ref_get_h_map f h : ref_get_h (map iter f) h = iter (get_h f h).
Proof. unfold ref_get_h, get_h. change (@nil (N * N)) with (iter (@empty N)). apply map_nth. Qed.

Lemma map_set_nth {A B} (g : A -> B) n x (l : list A) :
  map g (set_nth n x l) = set_nth n (g x) (map g l).
Proof.
  revert n. induction l as [|y l IH]; intros n; cbn [set_nth map]; [reflexivity|].
  destruct n; cbn [map]; [reflexivity|]. rewrite IH. reflexivity.
Qed.

Lemma step_ret_refines f o :
  Inv_family f ->
  (map iter (fst (step_ret f o)), snd (step_ret f o)) = ref_step_ret (map iter f) o.
Proof.
  intros Hf. unfold step_ret, ref_step_ret. rewrite !ref_get_h_map.
  rewrite <- (step_map_refines o (get_h f (target o)) (get_h f (operand_a o))
                               (get_h f (operand_b o))); try (apply get_h_inv; exact Hf).
  destruct (step_map o (get_h f (target o)) (get_h f (operand_a o)) (get_h f (operand_b o)))
    as [m' r].
  cbn [fst snd]. unfold set_h. rewrite map_set_nth. reflexivity.
Qed.

Lemma observe_strip (f : family) :
  Inv_family f ->
  map (fun st : hstate => fst st) (map observe f) = map ref_observe (map iter f).
Proof.
  intros Hf. rewrite !map_map. apply map_ext_in. intros m Hin.
  unfold Inv_family in Hf. rewrite Forall_forall in Hf.
  unfold observe, ref_observe. cbn [fst]. rewrite (len_refines m (Hf m Hin)). reflexivity.
Qed.

Lemma run_from_refines f ops :
  Inv_family f -> map strip (run_from f ops) = ref_run_from (map iter f) ops.
Proof.
  revert f. induction ops as [|o ops IH]; intros f Hf; cbn [run_from ref_run_from map];
    [reflexivity|].
  pose proof (step_ret_refines f o Hf) as Hs.
  destruct (step_ret_ok f o Hf) as (Hf' & _).
  destruct (step_ret f o) as [f' r]. cbn [fst snd] in *.
  rewrite <- Hs. cbn [map]. unfold strip at 1. cbn [fst snd].
  rewrite (observe_strip f' Hf'), (IH f' Hf'). reflexivity.
Qed.

Theorem run_ops_refines ops : map strip (run_ops ops) = ref_run ops.
Proof. apply (run_from_refines init_family ops Inv_family_init). Qed.
