(* WBT/Run.v -- the operation language shared with harness/wbt-driver, and its interpreter
   over the model.  Definitions only (facts about them are in FactsRun.v).

   STATE.  A family of 4 map handles 0..3 over V = N (Rust: WBTreeMap<u32>), all initially
   empty.  Handle arguments must be in 0..3 (the driver rejects anything else; the model
   reads an out-of-range handle as the empty map and ignores writes to it).
   Values are kept below 2^20 by the generators; the callbacks reduce mod 2^20.

   OPS (Coq constructor = driver opcode, see harness/wbt-driver/README.md):
      0 Insert h k v            ret = opt (previous value)
      1 Remove h k              ret = opt (removed value)
      2 Get h k                 ret = opt
      3 GetMutSet h k v         get_mut; if Some r { old = *r; *r = v };  ret = opt old
      4 Contains h k            ret = bool
      5 Len h                   ret = [len]
      6 IsEmpty h               ret = bool
      7 Clear h                 ret = []
      8 Iter h                  ret = [k1; v1; k2; v2; ...] in iteration order
      9 IterMutAdd h d          for (_, v) in iter_mut { v := (v + d) mod 2^20 };  ret = []
     10 EntryOrInsert h k v     ret = [deref entry(k).or_insert(v)]
     11 EntryOrInsertWith h k v ret = [deref entry(k).or_insert_with(|| v)]
     12 EntryRemove h k         Occupied(e) => opt Some(e.remove());  Vacant => opt None
     13 EntryGetMutSet h k v    Occupied(mut e) => { old = *e.get_mut(); *e.get_mut() = v; opt Some old }
                                Vacant => opt None
     14 EntryIntoMutSet h k v   Occupied(e) => { r = e.into_mut(); old = *r; *r = v; opt Some old }
                                Vacant => opt None
     15 EntryVacantInsert h k v Vacant(e) => opt Some(deref e.insert(v));  Occupied => opt None
     16 Clone src dst           handles[dst] = handles[src].clone();  ret = []
     17 Union dst a b fsel      handles[dst] = handles[a].union(&handles[b], merge fsel);  ret = []
     18 Difference dst a b gsel handles[dst] = handles[a].difference(&handles[b], diff gsel);  ret = []
   with  merge fsel k x y = (if fsel = 0 then 10*x + y + k else x) mod 2^20
         diff  gsel k x y = None                         if gsel = 0
                            Some ((10*x + y) mod 2^20)   if gsel = 1
                            if k even then Some ((10*x + y) mod 2^20) else None   otherwise.
   `opt None` is encoded [0], `opt (Some v)` is [1; v], bool is [0] / [1].

   OUTPUT.  run_ops yields one `out` per op:
        out = (ret, [st0; st1; st2; st3])      ret : option (list N)   (None = the model hit a
                                               panic / out-of-fuel case; proved impossible in
                                               FactsRun.run_ops_no_error)
        st  = (len, [(k1, v1); ...], shape)    in-order contents through `iter`, and
        shape = pre-order token list:  empty subtree = [0];
                data node = 1 :: key :: cached_size :: shape left ++ shape right.
   TEXT FORMAT.  Printed by Coq (with N_scope open and ListNotations) an `out` looks like
        (Some [1; 7], [(1, [(3, 4)], [1; 3; 1; 0; 0]); (0, [], [0]); (0, [], [0]); (0, [], [0])])
   The driver prints exactly this term with ALL whitespace removed, one line per op; so
   removing whitespace from Coq's answer to `Eval vm_compute in (run_ops [...])`, i.e. from
   `= [o1; o2; ...] : list out`, gives "[" ++ join ";" driver_lines ++ "]".
   The driver derives the token list from WBTreeMap::verif_shape()'s S-expression
   ("." => 0, "(key size L R)" => 1 key size L R). *)

From Coq Require Import NArith List.
From WBT Require Import Model.
Import ListNotations.
Open Scope N_scope.

Inductive op : Type :=
| Insert (h k v : N)
| Remove (h k : N)
| Get (h k : N)
| GetMutSet (h k v : N)
| Contains (h k : N)
| Len (h : N)
| IsEmpty (h : N)
| Clear (h : N)
| Iter (h : N)
| IterMutAdd (h d : N)
| EntryOrInsert (h k v : N)
| EntryOrInsertWith (h k v : N)
| EntryRemove (h k : N)
| EntryGetMutSet (h k v : N)
| EntryIntoMutSet (h k v : N)
| EntryVacantInsert (h k v : N)
| Clone (src dst : N)
| Union (dst a b fsel : N)
| Difference (dst a b gsel : N).

Definition M20 : N := 1048576.

Definition merge_fn (fsel k x y : N) : N :=
  (if fsel =? 0 then 10 * x + y + k else x) mod M20.

Definition diff_fn (gsel k x y : N) : option N :=
  if gsel =? 0 then None
  else if gsel =? 1 then Some ((10 * x + y) mod M20)
  else if N.even k then Some ((10 * x + y) mod M20) else None.

Definition family : Type := list (wbmap N).
Definition init_family : family := [empty; empty; empty; empty].

Definition get_h (f : family) (h : N) : wbmap N := nth (N.to_nat h) f empty.

Fixpoint set_nth {A} (n : nat) (x : A) (l : list A) {struct l} : list A :=
  match l with
  | [] => []
  | y :: tl => match n with O => x :: tl | S n' => y :: set_nth n' x tl end
  end.
Definition set_h (f : family) (h : N) (m : wbmap N) : family := set_nth (N.to_nat h) m f.

Definition ret : Type := option (list N).
Definition r_opt (o : option N) : ret :=
  Some (match o with None => [0] | Some v => [1; v] end).
Definition r_bool (b : bool) : ret := Some [if b then 1 else 0].
Definition r_unit : ret := Some [].
Definition r_error : ret := None.

Fixpoint flatten_kv (l : list (N * N)) : list N :=
  match l with [] => [] | (k, v) :: tl => k :: v :: flatten_kv tl end.

(* the handle written by an op (reads do not count) *)
Definition target (o : op) : N :=
  match o with
  | Insert h _ _ | Remove h _ | Get h _ | GetMutSet h _ _ | Contains h _ | Len h | IsEmpty h
  | Clear h | Iter h | IterMutAdd h _ | EntryOrInsert h _ _ | EntryOrInsertWith h _ _
  | EntryRemove h _ | EntryGetMutSet h _ _ | EntryIntoMutSet h _ _ | EntryVacantInsert h _ _ => h
  | Clone _ dst => dst
  | Union dst _ _ _ | Difference dst _ _ _ => dst
  end.

(* one op on one map: new value of the target handle and the return value.
   `a` and `b` are the operand maps for Clone/Union/Difference (else unused). *)
Definition step_map (o : op) (m a b : wbmap N) : wbmap N * ret :=
  match o with
  | Insert _ k v => let '(m', old) := insert k v m in (m', r_opt old)
  | Remove _ k =>
    match remove k m with
    | Some (m', old) => (m', r_opt old)
    | None => (m, r_error)
    end
  | Get _ k => (m, r_opt (get k m))
  | GetMutSet _ k v =>
    match get_mut k m with
    | Some old => (modify k (fun _ => v) m, r_opt (Some old))
    | None => (m, r_opt None)
    end
  | Contains _ k => (m, r_bool (contains_key k m))
  | Len _ => (m, Some [len m])
  | IsEmpty _ => (m, r_bool (is_empty m))
  | Clear _ => (clear m, r_unit)
  | Iter _ => (m, Some (flatten_kv (iter m)))
  | IterMutAdd _ d => (iter_mut_map (fun _ v => (v + d) mod M20) m, r_unit)
  | EntryOrInsert _ k v =>
    match or_insert (entry_of k m) v with
    | Some (m', x) => (m', Some [x])
    | None => (m, r_error)
    end
  | EntryOrInsertWith _ k v =>
    match or_insert_with (entry_of k m) (fun _ => v) with
    | Some (m', x) => (m', Some [x])
    | None => (m, r_error)
    end
  | EntryRemove _ k =>
    match entry_of k m with
    | Occupied key m0 =>
      match occ_remove key m0 with
      | Some (m', x) => (m', r_opt (Some x))
      | None => (m, r_error)
      end
    | Vacant _ _ => (m, r_opt None)
    end
  | EntryGetMutSet _ k v =>
    match entry_of k m with
    | Occupied key m0 =>
      match occ_get_mut key m0 with
      | Some (m', old) =>
        match occ_get_mut key m' with
        | Some (m'', _) => (modify key (fun _ => v) m'', r_opt (Some old))
        | None => (m, r_error)
        end
      | None => (m, r_error)
      end
    | Vacant _ _ => (m, r_opt None)
    end
  | EntryIntoMutSet _ k v =>
    match entry_of k m with
    | Occupied key m0 =>
      match occ_into_mut key m0 with
      | Some (m', old) => (modify key (fun _ => v) m', r_opt (Some old))
      | None => (m, r_error)
      end
    | Vacant _ _ => (m, r_opt None)
    end
  | EntryVacantInsert _ k v =>
    match entry_of k m with
    | Occupied _ _ => (m, r_opt None)
    | Vacant key m0 =>
      match vac_insert key m0 v with
      | Some (m', x) => (m', r_opt (Some x))
      | None => (m, r_error)
      end
    end
  | Clone _ _ => (a, r_unit)
  | Union _ _ _ fsel =>
    match union (merge_fn fsel) a b with
    | Some m' => (m', r_unit)
    | None => (m, r_error)
    end
  | Difference _ _ _ gsel =>
    match difference (diff_fn gsel) a b with
    | Some m' => (m', r_unit)
    | None => (m, r_error)
    end
  end.

Definition operand_a (o : op) : N :=
  match o with Clone src _ => src | Union _ a _ _ => a | Difference _ a _ _ => a | _ => 0 end.
Definition operand_b (o : op) : N :=
  match o with Union _ _ b _ => b | Difference _ _ b _ => b | _ => 0 end.

Definition step_ret (f : family) (o : op) : family * ret :=
  let '(m', r) := step_map o (get_h f (target o)) (get_h f (operand_a o)) (get_h f (operand_b o)) in
  (set_h f (target o) m', r).

Definition step (f : family) (o : op) : family := fst (step_ret f o).

Fixpoint shape (t : tree N) : list N :=
  match t with
  | E => [0]
  | T s l k _ r => 1 :: k :: s :: shape l ++ shape r
  end.

Definition hstate : Type := N * list (N * N) * list N.
Definition observe (m : wbmap N) : hstate := (len m, iter m, shape (root m)).

Definition out : Type := ret * list hstate.

Fixpoint run_from (f : family) (ops : list op) : list out :=
  match ops with
  | [] => []
  | o :: tl =>
    let '(f', r) := step_ret f o in
    (r, map observe f') :: run_from f' tl
  end.

Definition run_ops (ops : list op) : list out := run_from init_family ops.
