(* Boundary/Model.v -- the library boundary between the generated module and its rule components
   (property C19). Definitions only.

   Identifiers, types and symbols are interned as numbers by the translator (checks/modes.py): equal text
   <-> equal number. A module-side import is what the module declares inside `unsafe extern "Rust"`:
   the link name of the rule function and the fields (name, type) of the environment struct it passes,
   in declaration order. A component-side export is what a component defines: the `no_mangle` symbol and
   the fields of the environment struct its function takes. *)
From Coq Require Import List NArith Bool.
Import ListNotations.
Open Scope N_scope.

Definition fields := list (N * N).                 (* (field name, field type) in declaration order *)
Record side := { sym : N; env : fields }.

Fixpoint fields_eqb (a b : fields) : bool :=
  match a, b with
  | [], [] => true
  | (n1, t1) :: a', (n2, t2) :: b' => (n1 =? n2) && (t1 =? t2) && fields_eqb a' b'
  | _, _ => false
  end.

Definition matches (i e : side) : bool := (sym i =? sym e) && fields_eqb (env i) (env e).

Definition count_sym (s : N) (l : list side) : nat := length (filter (fun x => sym x =? s) l).

(* every import is defined by exactly one export with the same environment; every export is imported
   exactly once; so imports and exports are in bijection by symbol *)
Definition boundary_ok (imports exports : list side) : bool :=
  forallb (fun i => Nat.eqb (count_sym (sym i) exports) 1 && existsb (matches i) exports
                    && Nat.eqb (count_sym (sym i) imports) 1) imports
  && forallb (fun e => Nat.eqb (count_sym (sym e) imports) 1) exports.

(* rule code: the text of each rule module, interned; module build and component build must carry
   the same code for the same symbol *)
Definition code_ok (module_code component_code : list (N * N)) : bool :=
  forallb (fun mc => existsb (fun cc => (fst mc =? fst cc) && (snd mc =? snd cc)) component_code) module_code
  && forallb (fun cc => existsb (fun mc => (fst mc =? fst cc) && (snd mc =? snd cc)) module_code) component_code.
