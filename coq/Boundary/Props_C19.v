From Coq Require Import List NArith Bool.
From Boundary Require Import Model Facts.
Import ListNotations.
Open Scope N_scope.

(* Every symbol the module imports is exported by exactly one component whose environment struct has the
   same fields with the same types in the same order, and every exported symbol is imported exactly once. *)
Theorem C19_boundary_ok_sound : forall imports exports,
  boundary_ok imports exports = true -> Bijective imports exports.
Proof. exact boundary_ok_sound. Qed.
Print Assumptions C19_boundary_ok_sound.

(* Module build and component build carry the same rule code under the same symbols. *)
Theorem C19_code_ok_sound : forall mc cc, code_ok mc cc = true ->
  forall s c, In (s, c) mc <-> In (s, c) cc.
Proof. exact code_ok_sound. Qed.
Print Assumptions C19_code_ok_sound.

(* Completeness: the validator raises no alarm when the boundary is fine (no side listed twice). *)
Theorem C19_boundary_ok_complete : forall imports exports,
  NoDup imports -> NoDup exports -> Bijective imports exports -> boundary_ok imports exports = true.
Proof. exact boundary_ok_complete. Qed.
Print Assumptions C19_boundary_ok_complete.

Theorem C19_code_ok_complete : forall mc cc,
  (forall s c, In (s, c) mc <-> In (s, c) cc) -> code_ok mc cc = true.
Proof. exact code_ok_complete. Qed.
Print Assumptions C19_code_ok_complete.
