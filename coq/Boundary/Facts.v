From Coq Require Import List NArith Bool Arith Lia.
From Boundary Require Import Model.
Import ListNotations.
Open Scope N_scope.

Lemma fields_eqb_eq a : forall b, fields_eqb a b = true <-> a = b.
Proof.
  induction a as [|[n1 t1] a IH]; intros [|[n2 t2] b]; cbn [fields_eqb]; try (split; congruence).
  rewrite !andb_true_iff, !N.eqb_eq, IH. split.
  - intros [[-> ->] ->]. reflexivity.
  - intros H. inversion H. auto.
Qed.

Lemma matches_spec i e : matches i e = true <-> sym i = sym e /\ env i = env e.
Proof. unfold matches. rewrite andb_true_iff, N.eqb_eq, fields_eqb_eq. tauto. Qed.

Lemma count_one_unique s l : count_sym s l = 1%nat ->
  forall a b, In a l -> In b l -> sym a = s -> sym b = s ->
  exists l1 l2, l = l1 ++ a :: l2 /\ (forall x, In x l1 \/ In x l2 -> sym x <> s).
Proof.
  unfold count_sym. induction l as [|x l IH]; intros Hc a b Ha Hb Hsa Hsb; [inversion Ha|].
  cbn [filter] in Hc. destruct (sym x =? s) eqn:E.
  - apply N.eqb_eq in E. cbn [length] in Hc.
    assert (Hz : length (filter (fun y => sym y =? s) l) = 0%nat) by lia.
    assert (Hno : forall y, In y l -> sym y <> s).
    { intros y Hy Hs. assert (In y (filter (fun y => sym y =? s) l)) by (apply filter_In; split; auto; apply N.eqb_eq; auto).
      destruct (filter (fun y => sym y =? s) l); [contradiction|discriminate]. }
    destruct Ha as [->|Ha]; [|exfalso; eapply Hno; eauto].
    exists [], l. split; [reflexivity|]. intros y [[]|Hy]. auto.
  - apply N.eqb_neq in E.
    destruct Ha as [->|Ha]; [congruence|]. destruct Hb as [->|Hb]; [congruence|].
    destruct (IH Hc a b Ha Hb Hsa Hsb) as (l1 & l2 & -> & Hn).
    exists (x :: l1), l2. split; [reflexivity|]. intros y [[->|Hy]|Hy]; auto.
Qed.

Lemma count_one_same s l a b : count_sym s l = 1%nat -> In a l -> In b l -> sym a = s -> sym b = s -> a = b.
Proof.
  intros Hc Ha Hb Hsa Hsb. destruct (count_one_unique s l Hc a b Ha Hb Hsa Hsb) as (l1 & l2 & -> & Hn).
  apply in_app_or in Hb. destruct Hb as [Hb|[Hb|Hb]]; auto; exfalso; eapply Hn; eauto.
Qed.

Definition Bijective (imports exports : list side) : Prop :=
  (forall i, In i imports -> exists e, In e exports /\ sym e = sym i /\ env e = env i /\
      forall e', In e' exports -> sym e' = sym i -> e' = e) /\
  (forall e, In e exports -> exists i, In i imports /\ sym i = sym e /\ env i = env e /\
      forall i', In i' imports -> sym i' = sym e -> i' = i).

Lemma count_pos s l : (count_sym s l >= 1)%nat -> exists x, In x l /\ sym x = s.
Proof.
  unfold count_sym. intros H. destruct (filter (fun x => sym x =? s) l) as [|x r] eqn:E; [cbn in H; lia|].
  assert (In x (filter (fun x => sym x =? s) l)) by (rewrite E; left; reflexivity).
  apply filter_In in H0. destruct H0 as [H0 H1]. apply N.eqb_eq in H1. eauto.
Qed.

Theorem boundary_ok_sound imports exports : boundary_ok imports exports = true -> Bijective imports exports.
Proof.
  unfold boundary_ok. rewrite andb_true_iff, !forallb_forall. intros [HI HE]. split.
  - intros i Hi. specialize (HI i Hi). rewrite !andb_true_iff in HI. destruct HI as [[H1 H2] H3].
    apply Nat.eqb_eq in H1. apply existsb_exists in H2. destruct H2 as (e & He & Hm).
    apply matches_spec in Hm. destruct Hm as [Hs Hv]. exists e. repeat split; auto.
    intros e' He' Hs'. apply (count_one_same (sym i) exports); auto.
  - intros e He. specialize (HE e He). apply Nat.eqb_eq in HE.
    destruct (count_pos (sym e) imports ltac:(lia)) as (i & Hi & Hs).
    specialize (HI i Hi). rewrite !andb_true_iff in HI. destruct HI as [[H1 H2] H3].
    apply Nat.eqb_eq in H1. apply existsb_exists in H2. destruct H2 as (e2 & He2 & Hm).
    apply matches_spec in Hm. destruct Hm as [Hs2 Hv2].
    assert (e2 = e) by (apply (count_one_same (sym i) exports); auto; congruence). subst e2.
    exists i. repeat split; auto. intros i' Hi' Hs'. apply (count_one_same (sym e) imports); auto.
Qed.

Theorem code_ok_sound mc cc : code_ok mc cc = true ->
  forall s c, In (s, c) mc <-> In (s, c) cc.
Proof.
  unfold code_ok. rewrite andb_true_iff, !forallb_forall. intros [H1 H2] s c. split; intros H.
  - specialize (H1 _ H). apply existsb_exists in H1. destruct H1 as ([s' c'] & Hin & Hm).
    cbn [fst snd] in Hm. apply andb_true_iff in Hm. destruct Hm as [A B].
    apply N.eqb_eq in A. apply N.eqb_eq in B. subst. exact Hin.
  - specialize (H2 _ H). apply existsb_exists in H2. destruct H2 as ([s' c'] & Hin & Hm).
    cbn [fst snd] in Hm. apply andb_true_iff in Hm. destruct Hm as [A B].
    apply N.eqb_eq in A. apply N.eqb_eq in B. subst. exact Hin.
Qed.

Example ex_ok : boundary_ok [ {| sym := 1; env := [(10, 20); (11, 21)] |}; {| sym := 2; env := [] |} ]
                            [ {| sym := 2; env := [] |}; {| sym := 1; env := [(10, 20); (11, 21)] |} ] = true.
Proof. reflexivity. Qed.
Example ex_field_order : boundary_ok [ {| sym := 1; env := [(10, 20); (11, 21)] |} ]
                                     [ {| sym := 1; env := [(11, 21); (10, 20)] |} ] = false.
Proof. reflexivity. Qed.
Example ex_dup_export : boundary_ok [ {| sym := 1; env := [] |} ] [ {| sym := 1; env := [] |}; {| sym := 1; env := [] |} ] = false.
Proof. reflexivity. Qed.
Example ex_unimported : boundary_ok [ {| sym := 1; env := [] |} ] [ {| sym := 1; env := [] |}; {| sym := 3; env := [] |} ] = false.
Proof. reflexivity. Qed.

(* ---- completeness: the validator raises no alarm on a boundary that is fine ---- *)

Theorem code_ok_complete mc cc : (forall s c, In (s, c) mc <-> In (s, c) cc) -> code_ok mc cc = true.
Proof.
  intros H. unfold code_ok. rewrite andb_true_iff, !forallb_forall. split.
  - intros [s c] Hin. apply existsb_exists. exists (s, c). split; [apply H; exact Hin|].
    cbn [fst snd]. rewrite !N.eqb_refl. reflexivity.
  - intros [s c] Hin. apply existsb_exists. exists (s, c). split; [apply H; exact Hin|].
    cbn [fst snd]. rewrite !N.eqb_refl. reflexivity.
Qed.

Lemma count_zero s l : (forall y, In y l -> sym y <> s) -> count_sym s l = 0%nat.
Proof.
  unfold count_sym. induction l as [|x l IH]; intros H; [reflexivity|]. cbn [filter].
  destruct (sym x =? s) eqn:E.
  - apply N.eqb_eq in E. exfalso. apply (H x); [left; reflexivity | exact E].
  - apply IH. intros y Hy. apply H. right. exact Hy.
Qed.

Lemma count_unique l : forall a, NoDup l -> In a l ->
  (forall x, In x l -> sym x = sym a -> x = a) -> count_sym (sym a) l = 1%nat.
Proof.
  induction l as [|x l IH]; intros a Hnd Ha Hu; [inversion Ha|].
  inversion Hnd as [|? ? Hx Hl]; subst.
  destruct (sym x =? sym a) eqn:E.
  - apply N.eqb_eq in E. assert (x = a) by (apply Hu; [left; reflexivity | exact E]). subst x.
    unfold count_sym. cbn [filter]. rewrite N.eqb_refl. cbn [length]. f_equal.
    apply (count_zero (sym a) l). intros y Hy Hs.
    assert (y = a) by (apply Hu; [right; exact Hy | exact Hs]). subst y. contradiction.
  - assert (Ha' : In a l).
    { destruct Ha as [->|Ha]; [rewrite N.eqb_refl in E; discriminate | exact Ha]. }
    unfold count_sym. cbn [filter]. rewrite E.
    apply (IH a Hl Ha'). intros y Hy Hs. apply Hu; [right; exact Hy | exact Hs].
Qed.

Theorem boundary_ok_complete imports exports :
  NoDup imports -> NoDup exports -> Bijective imports exports -> boundary_ok imports exports = true.
Proof.
  intros Hni Hne [HI HE]. unfold boundary_ok. rewrite andb_true_iff, !forallb_forall. split.
  - intros i Hi. destruct (HI i Hi) as (e & He & Hs & Hv & Hu). rewrite !andb_true_iff. repeat split.
    + apply Nat.eqb_eq. rewrite <- Hs. apply (count_unique exports e Hne He).
      intros x Hx Hsx. apply Hu; [exact Hx | congruence].
    + apply existsb_exists. exists e. split; [exact He|]. apply matches_spec. split; congruence.
    + apply Nat.eqb_eq. destruct (HE e He) as (i0 & Hi0 & Hs0 & _ & Hu0).
      assert (i = i0) by (apply Hu0; [exact Hi | congruence]). subst i0.
      apply (count_unique imports i Hni Hi). intros x Hx Hsx.
      transitivity i; [|reflexivity]. apply Hu0; [exact Hx | congruence].
  - intros e He. apply Nat.eqb_eq. destruct (HE e He) as (i & Hi & Hs & _ & Hu).
    rewrite <- Hs. apply (count_unique imports i Hni Hi). intros x Hx Hsx.
    apply Hu; [exact Hx | congruence].
Qed.
