(* Specifications of the Unification methods: root (mutating), union_roots_into,
   increase_size_to. *)

From Coq Require Import List NArith Bool Lia Arith.
From UF Require Import Model FactsBase.
Import ListNotations.
Open Scope N_scope.

Arguments N.add : simpl never.
Arguments N.sub : simpl never.
Arguments N.mul : simpl never.
Arguments N.eqb : simpl never.
Arguments N.ltb : simpl never.
Arguments N.leb : simpl never.

(* ------------------------------------------------------------------------------------------ *)
(* root: one step of the loop re-points el to its grandparent                                  *)
(* ------------------------------------------------------------------------------------------ *)

Lemma shortcut : forall u d el p gp u1,
  WFd u d -> get u el = Some p -> p <> el -> get u p = Some gp -> set u el gp = Some u1 ->
  WFd u1 d /\ (forall y r, RootOf u1 y r <-> RootOf u y r).
Proof.
  intros u d el p gp u1 Hwf Hel Hne Hp Hset.
  pose proof Hwf as [Hrange Hrank].
  assert (Hdgp : (d gp < d el)%nat).
  { pose proof (Hrank el p Hel Hne) as H1.
    destruct (N.eq_dec gp p) as [E|E]; [subst gp; exact H1|].
    pose proof (Hrank p gp Hp E). lia. }
  assert (Hlen : len u1 = len u) by exact (set_len _ _ _ _ Hset).
  assert (Hwf1 : WFd u1 d).
  { split.
    - intros x q Hx. rewrite Hlen. destruct (N.eq_dec x el) as [E|E].
      + subst x. rewrite (get_set_eq _ _ _ _ Hset) in Hx. injection Hx as Hx. subst q.
        exact (Hrange p gp Hp).
      + rewrite (get_set_neq _ _ _ _ x Hset E) in Hx. exact (Hrange x q Hx).
    - intros x q Hx Hq. destruct (N.eq_dec x el) as [E|E].
      + subst x. rewrite (get_set_eq _ _ _ _ Hset) in Hx. injection Hx as Hx. subst q.
        exact Hdgp.
      + rewrite (get_set_neq _ _ _ _ x Hset E) in Hx. exact (Hrank x q Hx Hq). }
  split; [exact Hwf1|].
  assert (Hdir : forall y r, RootOf u1 y r -> RootOf u y r).
  { intros y r H. induction H as [y Hy|y q r Hy Hq H IH].
    - destruct (N.eq_dec y el) as [E|E].
      + subst y. rewrite (get_set_eq _ _ _ _ Hset) in Hy. injection Hy as Hy. subst gp. lia.
      + rewrite (get_set_neq _ _ _ _ y Hset E) in Hy. apply RO_root. exact Hy.
    - destruct (N.eq_dec y el) as [E|E].
      + subst y. rewrite (get_set_eq _ _ _ _ Hset) in Hy. injection Hy as Hy. subst q.
        apply (RO_step u el p r Hel Hne).
        destruct (N.eq_dec gp p) as [E|E]; [subst gp; exact IH|].
        exact (RO_step u p gp r Hp E IH).
      + rewrite (get_set_neq _ _ _ _ y Hset E) in Hy. exact (RO_step u y q r Hy Hq IH). }
  intros y r. split; [apply Hdir|].
  intros H. pose proof (RootOf_lt u y r H) as Hy. rewrite <- Hlen in Hy.
  destruct (RootOf_total u1 d Hwf1 y Hy) as [r' Hr'].
  replace r with r'; [exact Hr'|]. exact (RootOf_fun u y r' r (Hdir y r' Hr') H).
Qed.

Lemma r_loop_eq : forall f u el, r_loop f u el el = Ok (u, el).
Proof. intros f u el. destruct f; cbn [r_loop]; rewrite N.eqb_refl; reflexivity. Qed.

Lemma r_loop_spec : forall d f u el p seen,
  WFd u d -> get u el = Some p -> NoDup seen ->
  (forall y, In y seen -> y < len u /\ (d el < d y)%nat) ->
  (length u <= length seen + f + 1)%nat ->
  exists u' r, r_loop f u el p = Ok (u', r) /\ WFd u' d /\ length u' = length u /\
               RootOf u el r /\ (forall y r', RootOf u' y r' <-> RootOf u y r').
Proof.
  intros d. induction f as [|f IH]; intros u el p seen Hwf Hel Hnd Hseen Hlen;
    (destruct (N.eq_dec el p) as [E|E];
     [subst p; exists u, el; rewrite r_loop_eq;
      split; [reflexivity|]; split; [exact Hwf|]; split; [reflexivity|];
      split; [apply RO_root; exact Hel|intros y r'; reflexivity]|]).
  - pose proof (fuel_contra u d el p seen Hwf Hel ltac:(congruence) Hnd Hseen). lia.
  - cbn [r_loop]. apply N.eqb_neq in E. rewrite E. apply N.eqb_neq in E.
    pose proof Hwf as [Hrange Hrank].
    destruct (get_lt u p (Hrange el p Hel)) as [gp Hp]. rewrite Hp.
    destruct (set_Some u el gp (get_Some_lt u el p Hel)) as [u1 Hset]. rewrite Hset.
    assert (Hp1 : get u1 p = Some gp).
    { rewrite (get_set_neq _ _ _ _ p Hset); [exact Hp|congruence]. }
    rewrite Hp1.
    destruct (shortcut u d el p gp u1 Hwf Hel ltac:(congruence) Hp Hset) as [Hwf1 Heq1].
    assert (Hl1 : length u1 = length u) by exact (set_length _ _ _ _ Hset).
    assert (Hlen1 : len u1 = len u) by exact (set_len _ _ _ _ Hset).
    assert (Hd : (d p < d el)%nat) by (apply (Hrank el p Hel); congruence).
    destruct (IH u1 p gp (el :: seen) Hwf1 Hp1) as [u' [r [Hr [Hwf' [Hl' [Hroot Heq']]]]]].
    + constructor; [|exact Hnd]. intros Hin. destruct (Hseen el Hin) as [_ H]. lia.
    + intros y [Ey|Hin].
      * subst y. rewrite Hlen1. split; [exact (get_Some_lt u el p Hel)|exact Hd].
      * destruct (Hseen y Hin) as [H1 H2]. rewrite Hlen1. split; [exact H1|lia].
    + cbn [length]. lia.
    + exists u', r. split; [exact Hr|]. split; [exact Hwf'|]. split; [lia|]. split.
      * apply (RO_step u el p r Hel); [congruence|]. apply Heq1. exact Hroot.
      * intros y r'. rewrite Heq'. apply Heq1.
Qed.

Lemma root_oob : forall u x, len u <= x -> root u x = Panic.
Proof. intros u x H. unfold root, root_f. rewrite (get_ge_None u x H). reflexivity. Qed.

Lemma root_of_root : forall u r, get u r = Some r -> root u r = Ok (u, r).
Proof. intros u r H. unfold root, root_f. rewrite H. apply r_loop_eq. Qed.

(* root returns the representative root_const returns, keeps the vector well formed, and does not
   change the root of any element *)
Lemma root_spec : forall u, WF u -> forall x, x < len u ->
  exists u' r, root u x = Ok (u', r) /\ root_const u x = Ok r /\ WF u' /\
               length u' = length u /\
               (forall y r', RootOf u' y r' <-> RootOf u y r') /\
               (forall y, root_const u' y = root_const u y).
Proof.
  intros u Hwf x Hx. pose proof Hwf as [d Hd].
  destruct (get_lt u x Hx) as [p Hp].
  destruct (r_loop_spec d (length u) u x p [] Hd Hp (NoDup_nil N)) as
      [u' [r [Hr [Hwf' [Hl [Hroot Heq]]]]]].
  - intros y [].
  - cbn [length]. lia.
  - exists u', r. split; [unfold root, root_f; rewrite Hp; exact Hr|].
    split; [exact (RootOf_root_const u Hwf x r Hroot)|].
    assert (Hwf'' : WF u') by (exists d; exact Hwf').
    split; [exact Hwf''|]. split; [exact Hl|]. split; [exact Heq|].
    exact (root_const_ext u u' Hwf Hwf'' Hl Heq).
Qed.

Lemma root_inv : forall u, WF u -> forall x u' r, root u x = Ok (u', r) ->
  x < len u /\ WF u' /\ length u' = length u /\ RootOf u x r /\
  (forall y r', RootOf u' y r' <-> RootOf u y r').
Proof.
  intros u Hwf x u' r H.
  destruct (N.lt_ge_cases x (len u)) as [Hx|Hx]; [|rewrite (root_oob u x Hx) in H; discriminate].
  destruct (root_spec u Hwf x Hx) as [u'' [r'' [H1 [H2 [H3 [H4 [H5 _]]]]]]].
  rewrite H1 in H. injection H as Hu Hr. subst u'' r''.
  repeat split; try assumption; try (apply H5; assumption).
  exact (root_const_RootOf u x r H2).
Qed.

Lemma root_not_nofuel : forall u, WF u -> forall x, root u x <> NoFuel.
Proof.
  intros u Hwf x. destruct (N.lt_ge_cases x (len u)) as [Hx|Hx].
  - destruct (root_spec u Hwf x Hx) as [u' [r [H _]]]. rewrite H. discriminate.
  - rewrite (root_oob u x Hx). discriminate.
Qed.

Lemma root_const_not_nofuel : forall u, WF u -> forall x, root_const u x <> NoFuel.
Proof.
  intros u Hwf x. destruct (N.lt_ge_cases x (len u)) as [Hx|Hx].
  - destruct (root_const_ok u Hwf x Hx) as [r [H _]]. rewrite H. discriminate.
  - rewrite (root_const_oob u x Hx). discriminate.
Qed.

Lemma root_returns_self : forall u, WF u -> forall a u1, root u a = Ok (u1, a) ->
  get u a = Some a /\ u1 = u.
Proof.
  intros u Hwf a u1 H. destruct (root_inv u Hwf a u1 a H) as [_ [_ [_ [Hr _]]]].
  pose proof (RootOf_is_root u a a Hr) as Ha. split; [exact Ha|].
  rewrite (root_of_root u a Ha) in H. injection H as H. symmetry. exact H.
Qed.

(* ------------------------------------------------------------------------------------------ *)
(* union_roots_into                                                                            *)
(* ------------------------------------------------------------------------------------------ *)

Lemma union_roots_into_inv : forall u, WF u -> forall a b u',
  union_roots_into u a b = Ok u' ->
  get u a = Some a /\ get u b = Some b /\ set u a b = Some u'.
Proof.
  intros u Hwf a b u' H. unfold union_roots_into in H.
  destruct (root u a) as [[u1 r1]| |] eqn:R1; cbn [bind] in H; try discriminate.
  destruct (N.eqb a r1) eqn:E1; cbn [negb] in H; try discriminate.
  apply N.eqb_eq in E1. subst r1.
  destruct (root_returns_self u Hwf a u1 R1) as [Ha Hu]. subst u1.
  destruct (root u b) as [[u2 r2]| |] eqn:R2; cbn [bind] in H; try discriminate.
  destruct (N.eqb b r2) eqn:E2; cbn [negb] in H; try discriminate.
  apply N.eqb_eq in E2. subst r2.
  destruct (root_returns_self u Hwf b u2 R2) as [Hb Hu]. subst u2.
  destruct (set u a b) as [u3|] eqn:Hset; [|discriminate].
  injection H as H. subst u3. repeat split; assumption.
Qed.

Lemma union_roots_into_not_nofuel : forall u, WF u -> forall a b,
  union_roots_into u a b <> NoFuel.
Proof.
  intros u Hwf a b H. unfold union_roots_into in H.
  destruct (root u a) as [[u1 r1]| |] eqn:R1; cbn [bind] in H; try discriminate.
  - destruct (N.eqb a r1) eqn:E1; cbn [negb] in H; try discriminate.
    destruct (root_inv u Hwf a u1 r1 R1) as [_ [Hwf1 _]].
    destruct (root u1 b) as [[u2 r2]| |] eqn:R2; cbn [bind] in H; try discriminate.
    + destruct (N.eqb b r2); cbn [negb] in H; try discriminate.
      destruct (set u2 a b); discriminate.
    + exact (root_not_nofuel u1 Hwf1 b R2).
  - exact (root_not_nofuel u Hwf a R1).
Qed.

(* linking the root a below the distinct root b *)
Lemma union_RootOf : forall u a b u',
  WF u -> get u a = Some a -> get u b = Some b -> a <> b -> set u a b = Some u' ->
  WF u' /\ length u' = length u /\
  forall x r, RootOf u' x r <-> (RootOf u x r /\ r <> a) \/ (RootOf u x a /\ r = b).
Proof.
  intros u a b u' Hwf Ha Hb Hab Hset.
  pose proof Hwf as [d [Hrange Hrank]].
  assert (Hlen : len u' = len u) by exact (set_len _ _ _ _ Hset).
  assert (Hga : get u' a = Some b) by exact (get_set_eq _ _ _ _ Hset).
  assert (Hgo : forall x, x <> a -> get u' x = get u x).
  { intros x Hx. exact (get_set_neq _ _ _ _ x Hset Hx). }
  split; [|split; [exact (set_length _ _ _ _ Hset)|]].
  - (* rank: elements of the class of a are lifted above b *)
    exists (fun x => match root_const u x with
                     | Ok r => if N.eqb r a then (d x + d b + 1)%nat else d x
                     | _ => d x
                     end).
    split.
    + intros x q Hx. rewrite Hlen. destruct (N.eq_dec x a) as [E|E].
      * subst x. rewrite Hga in Hx. injection Hx as Hx. subst q. exact (get_Some_lt u b b Hb).
      * rewrite (Hgo x E) in Hx. exact (Hrange x q Hx).
    + intros x q Hx Hq. destruct (N.eq_dec x a) as [E|E].
      * subst x. rewrite Hga in Hx. injection Hx as Hx. subst q.
        rewrite (root_const_of_root u b Hb), (root_const_of_root u a Ha), N.eqb_refl.
        replace (N.eqb b a) with false by (symmetry; apply N.eqb_neq; congruence). lia.
      * rewrite (Hgo x E) in Hx.
        destruct (root_const_ok u Hwf q (Hrange x q Hx)) as [r [Hr1 Hr2]].
        rewrite Hr1.
        rewrite (RootOf_root_const u Hwf x r (RO_step u x q r Hx Hq Hr2)).
        pose proof (Hrank x q Hx Hq). destruct (N.eqb r a); lia.
  - intros x r. split.
    + intros H. induction H as [x Hx|x q r Hx Hq H IH].
      * assert (E : x <> a) by (intros E; subst x; congruence).
        rewrite (Hgo x E) in Hx. left. split; [apply RO_root; exact Hx|exact E].
      * destruct (N.eq_dec x a) as [E|E].
        -- subst x. rewrite Hga in Hx. injection Hx as Hx. subst q. right.
           split; [apply RO_root; exact Ha|].
           destruct IH as [[H1 _]|[H1 _]].
           ++ exact (RootOf_of_root u b r Hb H1).
           ++ exfalso. apply Hab. exact (RootOf_of_root u b a Hb H1).
        -- rewrite (Hgo x E) in Hx. destruct IH as [[H1 H2]|[H1 H2]].
           ++ left. split; [exact (RO_step u x q r Hx Hq H1)|exact H2].
           ++ right. split; [exact (RO_step u x q a Hx Hq H1)|exact H2].
    + intros [[H Hr]|[H Hr]].
      * induction H as [x Hx|x q r Hx Hq H IH].
        -- apply RO_root. rewrite (Hgo x Hr). exact Hx.
        -- assert (E : x <> a) by (intros E; subst x; congruence).
           apply (RO_step u' x q r); [rewrite (Hgo x E); exact Hx|exact Hq|exact (IH Hr)].
      * subst r. remember a as a' eqn:Ea' in H.
        induction H as [x Hx|x q r Hx Hq H IH]; subst.
        -- apply (RO_step u' a b b Hga); [congruence|].
           apply RO_root. rewrite (Hgo b); [exact Hb|congruence].
        -- assert (E : x <> a) by (intros E; subst x; congruence).
           apply (RO_step u' x q b); [rewrite (Hgo x E); exact Hx|exact Hq|].
           apply IH. reflexivity.
Qed.

Lemma same_union : forall u a b u',
  get u a = Some a -> get u b = Some b ->
  (forall x r, RootOf u' x r <-> (RootOf u x r /\ r <> a) \/ (RootOf u x a /\ r = b)) ->
  a <> b ->
  forall x y, same u' x y <->
    same u x y \/ (same u x a /\ same u y b) \/ (same u x b /\ same u y a).
Proof.
  intros u a b u' Ha Hb Heq Hab x y.
  assert (Hra : RootOf u a a) by (apply RO_root; exact Ha).
  assert (Hrb : RootOf u b b) by (apply RO_root; exact Hb).
  split.
  - intros [r [Hx Hy]]. apply Heq in Hx. apply Heq in Hy.
    destruct Hx as [[Hx Hxr]|[Hx Hxr]]; destruct Hy as [[Hy Hyr]|[Hy Hyr]].
    + left. exists r. split; assumption.
    + subst r. right. right. split; [exists b|exists a]; split; assumption.
    + subst r. right. left. split; [exists a|exists b]; split; assumption.
    + left. exists a. split; assumption.
  - intros [[r [Hx Hy]]|[[[r [Hx Hr]] [s [Hy Hs]]]|[[r [Hx Hr]] [s [Hy Hs]]]]].
    + destruct (N.eq_dec r a) as [E|E].
      * subst r. exists b. split; apply Heq; right; split; auto.
      * exists r. split; apply Heq; left; split; auto.
    + assert (r = a) by (symmetry; exact (RootOf_fun u a a r Hra Hr)).
      assert (s = b) by (symmetry; exact (RootOf_fun u b b s Hrb Hs)). subst r s.
      exists b. split; apply Heq; [right|left]; split; auto.
    + assert (r = b) by (symmetry; exact (RootOf_fun u b b r Hrb Hr)).
      assert (s = a) by (symmetry; exact (RootOf_fun u a a s Hra Hs)). subst r s.
      exists b. split; apply Heq; [left|right]; split; auto.
Qed.

(* ------------------------------------------------------------------------------------------ *)
(* increase_size_to                                                                            *)
(* ------------------------------------------------------------------------------------------ *)

Lemma nseq_length : forall k s, length (nseq s k) = k.
Proof. induction k as [|k IH]; intros s; cbn [nseq length]; [|rewrite IH]; reflexivity. Qed.

Lemma nseq_nth : forall k s j, (j < k)%nat -> nth_error (nseq s k) j = Some (s + N.of_nat j).
Proof.
  induction k as [|k IH]; intros s j Hj; [lia|].
  destruct j as [|j]; cbn [nseq nth_error].
  - f_equal. lia.
  - rewrite IH by lia. f_equal. lia.
Qed.

Lemma increase_size_to_inv : forall u n u',
  increase_size_to u n = Ok u' ->
  len u <= n /\ n < u32_max /\ len u' = n /\
  (forall x, x < len u -> get u' x = get u x) /\
  (forall x, len u <= x -> x < n -> get u' x = Some x).
Proof.
  intros u n u' H. unfold increase_size_to in H.
  destruct (N.ltb n (len u)) eqn:E1; [discriminate|]. apply N.ltb_ge in E1.
  destruct (N.leb u32_max n) eqn:E2; [discriminate|]. apply N.leb_gt in E2.
  injection H as H. subst u'. split; [exact E1|]. split; [exact E2|].
  unfold len, get in *. split; [|split].
  - rewrite app_length, nseq_length. lia.
  - intros x Hx. apply nth_error_app1. lia.
  - intros x Hx1 Hx2. rewrite nth_error_app2 by lia.
    rewrite nseq_nth by lia. f_equal. lia.
Qed.

Lemma increase_size_to_not_nofuel : forall u n, increase_size_to u n <> NoFuel.
Proof.
  intros u n. unfold increase_size_to.
  destruct (N.ltb n (len u)); [discriminate|]. destruct (N.leb u32_max n); discriminate.
Qed.

(* appending self-parented elements *)
Lemma extend_RootOf : forall u u',
  WF u -> len u <= len u' ->
  (forall x, x < len u -> get u' x = get u x) ->
  (forall x, len u <= x -> x < len u' -> get u' x = Some x) ->
  WF u' /\
  forall x r, RootOf u' x r <-> RootOf u x r \/ (len u <= x /\ x < len u' /\ r = x).
Proof.
  intros u u' Hwf Hle Hold Hnew. pose proof Hwf as [d [Hrange Hrank]]. split.
  - exists d. split.
    + intros x q Hx. destruct (N.lt_ge_cases x (len u)) as [E|E].
      * rewrite (Hold x E) in Hx. pose proof (Hrange x q Hx). lia.
      * pose proof (get_Some_lt u' x q Hx) as Hlt. rewrite (Hnew x E Hlt) in Hx.
        injection Hx as Hx. subst q. exact Hlt.
    + intros x q Hx Hq. destruct (N.lt_ge_cases x (len u)) as [E|E].
      * rewrite (Hold x E) in Hx. exact (Hrank x q Hx Hq).
      * pose proof (get_Some_lt u' x q Hx) as Hlt. rewrite (Hnew x E Hlt) in Hx. congruence.
  - intros x r. split.
    + intros H. induction H as [x Hx|x q r Hx Hq H IH].
      * destruct (N.lt_ge_cases x (len u)) as [E|E].
        -- rewrite (Hold x E) in Hx. left. apply RO_root. exact Hx.
        -- right. split; [exact E|]. split; [exact (get_Some_lt u' x x Hx)|reflexivity].
      * destruct (N.lt_ge_cases x (len u)) as [E|E].
        -- rewrite (Hold x E) in Hx. destruct IH as [IH|[IH _]].
           ++ left. exact (RO_step u x q r Hx Hq IH).
           ++ pose proof (Hrange x q Hx). lia.
        -- pose proof (get_Some_lt u' x q Hx) as Hlt. rewrite (Hnew x E Hlt) in Hx. congruence.
    + intros [H|[H1 [H2 H3]]].
      * induction H as [x Hx|x q r Hx Hq H IH].
        -- apply RO_root. rewrite (Hold x (get_Some_lt u x x Hx)). exact Hx.
        -- apply (RO_step u' x q r); [|exact Hq|exact IH].
           rewrite (Hold x (get_Some_lt u x q Hx)). exact Hx.
      * subst r. apply RO_root. exact (Hnew x H1 H2).
Qed.
