(* Basic facts about the union-find model: get/set, the root relation, well-formedness, and
   "fuel [length u] is enough". *)

From Coq Require Import List NArith Bool Lia Arith.
From UF Require Import Model.
Import ListNotations.
Open Scope N_scope.

Arguments N.add : simpl never.
Arguments N.sub : simpl never.
Arguments N.mul : simpl never.
Arguments N.eqb : simpl never.
Arguments N.ltb : simpl never.
Arguments N.leb : simpl never.

(* ------------------------------------------------------------------------------------------ *)
(* get / set                                                                                   *)
(* ------------------------------------------------------------------------------------------ *)

Lemma get_Some_lt : forall u x p, get u x = Some p -> x < len u.
Proof.
  intros u x p H. unfold get in H.
  assert (Hn : nth_error u (N.to_nat x) <> None) by congruence.
  apply nth_error_Some in Hn. unfold len. lia.
Qed.

Lemma get_lt : forall u x, x < len u -> exists p, get u x = Some p.
Proof.
  intros u x H. unfold get, len in *.
  destruct (nth_error u (N.to_nat x)) as [p|] eqn:E; [exists p; reflexivity|].
  apply nth_error_None in E. lia.
Qed.

Lemma get_None_ge : forall u x, get u x = None -> len u <= x.
Proof.
  intros u x H. unfold get, len in *. apply nth_error_None in H. lia.
Qed.

Lemma get_ge_None : forall u x, len u <= x -> get u x = None.
Proof.
  intros u x H. unfold get, len in *. apply nth_error_None. lia.
Qed.

Lemma set_nth_spec : forall u i v u',
  set_nth u i v = Some u' ->
  length u' = length u /\ nth_error u' i = Some v /\
  forall j, j <> i -> nth_error u' j = nth_error u j.
Proof.
  induction u as [|h u IH]; intros i v u' H; destruct i as [|i]; cbn [set_nth] in H;
    try discriminate.
  - injection H as H. subst u'. repeat split. intros [|j] Hj; [lia|reflexivity].
  - destruct (set_nth u i v) as [t|] eqn:E; [|discriminate]. injection H as H. subst u'.
    destruct (IH _ _ _ E) as [A [B C]]. repeat split.
    + cbn [length]. lia.
    + exact B.
    + intros [|j] Hj; [reflexivity|]. cbn [nth_error]. apply C. lia.
Qed.

Lemma set_nth_Some : forall u i v, (i < length u)%nat -> exists u', set_nth u i v = Some u'.
Proof.
  induction u as [|h u IH]; intros i v H; cbn [length] in H; [lia|].
  destruct i as [|i]; cbn [set_nth].
  - eexists. reflexivity.
  - destruct (IH i v ltac:(lia)) as [t Ht]. rewrite Ht. eexists. reflexivity.
Qed.

Lemma set_nth_same : forall u i v, nth_error u i = Some v -> set_nth u i v = Some u.
Proof.
  induction u as [|h u IH]; intros i v H; destruct i as [|i]; cbn [nth_error set_nth] in *;
    try discriminate.
  - injection H as H. subst. reflexivity.
  - rewrite (IH i v H). reflexivity.
Qed.

Lemma set_length : forall u x v u', set u x v = Some u' -> length u' = length u.
Proof. intros u x v u' H. exact (proj1 (set_nth_spec _ _ _ _ H)). Qed.

Lemma set_len : forall u x v u', set u x v = Some u' -> len u' = len u.
Proof. intros u x v u' H. unfold len. rewrite (set_length _ _ _ _ H). reflexivity. Qed.

Lemma get_set_eq : forall u x v u', set u x v = Some u' -> get u' x = Some v.
Proof. intros u x v u' H. exact (proj1 (proj2 (set_nth_spec _ _ _ _ H))). Qed.

Lemma get_set_neq : forall u x v u' y, set u x v = Some u' -> y <> x -> get u' y = get u y.
Proof.
  intros u x v u' y H Hy. unfold get.
  apply (proj2 (proj2 (set_nth_spec _ _ _ _ H))). intros E. apply Hy. lia.
Qed.

Lemma set_Some : forall u x v, x < len u -> exists u', set u x v = Some u'.
Proof. intros u x v H. unfold set, len in *. apply set_nth_Some. lia. Qed.

Lemma set_same : forall u x v, get u x = Some v -> set u x v = Some u.
Proof. intros u x v H. unfold set, get in *. apply set_nth_same. exact H. Qed.

(* ------------------------------------------------------------------------------------------ *)
(* the root relation and well-formedness                                                       *)
(* ------------------------------------------------------------------------------------------ *)

(* [RootOf u x r]: following parent links from x ends in the self-parented element r *)
Inductive RootOf (u : uf) : N -> N -> Prop :=
| RO_root : forall x, get u x = Some x -> RootOf u x x
| RO_step : forall x p r, get u x = Some p -> p <> x -> RootOf u p r -> RootOf u x r.

(* parents in range; acyclic: a rank [d] decreases strictly along every non-root parent link *)
Definition WFd (u : uf) (d : N -> nat) : Prop :=
  (forall x p, get u x = Some p -> p < len u) /\
  (forall x p, get u x = Some p -> p <> x -> (d p < d x)%nat).

Definition WF (u : uf) : Prop := exists d, WFd u d.

(* same class *)
Definition same (u : uf) (x y : N) : Prop := exists r, RootOf u x r /\ RootOf u y r.

Lemma RootOf_fun : forall u x r r', RootOf u x r -> RootOf u x r' -> r = r'.
Proof.
  intros u x r r' H. revert r'. induction H as [x Hx|x p r Hx Hp H IH]; intros r' H'.
  - inversion H' as [y Hy|y q s Hy Hq Hs]; subst; [reflexivity|]. congruence.
  - inversion H' as [y Hy|y q s Hy Hq Hs]; subst.
    + congruence.
    + apply IH. replace p with q by congruence. exact Hs.
Qed.

Lemma RootOf_is_root : forall u x r, RootOf u x r -> get u r = Some r.
Proof. intros u x r H. induction H as [x Hx|x p r Hx Hp H IH]; assumption. Qed.

Lemma RootOf_lt : forall u x r, RootOf u x r -> x < len u.
Proof. intros u x r H. destruct H as [x Hx|x p r Hx Hp H]; eapply get_Some_lt; eassumption. Qed.

Lemma RootOf_root_lt : forall u x r, RootOf u x r -> r < len u.
Proof. intros u x r H. eapply get_Some_lt. eapply RootOf_is_root. exact H. Qed.

Lemma RootOf_of_root : forall u r x, get u r = Some r -> RootOf u r x -> x = r.
Proof. intros u r x Hr H. apply (RootOf_fun u r x r H). apply RO_root. exact Hr. Qed.

Lemma RootOf_total : forall u d, WFd u d -> forall x, x < len u -> exists r, RootOf u x r.
Proof.
  intros u d [Hrange Hrank].
  assert (H : forall n x, (d x < n)%nat -> x < len u -> exists r, RootOf u x r).
  { induction n as [|n IH]; intros x Hd Hx; [lia|].
    destruct (get_lt u x Hx) as [p Hp].
    destruct (N.eq_dec p x) as [E|E].
    - subst p. exists x. apply RO_root. exact Hp.
    - destruct (IH p) as [r Hr].
      + specialize (Hrank x p Hp E). lia.
      + exact (Hrange x p Hp).
      + exists r. exact (RO_step u x p r Hp E Hr). }
  intros x Hx. apply (H (S (d x)) x); [lia|exact Hx].
Qed.

Lemma same_refl : forall u, WF u -> forall x, x < len u -> same u x x.
Proof.
  intros u [d Hwf] x Hx. destruct (RootOf_total u d Hwf x Hx) as [r Hr].
  exists r. split; exact Hr.
Qed.

Lemma same_sym : forall u x y, same u x y -> same u y x.
Proof. intros u x y [r [H1 H2]]. exists r. split; assumption. Qed.

Lemma same_trans : forall u x y z, same u x y -> same u y z -> same u x z.
Proof.
  intros u x y z [r [H1 H2]] [s [H3 H4]].
  assert (r = s) by exact (RootOf_fun u y r s H2 H3). subst s.
  exists r. split; assumption.
Qed.

Lemma same_lt : forall u x y, same u x y -> x < len u /\ y < len u.
Proof. intros u x y [r [H1 H2]]. split; eapply RootOf_lt; eassumption. Qed.

Lemma same_root : forall u x r, RootOf u x r -> same u x r.
Proof.
  intros u x r H. exists r. split; [exact H|]. apply RO_root. exact (RootOf_is_root u x r H).
Qed.

(* ------------------------------------------------------------------------------------------ *)
(* fuel                                                                                        *)
(* ------------------------------------------------------------------------------------------ *)

Lemma pigeon : forall (l : list N) n,
  NoDup l -> (forall y, In y l -> y < N.of_nat n) -> (length l <= n)%nat.
Proof.
  intros l n Hnd Hlt.
  rewrite <- (seq_length n 0), <- (map_length N.of_nat).
  apply NoDup_incl_length; [exact Hnd|].
  intros y Hy. specialize (Hlt y Hy). apply in_map_iff. exists (N.to_nat y). split; [lia|].
  apply in_seq. lia.
Qed.

Lemma fuel_contra : forall u d el p seen,
  WFd u d -> get u el = Some p -> p <> el -> NoDup seen ->
  (forall y, In y seen -> y < len u /\ (d el < d y)%nat) ->
  (length seen + 2 <= length u)%nat.
Proof.
  intros u d el p seen [Hrange Hrank] Hel Hne Hnd Hseen.
  assert (Hd : (d p < d el)%nat) by exact (Hrank el p Hel Hne).
  assert (H : (length (p :: el :: seen) <= length u)%nat).
  { apply pigeon.
    - constructor.
      + intros [E|Hin]; [congruence|]. destruct (Hseen p Hin) as [_ H]. lia.
      + constructor; [|exact Hnd]. intros Hin. destruct (Hseen el Hin) as [_ H]. lia.
    - intros y [E|[E|Hin]].
      + subst y. exact (Hrange el p Hel).
      + subst y. exact (get_Some_lt u el p Hel).
      + exact (proj1 (Hseen y Hin)). }
  cbn [length] in H. lia.
Qed.

Lemma rc_loop_eq : forall f u el, rc_loop f u el el = Ok el.
Proof. intros f u el. destruct f; cbn [rc_loop]; rewrite N.eqb_refl; reflexivity. Qed.

Lemma rc_loop_sound : forall f u el p r,
  get u el = Some p -> rc_loop f u el p = Ok r -> RootOf u el r.
Proof.
  induction f as [|f IH]; intros u el p r Hel H; cbn [rc_loop] in H;
    destruct (N.eqb el p) eqn:E.
  - apply N.eqb_eq in E. subst p. injection H as H. subst r. apply RO_root. exact Hel.
  - discriminate.
  - apply N.eqb_eq in E. subst p. injection H as H. subst r. apply RO_root. exact Hel.
  - apply N.eqb_neq in E. destruct (get u p) as [p'|] eqn:Hp; [|discriminate].
    apply (RO_step u el p r Hel); [congruence|]. exact (IH u p p' r Hp H).
Qed.

Lemma rc_loop_total : forall u d, WFd u d -> forall f el p seen,
  get u el = Some p -> NoDup seen ->
  (forall y, In y seen -> y < len u /\ (d el < d y)%nat) ->
  (length u <= length seen + f + 1)%nat ->
  exists r, rc_loop f u el p = Ok r.
Proof.
  intros u d Hwf. induction f as [|f IH]; intros el p seen Hel Hnd Hseen Hlen;
    (destruct (N.eq_dec el p) as [E|E]; [subst p; exists el; apply rc_loop_eq|]).
  - pose proof (fuel_contra u d el p seen Hwf Hel ltac:(congruence) Hnd Hseen). lia.
  - cbn [rc_loop]. apply N.eqb_neq in E. rewrite E. apply N.eqb_neq in E.
    destruct Hwf as [Hrange Hrank].
    destruct (get_lt u p (Hrange el p Hel)) as [p' Hp]. rewrite Hp.
    assert (Hd : (d p < d el)%nat) by (apply (Hrank el p Hel); congruence).
    apply (IH p p' (el :: seen) Hp).
    + constructor; [|exact Hnd]. intros Hin. destruct (Hseen el Hin) as [_ H]. lia.
    + intros y [Ey|Hin].
      * subst y. split; [exact (get_Some_lt u el p Hel)|exact Hd].
      * destruct (Hseen y Hin) as [H1 H2]. split; [exact H1|lia].
    + cbn [length]. lia.
Qed.

Lemma root_const_RootOf : forall u x r, root_const u x = Ok r -> RootOf u x r.
Proof.
  intros u x r H. unfold root_const, root_const_f in H.
  destruct (get u x) as [p|] eqn:Hx; [|discriminate].
  exact (rc_loop_sound _ u x p r Hx H).
Qed.

Lemma root_const_ok : forall u, WF u -> forall x, x < len u ->
  exists r, root_const u x = Ok r /\ RootOf u x r.
Proof.
  intros u [d Hwf] x Hx. destruct (get_lt u x Hx) as [p Hp].
  destruct (rc_loop_total u d Hwf (length u) x p [] Hp (NoDup_nil N)) as [r Hr].
  - intros y [].
  - cbn [length]. lia.
  - exists r. assert (H : root_const u x = Ok r).
    { unfold root_const, root_const_f. rewrite Hp. exact Hr. }
    split; [exact H|exact (root_const_RootOf u x r H)].
Qed.

Lemma RootOf_root_const : forall u, WF u -> forall x r, RootOf u x r -> root_const u x = Ok r.
Proof.
  intros u Hwf x r H. destruct (root_const_ok u Hwf x (RootOf_lt u x r H)) as [r' [H1 H2]].
  rewrite H1. f_equal. exact (RootOf_fun u x r' r H2 H).
Qed.

Lemma root_const_oob : forall u x, len u <= x -> root_const u x = Panic.
Proof.
  intros u x H. unfold root_const, root_const_f. rewrite (get_ge_None u x H). reflexivity.
Qed.

Lemma root_const_of_root : forall u r, get u r = Some r -> root_const u r = Ok r.
Proof.
  intros u r H. unfold root_const, root_const_f. rewrite H. apply rc_loop_eq.
Qed.

(* two well-formed vectors of the same length with the same root relation answer root_const
   identically (also on out-of-range arguments) *)
Lemma root_const_ext : forall u u',
  WF u -> WF u' -> length u' = length u ->
  (forall y r, RootOf u' y r <-> RootOf u y r) ->
  forall y, root_const u' y = root_const u y.
Proof.
  intros u u' Hwf Hwf' Hlen Heq y.
  destruct (N.lt_ge_cases y (len u)) as [Hy|Hy].
  - destruct (root_const_ok u Hwf y Hy) as [r [H1 H2]]. rewrite H1.
    apply (RootOf_root_const u' Hwf'). apply Heq. exact H2.
  - rewrite (root_const_oob u y Hy). apply root_const_oob. unfold len in *. rewrite Hlen. exact Hy.
Qed.
