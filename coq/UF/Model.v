(* Executable model of eqlog's union-find and of the generated equality API (property C05,
   equality half).

   SOURCE  /repo/eqlog-runtime/src/unification.rs             (Unification<T>, 72 lines)
           generated code, e.g.
           /repo/target/debug/build/eqlog-test-eval-*/out/eqlog-test-eval/src/semilattice.eql.rs
             new_el_internal, equate_el, root_el, are_equal_el, and the weight updates of
             insert_<rel> (saturating_add) and canonicalize (saturating_sub)
           (templates: eqlog/src/rust_gen/mod.rs display_new_element_fn_internal,
            display_equate_elements, display_root_fn, display_are_equal_fn)

   The `sizes` field of Unification is never read or written by any method: not modelled.
   Elements are u32 newtypes (`El(pub u32)`), modelled by N; the theorems assume nothing about
   the bound except where the Rust code checks it (increase_size_to).
   Where Rust would panic (index out of bounds, failed assert) the model returns [Panic].
   Loops run on explicit fuel and return [NoFuel] when it is exhausted; Facts.v shows that fuel
   [length u] is always enough for a well-formed vector and that every state reachable from the
   empty one is well formed.

   No proofs in this file. *)

From Coq Require Import List NArith Bool.
Import ListNotations.
Open Scope N_scope.

Inductive res (A : Type) : Type :=
| Ok (a : A)
| Panic
| NoFuel.
Arguments Ok {A} a.
Arguments Panic {A}.
Arguments NoFuel {A}.

Definition bind {A B : Type} (r : res A) (k : A -> res B) : res B :=
  match r with
  | Ok a => k a
  | Panic => Panic
  | NoFuel => NoFuel
  end.

(* ------------------------------------------------------------------------------------------ *)
(* Unification<T>: the parents vector                                                          *)
(* ------------------------------------------------------------------------------------------ *)

Definition uf : Type := list N.

(* unification.rs:46 *)
Definition len (u : uf) : N := N.of_nat (length u).

(* self.parents[x]  (read) *)
Definition get (u : uf) (x : N) : option N := nth_error u (N.to_nat x).

Fixpoint set_nth (u : list N) (i : nat) (v : N) : option (list N) :=
  match u, i with
  | [], _ => None
  | _ :: t, O => Some (v :: t)
  | h :: t, S i' => match set_nth t i' v with Some t' => Some (h :: t') | None => None end
  end.

(* self.parents[x] = v  (write; None = index out of bounds) *)
Definition set (u : uf) (x v : N) : option uf := set_nth u (N.to_nat x) v.

(* unification.rs:26-33
     let mut parent = self.parents[el];
     while el != parent { el = parent; parent = self.parents[el]; }
     el *)
Fixpoint rc_loop (fuel : nat) (u : uf) (el parent : N) : res N :=
  if N.eqb el parent then Ok el
  else match fuel with
       | O => NoFuel
       | S fuel' =>
           match get u parent with
           | None => Panic
           | Some parent' => rc_loop fuel' u parent parent'
           end
       end.

Definition root_const_f (fuel : nat) (u : uf) (el : N) : res N :=
  match get u el with
  | None => Panic
  | Some parent => rc_loop fuel u el parent
  end.

Definition root_const (u : uf) (el : N) : res N := root_const_f (length u) u el.

(* unification.rs:17-25   (every node on the path is re-pointed to its grandparent)
     let mut parent = self.parents[el];
     while el != parent {
         self.parents[el] = self.parents[parent];
         el = parent;
         parent = self.parents[parent];      // read from the UPDATED vector
     }
     el *)
Fixpoint r_loop (fuel : nat) (u : uf) (el parent : N) : res (uf * N) :=
  if N.eqb el parent then Ok (u, el)
  else match fuel with
       | O => NoFuel
       | S fuel' =>
           match get u parent with
           | None => Panic
           | Some grandparent =>
               match set u el grandparent with
               | None => Panic
               | Some u1 =>
                   match get u1 parent with
                   | None => Panic
                   | Some parent' => r_loop fuel' u1 parent parent'
                   end
               end
           end
       end.

Definition root_f (fuel : nat) (u : uf) (el : N) : res (uf * N) :=
  match get u el with
  | None => Panic
  | Some parent => r_loop fuel u el parent
  end.

Definition root (u : uf) (el : N) : res (uf * N) := root_f (length u) u el.

(* unification.rs:34-38
     assert!(lhs == self.root(lhs));
     assert!(rhs == self.root(rhs));
     self.parents[lhs] = rhs; *)
Definition union_roots_into (u : uf) (lhs rhs : N) : res uf :=
  bind (root u lhs) (fun '(u1, r1) =>
  if negb (N.eqb lhs r1) then Panic else
  bind (root u1 rhs) (fun '(u2, r2) =>
  if negb (N.eqb rhs r2) then Panic else
  match set u2 lhs rhs with
  | None => Panic
  | Some u3 => Ok u3
  end)).

Fixpoint nseq (start : N) (count : nat) : list N :=
  match count with
  | O => []
  | S count' => start :: nseq (N.succ start) count'
  end.

Definition u32_max : N := 4294967295.
Definition usize_max : N := 18446744073709551615.

(* unification.rs:39-45
     assert!(new_size >= self.len());
     assert!((u32::MAX as usize) > new_size);
     for i in self.len()..new_size { self.parents.push(T::from(i as u32)); } *)
Definition increase_size_to (u : uf) (new_size : N) : res uf :=
  if N.ltb new_size (len u) then Panic
  else if N.leb u32_max new_size then Panic
  else Ok (u ++ nseq (len u) (N.to_nat (new_size - len u))).

(* ------------------------------------------------------------------------------------------ *)
(* The generated API around it (one sort `El`)                                                 *)
(* ------------------------------------------------------------------------------------------ *)

Record state : Type := mkState {
  equalities : uf;        (* el_equalities : Unification<El> *)
  weights : list N;       (* el_weights    : Vec<usize> *)
  uprooted : list N       (* el_uprooted   : Vec<El>, most recent LAST (push) *)
}.

Definition init : state := mkState [] [] [].

(* root_el:
     if el.0 as usize >= self.el_equalities.len() { el } else { self.el_equalities.root_const(el) } *)
Definition root_el (st : state) (el : N) : res N :=
  if N.leb (len (equalities st)) el then Ok el else root_const (equalities st) el.

(* are_equal_el:  self.root_el(lhs) == self.root_el(rhs) *)
Definition are_equal_el (st : state) (lhs rhs : N) : res bool :=
  bind (root_el st lhs) (fun l =>
  bind (root_el st rhs) (fun r => Ok (N.eqb l r))).

(* new_el_internal:
     let old_len = self.el_equalities.len();
     self.el_equalities.increase_size_to(old_len + 1);
     let el = u32::try_from(old_len).unwrap();        // cannot fail after the assert above
     self.el_new_order_0.insert([el]);                // tuple tables: not modelled here
     assert!(self.el_weights.len() == old_len);
     self.el_weights.push(0);
     El::from(el) *)
Definition new_el_internal (st : state) : res (state * N) :=
  let old_len := len (equalities st) in
  bind (increase_size_to (equalities st) (old_len + 1)) (fun u1 =>
  if negb (N.eqb (N.of_nat (length (weights st))) old_len) then Panic else
  Ok (mkState u1 (weights st ++ [0]) (uprooted st), old_len)).

(* equate_el:
     lhs = self.el_equalities.root(lhs);
     rhs = self.el_equalities.root(rhs);
     if lhs == rhs { return; }
     let lhs_weight = self.el_weights[lhs.0 as usize];
     let rhs_weight = self.el_weights[rhs.0 as usize];
     let (root, child) = if lhs_weight >= rhs_weight { (lhs, rhs) } else { (rhs, lhs) };
     self.el_equalities.union_roots_into(child, root);
     self.el_new_order_0.remove([child.0]);           // tuple tables: not modelled here
     self.el_old_order_0.remove([child.0]);
     self.el_uprooted.push(child); *)
Definition equate_el (st : state) (lhs rhs : N) : res state :=
  bind (root (equalities st) lhs) (fun '(u1, l) =>
  bind (root u1 rhs) (fun '(u2, r) =>
  if N.eqb l r then Ok (mkState u2 (weights st) (uprooted st)) else
  match nth_error (weights st) (N.to_nat l) with
  | None => Panic
  | Some lw =>
      match nth_error (weights st) (N.to_nat r) with
      | None => Panic
      | Some rw =>
          let '(rt, child) := if N.leb rw lw then (l, r) else (r, l) in
          bind (union_roots_into u2 child rt) (fun u3 =>
          Ok (mkState u3 (weights st) (uprooted st ++ [child])))
      end
  end)).

(* insert_<rel>:   let w = &mut self.el_weights[x]; *w = w.saturating_add(REL_WEIGHT);
   canonicalize:   *w = w.saturating_sub(REL_WEIGHT);
   The harness supplies the amounts explicitly because real weights come from tuple insertion. *)
Definition add_weight (st : state) (x w : N) : res state :=
  match nth_error (weights st) (N.to_nat x) with
  | Some old =>
      match set_nth (weights st) (N.to_nat x) (N.min (old + w) usize_max) with
      | Some ws => Ok (mkState (equalities st) ws (uprooted st))
      | None => Panic
      end
  | None => Panic
  end.

Definition sub_weight (st : state) (x w : N) : res state :=
  match nth_error (weights st) (N.to_nat x) with
  | Some old =>
      match set_nth (weights st) (N.to_nat x) (old - w) with
      | Some ws => Ok (mkState (equalities st) ws (uprooted st))
      | None => Panic
      end
  | None => Panic
  end.

(* ------------------------------------------------------------------------------------------ *)
(* The operation language driven by harness/uf-driver                                          *)
(* ------------------------------------------------------------------------------------------ *)

Inductive op : Type :=
| Grow (n : N)            (* el_equalities.increase_size_to(n)   -- n is the NEW size *)
| Root (x : N)            (* el_equalities.root(x)               -- mutating *)
| RootConst (x : N)       (* el_equalities.root_const(x) *)
| Union (a b : N)         (* el_equalities.union_roots_into(a, b) -- asserts both are roots *)
| Len                     (* el_equalities.len() *)
| NewEl                   (* new_el_internal() *)
| EquateOp (a b : N)      (* equate_el(a, b) *)
| AddWeight (x w : N)     (* el_weights[x] = el_weights[x].saturating_add(w) *)
| SubWeight (x w : N)     (* el_weights[x] = el_weights[x].saturating_sub(w) *)
| AreEqual (a b : N)      (* are_equal_el(a, b) *)
| RootEl (a : N).         (* root_el(a) *)

Definition with_eq (st : state) (u : uf) : state := mkState u (weights st) (uprooted st).

(* new state and return value; the return value is encoded as a list of numbers:
   unit -> [], an element or a length -> [n], a bool -> [0] / [1] *)
Definition step (st : state) (o : op) : res (state * list N) :=
  match o with
  | Grow n => bind (increase_size_to (equalities st) n) (fun u => Ok (with_eq st u, []))
  | Root x => bind (root (equalities st) x) (fun '(u, r) => Ok (with_eq st u, [r]))
  | RootConst x => bind (root_const (equalities st) x) (fun r => Ok (st, [r]))
  | Union a b => bind (union_roots_into (equalities st) a b) (fun u => Ok (with_eq st u, []))
  | Len => Ok (st, [len (equalities st)])
  | NewEl => bind (new_el_internal st) (fun '(st', el) => Ok (st', [el]))
  | EquateOp a b => bind (equate_el st a b) (fun st' => Ok (st', []))
  | AddWeight x w => bind (add_weight st x w) (fun st' => Ok (st', []))
  | SubWeight x w => bind (sub_weight st x w) (fun st' => Ok (st', []))
  | AreEqual a b => bind (are_equal_el st a b) (fun r => Ok (st, [if r then 1 else 0]))
  | RootEl a => bind (root_el st a) (fun r => Ok (st, [r]))
  end.

Fixpoint run_from (st : state) (ops : list op) : res state :=
  match ops with
  | [] => Ok st
  | o :: ops' => bind (step st o) (fun '(st', _) => run_from st' ops')
  end.

Definition run (ops : list op) : res state := run_from init ops.

(* the equalities asked for by a sequence of operations *)
Definition pairs_op (o : op) : list (N * N) :=
  match o with
  | Union a b => [(a, b)]
  | EquateOp a b => [(a, b)]
  | _ => []
  end.

Definition pairs_of (ops : list op) : list (N * N) := flat_map pairs_op ops.
