(* Model-side runner for the correspondence check of property C05 (equality half).

     run_uf : list op -> list out         out = option (option (list N * (list N * list N)))

   One entry per executed operation, in order:
     Some (Some (ret, (reps, parents)))
                               the op returned; [ret] is its return value encoded as a list of
                               numbers (unit -> [], element / length -> [n], bool -> [0] or [1]);
                               [reps] = [root_const 0; ..; root_const (len-1)] computed on the state
                               AFTER the op; [parents] = the raw parents vector after the op (the
                               field is private in Rust, harness/uf-driver reads it off the derived
                               Debug output, so path halving is compared exactly)
     None                      the op (or the computation of reps) panicked; this is the last entry,
                               the rest of the sequence is not executed (the driver wraps the
                               sequence in catch_unwind and stops at the first panic as well)
     Some None                 the model ran out of fuel; last entry.  Never produced
                               (Props_C05.C05_run_no_fuel); the driver has no such output, so it
                               would show up as a mismatch.

   Ops are the constructors of Model.op; the driver's integer spelling of each op is in
   /verif/harness/uf-driver/README.md.  Example:
     Eval vm_compute in (run_uf [NewEl; NewEl; EquateOp 0 1; AreEqual 0 1; Root 1]).
   = [Some (Some ([0],([0],[0]))); Some (Some ([1],([0;1],[0;1]))); Some (Some ([],([0;0],[0;0])));
      Some (Some ([1],([0;0],[0;0]))); Some (Some ([0],([0;0],[0;0])))]

   [uprooted_of ops] additionally exposes el_uprooted after the whole sequence (None on panic). *)

From Coq Require Import List NArith Bool.
From UF Require Import Model.
Import ListNotations.
Open Scope N_scope.

Definition out : Type := option (option (list N * (list N * list N))).

Fixpoint reps_from (u : uf) (xs : list N) : res (list N) :=
  match xs with
  | [] => Ok []
  | x :: xs' =>
      bind (root_const u x) (fun r =>
      bind (reps_from u xs') (fun rs => Ok (r :: rs)))
  end.

Definition reps (u : uf) : res (list N) := reps_from u (nseq 0 (length u)).

Fixpoint run_out (st : state) (ops : list op) : list out :=
  match ops with
  | [] => []
  | o :: ops' =>
      match step st o with
      | Ok (st', ret) =>
          match reps (equalities st') with
          | Ok rs => Some (Some (ret, (rs, equalities st'))) :: run_out st' ops'
          | Panic => [None]
          | NoFuel => [Some None]
          end
      | Panic => [None]
      | NoFuel => [Some None]
      end
  end.

Definition run_uf (ops : list op) : list out := run_out init ops.

Definition uprooted_of (ops : list op) : option (list N) :=
  match run ops with
  | Ok st => Some (uprooted st)
  | _ => None
  end.

(* ---- flat encoding, for bulk comparison (harness/uf-driver/validate.py) ----------------------
   flat_batch seqs  =  for every sequence:  [k]  followed by k entries, where an entry is
        Some (Some (ret, (reps, parents)))
                                 ->  [length ret] ++ ret ++ [length reps] ++ reps
                                     ++ [length parents] ++ parents
        None  (panic)            ->  [flat_panic]      = 2^64
        Some None (no fuel)      ->  [flat_nofuel]     = 2^64 + 1
   (all proper values are < 2^64, so the markers cannot be confused with data). *)

Definition flat_panic : N := 18446744073709551616.
Definition flat_nofuel : N := 18446744073709551617.

Definition flat_entry (o : out) : list N :=
  match o with
  | Some (Some (ret, (rs, ps))) =>
      N.of_nat (length ret) :: ret ++ N.of_nat (length rs) :: rs ++ N.of_nat (length ps) :: ps
  | None => [flat_panic]
  | Some None => [flat_nofuel]
  end.

Definition flat_out (l : list out) : list N := N.of_nat (length l) :: flat_map flat_entry l.

Definition flat_batch (seqs : list (list op)) : list N :=
  flat_map (fun ops => flat_out (run_uf ops)) seqs.
