(* Soundness and completeness of the boolean oracle `topo_ok_b` of Run.v. *)
From Coq Require Import List NArith Bool Lia Permutation PeanoNat.
From Topo Require Import Model Run FactsBase FactsEdges FactsGraph FactsLoop FactsTop.
Import ListNotations.
Open Scope N_scope.

Lemma edge_eqb_eq a b : edge_eqb a b = true <-> a = b.
Proof.
  unfold edge_eqb. rewrite !andb_true_iff, !N.eqb_eq. destruct a as [[m o] c], b as [[m' o'] c'].
  cbn [e_mor e_src e_cod fst snd]. split.
  - intros [[H1 H2] H3]. subst. reflexivity.
  - intros H. inversion H. auto.
Qed.

Lemma remove1_perm x l l' : remove1 x l = Some l' -> Permutation l (x :: l').
Proof.
  revert l'. induction l as [|y t IH]; intros l' H; cbn [remove1] in H; [discriminate|].
  destruct (edge_eqb x y) eqn:Hxy.
  - apply edge_eqb_eq in Hxy. subst y. inversion H; subst. reflexivity.
  - destruct (remove1 x t) as [t'|]; [|discriminate]. inversion H; subst.
    rewrite (IH t' eq_refl). apply perm_swap.
Qed.

Lemma remove1_complete x l : In x l -> exists l', remove1 x l = Some l'.
Proof.
  induction l as [|y t IH]; intros Hin; [contradiction|]. cbn [remove1].
  destruct (edge_eqb x y) eqn:Hxy; [eexists; reflexivity|].
  destruct Hin as [Heq|Hin].
  - subst y. assert (H : edge_eqb x x = true) by (apply edge_eqb_eq; reflexivity). congruence.
  - destruct (IH Hin) as [t' Ht']. rewrite Ht'. eexists; reflexivity.
Qed.

Lemma perm_b_spec l1 : forall l2, perm_b l1 l2 = true <-> Permutation l1 l2.
Proof.
  induction l1 as [|x t IH]; intros l2; cbn [perm_b].
  - destruct l2 as [|y l2]; split; intros H; try reflexivity; try discriminate.
    apply Permutation_nil in H. discriminate.
  - split.
    + destruct (remove1 x l2) as [l2'|] eqn:Hr; [|discriminate]. intros H. apply IH in H.
      apply remove1_perm in Hr. rewrite Hr. constructor. exact H.
    + intros Hp. destruct (remove1_complete x l2) as [l2' Hr].
      { eapply Permutation_in; [exact Hp | left; reflexivity]. }
      rewrite Hr. apply IH. apply remove1_perm in Hr. rewrite Hr in Hp.
      eapply Permutation_cons_inv. exact Hp.
Qed.

Lemma order_b_spec l : order_b l = true <-> ForallOrdPairs no_back l /\ Forall no_self l.
Proof.
  induction l as [|x t IH]; cbn [order_b].
  - split; [intros _; split; constructor | reflexivity].
  - rewrite !andb_true_iff, IH, forallb_forall, negb_true_iff, N.eqb_neq. split.
    + intros [[Hs Hall] [Hf Hn]]. split; constructor; try assumption.
      apply Forall_forall. intros y Hy. specialize (Hall y Hy). apply negb_true_iff, N.eqb_neq in Hall. exact Hall.
    + intros [Hf Hn]. inversion Hf as [|a l Hall Hf']; subst. inversion Hn as [|a l Hs Hn']; subst.
      split; [split; [exact Hs|] | split; assumption].
      intros y Hy. rewrite Forall_forall in Hall. apply negb_true_iff, N.eqb_neq. exact (Hall y Hy).
Qed.

Lemma FOP_of_before {A} (R : A -> A -> Prop) l :
  (forall l1 x l2 y l3, l = l1 ++ x :: l2 ++ y :: l3 -> R x y) -> ForallOrdPairs R l.
Proof.
  induction l as [|a l IH]; intros H; constructor.
  - apply Forall_forall. intros y Hy. apply in_split in Hy. destruct Hy as [l2 [l3 Hy]].
    apply (H [] a l2 y l3). rewrite Hy. reflexivity.
  - apply IH. intros l1 x l2 y l3 Heq. apply (H (a :: l1) x l2 y l3). rewrite Heq. reflexivity.
Qed.

(* ---------- cyclicity ---------- *)
Lemma filter_length_le' {A} (f : A -> bool) l : (length (filter f l) <= length l)%nat.
Proof. induction l as [|a l IH]; cbn [filter length]; [lia|]. destruct (f a); cbn [length]; lia. Qed.

Lemma filter_length_eq {A} (f : A -> bool) l :
  length (filter f l) = length l -> forall x, In x l -> f x = true.
Proof.
  induction l as [|a l IH]; cbn [filter length]; intros Hlen x Hin; [contradiction|].
  pose proof (filter_length_le' f l) as Hle. destruct (f a) eqn:Hfa; cbn [length] in Hlen; [|lia].
  destruct Hin as [Heq|Hin]; [subst; exact Hfa | apply IH; [lia | exact Hin]].
Qed.

Lemma has_pred_spec es e : has_pred es e = true <-> exists e', In e' es /\ e_cod e' = e_src e.
Proof.
  unfold has_pred. rewrite existsb_exists. split; intros [e' [Hin H]]; exists e'; split; try exact Hin.
  - apply N.eqb_eq. exact H.
  - apply N.eqb_eq. exact H.
Qed.

Lemma strip_sound fuel : forall es r,
  strip fuel es = Some r ->
  incl r es /\ forall e, In e r -> exists e', In e' r /\ e_cod e' = e_src e.
Proof.
  induction fuel as [|f IH]; intros es r H; cbn [strip] in H; [discriminate|].
  destruct (Nat.eqb_spec (length (filter (has_pred es) es)) (length es)) as [Heq|Hne].
  - inversion H; subst. split; [apply incl_refl|]. intros e He. apply has_pred_spec.
    eapply filter_length_eq; eassumption.
  - destruct (IH _ _ H) as [Hincl Hp]. split; [|exact Hp].
    intros x Hx. apply Hincl in Hx. apply filter_In in Hx. apply Hx.
Qed.

Lemma cyclic_b_sound E : cyclic_b E = true -> exists z, path (EdgeR E) z z.
Proof.
  unfold cyclic_b. destruct (strip (S (length E)) E) as [r|] eqn:Hs; [|discriminate].
  destruct r as [|e0 r0]; [discriminate|]. intros _. set (r := e0 :: r0) in *.
  destruct (strip_sound _ _ _ Hs) as [Hincl Hp].
  apply (find_cycle (EdgeR E) (map e_src r) (e_src e0)); [left; reflexivity|].
  intros x Hx. apply in_map_iff in Hx. destruct Hx as [e [Hx He]]. subst x.
  destruct (Hp e He) as [e' [He' Hc]]. exists (e_src e'). split; [apply in_map; exact He'|].
  exists e'. split; [apply Hincl; exact He'|]. split; [reflexivity | exact Hc].
Qed.

(* completeness: edges lying on a cycle are never stripped, and the fuel suffices *)
Definition on_cycle (E : list edge) (e : edge) : Prop :=
  In e E /\ (e_cod e = e_src e \/ path (EdgeR E) (e_cod e) (e_src e)).

Lemma on_cycle_pred E e : on_cycle E e -> exists e', on_cycle E e' /\ e_cod e' = e_src e.
Proof.
  intros [He [Hself|Hp]].
  - exists e. split; [split; [exact He | left; exact Hself] | exact Hself].
  - assert (Hfirst : EdgeR E (e_src e) (e_cod e)) by (exists e; split; [exact He | split; reflexivity]).
    destruct (path_last _ _ _ Hp) as [[e' [He' [Hs Hc]]]|[b [Hpb [e' [He' [Hs Hc]]]]]].
    + exists e'. split; [|exact Hc]. split; [exact He'|]. right. rewrite Hc, Hs. apply path_one. exact Hfirst.
    + exists e'. split; [|exact Hc]. split; [exact He'|]. right. rewrite Hc, Hs.
      eapply path_cons; [exact Hfirst | exact Hpb].
Qed.

Lemma strip_complete E fuel : forall es,
  (forall e, on_cycle E e -> In e es) -> (length es < fuel)%nat ->
  exists r, strip fuel es = Some r /\ forall e, on_cycle E e -> In e r.
Proof.
  induction fuel as [|f IH]; intros es Hkeep Hlen; [lia|]. cbn [strip].
  destruct (Nat.eqb_spec (length (filter (has_pred es) es)) (length es)) as [Heq|Hne].
  - exists es. split; [reflexivity | exact Hkeep].
  - apply IH.
    + intros e He. apply filter_In. split; [apply Hkeep; exact He|]. apply has_pred_spec.
      destruct (on_cycle_pred E e He) as [e' [He' Hc]]. exists e'. split; [apply Hkeep; exact He' | exact Hc].
    + pose proof (filter_length_le' (has_pred es) es). lia.
Qed.

Lemma path_first (R : N -> N -> Prop) a c :
  path R a c -> exists b, R a b /\ (b = c \/ path R b c).
Proof. intros Hp. destruct Hp as [a b Hab | a b c Hab Hbc]; exists b; split; auto. Qed.

Lemma cycle_has_edge E z : path (EdgeR E) z z -> exists e, on_cycle E e.
Proof.
  intros Hp.
  destruct (path_first _ _ _ Hp) as [b [[e [He [Hs Hc]]] Hb]]. exists e. split; [exact He|].
  rewrite Hc, Hs. destruct Hb as [Hb|Hb]; [left; exact Hb | right; exact Hb].
Qed.

Lemma cyclic_b_complete E : (exists z, path (EdgeR E) z z) -> cyclic_b E = true.
Proof.
  intros [z Hp]. destruct (cycle_has_edge E z Hp) as [e He]. unfold cyclic_b.
  destruct (strip_complete E (S (length E)) E) as [r [Hr Hin]]; [intros e' [H _]; exact H | lia|].
  rewrite Hr. specialize (Hin e He). destruct r; [contradiction | reflexivity].
Qed.

Lemma cyclic_b_spec E : cyclic_b E = true <-> exists z, path (EdgeR E) z z.
Proof. split; [apply cyclic_b_sound | apply cyclic_b_complete]. Qed.

(* ---------- the oracle against the declarative statement ---------- *)
Definition topo_correct (c : topo_case) (out : option (list edge)) : Prop :=
  let '(dn, dold, cn, cold, oo, on) := c in
  match out with
  | Some l =>
      Permutation (expected dn dold cn cold) l /\
      (forall l1 x l2 y l3, l = l1 ++ x :: l2 ++ y :: l3 -> e_cod y <> e_src x) /\
      (forall x, In x l -> e_cod x <> e_src x)
  | None => has_cycle dn dold cn cold
  end.

Lemma topo_expected_eq dn dold cn cold oo on :
  topo_expected (dn, dold, cn, cold, oo, on) = expected dn dold cn cold.
Proof. reflexivity. Qed.

Lemma topo_ok_b_spec c out : topo_ok_b c out = true <-> topo_correct c out.
Proof.
  destruct c as [[[[[dn dold] cn] cold] oo] on]. unfold topo_ok_b, topo_correct.
  rewrite topo_expected_eq. destruct out as [l|].
  - rewrite andb_true_iff, perm_b_spec, order_b_spec. split.
    + intros [Hp [Hf Hn]]. split; [exact Hp|]. split.
      * intros l1 x l2 y l3 Heq. exact (FOP_before no_back l l1 x l2 y l3 Hf Heq).
      * rewrite Forall_forall in Hn. exact Hn.
    + intros [Hp [Hf Hn]]. split; [exact Hp|]. split; [apply FOP_of_before; exact Hf|].
      apply Forall_forall. exact Hn.
  - rewrite cyclic_b_spec. symmetry. apply has_cycle_EdgeR.
Qed.

(* the model's own answer is accepted by the oracle on every well-formed input *)
Lemma topo_ok_b_model c out :
  (let '(dn, dold, cn, cold, oo, on) := c in WFin dn dold cn cold oo on) ->
  result_opt (run_topo c) = Some out -> topo_ok_b c out = true.
Proof.
  destruct c as [[[[[dn dold] cn] cold] oo] on]. intros HW Hr. apply topo_ok_b_spec.
  unfold run_topo in Hr. unfold topo_correct.
  destruct (toposort dn dold cn cold oo on) as [l| | |] eqn:Ht; cbn [result_opt] in Hr; try discriminate.
  - assert (out = Some l) by congruence. subst out. split; [eapply topo_complete; eassumption|]. split.
    + intros l1 [[f A] B] l2 [[g C] D] l3 Heq. cbn [e_cod e_src fst snd].
      eapply topo_order; eassumption.
    + intros [[f A] B] Hin. cbn [e_cod e_src fst snd]. eapply topo_no_self_loop; eassumption.
  - assert (out = None) by congruence. subst out. apply (topo_cycle dn dold cn cold oo on HW). exact Ht.
Qed.

Lemma wfin_b_spec dn dold cn cold oo on :
  wfin_b (dn, dold, cn, cold, oo, on) = true <-> WFin dn dold cn cold oo on.
Proof.
  unfold wfin_b, WFin, t_dom, t_gc, t_objs. rewrite forallb_forall. split.
  - intros H o m c Hin Hc. specialize (H (o, m) Hin). cbn [fst snd] in H. rewrite Hc in H.
    apply andb_true_iff in H. destruct H as [H1 H2]. split; apply memN_In; assumption.
  - intros H [o m] Hin. cbn [fst snd]. destruct (get_cod cn cold m) as [c|] eqn:Hc; [|reflexivity].
    destruct (H o m c Hin Hc) as [H1 H2]. apply andb_true_iff. split; apply memN_In; assumption.
Qed.
