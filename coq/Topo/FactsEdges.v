(* The edge list of an input, and the two inner loops re-expressed over edges. *)
From Coq Require Import List NArith Bool Lia Permutation.
From Topo Require Import Model FactsBase.
Import ListNotations.
Open Scope N_scope.

(* one (object, morphism) pair of `dom` gives at most one edge *)
Definition edge_of (gc : N -> option N) (p : N * N) : list edge :=
  match gc (snd p) with
  | Some c => [(snd p, fst p, c)]
  | None => []
  end.

(* the expected output as a multiset: all (m, o, c) with (o,m) in dom and get_cod m = Some c *)
Definition edges (gc : N -> option N) (dom : list (N * N)) : list edge := flat_map (edge_of gc) dom.

Definition srcb (o : N) (e : edge) : bool := e_src e =? o.
Definition codb (x : N) (e : edge) : bool := e_cod e =? x.

Definition ems (gc : N -> option N) (obj : N) (ms : list N) : list edge :=
  flat_map (fun m => match gc m with Some c => [(m, obj, c)] | None => [] end) ms.

Lemma edges_app gc a b : edges gc (a ++ b) = edges gc a ++ edges gc b.
Proof. unfold edges. apply flat_map_app. Qed.

Lemma in_edges gc dom e :
  In e (edges gc dom) <-> In (e_src e, e_mor e) dom /\ gc (e_mor e) = Some (e_cod e).
Proof.
  unfold edges. rewrite in_flat_map. split.
  - intros [[o m] [Hin He]]. unfold edge_of in He. cbn [fst snd] in He.
    destruct (gc m) as [c|] eqn:Hgc; [|contradiction]. destruct He as [He|[]]. subst e.
    cbn [e_src e_mor e_cod fst snd]. split; assumption.
  - intros [Hin Hgc]. exists (e_src e, e_mor e). split; [exact Hin|].
    unfold edge_of. cbn [fst snd]. rewrite Hgc. left. destruct e as [[m o] c]. reflexivity.
Qed.

Lemma ems_get2 gc o t : ems gc o (get2 t o) = filter (srcb o) (edges gc t).
Proof.
  induction t as [|[a m] t IH].
  - reflexivity.
  - change (edges gc ((a, m) :: t)) with (edge_of gc (a, m) ++ edges gc t).
    rewrite filter_app, <- IH. unfold get2. cbn [filter fst].
    destruct (a =? o) eqn:Ha.
    + apply N.eqb_eq in Ha. subst a. cbn [map snd ems flat_map]. f_equal.
      unfold edge_of. cbn [fst snd]. destruct (gc m) as [c|]; [|reflexivity].
      cbn [filter srcb e_src fst snd]. unfold srcb. cbn [e_src fst snd]. rewrite N.eqb_refl. reflexivity.
    + replace (filter (srcb o) (edge_of gc (a, m))) with (@nil edge); [reflexivity|].
      unfold edge_of. cbn [fst snd]. destruct (gc m) as [c|]; [|reflexivity].
      cbn [filter]. unfold srcb. cbn [e_src fst snd]. rewrite Ha. reflexivity.
Qed.

(* lines 52-56 over edges *)
Fixpoint countE (es : list edge) (deg : degmap) : option degmap :=
  match es with
  | [] => Some deg
  | e :: t =>
      match mget deg (e_cod e) with
      | None => None
      | Some d => countE t (mupd (e_cod e) (d + 1) deg)
      end
  end.

Lemma count_degs_countE gc dom : forall deg, count_degs gc dom deg = countE (edges gc dom) deg.
Proof.
  induction dom as [|[o m] t IH]; intros deg.
  - reflexivity.
  - change (edges gc ((o, m) :: t)) with (edge_of gc (o, m) ++ edges gc t).
    cbn [count_degs]. unfold edge_of. cbn [fst snd]. destruct (gc m) as [c|].
    + cbn [app countE e_cod snd]. destruct (mget deg c); [apply IH | reflexivity].
    + cbn [app]. apply IH.
Qed.

(* lines 76-93 over edges *)
Fixpoint emitE (es : list edge) (deg : degmap) (q : list N) (out : list edge)
  : option (degmap * list N * list edge) :=
  match es with
  | [] => Some (deg, q, out)
  | e :: t =>
      match mget deg (e_cod e) with
      | None => None
      | Some d =>
          if d - 1 =? 0
          then emitE t (mremove (e_cod e) deg) (q ++ [e_cod e]) (out ++ [e])
          else emitE t (mupd (e_cod e) (d - 1) deg) q (out ++ [e])
      end
  end.

Lemma emit_emitE gc obj ms : forall deg q out,
  emit gc obj ms deg q out = emitE (ems gc obj ms) deg q out.
Proof.
  induction ms as [|m t IH]; intros deg q out.
  - reflexivity.
  - cbn [emit ems flat_map]. destruct (gc m) as [c|].
    + cbn [app emitE e_cod snd]. destruct (mget deg c) as [d|]; [|reflexivity].
      destruct (d - 1 =? 0); apply IH.
    + cbn [app]. apply IH.
Qed.

Lemma emitE_app a b : forall deg q out,
  emitE (a ++ b) deg q out =
  match emitE a deg q out with
  | None => None
  | Some (d1, q1, o1) => emitE b d1 q1 o1
  end.
Proof.
  induction a as [|e a IH]; intros deg q out; cbn [app emitE].
  - reflexivity.
  - destruct (mget deg (e_cod e)) as [d|]; [|reflexivity].
    destruct (d - 1 =? 0); apply IH.
Qed.

(* one iteration of the while loop = emitE over the out-edges of the popped object *)
Lemma loop_step gc dn dold o deg q out :
  (match emit gc o (get2 dn o) deg q out with
   | None => None
   | Some (d1, q1, o1) => emit gc o (get2 dold o) d1 q1 o1
   end) = emitE (filter (srcb o) (edges gc (dn ++ dold))) deg q out.
Proof.
  rewrite edges_app, filter_app, <- !ems_get2, emitE_app, emit_emitE.
  destruct (emitE (ems gc o (get2 dn o)) deg q out) as [[[d1 q1] o1]|]; [|reflexivity].
  apply emit_emitE.
Qed.

Definition kin (es : list edge) (x : N) : N := countN (codb x) es.

Lemma kin_cons e t x : kin (e :: t) x = b2n (e_cod e =? x) + kin t x.
Proof. reflexivity. Qed.

Lemma countE_spec es : forall deg,
  (forall e, In e es -> mget deg (e_cod e) <> None) ->
  exists deg', countE es deg = Some deg' /\ length deg' = length deg /\ map fst deg' = map fst deg /\
    forall x, mget deg' x = option_map (fun d => d + kin es x) (mget deg x).
Proof.
  induction es as [|e t IH]; intros deg Hin.
  - exists deg. split; [reflexivity|]. split; [reflexivity|]. split; [reflexivity|].
    intros x. destruct (mget deg x) as [d|]; cbn [option_map]; [|reflexivity].
    unfold kin. cbn [countN]. f_equal. lia.
  - cbn [countE]. destruct (mget deg (e_cod e)) as [d|] eqn:Hd.
    2:{ exfalso. apply (Hin e); [left; reflexivity | exact Hd]. }
    destruct (IH (mupd (e_cod e) (d + 1) deg)) as [deg' [Hc [Hlen [Hkeys Hget]]]].
    { intros e' He'. destruct (N.eq_dec (e_cod e') (e_cod e)) as [Heq|Hne].
      - rewrite Heq. erewrite mget_mupd_same; [discriminate | exact Hd].
      - rewrite mget_mupd_other; [|exact Hne]. apply Hin. right. exact He'. }
    exists deg'. split; [exact Hc|]. split; [rewrite Hlen; apply mupd_length|].
    split; [rewrite Hkeys; apply mupd_keys|].
    intros x. rewrite Hget, kin_cons. destruct (N.eq_dec x (e_cod e)) as [Heq|Hne].
    + subst x. erewrite mget_mupd_same; [|exact Hd]. rewrite Hd. cbn [option_map].
      rewrite N.eqb_refl. cbn [b2n]. f_equal. lia.
    + rewrite mget_mupd_other; [|exact Hne].
      assert (Hb : e_cod e =? x = false) by (apply N.eqb_neq; congruence).
      rewrite Hb. cbn [b2n]. destruct (mget deg x); cbn [option_map]; [f_equal; lia | reflexivity].
Qed.

(* effect of the inner loop on the degree map, the queue and the output *)
Definition dec_deg (o : option N) (k : N) : option N :=
  match o with
  | Some d => if d =? k then None else Some (d - k)
  | None => None
  end.

Lemma emitE_spec es : forall deg q out,
  (forall x d, mget deg x = Some d -> 1 <= d) ->
  (forall x, 0 < kin es x -> exists d, mget deg x = Some d /\ kin es x <= d) ->
  exists deg' nw,
    emitE es deg q out = Some (deg', q ++ nw, out ++ es) /\
    NoDup nw /\
    (forall x, In x nw <-> exists d, mget deg x = Some d /\ d = kin es x) /\
    (forall x, mget deg' x = dec_deg (mget deg x) (kin es x)) /\
    (length deg' + length nw <= length deg)%nat.
Proof.
  induction es as [|e t IH]; intros deg q out Hge Hk.
  - exists deg, []. cbn [emitE]. rewrite !app_nil_r. split; [reflexivity|]. split; [constructor|].
    split.
    { intros x. split; [intros []|]. intros [d [Hd Hz]]. apply Hge in Hd. unfold kin in Hz. cbn [countN] in Hz. lia. }
    split; [|cbn [length]; lia].
    intros x. unfold dec_deg, kin. cbn [countN]. destruct (mget deg x) as [d|] eqn:Hd; [|reflexivity].
    apply Hge in Hd. destruct (N.eqb_spec d 0) as [Hz|Hz]; [lia|]. f_equal. lia.
  - set (c := e_cod e). cbn [emitE]. fold c.
    assert (Hkc : kin (e :: t) c = 1 + kin t c).
    { rewrite kin_cons. fold c. rewrite N.eqb_refl. reflexivity. }
    assert (Hkx : forall x, x <> c -> kin (e :: t) x = kin t x).
    { intros x Hx. rewrite kin_cons. fold c. destruct (N.eqb_spec c x) as [Heq|Hne]; [congruence|]. cbn [b2n]. lia. }
    destruct (Hk c) as [d [Hd Hdk]]; [lia|]. rewrite Hd.
    destruct (N.eqb_spec (d - 1) 0) as [Hz|Hz].
    + (* degree reaches zero: remove and enqueue *)
      assert (Hd1 : d = 1) by (apply Hge in Hd; lia).
      assert (Hkt : kin t c = 0) by lia.
      destruct (IH (mremove c deg) (q ++ [c]) (out ++ [e])) as [deg' [nw [Hem [Hnd [Hnw [Hget Hlen]]]]]].
      { intros x d0 Hx. destruct (N.eq_dec x c) as [Heq|Hne].
        - subst x. rewrite mget_mremove_same in Hx. discriminate.
        - rewrite mget_mremove_other in Hx; [|exact Hne]. eapply Hge. exact Hx. }
      { intros x Hx. destruct (N.eq_dec x c) as [Heq|Hne]; [subst x; lia|].
        rewrite mget_mremove_other; [|exact Hne]. rewrite <- (Hkx x Hne). apply Hk. rewrite (Hkx x Hne). exact Hx. }
      exists deg', (c :: nw). split.
      { rewrite Hem. rewrite <- !app_assoc. reflexivity. }
      split.
      { constructor; [|exact Hnd]. intros Hin. apply Hnw in Hin. destruct Hin as [d0 [Hd0 _]].
        rewrite mget_mremove_same in Hd0. discriminate. }
      split.
      { intros x. cbn [In]. destruct (N.eq_dec x c) as [Heq|Hne].
        - subst x. split; [|intros _; left; reflexivity]. intros _. exists d. split; [exact Hd | lia].
        - rewrite Hnw, mget_mremove_other, (Hkx x Hne); [|exact Hne]. split.
          + intros [Hc|H]; [congruence | exact H].
          + intros H. right. exact H. }
      split.
      { intros x. rewrite Hget. destruct (N.eq_dec x c) as [Heq|Hne].
        - subst x. rewrite mget_mremove_same, Hd. unfold dec_deg.
          destruct (N.eqb_spec d (kin (e :: t) c)) as [_|Hne]; [reflexivity | lia].
        - rewrite mget_mremove_other, (Hkx x Hne); [reflexivity | exact Hne]. }
      pose proof (mremove_length_lt c deg d Hd). cbn [length]. lia.
    + (* degree stays positive *)
      destruct (IH (mupd c (d - 1) deg) q (out ++ [e])) as [deg' [nw [Hem [Hnd [Hnw [Hget Hlen]]]]]].
      { intros x d0 Hx. destruct (N.eq_dec x c) as [Heq|Hne].
        - subst x. erewrite mget_mupd_same in Hx; [|exact Hd]. assert (Hdd : d0 = d - 1) by congruence. lia.
        - rewrite mget_mupd_other in Hx; [|exact Hne]. eapply Hge. exact Hx. }
      { intros x Hx. destruct (N.eq_dec x c) as [Heq|Hne].
        - subst x. erewrite mget_mupd_same; [|exact Hd]. exists (d - 1). split; [reflexivity | lia].
        - rewrite mget_mupd_other; [|exact Hne]. rewrite <- (Hkx x Hne). apply Hk. rewrite (Hkx x Hne). exact Hx. }
      exists deg', nw. split.
      { rewrite Hem. rewrite <- !app_assoc. reflexivity. }
      split; [exact Hnd|]. split.
      { intros x. rewrite Hnw. destruct (N.eq_dec x c) as [Heq|Hne].
        - subst x. erewrite mget_mupd_same; [|exact Hd]. rewrite Hd, Hkc. split.
          + intros [d0 [H0 H1]]. assert (Hdd : d0 = d - 1) by congruence. exists d. split; [reflexivity | lia].
          + intros [d0 [H0 H1]]. assert (Hdd : d0 = d) by congruence. exists (d - 1). split; [reflexivity | lia].
        - rewrite mget_mupd_other, (Hkx x Hne); [reflexivity | exact Hne]. }
      split; [|rewrite mupd_length in Hlen; exact Hlen].
      intros x. rewrite Hget. destruct (N.eq_dec x c) as [Heq|Hne].
      * subst x. erewrite mget_mupd_same; [|exact Hd]. rewrite Hd, Hkc. unfold dec_deg.
        destruct (N.eqb_spec (d - 1) (kin t c)) as [H1|H1];
          destruct (N.eqb_spec d (1 + kin t c)) as [H2|H2]; try lia; [reflexivity | f_equal; lia].
      * rewrite mget_mupd_other, (Hkx x Hne); [reflexivity | exact Hne].
Qed.
