(* The while loop over an abstract edge list, and its invariant. *)
From Coq Require Import List NArith Bool Lia Permutation.
From Topo Require Import Model FactsBase FactsEdges FactsGraph.
Import ListNotations.
Open Scope N_scope.

Definition oe (E : list edge) (o : N) : list edge := filter (srcb o) E.

Fixpoint loopE (E : list edge) (fuel : nat) (deg : degmap) (q : list N) (out : list edge) : result :=
  match q with
  | [] => match deg with [] => Ok out | _ :: _ => Cycle end
  | o :: q' =>
      match fuel with
      | O => OutOfFuel
      | S f =>
          match emitE (oe E o) deg q' out with
          | None => Panic
          | Some (d2, q2, o2) => loopE E f d2 q2 o2
          end
      end
  end.

Lemma loop_loopE gc dn dold : forall fuel deg q out,
  loop gc dn dold fuel deg q out = loopE (edges gc (dn ++ dold)) fuel deg q out.
Proof.
  induction fuel as [|f IH]; intros deg q out; destruct q as [|o q']; cbn [loop loopE]; try reflexivity.
  pose proof (loop_step gc dn dold o deg q' out) as Hs. unfold oe.
  destruct (emit gc o (get2 dn o) deg q' out) as [[[d1 q1] o1]|]; [|rewrite <- Hs; reflexivity].
  rewrite <- Hs. destruct (emit gc o (get2 dold o) d1 q1 o1) as [[[d2 q2] o2]|]; [apply IH | reflexivity].
Qed.

(* incoming edges of x whose source has not been popped yet *)
Definition pend (E : list edge) (x : N) (ps : list N) : N :=
  countN (fun e => codb x e && negb (memN (e_src e) ps)) E.

Lemma pend_split E x ps o :
  ~ In o ps -> pend E x ps = pend E x (ps ++ [o]) + kin (oe E o) x.
Proof.
  intros Hnin. unfold pend, kin, oe. rewrite countN_filter. apply countN_split.
  intros e _. rewrite memN_app. cbn [memN existsb]. rewrite orb_false_r. unfold srcb.
  destruct (codb x e); cbn [andb]; [|rewrite andb_false_r; reflexivity].
  rewrite andb_true_r. destruct (N.eqb_spec (e_src e) o) as [Heq|Hne].
  - rewrite Heq. apply memN_false in Hnin. rewrite Hnin. reflexivity.
  - rewrite orb_false_r. destruct (memN (e_src e) ps); reflexivity.
Qed.

Lemma pend_nil E x : pend E x [] = kin E x.
Proof. unfold pend, kin. apply countN_ext. intros e _. cbn [memN existsb negb]. apply andb_true_r. Qed.

Section Loop.
Variable E : list edge.
Variable objs : list N.
Hypothesis WFs : forall e, In e E -> In (e_src e) objs.
Hypothesis WFc : forall e, In e E -> In (e_cod e) objs.

Definition no_back (a b : edge) : Prop := e_cod b <> e_src a.
Definition no_self (a : edge) : Prop := e_cod a <> e_src a.

Record Inv (ps : list N) (deg : degmap) (q : list N) (out : list edge) : Prop := {
  i_out : out = flat_map (oe E) ps;
  i_nd : NoDup (ps ++ q);
  i_objs : forall x, In x (ps ++ q) -> In x objs;
  i_some : forall x d, mget deg x = Some d ->
             1 <= d /\ d = pend E x ps /\ In x objs /\ ~ In x (ps ++ q);
  i_none : forall x, In x objs -> mget deg x = None -> In x (ps ++ q) /\ pend E x ps = 0;
  i_fop : ForallOrdPairs no_back out;
  i_nsl : Forall no_self out;
  i_acy : forall z, In z (ps ++ q) -> ~ path (EdgeR E) z z
}.

(* everything already popped or queued has all its predecessors popped *)
Lemma Inv_pred_closed ps deg q out :
  Inv ps deg q out -> forall a b, EdgeR E a b -> In b (ps ++ q) -> In a ps.
Proof.
  intros HI a b [e [He [Hsrc Hcod]]] Hb.
  destruct (mget deg b) as [d|] eqn:Hd.
  - exfalso. apply (i_some _ _ _ _ HI) in Hd. destruct Hd as [_ [_ [_ Hn]]]. contradiction.
  - destruct (i_none _ _ _ _ HI b (i_objs _ _ _ _ HI b Hb) Hd) as [_ Hz].
    unfold pend in Hz. pose proof (countN_zero _ _ e Hz He) as Hf. cbn beta in Hf.
    unfold codb in Hf. rewrite Hcod, N.eqb_refl in Hf. cbn [andb] in Hf.
    apply negb_false_iff in Hf. apply memN_In in Hf. rewrite <- Hsrc. exact Hf.
Qed.

Lemma in_oe o e : In e (oe E o) <-> In e E /\ e_src e = o.
Proof. unfold oe, srcb. rewrite filter_In, N.eqb_eq. reflexivity. Qed.

Lemma Inv_step ps deg o q' out :
  Inv ps deg (o :: q') out ->
  exists deg' nw,
    emitE (oe E o) deg q' out = Some (deg', q' ++ nw, out ++ oe E o) /\
    Inv (ps ++ [o]) deg' (q' ++ nw) (out ++ oe E o) /\
    (length deg' + length nw <= length deg)%nat.
Proof.
  intros HI. set (es := oe E o).
  assert (Hops : ~ In o ps).
  { pose proof (NoDup_remove_2 _ _ _ (i_nd _ _ _ _ HI)) as Hn. intros Hin. apply Hn. apply in_or_app. left. exact Hin. }
  assert (Hsplit : forall x, pend E x ps = pend E x (ps ++ [o]) + kin es x).
  { intros x. apply pend_split. exact Hops. }
  assert (H1 : forall x d, mget deg x = Some d -> 1 <= d).
  { intros x d Hd. apply (i_some _ _ _ _ HI) in Hd. apply Hd. }
  assert (H2 : forall x, 0 < kin es x -> exists d, mget deg x = Some d /\ kin es x <= d).
  { intros x Hk. destruct (countN_pos _ _ Hk) as [e [Hin Hc]]. apply in_oe in Hin. destruct Hin as [HeE _].
    unfold codb in Hc. apply N.eqb_eq in Hc. pose proof (WFc e HeE) as Hobj. rewrite Hc in Hobj.
    destruct (mget deg x) as [d|] eqn:Hd.
    - exists d. split; [reflexivity|]. apply (i_some _ _ _ _ HI) in Hd. destruct Hd as [_ [Hd _]].
      specialize (Hsplit x). lia.
    - exfalso. destruct (i_none _ _ _ _ HI x Hobj Hd) as [_ Hz]. specialize (Hsplit x). lia. }
  destruct (emitE_spec es deg q' out H1 H2) as [deg' [nw [Hem [Hnd [Hnw [Hget Hlen]]]]]].
  exists deg', nw. split; [exact Hem|]. split; [|exact Hlen].
  assert (Hl : (ps ++ [o]) ++ q' ++ nw = (ps ++ o :: q') ++ nw).
  { rewrite <- !app_assoc. reflexivity. }
  assert (HA : forall x, In x nw -> ~ In x (ps ++ o :: q')).
  { intros x Hx. apply Hnw in Hx. destruct Hx as [d [Hd _]]. apply (i_some _ _ _ _ HI) in Hd. apply Hd. }
  assert (HB : forall e, In e es -> ~ In (e_cod e) (ps ++ o :: q')).
  { intros e He. destruct (H2 (e_cod e)) as [d [Hd _]].
    - unfold kin. eapply countN_In_pos; [exact He|]. unfold codb. apply N.eqb_refl.
    - apply (i_some _ _ _ _ HI) in Hd. apply Hd. }
  assert (Ho_in : In o (ps ++ o :: q')) by (apply in_or_app; right; left; reflexivity).
  assert (Hps_in : forall x, In x ps -> In x (ps ++ o :: q')) by (intros x Hx; apply in_or_app; left; exact Hx).
  assert (Hpso_in : forall x, In x (ps ++ [o]) -> In x (ps ++ o :: q')).
  { intros x Hx. apply in_app_or in Hx. destruct Hx as [Hx|[Hx|[]]]; [apply Hps_in; exact Hx | subst x; exact Ho_in]. }
  constructor.
  - (* i_out *)
    rewrite flat_map_app. cbn [flat_map]. rewrite app_nil_r. rewrite (i_out _ _ _ _ HI) at 1. reflexivity.
  - (* i_nd *)
    rewrite Hl. apply NoDup_app_intro; [exact (i_nd _ _ _ _ HI) | exact Hnd|].
    intros x Hx Hx'. exact (HA x Hx' Hx).
  - (* i_objs *)
    intros x Hx. rewrite Hl in Hx. apply in_app_or in Hx. destruct Hx as [Hx|Hx].
    + exact (i_objs _ _ _ _ HI x Hx).
    + apply Hnw in Hx. destruct Hx as [d [Hd _]]. apply (i_some _ _ _ _ HI) in Hd. apply Hd.
  - (* i_some *)
    intros x d' Hd'. rewrite Hget in Hd'. unfold dec_deg in Hd'.
    destruct (mget deg x) as [d|] eqn:Hd; [|discriminate].
    destruct (N.eqb_spec d (kin es x)) as [Heq|Hne]; [discriminate|].
    assert (Hdd : d' = d - kin es x) by congruence.
    destruct (i_some _ _ _ _ HI x d Hd) as [Hge [Hpe [Hobj Hnin]]].
    specialize (Hsplit x). split; [lia|]. split; [lia|]. split; [exact Hobj|].
    rewrite Hl. intros Hin. apply in_app_or in Hin. destruct Hin as [Hin|Hin]; [contradiction|].
    apply Hnw in Hin. destruct Hin as [d0 [Hd0 Hk]]. rewrite Hd in Hd0.
    assert (d0 = d) by congruence. lia.
  - (* i_none *)
    intros x Hobj Hd'. rewrite Hget in Hd'. unfold dec_deg in Hd'. rewrite Hl. specialize (Hsplit x).
    destruct (mget deg x) as [d|] eqn:Hd.
    + destruct (N.eqb_spec d (kin es x)) as [Heq|Hne]; [|discriminate].
      destruct (i_some _ _ _ _ HI x d Hd) as [Hge [Hpe _]].
      split; [|lia]. apply in_or_app. right. apply Hnw. exists d. split; [exact Hd | exact Heq].
    + destruct (i_none _ _ _ _ HI x Hobj Hd) as [Hin Hz]. split; [|lia].
      apply in_or_app. left. exact Hin.
  - (* i_fop *)
    apply FOP_app; [exact (i_fop _ _ _ _ HI)| |].
    + apply FOP_all. intros a b Ha Hb. unfold no_back. apply in_oe in Ha. destruct Ha as [_ Ha].
      rewrite Ha. intros Heq. apply (HB b Hb). rewrite Heq. exact Ho_in.
    + intros a b Ha Hb. unfold no_back. rewrite (i_out _ _ _ _ HI) in Ha.
      apply in_flat_map in Ha. destruct Ha as [p [Hp Ha]]. apply in_oe in Ha. destruct Ha as [_ Ha].
      rewrite Ha. intros Heq. apply (HB b Hb). rewrite Heq. apply Hps_in. exact Hp.
  - (* i_nsl *)
    apply Forall_app. split; [exact (i_nsl _ _ _ _ HI)|]. apply Forall_forall. intros e He.
    unfold no_self. pose proof (HB e He) as Hn. apply in_oe in He. destruct He as [_ He]. rewrite He.
    intros Heq. apply Hn. rewrite Heq. exact Ho_in.
  - (* i_acy *)
    intros z Hz. rewrite Hl in Hz. apply in_app_or in Hz. destruct Hz as [Hz|Hz]; [exact (i_acy _ _ _ _ HI z Hz)|].
    intros Hp.
    assert (Hpred : forall b, EdgeR E b z -> In b (ps ++ o :: q')).
    { intros b [e [He [Hsrc Hcod]]]. pose proof Hz as Hz'. apply Hnw in Hz'. destruct Hz' as [d [Hd Hk]].
      destruct (i_some _ _ _ _ HI z d Hd) as [_ [Hpe _]]. specialize (Hsplit z).
      assert (Hzero : pend E z (ps ++ [o]) = 0) by lia.
      unfold pend in Hzero. pose proof (countN_zero _ _ e Hzero He) as Hf. cbn beta in Hf.
      unfold codb in Hf. rewrite Hcod, N.eqb_refl in Hf. cbn [andb] in Hf.
      apply negb_false_iff in Hf. apply memN_In in Hf. rewrite <- Hsrc. apply Hpso_in. exact Hf. }
    apply (HA z Hz). destruct (path_last _ _ _ Hp) as [Hr|[b [Hpb Hr]]].
    + apply Hpred. exact Hr.
    + apply (path_pred_closed (EdgeR E) (fun x => In x (ps ++ o :: q'))) with (b := b);
        [|exact Hpb | apply Hpred; exact Hr].
      intros a c Hac Hc. apply Hps_in. eapply Inv_pred_closed; eassumption.
Qed.

Lemma loopE_inv : forall fuel ps deg q out,
  Inv ps deg q out -> (length deg + length q < fuel)%nat ->
  exists ps' deg' out',
    Inv ps' deg' [] out' /\
    loopE E fuel deg q out = match deg' with [] => Ok out' | _ :: _ => Cycle end.
Proof.
  induction fuel as [|f IH]; intros ps deg q out HI Hlen; [lia|].
  destruct q as [|o q'].
  - exists ps, deg, out. split; [exact HI|]. reflexivity.
  - destruct (Inv_step ps deg o q' out HI) as [deg' [nw [Hem [HI' Hl]]]].
    cbn [loopE]. rewrite Hem. apply (IH (ps ++ [o])); [exact HI'|].
    rewrite app_length. cbn [length] in Hlen. lia.
Qed.

(* ---------- consequences of the invariant at loop exit ---------- *)
Lemma Inv_final_ok ps out : Inv ps [] [] out -> Permutation E out.
Proof.
  intros HI. rewrite (i_out _ _ _ _ HI).
  assert (Hnd : NoDup ps).
  { pose proof (i_nd _ _ _ _ HI) as H. rewrite app_nil_r in H. exact H. }
  pose proof (group_by_src_perm ps Hnd E) as Hp.
  rewrite filter_all_false, app_nil_r in Hp; [exact Hp|].
  intros e He. apply negb_false_iff. apply memN_In. pose proof (WFs e He) as Hs.
  destruct (i_none _ _ _ _ HI (e_src e) Hs eq_refl) as [Hin _]. rewrite app_nil_r in Hin. exact Hin.
Qed.

Lemma Inv_final_acyclic ps out : Inv ps [] [] out -> forall z, ~ path (EdgeR E) z z.
Proof.
  intros HI z Hp. apply (i_acy _ _ _ _ HI z); [|exact Hp].
  destruct (path_src _ _ _ Hp) as [c [e [He [Hsrc _]]]]. pose proof (WFs e He) as Hs.
  rewrite Hsrc in Hs. apply (i_none _ _ _ _ HI z Hs eq_refl).
Qed.

Lemma Inv_final_cycle ps p deg out : Inv ps (p :: deg) [] out -> exists z, path (EdgeR E) z z.
Proof.
  intros HI. set (m := p :: deg) in *.
  apply (find_cycle (EdgeR E) (map fst m) (fst p)); [left; reflexivity|].
  intros x Hx. apply in_keys_mget in Hx. destruct Hx as [d Hd].
  destruct (i_some _ _ _ _ HI x d Hd) as [Hge [Hpe _]].
  assert (Hpos : 0 < pend E x ps) by lia. unfold pend in Hpos.
  destruct (countN_pos _ _ Hpos) as [e [He Hf]]. apply andb_true_iff in Hf. destruct Hf as [Hc Hs].
  unfold codb in Hc. apply N.eqb_eq in Hc. apply negb_true_iff in Hs. apply memN_false in Hs.
  exists (e_src e). split.
  - destruct (mget m (e_src e)) as [d0|] eqn:Hd0.
    + apply mget_In in Hd0. change (e_src e) with (fst (e_src e, d0)). apply in_map. exact Hd0.
    + exfalso. pose proof (WFs e He) as Hobj. destruct (i_none _ _ _ _ HI _ Hobj Hd0) as [Hin _].
      rewrite app_nil_r in Hin. contradiction.
  - exists e. split; [exact He|]. split; [reflexivity | exact Hc].
Qed.

End Loop.
