(* Generic facts: the association-list map, counting, ordered pairs. *)
From Coq Require Import List NArith Bool Lia Permutation Sorting.
From Topo Require Import Model.
Import ListNotations.
Open Scope N_scope.
Arguments N.add : simpl never.
Arguments N.sub : simpl never.
Arguments N.mul : simpl never.
Arguments N.eqb : simpl never.
Arguments N.ltb : simpl never.
Arguments N.leb : simpl never.

(* ---------- membership ---------- *)
Definition memN (x : N) (l : list N) : bool := existsb (N.eqb x) l.

Lemma memN_In x l : memN x l = true <-> In x l.
Proof.
  unfold memN. rewrite existsb_exists. split.
  - intros [y [Hy Hxy]]. apply N.eqb_eq in Hxy. subst. exact Hy.
  - intros Hin. exists x. split; [exact Hin | apply N.eqb_refl].
Qed.

Lemma memN_false x l : memN x l = false <-> ~ In x l.
Proof.
  rewrite <- memN_In. destruct (memN x l); split; intros H; congruence.
Qed.

Lemma memN_app x a b : memN x (a ++ b) = memN x a || memN x b.
Proof. unfold memN. apply existsb_app. Qed.

(* ---------- mget / mupd / mremove / minsert ---------- *)
Lemma mget_mupd_same k v m d : mget m k = Some d -> mget (mupd k v m) k = Some v.
Proof.
  induction m as [|[k' v'] t IH]; cbn [mget mupd map fst]; intros Hg.
  - discriminate.
  - destruct (k =? k') eqn:Hk.
    + apply N.eqb_eq in Hk. subst k'. rewrite N.eqb_refl. cbn [mget]. rewrite N.eqb_refl. reflexivity.
    + rewrite N.eqb_sym, Hk. cbn [mget]. rewrite Hk. apply IH. exact Hg.
Qed.

Lemma mget_mupd_other k v m x : x <> k -> mget (mupd k v m) x = mget m x.
Proof.
  intros Hx. induction m as [|[k' v'] t IH]; cbn [mget mupd map fst].
  - reflexivity.
  - destruct (k' =? k) eqn:Hk.
    + apply N.eqb_eq in Hk. subst k'. cbn [mget].
      destruct (x =? k) eqn:Hxk; [apply N.eqb_eq in Hxk; contradiction|]. exact IH.
    + cbn [mget]. destruct (x =? k'); [reflexivity | exact IH].
Qed.

Lemma mupd_keys k v m : map fst (mupd k v m) = map fst m.
Proof.
  unfold mupd. rewrite map_map. apply map_ext_in. intros [a b] _. cbn [fst].
  destruct (a =? k) eqn:Hk; [apply N.eqb_eq in Hk; subst; reflexivity | reflexivity].
Qed.

Lemma mupd_length k v m : length (mupd k v m) = length m.
Proof. unfold mupd. apply map_length. Qed.

Lemma mget_mremove_same k m : mget (mremove k m) k = None.
Proof.
  induction m as [|[k' v'] t IH]; cbn [mget mremove filter fst].
  - reflexivity.
  - destruct (k' =? k) eqn:Hk; cbn [negb]; [exact IH|].
    cbn [mget]. rewrite N.eqb_sym, Hk. exact IH.
Qed.

Lemma mget_mremove_other k m x : x <> k -> mget (mremove k m) x = mget m x.
Proof.
  intros Hx. induction m as [|[k' v'] t IH]; cbn [mget mremove filter fst].
  - reflexivity.
  - destruct (k' =? k) eqn:Hk; cbn [negb].
    + apply N.eqb_eq in Hk. subst k'.
      destruct (x =? k) eqn:Hxk; [apply N.eqb_eq in Hxk; contradiction|]. exact IH.
    + cbn [mget]. destruct (x =? k'); [reflexivity | exact IH].
Qed.

Lemma mremove_length_le k m : (length (mremove k m) <= length m)%nat.
Proof.
  unfold mremove. induction m as [|p t IH]; cbn [filter length]; [lia|].
  destruct (negb (fst p =? k)); cbn [length]; lia.
Qed.

Lemma mremove_length_lt k m d : mget m k = Some d -> (length (mremove k m) < length m)%nat.
Proof.
  induction m as [|[k' v'] t IH]; cbn [mget mremove filter fst length]; intros Hg.
  - discriminate.
  - destruct (k =? k') eqn:Hk.
    + rewrite N.eqb_sym, Hk. cbn [negb]. pose proof (mremove_length_le k t) as Hle.
      unfold mremove in Hle. lia.
    + rewrite N.eqb_sym, Hk. cbn [negb length]. specialize (IH Hg). unfold mremove in IH. lia.
Qed.

Lemma mget_minsert_same k v m : mget (minsert k v m) k = Some v.
Proof.
  induction m as [|[k' v'] t IH]; cbn [mget minsert].
  - rewrite N.eqb_refl. reflexivity.
  - destruct (k <? k') eqn:Hlt; [cbn [mget]; rewrite N.eqb_refl; reflexivity|].
    destruct (k =? k') eqn:Hk; cbn [mget]; [rewrite N.eqb_refl; reflexivity|].
    rewrite Hk. exact IH.
Qed.

Lemma mget_minsert_other k v m x : x <> k -> mget (minsert k v m) x = mget m x.
Proof.
  intros Hx. assert (Hxk : x =? k = false) by (apply N.eqb_neq; exact Hx).
  induction m as [|[k' v'] t IH]; cbn [mget minsert].
  - rewrite Hxk. reflexivity.
  - destruct (k <? k') eqn:Hlt; [cbn [mget]; rewrite Hxk; reflexivity|].
    destruct (k =? k') eqn:Hk; cbn [mget].
    + apply N.eqb_eq in Hk. subst k'. rewrite Hxk. reflexivity.
    + destruct (x =? k'); [reflexivity | exact IH].
Qed.

Lemma minsert_length k v m : (length (minsert k v m) <= S (length m))%nat.
Proof.
  induction m as [|[k' v'] t IH]; cbn [minsert length]; [lia|].
  destruct (k <? k'); [cbn [length]; lia|]. destruct (k =? k'); cbn [length]; lia.
Qed.

Lemma minsert_keys_in k v m x :
  In x (map fst (minsert k v m)) -> x = k \/ In x (map fst m).
Proof.
  induction m as [|[k' v'] t IH]; cbn [minsert map fst In].
  - intros [H|[]]; left; congruence.
  - destruct (k <? k'); [cbn [map fst In]; intros [H|H]; [left; congruence | right; exact H]|].
    destruct (k =? k'); cbn [map fst In].
    + intros [H|H]; [left; congruence | right; right; exact H].
    + intros [H|H]; [right; left; exact H|]. destruct (IH H) as [H1|H1]; [left; exact H1 | right; right; exact H1].
Qed.

Definition ksorted (m : degmap) : Prop := StronglySorted N.lt (map fst m).

Lemma minsert_ksorted k v m : ksorted m -> ksorted (minsert k v m).
Proof.
  unfold ksorted. induction m as [|[k' v'] t IH]; cbn [minsert map fst]; intros Hs.
  - constructor; constructor.
  - inversion Hs as [|a l Hst Hall]; subst.
    destruct (k <? k') eqn:Hlt.
    + apply N.ltb_lt in Hlt. cbn [map fst]. constructor; [exact Hs|].
      constructor; [exact Hlt|]. eapply Forall_impl; [|exact Hall]. intros a Ha. cbn beta in Ha. lia.
    + apply N.ltb_ge in Hlt. destruct (k =? k') eqn:Hk.
      * apply N.eqb_eq in Hk. subst k'. cbn [map fst]. constructor; assumption.
      * apply N.eqb_neq in Hk. cbn [map fst]. constructor; [apply IH; exact Hst|].
        apply Forall_forall. intros x Hx. apply minsert_keys_in in Hx. destruct Hx as [Hx|Hx].
        -- subst x. lia.
        -- rewrite Forall_forall in Hall. apply Hall. exact Hx.
Qed.

Lemma ksorted_NoDup m : ksorted m -> NoDup (map fst m).
Proof.
  unfold ksorted. generalize (map fst m) as l. induction l as [|a l IH]; intros Hs.
  - constructor.
  - inversion Hs as [|a' l' Hst Hall]; subst. constructor; [|apply IH; exact Hst].
    intros Hin. rewrite Forall_forall in Hall. specialize (Hall a Hin). lia.
Qed.

Lemma init_degs_fold objs : forall m x,
  mget (fold_left (fun m o => minsert o 0 m) objs m) x =
  if memN x objs then Some 0 else mget m x.
Proof.
  induction objs as [|o t IH]; intros m x; cbn [fold_left memN existsb].
  - reflexivity.
  - rewrite IH. fold (memN x t). destruct (memN x t); [rewrite orb_true_r; reflexivity|].
    rewrite orb_false_r. destruct (x =? o) eqn:Hx.
    + apply N.eqb_eq in Hx. subst. apply mget_minsert_same.
    + apply N.eqb_neq in Hx. apply mget_minsert_other. exact Hx.
Qed.

Lemma mget_init_degs objs x : mget (init_degs objs) x = if memN x objs then Some 0 else None.
Proof. unfold init_degs. rewrite init_degs_fold. reflexivity. Qed.

Lemma init_degs_ksorted objs : ksorted (init_degs objs).
Proof.
  unfold init_degs. assert (H : ksorted []) by (unfold ksorted; constructor).
  revert H. generalize (@nil (N*N)) as m. induction objs as [|o t IH]; intros m Hm; cbn [fold_left].
  - exact Hm.
  - apply IH. apply minsert_ksorted. exact Hm.
Qed.

Lemma init_degs_length objs : (length (init_degs objs) <= length objs)%nat.
Proof.
  unfold init_degs.
  assert (H : forall m, (length (fold_left (fun m o => minsert o 0 m) objs m) <= length objs + length m)%nat).
  { induction objs as [|o t IH]; intros m; cbn [fold_left length]; [lia|].
    specialize (IH (minsert o 0 m)). pose proof (minsert_length o 0 m). lia. }
  specialize (H []). cbn [length] in H. lia.
Qed.

Lemma mget_In m x v : mget m x = Some v -> In (x, v) m.
Proof.
  induction m as [|[k' v'] t IH]; cbn [mget]; intros Hg; [discriminate|].
  destruct (x =? k') eqn:Hk.
  - apply N.eqb_eq in Hk. inversion Hg; subst. left; reflexivity.
  - right. apply IH. exact Hg.
Qed.

Lemma In_mget m x v : NoDup (map fst m) -> In (x, v) m -> mget m x = Some v.
Proof.
  induction m as [|[k' v'] t IH]; cbn [mget map fst In]; intros Hnd Hin; [contradiction|].
  inversion Hnd as [|a l Hnotin Hnd']; subst.
  destruct Hin as [Heq|Hin].
  - inversion Heq; subst. rewrite N.eqb_refl. reflexivity.
  - destruct (x =? k') eqn:Hk.
    + apply N.eqb_eq in Hk. subst k'. exfalso. apply Hnotin.
      change x with (fst (x, v)). apply in_map. exact Hin.
    + apply IH; assumption.
Qed.

Lemma mget_none_nil m : (forall x, mget m x = None) -> m = [].
Proof.
  destruct m as [|[k v] t]; [reflexivity|]. intros H. specialize (H k). cbn [mget] in H.
  rewrite N.eqb_refl in H. discriminate.
Qed.

Lemma mget_fold_mremove ks : forall m x,
  mget (fold_left (fun m o => mremove o m) ks m) x = if memN x ks then None else mget m x.
Proof.
  induction ks as [|k t IH]; intros m x; cbn [fold_left memN existsb].
  - reflexivity.
  - rewrite IH. fold (memN x t). destruct (memN x t); [rewrite orb_true_r; reflexivity|].
    rewrite orb_false_r. destruct (x =? k) eqn:Hx.
    + apply N.eqb_eq in Hx. subst. apply mget_mremove_same.
    + apply N.eqb_neq in Hx. apply mget_mremove_other. exact Hx.
Qed.

Lemma fold_mremove_filter ks : forall m,
  fold_left (fun m o => mremove o m) ks m = filter (fun p => negb (memN (fst p) ks)) m.
Proof.
  induction ks as [|k t IH]; intros m; cbn [fold_left].
  - cbn. induction m as [|p m IHm]; cbn [filter]; [reflexivity | f_equal; exact IHm].
  - rewrite IH. unfold mremove. induction m as [|p m IHm]; cbn [filter]; [reflexivity|].
    cbn [memN existsb]. fold (memN (fst p) t).
    destruct (fst p =? k); cbn [negb orb filter]; [exact IHm|].
    destruct (memN (fst p) t); cbn [negb]; [exact IHm | f_equal; exact IHm].
Qed.

Lemma filter_disjoint_length {A} (f g : A -> bool) l :
  (forall x, In x l -> g x = true -> f x = false) ->
  (length (filter f l) + length (filter g l) <= length l)%nat.
Proof.
  induction l as [|a l IH]; intros H; cbn [filter length]; [lia|].
  assert (IH' := IH (fun x Hx => H x (or_intror Hx))).
  specialize (H a (or_introl eq_refl)).
  destruct (g a); destruct (f a); cbn [length];
    try (specialize (H eq_refl); discriminate); lia.
Qed.

Lemma NoDup_map_filter {A B} (f : A -> B) (g : A -> bool) l :
  NoDup (map f l) -> NoDup (map f (filter g l)).
Proof.
  induction l as [|a l IH]; cbn [map filter]; intros Hnd; [constructor|].
  inversion Hnd as [|x y Hnotin Hnd']; subst.
  destruct (g a); cbn [map]; [|apply IH; exact Hnd'].
  constructor; [|apply IH; exact Hnd'].
  intros Hin. apply Hnotin. apply in_map_iff in Hin. destruct Hin as [z [Hz Hin]].
  apply filter_In in Hin. rewrite <- Hz. apply in_map. apply Hin.
Qed.

(* ---------- counting ---------- *)
Definition b2n (b : bool) : N := if b then 1 else 0.

Fixpoint countN {A} (f : A -> bool) (l : list A) : N :=
  match l with
  | [] => 0
  | x :: t => b2n (f x) + countN f t
  end.

Lemma countN_app {A} (f : A -> bool) a b : countN f (a ++ b) = countN f a + countN f b.
Proof. induction a as [|x a IH]; cbn [countN app]; [lia | rewrite IH; lia]. Qed.

Lemma countN_ext {A} (f g : A -> bool) l :
  (forall x, In x l -> f x = g x) -> countN f l = countN g l.
Proof.
  induction l as [|x l IH]; intros H; cbn [countN]; [reflexivity|].
  rewrite (H x (or_introl eq_refl)), IH; [reflexivity|]. intros y Hy. apply H. right. exact Hy.
Qed.

Lemma countN_filter {A} (f g : A -> bool) l :
  countN f (filter g l) = countN (fun x => g x && f x) l.
Proof.
  induction l as [|x l IH]; cbn [countN filter]; [reflexivity|].
  destruct (g x); cbn [countN andb]; rewrite IH; [reflexivity|]. cbn [b2n]. lia.
Qed.

Lemma countN_split {A} (f g h : A -> bool) l :
  (forall x, In x l -> b2n (f x) = b2n (g x) + b2n (h x)) ->
  countN f l = countN g l + countN h l.
Proof.
  induction l as [|x l IH]; intros H; cbn [countN]; [lia|].
  rewrite (H x (or_introl eq_refl)), IH; [lia|]. intros y Hy. apply H. right. exact Hy.
Qed.

Lemma countN_zero {A} (f : A -> bool) l x : countN f l = 0 -> In x l -> f x = false.
Proof.
  induction l as [|y l IH]; cbn [countN In]; intros Hc Hin; [contradiction|].
  destruct Hin as [Heq|Hin].
  - subst y. destruct (f x); [cbn [b2n] in Hc; lia | reflexivity].
  - apply IH; [|exact Hin]. destruct (f y); cbn [b2n] in Hc; lia.
Qed.

Lemma countN_pos {A} (f : A -> bool) l : 0 < countN f l -> exists x, In x l /\ f x = true.
Proof.
  induction l as [|y l IH]; cbn [countN]; intros Hc; [lia|].
  destruct (f y) eqn:Hf.
  - exists y. split; [left; reflexivity | exact Hf].
  - cbn [b2n] in Hc. destruct IH as [x [Hin Hx]]; [lia|]. exists x. split; [right; exact Hin | exact Hx].
Qed.

Lemma countN_all_false {A} (f : A -> bool) l : (forall x, In x l -> f x = false) -> countN f l = 0.
Proof.
  induction l as [|y l IH]; intros H; cbn [countN]; [reflexivity|].
  rewrite (H y (or_introl eq_refl)), IH; [reflexivity|]. intros x Hx. apply H. right. exact Hx.
Qed.

(* ---------- ordered pairs ---------- *)
Lemma FOP_app {A} (R : A -> A -> Prop) a b :
  ForallOrdPairs R a -> ForallOrdPairs R b -> (forall x y, In x a -> In y b -> R x y) ->
  ForallOrdPairs R (a ++ b).
Proof.
  induction a as [|x a IH]; intros Ha Hb Hab; cbn [app]; [exact Hb|].
  inversion Ha as [|x' a' Hall Ha']; subst. constructor.
  - apply Forall_app. split; [exact Hall|]. apply Forall_forall. intros y Hy. apply Hab; [left; reflexivity | exact Hy].
  - apply IH; [exact Ha' | exact Hb|]. intros u v Hu Hv. apply Hab; [right; exact Hu | exact Hv].
Qed.

Lemma FOP_all {A} (R : A -> A -> Prop) l : (forall x y, In x l -> In y l -> R x y) -> ForallOrdPairs R l.
Proof.
  induction l as [|x l IH]; intros H; constructor.
  - apply Forall_forall. intros y Hy. apply H; [left; reflexivity | right; exact Hy].
  - apply IH. intros u v Hu Hv. apply H; right; assumption.
Qed.

Lemma FOP_before {A} (R : A -> A -> Prop) l l1 x l2 y l3 :
  ForallOrdPairs R l -> l = l1 ++ x :: l2 ++ y :: l3 -> R x y.
Proof.
  intros H Heq. subst l. induction l1 as [|z l1 IH]; cbn [app] in H.
  - inversion H as [|x' a' Hall Ha']; subst. rewrite Forall_forall in Hall. apply Hall.
    apply in_or_app. right. left. reflexivity.
  - inversion H; subst. apply IH. assumption.
Qed.

Lemma FOP_perm_pairs {A} (R : A -> A -> Prop) l :
  ForallOrdPairs R l -> forall l1 x l2 y l3, l = l1 ++ x :: l2 ++ y :: l3 -> R x y.
Proof. intros H l1 x l2 y l3 Heq. eapply FOP_before; eassumption. Qed.
