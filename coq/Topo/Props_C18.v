(* C18 -- Morphism ordering is a topological order and cycles are reported.
   Model: Topo.Model.toposort (exact model of eqlog-runtime/src/toposort.rs::morphism_toposort).
   Everything below is proved; nothing is partial.

   Vocabulary (FactsTop.v / FactsSplit.v / FactsOracle.v):
     t_dom  := dom_new ++ dom_old          t_objs := obj_old ++ obj_new       t_gc := get_cod cod_new cod_old
     expected := [ (m,o,c) | (o,m) <- t_dom, t_gc m = Some c ]   (in t_dom order)
     Er a b := exists m, In (a,m) t_dom /\ t_gc m = Some b        has_cycle := exists z, path Er z z
     WFin   := forall o m c, In (o,m) t_dom -> t_gc m = Some c -> In o t_objs /\ In c t_objs
   WFin is weaker than "every dom object and every codomain value is an object" (WFin_of_strong), and
   needs no duplicate-freeness: with duplicated (o,m) pairs the theorems hold for the multiset. *)
From Coq Require Import List NArith Bool Permutation.
From Topo Require Import Model Run FactsBase FactsEdges FactsGraph FactsLoop FactsTop FactsSplit FactsFuel FactsOracle.
Import ListNotations.
Open Scope N_scope.

(* ---- 0. the model's fuel always suffices; Panic is exactly the Rust unwrap-on-None ---- *)
Theorem C18_fuel_ok : forall dn dold cn cold oo on,
  toposort dn dold cn cold oo on <> OutOfFuel.
Proof. exact toposort_fuel_ok. Qed.
Print Assumptions C18_fuel_ok.

Theorem C18_panic_iff : forall dn dold cn cold oo on,
  toposort dn dold cn cold oo on = Panic <->
  exists o m c, In (o, m) (dn ++ dold) /\ get_cod cn cold m = Some c /\ ~ In c (oo ++ on).
Proof. exact topo_panic_iff. Qed.
Print Assumptions C18_panic_iff.

(* ---- 1. no panic ---- *)
Theorem C18_topo_no_panic : forall dn dold cn cold oo on,
  WFin dn dold cn cold oo on ->
  (exists l, toposort dn dold cn cold oo on = Ok l) \/ toposort dn dold cn cold oo on = Cycle.
Proof. exact topo_no_panic. Qed.
Print Assumptions C18_topo_no_panic.

(* ---- 2. completeness: exactly the morphisms with both ends defined, each once, correct ends ---- *)
Theorem C18_topo_complete : forall dn dold cn cold oo on l,
  WFin dn dold cn cold oo on ->
  toposort dn dold cn cold oo on = Ok l ->
  Permutation (expected dn dold cn cold) l.
Proof. exact topo_complete. Qed.
Print Assumptions C18_topo_complete.

Theorem C18_topo_complete_in : forall dn dold cn cold oo on l,
  WFin dn dold cn cold oo on ->
  toposort dn dold cn cold oo on = Ok l ->
  forall m o c, In (m, o, c) l <-> In (o, m) (dn ++ dold) /\ get_cod cn cold m = Some c.
Proof. exact topo_complete_in. Qed.
Print Assumptions C18_topo_complete_in.

Theorem C18_topo_complete_nodup : forall dn dold cn cold oo on l,
  WFin dn dold cn cold oo on -> NoDup (dn ++ dold) ->
  toposort dn dold cn cold oo on = Ok l -> NoDup l.
Proof. exact topo_complete_nodup. Qed.
Print Assumptions C18_topo_complete_nodup.

(* ---- 3. order: if f : A -> B is before g : C -> D then D <> A; no entry is a self-loop ---- *)
Theorem C18_topo_order : forall dn dold cn cold oo on l,
  WFin dn dold cn cold oo on ->
  toposort dn dold cn cold oo on = Ok l ->
  forall l1 f A B l2 g C D l3, l = l1 ++ (f, A, B) :: l2 ++ (g, C, D) :: l3 -> D <> A.
Proof. exact topo_order. Qed.
Print Assumptions C18_topo_order.

Theorem C18_topo_no_self_loop : forall dn dold cn cold oo on l,
  WFin dn dold cn cold oo on ->
  toposort dn dold cn cold oo on = Ok l ->
  forall f A B, In (f, A, B) l -> B <> A.
Proof. exact topo_no_self_loop. Qed.
Print Assumptions C18_topo_no_self_loop.

(* ---- 4. an error is reported iff there is a directed cycle ---- *)
Theorem C18_topo_cycle : forall dn dold cn cold oo on,
  WFin dn dold cn cold oo on ->
  (toposort dn dold cn cold oo on = Cycle <-> has_cycle dn dold cn cold).
Proof. exact topo_cycle. Qed.
Print Assumptions C18_topo_cycle.

(* ---- 5. independence of the new/old split: same verdict, same multiset ---- *)
Theorem C18_topo_split : forall dn dold cn cold oo on dn' dold' cn' cold' oo' on',
  WFin dn dold cn cold oo on ->
  Permutation (dn ++ dold) (dn' ++ dold') ->
  functional (cn ++ cold) -> functional (cn' ++ cold') ->
  (forall p, In p (cn ++ cold) <-> In p (cn' ++ cold')) ->
  (forall x, In x (oo ++ on) <-> In x (oo' ++ on')) ->
  (toposort dn dold cn cold oo on = Cycle /\ toposort dn' dold' cn' cold' oo' on' = Cycle) \/
  (exists l l', toposort dn dold cn cold oo on = Ok l /\
                toposort dn' dold' cn' cold' oo' on' = Ok l' /\ Permutation l l').
Proof. exact topo_split. Qed.
Print Assumptions C18_topo_split.

(* ---- 6. the boolean oracle used by the search decides the declarative statement ---- *)
Theorem C18_topo_ok_b_sound : forall c out, topo_ok_b c out = true <-> topo_correct c out.
Proof. exact topo_ok_b_spec. Qed.
Print Assumptions C18_topo_ok_b_sound.

Theorem C18_topo_ok_b_model : forall c out,
  (let '(dn, dold, cn, cold, oo, on) := c in WFin dn dold cn cold oo on) ->
  result_opt (run_topo c) = Some out -> topo_ok_b c out = true.
Proof. exact topo_ok_b_model. Qed.
Print Assumptions C18_topo_ok_b_model.

Theorem C18_wfin_b_spec : forall dn dold cn cold oo on,
  wfin_b (dn, dold, cn, cold, oo, on) = true <-> WFin dn dold cn cold oo on.
Proof. exact wfin_b_spec. Qed.
Print Assumptions C18_wfin_b_spec.

(* ================= non-vacuity ================= *)

(* A DAG on objects 0..3, split over new/old: 10: 0->1, 11: 0->2, 12: 1->3, 13: 2->3,
   and morphism 14 out of 3 without codomain, morphism 15 with a codomain but no domain. *)
Definition ex_dag : topo_case :=
  ([(0,10); (1,12); (3,14)], [(0,11); (2,13)],
   [(10,1); (13,3); (15,0)], [(11,2); (12,3)],
   [1; 3], [0; 2]).

Example ex_dag_wf : let '(dn, dold, cn, cold, oo, on) := ex_dag in WFin dn dold cn cold oo on.
Proof. apply wfin_b_spec. vm_compute. reflexivity. Qed.

Example ex_dag_run :
  run_topo ex_dag = Ok [(10,0,1); (11,0,2); (12,1,3); (13,2,3)].
Proof. vm_compute. reflexivity. Qed.

Example ex_dag_oracle_accepts :
  topo_ok_b ex_dag (Some [(11,0,2); (13,2,3); (10,0,1); (12,1,3)]) = true.
Proof. vm_compute. reflexivity. Qed.

Example ex_dag_oracle_rejects_order :
  topo_ok_b ex_dag (Some [(12,1,3); (10,0,1); (11,0,2); (13,2,3)]) = false.
Proof. vm_compute. reflexivity. Qed.

Example ex_dag_oracle_rejects_missing :
  topo_ok_b ex_dag (Some [(10,0,1); (11,0,2); (12,1,3)]) = false.
Proof. vm_compute. reflexivity. Qed.

Example ex_dag_oracle_rejects_cycle_verdict : topo_ok_b ex_dag None = false.
Proof. vm_compute. reflexivity. Qed.

(* A 2-cycle 0 -> 1 -> 0 with a tail 1 -> 2. *)
Definition ex_cyc : topo_case :=
  ([(0,0); (1,1)], [(1,2)], [(0,1); (1,0)], [(2,2)], [0], [1; 2]).

Example ex_cyc_wf : let '(dn, dold, cn, cold, oo, on) := ex_cyc in WFin dn dold cn cold oo on.
Proof. apply wfin_b_spec. vm_compute. reflexivity. Qed.

Example ex_cyc_run : run_topo ex_cyc = Cycle.
Proof. vm_compute. reflexivity. Qed.

Example ex_cyc_has_cycle : let '(dn, dold, cn, cold, oo, on) := ex_cyc in has_cycle dn dold cn cold.
Proof.
  exists 0. apply path_cons with (b := 1).
  - exists 0. split; [left; reflexivity | reflexivity].
  - apply path_one. exists 1. split; [right; left; reflexivity | reflexivity].
Qed.

Example ex_cyc_oracle : topo_ok_b ex_cyc None = true /\ topo_ok_b ex_cyc (Some []) = false.
Proof. vm_compute. split; reflexivity. Qed.

(* Two splits of one graph (objects 0,1; morphisms 5,7 : 0 -> 1): the outputs are different lists
   (and permutations of each other, as C18_topo_split says).  Both orders are valid. *)
Definition ex_split_a : topo_case := ([(0,5); (0,7)], [], [(5,1); (7,1)], [], [], [0; 1]).
Definition ex_split_b : topo_case := ([(0,7)], [(0,5)], [(5,1)], [(7,1)], [1], [0]).

Example ex_split_order_differs :
  run_topo ex_split_a = Ok [(5,0,1); (7,0,1)] /\ run_topo ex_split_b = Ok [(7,0,1); (5,0,1)].
Proof. vm_compute. split; reflexivity. Qed.

Example ex_split_hyps :
  WFin [(0,5); (0,7)] [] [(5,1); (7,1)] [] [] [0; 1] /\
  Permutation ([(0,5); (0,7)] ++ []) ([(0,7)] ++ [(0,5)]) /\
  functional ([(5,1); (7,1)] ++ []) /\ functional ([(5,1)] ++ [(7,1)]) /\
  (forall p, In p ([(5,1); (7,1)] ++ []) <-> In p ([(5,1)] ++ [(7,1)])) /\
  (forall x : N, In x ([] ++ [0; 1]) <-> In x ([1] ++ [0])).
Proof.
  split; [apply wfin_b_spec; vm_compute; reflexivity|].
  split; [apply perm_swap|].
  assert (Hf : functional [(5,1); (7,1)]).
  { intros m c c' H1 H2. cbn [In] in H1, H2.
    destruct H1 as [H1|[H1|[]]]; destruct H2 as [H2|[H2|[]]]; congruence. }
  split; [exact Hf|]. split; [exact Hf|]. split; [intros p; reflexivity|].
  intros x. cbn [In app]. tauto.
Qed.

(* The precondition is necessary.  A codomain that is not an object makes the Rust code panic
   (`in_degree.get_mut(&cod).unwrap()`), and a domain that is not an object makes it report a
   cycle although the graph has none. *)
Example ex_cod_not_obj_panics : run_topo ([(0,0)], [], [(0,7)], [], [], [0]) = Panic.
Proof. vm_compute. reflexivity. Qed.

Example ex_src_not_obj_false_cycle :
  run_topo ([(5,0)], [], [(0,1)], [], [], [1]) = Cycle /\
  ~ has_cycle [(5,0)] [] [(0,1)] [].
Proof.
  split; [vm_compute; reflexivity|]. intros [z Hp].
  assert (Hall : forall a b, path (Er [(5,0)] [] [(0,1)] []) a b -> a = 5 /\ b = 1).
  { intros a b H. induction H as [a b [m [[Hin|[]] Hc]] | a b c [m [[Hin|[]] Hc]] _ IH].
    - inversion Hin; subst. vm_compute in Hc. split; congruence.
    - inversion Hin; subst. vm_compute in Hc. destruct IH as [IH _]. congruence. }
  destruct (Hall z z Hp) as [H1 H2]. congruence.
Qed.
