(* Executable model of `morphism_toposort` (eqlog-runtime/src/toposort.rs:30-102).
   Definitions only; proofs live in Facts*.v.

   Inputs are the six tables as the Rust code iterates them (PrefixTree iteration is
   lexicographically sorted and duplicate-free):
     dom_new dom_old : (object, morphism) pairs      cod_new cod_old : (morphism, object) pairs
     obj_old obj_new : objects.
   The model itself does not assume sortedness; it only matters for exact agreement with Rust
   (`PrefixTree2::get(k)` yields the second components in ascending order, which is the order
   in which `get2` meets them in a sorted list). *)
From Coq Require Import List NArith Bool.
Import ListNotations.
Open Scope N_scope.

(* (morph, dom, cod), the fields of MorphismWithSignature in push order *)
Definition edge := (N * N * N)%type.
Definition e_mor (e : edge) : N := fst (fst e).
Definition e_src (e : edge) : N := snd (fst e).
Definition e_cod (e : edge) : N := snd e.

Inductive result :=
| Ok (l : list edge)
| Cycle                 (* Err(ToposortError::CycleDetected) *)
| Panic                 (* an `unwrap()` of `None`: codomain object missing from `in_degree` *)
| OutOfFuel.            (* model artefact; FactsFuel.toposort_fuel_ok: never returned *)

(* PrefixTree2::get(k): the restriction to first component k (None <-> empty list). *)
Definition get2 (t : list (N * N)) (k : N) : list N :=
  map snd (filter (fun p => fst p =? k) t).

(* the closure `get_cod`: new table first, then old; first element of the restriction *)
Definition get_cod (cod_new cod_old : list (N * N)) (m : N) : option N :=
  match get2 cod_new m with
  | c :: _ => Some c
  | [] => match get2 cod_old m with
          | c :: _ => Some c
          | [] => None
          end
  end.

(* BTreeMap<u32,u32> as an association list kept sorted by key. *)
Definition degmap := list (N * N).

Fixpoint minsert (k v : N) (m : degmap) : degmap :=      (* BTreeMap::insert *)
  match m with
  | [] => [(k, v)]
  | (k', v') :: t =>
      if k <? k' then (k, v) :: m
      else if k =? k' then (k, v) :: t
      else (k', v') :: minsert k v t
  end.

Fixpoint mget (m : degmap) (k : N) : option N :=          (* BTreeMap::get *)
  match m with
  | [] => None
  | (k', v) :: t => if k =? k' then Some v else mget t k
  end.

(* `*m.get_mut(&k).unwrap() = v` once the key is known to be present *)
Definition mupd (k v : N) (m : degmap) : degmap :=
  map (fun p => if fst p =? k then (k, v) else p) m.

Definition mremove (k : N) (m : degmap) : degmap :=       (* BTreeMap::remove *)
  filter (fun p => negb (fst p =? k)) m.

(* lines 46-50: collect (obj,0) over obj_old.chain(obj_new) *)
Definition init_degs (objs : list N) : degmap :=
  fold_left (fun m o => minsert o 0 m) objs [].

(* lines 52-56.  (`+= 1` on u32 cannot overflow with fewer than 2^32 tuples.) *)
Fixpoint count_degs (gc : N -> option N) (dom : list (N * N)) (deg : degmap) : option degmap :=
  match dom with
  | [] => Some deg
  | (_, m) :: t =>
      match gc m with
      | None => count_degs gc t deg
      | Some c =>
          match mget deg c with
          | None => None                                   (* unwrap on None *)
          | Some d => count_degs gc t (mupd c (d + 1) deg)
          end
      end
  end.

(* lines 76-93: the loop over one `out_morphisms` restriction.
   `d - 1` is never evaluated at d = 0: entries of the map are >= 1 once the zero-degree
   objects are removed (FactsLoop.v, invariant `Inv`, field i_some). *)
Fixpoint emit (gc : N -> option N) (obj : N) (ms : list N)
         (deg : degmap) (q : list N) (out : list edge) : option (degmap * list N * list edge) :=
  match ms with
  | [] => Some (deg, q, out)
  | m :: t =>
      match gc m with
      | None => emit gc obj t deg q out                    (* continue *)
      | Some c =>
          match mget deg c with
          | None => None                                   (* unwrap on None *)
          | Some d =>
              let d' := d - 1 in
              if d' =? 0
              then emit gc obj t (mremove c deg) (q ++ [c]) (out ++ [(m, obj, c)])
              else emit gc obj t (mupd c d' deg) q (out ++ [(m, obj, c)])
          end
      end
  end.

(* lines 69-101: the while loop (one unit of fuel per popped object) and the final test *)
Fixpoint loop (gc : N -> option N) (dom_new dom_old : list (N * N)) (fuel : nat)
         (deg : degmap) (q : list N) (out : list edge) : result :=
  match q with
  | [] => match deg with [] => Ok out | _ :: _ => Cycle end
  | obj :: q' =>
      match fuel with
      | O => OutOfFuel
      | S f =>
          match emit gc obj (get2 dom_new obj) deg q' out with
          | None => Panic
          | Some (deg1, q1, out1) =>
              match emit gc obj (get2 dom_old obj) deg1 q1 out1 with
              | None => Panic
              | Some (deg2, q2, out2) => loop gc dom_new dom_old f deg2 q2 out2
              end
          end
      end
  end.

Definition toposort (dom_new dom_old cod_new cod_old : list (N * N))
           (obj_old obj_new : list N) : result :=
  let gc := get_cod cod_new cod_old in
  let objs := obj_old ++ obj_new in
  match count_degs gc (dom_new ++ dom_old) (init_degs objs) with
  | None => Panic
  | Some deg1 =>
      (* lines 58-61: zero-degree keys in ascending key order *)
      let queue := map fst (filter (fun p => snd p =? 0) deg1) in
      (* lines 65-67 *)
      let deg2 := fold_left (fun m o => mremove o m) queue deg1 in
      loop gc dom_new dom_old (S (length objs)) deg2 queue []
  end.
