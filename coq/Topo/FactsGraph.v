(* Paths, cycles, and list facts used by the loop invariant. *)
From Coq Require Import List NArith Bool Lia Permutation.
From Topo Require Import Model FactsBase FactsEdges.
Import ListNotations.
Open Scope N_scope.

(* non-empty paths of a relation *)
Inductive path (R : N -> N -> Prop) : N -> N -> Prop :=
| path_one a b : R a b -> path R a b
| path_cons a b c : R a b -> path R b c -> path R a c.

Lemma path_last (R : N -> N -> Prop) a c : path R a c -> R a c \/ exists b, path R a b /\ R b c.
Proof.
  induction 1 as [a b Hab | a b c Hab Hbc IH].
  - left. exact Hab.
  - right. destruct IH as [Hbc'|[b' [Hp Hr]]].
    + exists b. split; [apply path_one; exact Hab | exact Hbc'].
    + exists b'. split; [eapply path_cons; eassumption | exact Hr].
Qed.

Lemma path_snoc (R : N -> N -> Prop) a b c : path R a b -> R b c -> path R a c.
Proof.
  induction 1 as [a b Hab | a b c' Hab Hbc IH]; intros Hr.
  - eapply path_cons; [exact Hab | apply path_one; exact Hr].
  - eapply path_cons; [exact Hab | apply IH; exact Hr].
Qed.

Lemma path_pred_closed (R : N -> N -> Prop) (S : N -> Prop) :
  (forall a b, R a b -> S b -> S a) -> forall a b, path R a b -> S b -> S a.
Proof.
  intros Hcl a b Hp. induction Hp as [a b Hab | a b c Hab Hbc IH]; intros Hs.
  - eapply Hcl; eassumption.
  - eapply Hcl; [exact Hab | apply IH; exact Hs].
Qed.

Lemma path_impl (R R' : N -> N -> Prop) :
  (forall a b, R a b -> R' a b) -> forall a b, path R a b -> path R' a b.
Proof.
  intros H a b Hp. induction Hp as [a b Hab | a b c Hab Hbc IH].
  - apply path_one. apply H. exact Hab.
  - eapply path_cons; [apply H; exact Hab | exact IH].
Qed.

Lemma path_src (R : N -> N -> Prop) a b : path R a b -> exists c, R a c.
Proof. intros Hp. destruct Hp as [a b Hab | a b c Hab _]; exists b; exact Hab. Qed.

(* a finite non-empty set in which every element has a predecessor in the set contains a cycle *)
Lemma find_cycle_aux (R : N -> N -> Prop) (Rl : list N) :
  (forall x, In x Rl -> exists y, In y Rl /\ R y x) ->
  forall n h vis,
    NoDup (h :: vis) -> incl (h :: vis) Rl -> (forall v, In v vis -> path R h v) ->
    (length Rl <= n + length vis)%nat ->
    exists z, path R z z.
Proof.
  intros Hpred. induction n as [|n IH]; intros h vis Hnd Hincl Hp Hlen.
  - exfalso. pose proof (NoDup_incl_length Hnd Hincl) as Hle. cbn [length] in Hle. lia.
  - destruct (Hpred h) as [y [Hy Hyh]]; [apply Hincl; left; reflexivity|].
    destruct (in_dec N.eq_dec y (h :: vis)) as [Hin|Hnin].
    + destruct Hin as [Heq|Hin].
      * subst y. exists h. apply path_one. exact Hyh.
      * exists y. eapply path_cons; [exact Hyh | apply Hp; exact Hin].
    + apply (IH y (h :: vis)).
      * constructor; assumption.
      * intros x [Hx|Hx]; [subst x; exact Hy | apply Hincl; exact Hx].
      * intros v [Hv|Hv]; [subst v; apply path_one; exact Hyh|].
        eapply path_cons; [exact Hyh | apply Hp; exact Hv].
      * cbn [length]. lia.
Qed.

Lemma find_cycle (R : N -> N -> Prop) (Rl : list N) x0 :
  In x0 Rl -> (forall x, In x Rl -> exists y, In y Rl /\ R y x) -> exists z, path R z z.
Proof.
  intros Hx0 Hpred. apply (find_cycle_aux R Rl Hpred (length Rl) x0 []).
  - constructor; [intros [] | constructor].
  - intros x [Hx|[]]. subst x. exact Hx0.
  - intros v [].
  - cbn [length]. lia.
Qed.

(* the edge relation of an edge list *)
Definition EdgeR (E : list edge) (a b : N) : Prop :=
  exists e, In e E /\ e_src e = a /\ e_cod e = b.

(* ---------- list facts ---------- *)
Lemma NoDup_app_intro {A} (a b : list A) :
  NoDup a -> NoDup b -> (forall x, In x a -> ~ In x b) -> NoDup (a ++ b).
Proof.
  induction a as [|x a IH]; intros Ha Hb Hd; cbn [app]; [exact Hb|].
  inversion Ha as [|x' a' Hnotin Ha']; subst. constructor.
  - intros Hin. apply in_app_or in Hin. destruct Hin as [Hin|Hin]; [contradiction|].
    apply (Hd x); [left; reflexivity | exact Hin].
  - apply IH; [exact Ha' | exact Hb|]. intros y Hy. apply Hd. right. exact Hy.
Qed.

Lemma filter_all_true {A} (f : A -> bool) l : (forall x, In x l -> f x = true) -> filter f l = l.
Proof.
  induction l as [|x l IH]; intros H; cbn [filter]; [reflexivity|].
  rewrite (H x (or_introl eq_refl)). f_equal. apply IH. intros y Hy. apply H. right. exact Hy.
Qed.

Lemma filter_all_false {A} (f : A -> bool) l : (forall x, In x l -> f x = false) -> filter f l = [].
Proof.
  induction l as [|x l IH]; intros H; cbn [filter]; [reflexivity|].
  rewrite (H x (or_introl eq_refl)). apply IH. intros y Hy. apply H. right. exact Hy.
Qed.

Lemma filter_filter_and {A} (f g : A -> bool) l :
  filter f (filter g l) = filter (fun x => g x && f x) l.
Proof.
  induction l as [|x l IH]; cbn [filter]; [reflexivity|].
  destruct (g x); cbn [filter andb]; [destruct (f x); [f_equal|]; exact IH | exact IH].
Qed.

Lemma filter_partition_perm {A} (f : A -> bool) l :
  Permutation l (filter f l ++ filter (fun x => negb (f x)) l).
Proof.
  induction l as [|x l IH]; cbn [filter]; [constructor|].
  destruct (f x); cbn [negb app].
  - constructor. exact IH.
  - apply Permutation_cons_app. exact IH.
Qed.

Lemma flat_map_ext_in' {A B} (f g : A -> list B) l :
  (forall x, In x l -> f x = g x) -> flat_map f l = flat_map g l.
Proof.
  induction l as [|x l IH]; intros H; cbn [flat_map]; [reflexivity|].
  rewrite (H x (or_introl eq_refl)), IH; [reflexivity|]. intros y Hy. apply H. right. exact Hy.
Qed.

(* grouping an edge list by source along a duplicate-free list of objects *)
Lemma group_by_src_perm ps : NoDup ps -> forall L : list edge,
  Permutation L (flat_map (fun o => filter (srcb o) L) ps ++
                 filter (fun e => negb (memN (e_src e) ps)) L).
Proof.
  induction ps as [|p ps IH]; intros Hnd L.
  - cbn [flat_map app]. rewrite filter_all_true; [reflexivity|]. intros x _. reflexivity.
  - inversion Hnd as [|p' ps' Hnotin Hnd']; subst. cbn [flat_map]. rewrite <- app_assoc.
    set (L2 := filter (fun e => negb (srcb p e)) L).
    transitivity (filter (srcb p) L ++ L2); [apply filter_partition_perm|].
    apply Permutation_app_head.
    replace (flat_map (fun o => filter (srcb o) L) ps) with (flat_map (fun o => filter (srcb o) L2) ps).
    2:{ apply flat_map_ext_in'. intros o Ho. unfold L2. rewrite filter_filter_and.
        apply filter_ext. intros e. unfold srcb. destruct (N.eqb_spec (e_src e) o) as [He|He].
        - destruct (N.eqb_spec (e_src e) p) as [Hp|Hp]; [|reflexivity]. exfalso. apply Hnotin. congruence.
        - apply andb_false_r. }
    replace (filter (fun e => negb (memN (e_src e) (p :: ps))) L)
      with (filter (fun e => negb (memN (e_src e) ps)) L2).
    2:{ unfold L2. rewrite filter_filter_and. apply filter_ext. intros e. unfold srcb.
        cbn [memN existsb]. fold (memN (e_src e) ps). rewrite negb_orb. reflexivity. }
    apply IH. exact Hnd'.
Qed.

Lemma countN_In_pos {A} (f : A -> bool) l x : In x l -> f x = true -> 0 < countN f l.
Proof.
  intros Hin Hf. destruct (N.eq_dec (countN f l) 0) as [Hz|Hz]; [|lia].
  rewrite (countN_zero f l x Hz Hin) in Hf. discriminate.
Qed.

Lemma in_keys_mget (m : degmap) x : In x (map fst m) -> exists d, mget m x = Some d.
Proof.
  induction m as [|[k v] t IH]; cbn [map fst In mget]; intros Hin; [contradiction|].
  destruct (N.eqb_spec x k) as [Heq|Hne]; [exists v; reflexivity|].
  destruct Hin as [Hin|Hin]; [congruence | apply IH; exact Hin].
Qed.
