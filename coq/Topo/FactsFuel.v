(* The fuel passed by `toposort` is always sufficient (no precondition on the input). *)
From Coq Require Import List NArith Bool Lia Permutation.
From Topo Require Import Model FactsBase FactsEdges FactsGraph FactsLoop FactsTop.
Import ListNotations.
Open Scope N_scope.

Lemma countE_length es : forall deg deg', countE es deg = Some deg' -> length deg' = length deg.
Proof.
  induction es as [|e t IH]; intros deg deg' H; cbn [countE] in H.
  - congruence.
  - destruct (mget deg (e_cod e)) as [d|]; [|discriminate]. apply IH in H. rewrite H. apply mupd_length.
Qed.

Lemma emitE_length es : forall deg q out deg' q' out',
  emitE es deg q out = Some (deg', q', out') ->
  (length deg' + length q' <= length deg + length q)%nat.
Proof.
  induction es as [|e t IH]; intros deg q out deg' q' out' H; cbn [emitE] in H.
  - inversion H; subst. lia.
  - destruct (mget deg (e_cod e)) as [d|] eqn:Hd; [|discriminate].
    destruct (d - 1 =? 0).
    + apply IH in H. pose proof (mremove_length_lt _ _ _ Hd). rewrite app_length in H. cbn [length] in H. lia.
    + apply IH in H. rewrite mupd_length in H. exact H.
Qed.

Lemma loopE_fuel E : forall fuel deg q out,
  (length deg + length q < fuel)%nat -> loopE E fuel deg q out <> OutOfFuel.
Proof.
  induction fuel as [|f IH]; intros deg q out Hlen; [lia|].
  destruct q as [|o q']; cbn [loopE].
  - destruct deg; discriminate.
  - destruct (emitE (oe E o) deg q' out) as [[[d2 q2] o2]|] eqn:Hem; [|discriminate].
    apply IH. apply emitE_length in Hem. cbn [length] in Hlen. lia.
Qed.

Lemma toposortE_fuel_ok E objs : toposortE E objs <> OutOfFuel.
Proof.
  unfold toposortE. destruct (countE E (init_degs objs)) as [deg1|] eqn:Hc; [|discriminate].
  apply loopE_fuel. apply countE_length in Hc. pose proof (init_degs_length objs) as Hl0.
  set (queue := map fst (filter (fun p : N * N => snd p =? 0) deg1)).
  rewrite fold_mremove_filter. unfold queue at 2. rewrite map_length.
  pose proof (filter_disjoint_length (fun p : N * N => snd p =? 0)
                (fun p : N * N => negb (memN (fst p) queue)) deg1) as Hd.
  assert (Hdis : forall x : N * N, In x deg1 -> negb (memN (fst x) queue) = true -> (snd x =? 0) = false).
  { intros p Hin Hg. apply negb_true_iff in Hg. apply memN_false in Hg.
    destruct (snd p =? 0) eqn:Hz; [|reflexivity]. exfalso. apply Hg. unfold queue. apply in_map.
    apply filter_In. split; assumption. }
  specialize (Hd Hdis). lia.
Qed.

Lemma toposort_fuel_ok dn dold cn cold oo on : toposort dn dold cn cold oo on <> OutOfFuel.
Proof. rewrite toposort_E. apply toposortE_fuel_ok. Qed.

(* ---------- Panic happens exactly when some codomain is not an object ---------- *)
Lemma countE_none es : forall deg e,
  In e es -> mget deg (e_cod e) = None -> countE es deg = None.
Proof.
  induction es as [|e0 t IH]; intros deg e Hin Hn; [contradiction|]. cbn [countE].
  destruct (mget deg (e_cod e0)) as [d|] eqn:Hd; [|reflexivity].
  destruct Hin as [Heq|Hin]; [subst e0; congruence|].
  apply (IH _ e Hin). destruct (N.eq_dec (e_cod e) (e_cod e0)) as [Heq|Hne]; [congruence|].
  rewrite mget_mupd_other; assumption.
Qed.

Lemma forallb_false_ex {A} (f : A -> bool) l : forallb f l = false -> exists x, In x l /\ f x = false.
Proof.
  induction l as [|a l IH]; cbn [forallb]; intros H; [discriminate|].
  destruct (f a) eqn:Hfa.
  - destruct (IH H) as [x [Hin Hx]]. exists x. split; [right; exact Hin | exact Hx].
  - exists a. split; [left; reflexivity | exact Hfa].
Qed.

Lemma topo_panic_iff dn dold cn cold oo on :
  toposort dn dold cn cold oo on = Panic <->
  exists o m c, In (o, m) (dn ++ dold) /\ get_cod cn cold m = Some c /\ ~ In c (oo ++ on).
Proof.
  split.
  - intros Hp.
    destruct (forallb (fun e => memN (e_cod e) (oo ++ on)) (expected dn dold cn cold)) eqn:Hall.
    + exfalso. rewrite forallb_forall in Hall.
      assert (HW : WFcod dn dold cn cold oo on).
      { intros o m c Hin Hc. apply memN_In. apply (Hall (m, o, c)). apply in_expected. split; assumption. }
      destruct (topo_no_panic_cod _ _ _ _ _ _ HW) as [[l Hl]|Hc]; congruence.
    + apply forallb_false_ex in Hall. destruct Hall as [[[m o] c] [Hin Hf]].
      apply in_expected in Hin. cbn [e_cod snd] in Hf. apply memN_false in Hf.
      exists o, m, c. split; [apply Hin|]. split; [apply Hin | exact Hf].
  - intros [o [m [c [Hin [Hc Hn]]]]]. rewrite toposort_E. unfold toposortE.
    rewrite (countE_none _ _ (m, o, c)); [reflexivity | |].
    + apply in_edges. cbn [e_src e_mor e_cod fst snd]. split; assumption.
    + cbn [e_cod snd]. rewrite mget_init_degs. apply memN_false in Hn. rewrite Hn. reflexivity.
Qed.
