From Coq Require Import List NArith Bool.
From Topo Require Import Model.
Import ListNotations.
Open Scope N_scope.

Definition topo_case : Type :=
  (list (N*N) * list (N*N) * list (N*N) * list (N*N) * list N * list N)%type.

(* (dom_new, dom_old, cod_new, cod_old, obj_old, obj_new) -- the argument order of the Rust function *)
Definition run_topo (c : topo_case) : result :=
  let '(dn, dold, cn, cold, oo, on) := c in toposort dn dold cn cold oo on.

(* result as the Rust `Result<Vec<_>, _>` seen by a checker (Panic/OutOfFuel have no counterpart) *)
Definition result_opt (r : result) : option (option (list edge)) :=
  match r with
  | Ok l => Some (Some l)
  | Cycle => Some None
  | Panic | OutOfFuel => None
  end.

(* ---------- boolean oracle: "is `out` a correct answer for input c?" ---------- *)
(* out = Some l : the implementation returned Ok(l);  out = None : it returned Err(CycleDetected) *)

Definition topo_expected (c : topo_case) : list edge :=
  let '(dn, dold, cn, cold, oo, on) := c in
  flat_map (fun p : N * N =>
              match get_cod cn cold (snd p) with
              | Some d => [(snd p, fst p, d)]
              | None => []
              end) (dn ++ dold).

Definition edge_eqb (a b : edge) : bool :=
  (e_mor a =? e_mor b) && (e_src a =? e_src b) && (e_cod a =? e_cod b).

Fixpoint remove1 (x : edge) (l : list edge) : option (list edge) :=
  match l with
  | [] => None
  | y :: t => if edge_eqb x y then Some t
              else match remove1 x t with Some t' => Some (y :: t') | None => None end
  end.

(* multiset equality *)
Fixpoint perm_b (l1 l2 : list edge) : bool :=
  match l1 with
  | [] => match l2 with [] => true | _ :: _ => false end
  | x :: t => match remove1 x l2 with Some l2' => perm_b t l2' | None => false end
  end.

(* no entry is a self-loop, and no later entry ends where an earlier entry starts *)
Fixpoint order_b (l : list edge) : bool :=
  match l with
  | [] => true
  | x :: t => negb (e_cod x =? e_src x)
              && forallb (fun y => negb (e_cod y =? e_src x)) t
              && order_b t
  end.

(* cyclicity by iterated removal of edges whose source has no incoming edge *)
Definition has_pred (es : list edge) (e : edge) : bool :=
  existsb (fun e' => e_cod e' =? e_src e) es.

Fixpoint strip (fuel : nat) (es : list edge) : option (list edge) :=
  match fuel with
  | O => None
  | S f =>
      let es' := filter (has_pred es) es in
      if Nat.eqb (length es') (length es) then Some es else strip f es'
  end.

Definition cyclic_b (E : list edge) : bool :=
  match strip (S (length E)) E with
  | Some (_ :: _) => true
  | _ => false
  end.

Definition topo_ok_b (c : topo_case) (out : option (list edge)) : bool :=
  match out with
  | Some l => perm_b (topo_expected c) l && order_b l
  | None => cyclic_b (topo_expected c)
  end.

(* decides the precondition WFin of the C18 theorems (FactsOracle.wfin_b_spec) *)
Definition wfin_b (c : topo_case) : bool :=
  let '(dn, dold, cn, cold, oo, on) := c in
  forallb (fun p : N * N =>
             match get_cod cn cold (snd p) with
             | Some d => existsb (N.eqb (fst p)) (oo ++ on) && existsb (N.eqb d) (oo ++ on)
             | None => true
             end) (dn ++ dold).
