From Coq Require Import List NArith Bool.
From Topo Require Import Model.
Import ListNotations.
Open Scope N_scope.

Definition topo_case : Type :=
  (list (N*N) * list (N*N) * list (N*N) * list (N*N) * list N * list N)%type.

(* (dom_new, dom_old, cod_new, cod_old, obj_old, obj_new) -- the argument order of the Rust function *)
Definition run_topo (c : topo_case) : result :=
  let '(dn, dold, cn, cold, oo, on) := c in toposort dn dold cn cold oo on.
