(* C18 topo_split: the verdict and the multiset of emitted morphisms do not depend on the new/old split. *)
From Coq Require Import List NArith Bool Lia Permutation.
From Topo Require Import Model FactsBase FactsEdges FactsGraph FactsLoop FactsTop.
Import ListNotations.
Open Scope N_scope.

(* each morphism has at most one codomain *)
Definition functional (cod : list (N * N)) : Prop :=
  forall m c c', In (m, c) cod -> In (m, c') cod -> c = c'.

Lemma in_get2 t k v : In v (get2 t k) <-> In (k, v) t.
Proof.
  unfold get2. rewrite in_map_iff. split.
  - intros [[a b] [Hb Hin]]. cbn [snd] in Hb. subst b. apply filter_In in Hin. destruct Hin as [Hin Ha].
    cbn [fst] in Ha. apply N.eqb_eq in Ha. subst a. exact Hin.
  - intros Hin. exists (k, v). split; [reflexivity|]. apply filter_In. split; [exact Hin|]. apply N.eqb_refl.
Qed.

Lemma get_cod_in cn cold m c : get_cod cn cold m = Some c -> In (m, c) (cn ++ cold).
Proof.
  unfold get_cod. intros H. apply in_or_app.
  destruct (get2 cn m) as [|c1 t1] eqn:H1.
  - destruct (get2 cold m) as [|c2 t2] eqn:H2; [discriminate|]. right. apply in_get2. rewrite H2.
    left. congruence.
  - left. apply in_get2. rewrite H1. left. congruence.
Qed.

Lemma in_get_cod cn cold m c : In (m, c) (cn ++ cold) -> exists c', get_cod cn cold m = Some c'.
Proof.
  unfold get_cod. intros H. apply in_app_or in H.
  destruct (get2 cn m) as [|c1 t1] eqn:H1; [|exists c1; reflexivity].
  destruct (get2 cold m) as [|c2 t2] eqn:H2; [|exists c2; reflexivity].
  exfalso. destruct H as [H|H]; apply in_get2 in H; [rewrite H1 in H | rewrite H2 in H]; exact H.
Qed.

Lemma get_cod_functional cn cold m c :
  functional (cn ++ cold) -> (get_cod cn cold m = Some c <-> In (m, c) (cn ++ cold)).
Proof.
  intros Hf. split; [apply get_cod_in|]. intros Hin. destruct (in_get_cod cn cold m c Hin) as [c' Hc'].
  rewrite Hc'. f_equal. eapply Hf; [apply get_cod_in; exact Hc' | exact Hin].
Qed.

Lemma get_cod_same_rel cn cold cn' cold' :
  functional (cn ++ cold) -> functional (cn' ++ cold') ->
  (forall p, In p (cn ++ cold) <-> In p (cn' ++ cold')) ->
  forall m, get_cod cn cold m = get_cod cn' cold' m.
Proof.
  intros Hf Hf' Hsame m. destruct (get_cod cn cold m) as [c|] eqn:Hc.
  - symmetry. apply get_cod_functional; [exact Hf'|]. apply Hsame. apply get_cod_in. exact Hc.
  - destruct (get_cod cn' cold' m) as [c'|] eqn:Hc'; [|reflexivity].
    apply get_cod_in in Hc'. apply Hsame in Hc'. apply (get_cod_functional _ _ _ _ Hf) in Hc'. congruence.
Qed.

Lemma edges_ext gc gc' dom : (forall m, gc m = gc' m) -> edges gc dom = edges gc' dom.
Proof.
  intros H. unfold edges. apply flat_map_ext. intros [o m]. unfold edge_of. cbn [fst snd]. rewrite H. reflexivity.
Qed.

Section Split.
Variables dn dold cn cold : list (N * N).
Variables oo on : list N.
Variables dn' dold' cn' cold' : list (N * N).
Variables oo' on' : list N.

Hypothesis HW : WFin dn dold cn cold oo on.
Hypothesis Hdom : Permutation (dn ++ dold) (dn' ++ dold').
Hypothesis Hfun : functional (cn ++ cold).
Hypothesis Hfun' : functional (cn' ++ cold').
Hypothesis Hcod : forall p, In p (cn ++ cold) <-> In p (cn' ++ cold').
Hypothesis Hobj : forall x, In x (oo ++ on) <-> In x (oo' ++ on').

Lemma split_gc m : get_cod cn cold m = get_cod cn' cold' m.
Proof. apply get_cod_same_rel; assumption. Qed.

Lemma split_WFin : WFin dn' dold' cn' cold' oo' on'.
Proof.
  intros o m c Hin Hc. unfold t_dom, t_objs, t_gc in *. rewrite <- split_gc in Hc.
  apply (Permutation_in _ (Permutation_sym Hdom)) in Hin.
  destruct (HW o m c Hin Hc) as [H1 H2]. split; apply Hobj; assumption.
Qed.

Lemma split_expected :
  Permutation (expected dn dold cn cold) (expected dn' dold' cn' cold').
Proof.
  unfold expected, t_gc, t_dom. rewrite (edges_ext _ _ _ split_gc).
  unfold edges. apply Permutation_flat_map. exact Hdom.
Qed.

Lemma split_cycle : has_cycle dn dold cn cold <-> has_cycle dn' dold' cn' cold'.
Proof.
  unfold has_cycle. split; intros [z Hp]; exists z; eapply path_impl; try exact Hp;
    intros a b [m [Hin Hc]]; exists m; unfold t_dom, t_gc in *.
  - split; [eapply Permutation_in; [exact Hdom | exact Hin] | rewrite <- split_gc; exact Hc].
  - split; [eapply Permutation_in; [symmetry; exact Hdom | exact Hin] | rewrite split_gc; exact Hc].
Qed.

Lemma topo_split :
  (toposort dn dold cn cold oo on = Cycle /\ toposort dn' dold' cn' cold' oo' on' = Cycle) \/
  (exists l l', toposort dn dold cn cold oo on = Ok l /\
                toposort dn' dold' cn' cold' oo' on' = Ok l' /\ Permutation l l').
Proof.
  pose proof split_WFin as HW'.
  destruct (topo_no_panic _ _ _ _ _ _ HW) as [[l Hl]|Hc].
  - destruct (topo_no_panic _ _ _ _ _ _ HW') as [[l' Hl']|Hc'].
    + right. exists l, l'. split; [exact Hl|]. split; [exact Hl'|].
      transitivity (expected dn dold cn cold); [symmetry; eapply topo_complete; eassumption|].
      transitivity (expected dn' dold' cn' cold'); [exact split_expected | eapply topo_complete; eassumption].
    + exfalso. apply (topo_cycle _ _ _ _ _ _ HW') in Hc'. apply split_cycle in Hc'.
      apply (topo_cycle _ _ _ _ _ _ HW) in Hc'. congruence.
  - left. split; [exact Hc|]. apply (topo_cycle _ _ _ _ _ _ HW'). apply split_cycle.
    apply (topo_cycle _ _ _ _ _ _ HW). exact Hc.
Qed.

End Split.
