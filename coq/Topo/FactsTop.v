(* Initial invariant, fuel sufficiency, and the C18 statements about `toposort`. *)
From Coq Require Import List NArith Bool Lia Permutation.
From Topo Require Import Model FactsBase FactsEdges FactsGraph FactsLoop.
Import ListNotations.
Open Scope N_scope.

Definition toposortE (E : list edge) (objs : list N) : result :=
  match countE E (init_degs objs) with
  | None => Panic
  | Some deg1 =>
      let queue := map fst (filter (fun p => snd p =? 0) deg1) in
      let deg2 := fold_left (fun m o => mremove o m) queue deg1 in
      loopE E (S (length objs)) deg2 queue []
  end.

Lemma toposort_E dn dold cn cold oo on :
  toposort dn dold cn cold oo on = toposortE (edges (get_cod cn cold) (dn ++ dold)) (oo ++ on).
Proof.
  unfold toposort, toposortE. rewrite count_degs_countE.
  destruct (countE (edges (get_cod cn cold) (dn ++ dold)) (init_degs (oo ++ on))) as [deg1|]; [|reflexivity].
  apply loop_loopE.
Qed.

Section Init.
Variable E : list edge.
Variable objs : list N.
Hypothesis WFs : forall e, In e E -> In (e_src e) objs.
Hypothesis WFc : forall e, In e E -> In (e_cod e) objs.

Lemma init_inv :
  exists deg1,
    countE E (init_degs objs) = Some deg1 /\
    let queue := map fst (filter (fun p => snd p =? 0) deg1) in
    let deg2 := fold_left (fun m o => mremove o m) queue deg1 in
    Inv E objs [] deg2 queue [] /\ (length deg2 + length queue <= length objs)%nat.
Proof.
  destruct (countE_spec E (init_degs objs)) as [deg1 [Hc [Hlen [Hkeys Hget]]]].
  { intros e He. rewrite mget_init_degs. pose proof (WFc e He) as Hin. apply memN_In in Hin.
    rewrite Hin. discriminate. }
  exists deg1. split; [exact Hc|]. intros queue deg2.
  assert (Hget1 : forall x, mget deg1 x = if memN x objs then Some (kin E x) else None).
  { intros x. rewrite Hget, mget_init_degs. destruct (memN x objs); cbn [option_map]; [f_equal; lia | reflexivity]. }
  assert (Hnd1 : NoDup (map fst deg1)).
  { rewrite Hkeys. apply ksorted_NoDup. apply init_degs_ksorted. }
  assert (Hq : forall x, In x queue <-> mget deg1 x = Some 0).
  { intros x. unfold queue. rewrite in_map_iff. split.
    - intros [[k v] [Hk Hin]]. cbn [fst] in Hk. subst k. apply filter_In in Hin. destruct Hin as [Hin Hz].
      cbn [snd] in Hz. apply N.eqb_eq in Hz. subst v. apply In_mget; assumption.
    - intros Hm. apply mget_In in Hm. exists (x, 0). split; [reflexivity|]. apply filter_In.
      split; [exact Hm | reflexivity]. }
  assert (Hget2 : forall x, mget deg2 x = if memN x queue then None else mget deg1 x).
  { intros x. unfold deg2. apply mget_fold_mremove. }
  split.
  - constructor.
    + reflexivity.
    + cbn [app]. unfold queue. apply NoDup_map_filter. exact Hnd1.
    + cbn [app]. intros x Hx. apply Hq in Hx. rewrite Hget1 in Hx.
      destruct (memN x objs) eqn:Hm; [apply memN_In; exact Hm | discriminate].
    + intros x d Hd. rewrite Hget2 in Hd. destruct (memN x queue) eqn:Hmq; [discriminate|].
      apply memN_false in Hmq. pose proof Hd as Hd1. rewrite Hget1 in Hd1.
      destruct (memN x objs) eqn:Hm; [|discriminate].
      assert (Hk : d = kin E x) by congruence.
      split.
      { destruct (N.eq_dec d 0) as [Hz|Hz]; [|lia]. exfalso. apply Hmq. apply Hq. rewrite Hd, Hz. reflexivity. }
      split; [rewrite pend_nil; exact Hk|]. split; [apply memN_In; exact Hm | exact Hmq].
    + intros x Hobj Hd. rewrite Hget2 in Hd. apply memN_In in Hobj. cbn [app].
      destruct (memN x queue) eqn:Hmq.
      * apply memN_In in Hmq. split; [exact Hmq|]. apply Hq in Hmq. rewrite Hget1, Hobj in Hmq.
        rewrite pend_nil. congruence.
      * rewrite Hget1, Hobj in Hd. discriminate.
    + constructor.
    + constructor.
    + cbn [app]. intros z Hz Hp. apply Hq in Hz. rewrite Hget1 in Hz.
      destruct (memN z objs); [|discriminate]. assert (Hk : kin E z = 0) by congruence.
      assert (Hno : forall b, ~ EdgeR E b z).
      { intros b [e [He [_ Hcod]]]. unfold kin in Hk. pose proof (countN_zero _ _ e Hk He) as Hf.
        unfold codb in Hf. rewrite Hcod, N.eqb_refl in Hf. discriminate. }
      destruct (path_last _ _ _ Hp) as [Hr|[b [_ Hr]]]; eapply Hno; eassumption.
  - assert (Hql : length queue = length (filter (fun p : N * N => snd p =? 0) deg1)).
    { unfold queue. apply map_length. }
    assert (Hd2 : deg2 = filter (fun p : N * N => negb (memN (fst p) queue)) deg1).
    { unfold deg2. apply fold_mremove_filter. }
    pose proof (init_degs_length objs) as Hl0.
    pose proof (filter_disjoint_length (fun p : N * N => snd p =? 0)
                  (fun p : N * N => negb (memN (fst p) queue)) deg1) as Hd.
    rewrite Hd2, Hql.
    assert (Hdis : forall x : N * N, In x deg1 -> negb (memN (fst x) queue) = true -> (snd x =? 0) = false).
    { intros [k v] Hin Hg. cbn [fst snd] in *. apply negb_true_iff in Hg. apply memN_false in Hg.
      destruct (N.eqb_spec v 0) as [Hz|Hz]; [|reflexivity]. exfalso. apply Hg. apply Hq. subst v.
      apply In_mget; assumption. }
    specialize (Hd Hdis). lia.
Qed.

(* The loop exits through its `queue.pop_front() == None` test (never Panic, never OutOfFuel),
   in a state satisfying the invariant. *)
Lemma toposortE_exit :
  exists ps deg' out',
    Inv E objs ps deg' [] out' /\
    toposortE E objs = match deg' with [] => Ok out' | _ :: _ => Cycle end.
Proof.
  destruct init_inv as [deg1 [Hc [HI Hlen]]]. unfold toposortE. rewrite Hc.
  apply (loopE_inv E objs WFc (S (length objs)) []); [exact HI | lia].
Qed.

Lemma toposortE_no_panic : (exists l, toposortE E objs = Ok l) \/ toposortE E objs = Cycle.
Proof.
  destruct toposortE_exit as [ps [deg' [out' [_ Hr]]]]. rewrite Hr.
  destruct deg'; [left; exists out'; reflexivity | right; reflexivity].
Qed.

Lemma toposortE_ok l :
  toposortE E objs = Ok l ->
  Permutation E l /\ ForallOrdPairs no_back l /\ Forall no_self l /\ forall z, ~ path (EdgeR E) z z.
Proof.
  destruct toposortE_exit as [ps [deg' [out' [HI Hr]]]]. rewrite Hr. destruct deg'; [|discriminate].
  intros Heq. assert (out' = l) by congruence. subst out'.
  split; [eapply Inv_final_ok; eassumption|]. split; [exact (i_fop _ _ _ _ _ _ HI)|].
  split; [exact (i_nsl _ _ _ _ _ _ HI)|]. eapply Inv_final_acyclic; eassumption.
Qed.

Lemma toposortE_cycle : toposortE E objs = Cycle <-> exists z, path (EdgeR E) z z.
Proof.
  split.
  - destruct toposortE_exit as [ps [deg' [out' [HI Hr]]]]. rewrite Hr. destruct deg' as [|p deg']; [discriminate|].
    intros _. eapply Inv_final_cycle; eassumption.
  - intros [z Hp]. destruct toposortE_no_panic as [[l Hl]|Hc]; [|exact Hc].
    exfalso. destruct (toposortE_ok l Hl) as [_ [_ [_ Hac]]]. exact (Hac z Hp).
Qed.

End Init.

(* ---------- statements about the model proper ---------- *)
Section Top.
Variables dn dold cn cold : list (N * N).
Variables oo on : list N.

Definition t_dom := dn ++ dold.
Definition t_objs := oo ++ on.
Definition t_gc := get_cod cn cold.

(* weakest precondition we need: both ends of every morphism with a codomain are objects *)
Definition WFin : Prop :=
  forall o m c, In (o, m) t_dom -> t_gc m = Some c -> In o t_objs /\ In c t_objs.

(* the precondition as worded in the task (every dom object, every codomain value) implies it *)
Definition WFin_strong : Prop :=
  (forall o m, In (o, m) t_dom -> In o t_objs) /\
  (forall o m c, In (o, m) t_dom -> t_gc m = Some c -> In c t_objs).

Lemma WFin_of_strong : WFin_strong -> WFin.
Proof. intros [H1 H2] o m c Hin Hc. split; [eapply H1 | eapply H2]; eassumption. Qed.

Definition expected : list edge := edges t_gc t_dom.

Definition Er (a b : N) : Prop := exists m, In (a, m) t_dom /\ t_gc m = Some b.
Definition has_cycle : Prop := exists z, path Er z z.

Lemma in_expected m o c : In (m, o, c) expected <-> In (o, m) t_dom /\ t_gc m = Some c.
Proof. unfold expected. rewrite in_edges. reflexivity. Qed.

Lemma EdgeR_Er a b : EdgeR expected a b <-> Er a b.
Proof.
  unfold EdgeR, Er. split.
  - intros [[[m o] c] [He [Hs Hc]]]. apply in_expected in He. cbn [e_src e_cod fst snd] in *. subst.
    exists m. exact He.
  - intros [m [Hin Hc]]. exists (m, a, b). split; [apply in_expected; split; assumption|]. split; reflexivity.
Qed.

(* no codomain is missing from the object set: exactly the condition under which the Rust code
   does not `unwrap()` a `None` (topo_panic_iff below) *)
Definition WFcod : Prop := forall o m c, In (o, m) t_dom -> t_gc m = Some c -> In c t_objs.

Lemma WFin_WFcod : WFin -> WFcod.
Proof. intros HW o m c Hin Hc. destruct (HW o m c Hin Hc) as [_ H]. exact H. Qed.

Lemma WF_expected_s : WFin -> forall e, In e expected -> In (e_src e) t_objs.
Proof.
  intros HW [[m o] c] He. apply in_expected in He. destruct He as [Hin Hc]. cbn [e_src e_cod fst snd].
  destruct (HW o m c Hin Hc) as [H _]. exact H.
Qed.

Lemma WF_expected_c : WFcod -> forall e, In e expected -> In (e_cod e) t_objs.
Proof.
  intros HW [[m o] c] He. apply in_expected in He. destruct He as [Hin Hc]. cbn [e_src e_cod fst snd].
  eapply HW; eassumption.
Qed.

Lemma toposort_expected : toposort dn dold cn cold oo on = toposortE expected t_objs.
Proof. apply toposort_E. Qed.

Lemma topo_no_panic_cod :
  WFcod -> (exists l, toposort dn dold cn cold oo on = Ok l) \/ toposort dn dold cn cold oo on = Cycle.
Proof. intros HW. rewrite toposort_expected. apply toposortE_no_panic. apply WF_expected_c. exact HW. Qed.

Lemma topo_no_panic :
  WFin -> (exists l, toposort dn dold cn cold oo on = Ok l) \/ toposort dn dold cn cold oo on = Cycle.
Proof. intros HW. apply topo_no_panic_cod. apply WFin_WFcod. exact HW. Qed.

Lemma topo_complete l :
  WFin -> toposort dn dold cn cold oo on = Ok l -> Permutation expected l.
Proof.
  intros HW Hr. rewrite toposort_expected in Hr.
  apply (toposortE_ok expected t_objs (WF_expected_s HW) (WF_expected_c (WFin_WFcod HW)) l Hr).
Qed.

Lemma topo_complete_in l :
  WFin -> toposort dn dold cn cold oo on = Ok l ->
  forall m o c, In (m, o, c) l <-> In (o, m) t_dom /\ t_gc m = Some c.
Proof.
  intros HW Hr m o c. rewrite <- in_expected. pose proof (topo_complete l HW Hr) as Hp. split.
  - apply Permutation_in. symmetry. exact Hp.
  - apply Permutation_in. exact Hp.
Qed.

Lemma NoDup_edges gc dom : NoDup dom -> NoDup (edges gc dom).
Proof.
  induction dom as [|[o m] t IH]; intros Hnd; [constructor|].
  inversion Hnd as [|x y Hnotin Hnd']; subst.
  change (edges gc ((o, m) :: t)) with (edge_of gc (o, m) ++ edges gc t).
  unfold edge_of. cbn [fst snd]. destruct (gc m) as [c|]; cbn [app]; [|apply IH; exact Hnd'].
  constructor; [|apply IH; exact Hnd']. intros Hin. apply in_edges in Hin.
  cbn [e_src e_mor fst snd] in Hin. apply Hnotin. apply Hin.
Qed.

Lemma topo_complete_nodup l :
  WFin -> NoDup t_dom -> toposort dn dold cn cold oo on = Ok l -> NoDup l.
Proof.
  intros HW Hnd Hr. eapply Permutation_NoDup; [apply (topo_complete l HW Hr)|].
  apply NoDup_edges. exact Hnd.
Qed.

Lemma topo_order l :
  WFin -> toposort dn dold cn cold oo on = Ok l ->
  forall l1 f A B l2 g C D l3, l = l1 ++ (f, A, B) :: l2 ++ (g, C, D) :: l3 -> D <> A.
Proof.
  intros HW Hr l1 f A B l2 g C D l3 Heq. rewrite toposort_expected in Hr.
  destruct (toposortE_ok expected t_objs (WF_expected_s HW) (WF_expected_c (WFin_WFcod HW)) l Hr) as [_ [Hfop _]].
  exact (FOP_before no_back l l1 (f, A, B) l2 (g, C, D) l3 Hfop Heq).
Qed.

Lemma topo_no_self_loop l :
  WFin -> toposort dn dold cn cold oo on = Ok l -> forall f A B, In (f, A, B) l -> B <> A.
Proof.
  intros HW Hr f A B Hin. rewrite toposort_expected in Hr.
  destruct (toposortE_ok expected t_objs (WF_expected_s HW) (WF_expected_c (WFin_WFcod HW)) l Hr) as [_ [_ [Hns _]]].
  rewrite Forall_forall in Hns. exact (Hns (f, A, B) Hin).
Qed.

Lemma has_cycle_EdgeR : has_cycle <-> exists z, path (EdgeR expected) z z.
Proof.
  unfold has_cycle. split; intros [z Hp]; exists z; eapply path_impl; try exact Hp; intros a b; apply EdgeR_Er.
Qed.

Lemma topo_cycle : WFin -> (toposort dn dold cn cold oo on = Cycle <-> has_cycle).
Proof.
  intros HW. rewrite toposort_expected, has_cycle_EdgeR. apply toposortE_cycle; [apply WF_expected_s; exact HW | apply WF_expected_c; apply WFin_WFcod; exact HW].
Qed.

End Top.
