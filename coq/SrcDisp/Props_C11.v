(* Property C11: any input is answered by success or a well-formed diagnostic, never a crash.
   This file only names results proved in FactsLines.v, Facts.v and FactsWhipe.v. *)

From Coq Require Import List NArith Bool String Ascii.
From SrcDisp Require Import Model FactsLines Facts FactsWhipe Run.
Import ListNotations.
Open Scope N_scope.

(* The renderer is total -- for every byte list (LF, CRLF, lone CR, no final newline, empty), every
   location, with or without path and underline -- and its output is the layout of rows n..n+k-1 with
   [rows_wf src loc n k]: 1 <= n <= max 1 (#lines); the rows are consecutive lines of src; if some
   line intersects loc then every row does, otherwise the single row is the last line that begins at
   or before loc (no row iff src is empty). *)
Theorem C11_render_total : forall src loc path u,
  exists out, render src loc path u = Some out /\ excerpt_wf src loc path u out.
Proof. exact render_total. Qed.
Print Assumptions C11_render_total.

Theorem C11_render_never_panics : forall src loc path u, render src loc path u <> None.
Proof. exact render_never_panics. Qed.
Print Assumptions C11_render_never_panics.

(* Every printed row is a complete line of src: src = before ++ c ++ terminator ++ after, where the
   row text is c, before is empty or ends with LF, c has no LF, and the terminator is the longest of
   "", "\n", "\r", "\r\n" (and LF-terminated unless it ends the text). *)
Theorem C11_rows_complete_lines : forall src loc n k j,
  rows_wf src loc n k -> (j < k)%nat ->
  exists l before c t after,
    nth_error (line_locations src) (N.to_nat (n - 1) + j) = Some l /\
    src = before ++ c ++ t ++ after /\
    sub src (fst l) (snd l) = c /\
    fst l = len before /\
    piece_ok (c, t) /\
    (after <> [] -> is_lf_terminator t) /\
    (before = [] \/ exists b', before = b' ++ [LF]).
Proof. exact rows_complete_lines. Qed.
Print Assumptions C11_rows_complete_lines.

(* The line table is the table of content offsets of a decomposition of src into (content,
   terminator) pieces; it lies within [0, len src] and is strictly ascending. *)
Theorem C11_line_locations_spec : forall src,
  (exists ps, List.concat (map piece_bytes ps) = src /\
              line_locations src = locs_of 0 ps /\
              pieces_ok ps) /\
  (forall l, In l (line_locations src) -> fst l <= snd l /\ snd l <= len src) /\
  ascending (line_locations src).
Proof. exact line_locations_spec. Qed.
Print Assumptions C11_line_locations_spec.

(* Line bounds sit next to ASCII bytes (or the ends of the text): the char-boundary check of
   [&source[begin..end]] cannot fail on valid UTF-8. *)
Theorem C11_line_bounds_ascii : forall src l,
  In l (line_locations src) ->
  (fst l = 0 \/ exists a r, src = a ++ LF :: r /\ len a + 1 = fst l) /\
  (snd l = len src \/ exists a x r, src = a ++ x :: r /\ len a = snd l /\ (x = LF \/ x = CR)).
Proof. exact line_bounds_ascii. Qed.
Print Assumptions C11_line_bounds_ascii.

(* Oracles for real compiler output *)
Theorem C11_excerpt_wf_b_sound : forall src n texts,
  excerpt_wf_b src n texts = true -> excerpt_texts_wf src n texts.
Proof. exact excerpt_wf_b_sound. Qed.
Print Assumptions C11_excerpt_wf_b_sound.

Theorem C11_excerpt_wf_b_complete : forall src loc n k,
  rows_wf src loc n k ->
  excerpt_wf_b src n (firstn k (skipn (N.to_nat (n - 1)) (line_texts src))) = true.
Proof. exact excerpt_wf_b_complete. Qed.
Print Assumptions C11_excerpt_wf_b_complete.

Theorem C11_rows_wf_b_sound : forall src loc n k, rows_wf_b src loc n k = true -> rows_wf src loc n k.
Proof. exact rows_wf_b_sound. Qed.
Print Assumptions C11_rows_wf_b_sound.

Theorem C11_to_string_value : forall n,
  n < 10 ^ 20 ->
  decode_digits (to_string n) = n /\ Forall (fun d => 48 <= d <= 57) (to_string n).
Proof. exact to_string_value. Qed.
Print Assumptions C11_to_string_value.

(* whipe_comments (as repaired in /repo 85b4372), for EVERY text: the wiped text has the length of the
   original and is pointwise the same byte or a blank replacing a byte other than LF ... *)
Theorem C11_whipe_preserves_offsets : forall src,
  List.length (whipe_comments src) = List.length src /\ Forall2 blank_rel src (whipe_comments src).
Proof. exact (fun src => conj (whipe_length src) (whipe_preserves_offsets src)). Qed.
Print Assumptions C11_whipe_preserves_offsets.

(* ... "a byte that is neither LF nor CR" would be false: a lone CR inside a comment is content (it
   does not end a line) and is blanked like every other comment byte. *)
Theorem C11_whipe_blanks_only_non_cr_refuted :
  exists src, ~ Forall2 blank_rel_strict src (whipe_comments src).
Proof. exact whipe_blanks_only_non_cr_refuted. Qed.
Print Assumptions C11_whipe_blanks_only_non_cr_refuted.

(* The parser's line table is the line table of the original text (so such a CR is never a line
   terminator, and blanking it moves nothing). *)
Theorem C11_whipe_line_table : forall src, line_locations (whipe_comments src) = line_locations src.
Proof. exact whipe_line_table. Qed.
Print Assumptions C11_whipe_line_table.

(* ------------------------------------------------------------------------------------------ *)
(* Examples (non-vacuity) *)

Definition bytes (s : string) : list N := List.map N_of_ascii (list_ascii_of_string s).
Definition nl : string := String "010" EmptyString.
Definition cr : string := String "013" EmptyString.

(* "type A" with the end-of-file location (6,7): no line intersects, the fallback prints line 1 *)
Example ex_eof_render :
  render (bytes "type A") (6, 7) (Some (bytes "t.eql")) true
  = Some (bytes (" --> t.eql:1" ++ nl ++ "  | " ++ nl ++ "1 | type A" ++ nl ++ "  |       " ++ nl ++ "  | " ++ nl)).
Proof. vm_compute. reflexivity. Qed.

Example ex_eof_rows_wf : rows_wf_b (bytes "type A") (6, 7) 1 1 = true.
Proof. vm_compute. reflexivity. Qed.

Example ex_eof_oracle : excerpt_wf_b (bytes "type A") 1 [bytes "type A"] = true.
Proof. vm_compute. reflexivity. Qed.

Example ex_oracle_rejects_partial_line : excerpt_wf_b (bytes "type A") 1 [bytes "type"] = false.
Proof. vm_compute. reflexivity. Qed.

Example ex_oracle_rejects_line_number : excerpt_wf_b (bytes "type A") 2 [] = false.
Proof. vm_compute. reflexivity. Qed.

(* CRLF, a lone CR at the end, an empty line; a location spanning lines 2-3 *)
Definition crlf_src : list N := bytes ("ab" ++ cr ++ nl ++ "cd" ++ cr ++ nl ++ nl ++ "x" ++ cr).

Example ex_crlf_table : line_locations crlf_src = [(0, 2); (4, 6); (8, 8); (9, 10)].
Proof. vm_compute. reflexivity. Qed.

Example ex_crlf_render :
  render crlf_src (3, 9) (Some (bytes "p")) true
  = Some (bytes (" --> p:2" ++ nl ++ "  | " ++ nl ++ "2 | cd" ++ nl ++ "  | ^^" ++ nl ++ "3 | " ++ nl ++ "  | " ++ nl ++ "  | " ++ nl)).
Proof. vm_compute. reflexivity. Qed.

Example ex_crlf_rows_wf : rows_wf_b crlf_src (3, 9) 2 2 = true.
Proof. vm_compute. reflexivity. Qed.

Example ex_crlf_oracle : excerpt_wf_b crlf_src 2 [bytes "cd"; []] = true.
Proof. vm_compute. reflexivity. Qed.

(* a location on a line terminator: fallback to the line before *)
Example ex_terminator_loc : nums_locs (2, 3) crlf_src = [(1, (0, 2))] /\ rows_wf_b crlf_src (2, 3) 1 1 = true.
Proof. vm_compute. split; reflexivity. Qed.

(* The empty source: no rows, line number 1 *)
Example ex_empty_render :
  render [] (0, 1) (Some (bytes "p")) true = Some (bytes (" --> p:1" ++ nl ++ "  | " ++ nl ++ "  | " ++ nl)).
Proof. vm_compute. reflexivity. Qed.

Example ex_empty_rows_wf : rows_wf_b [] (0, 1) 1 0 = true /\ excerpt_wf_b [] 1 [] = true.
Proof. vm_compute. split; reflexivity. Qed.

(* Ten or more lines: the gutter widens *)
Example ex_two_digit_line_numbers :
  render (bytes (nl ++ nl ++ nl ++ nl ++ nl ++ nl ++ nl ++ nl ++ "i" ++ nl ++ "j" ++ nl)) (8, 11) None true
  = Some (bytes ("   | " ++ nl ++ " 9 | i" ++ nl ++ "   | ^" ++ nl ++ "10 | j" ++ nl ++ "   | ^" ++ nl ++ "   | " ++ nl)).
Proof. vm_compute. reflexivity. Qed.

Example ex_to_string : to_string 18446744073709551615 = bytes "18446744073709551615" /\ 18446744073709551615 < 10 ^ 20.
Proof. vm_compute. split; reflexivity. Qed.

(* whipe_comments *)
Definition lf_src : list N := bytes ("type A; // a" ++ nl ++ "pred p(A);" ++ nl).

Example ex_whipe_lf :
  whipe_comments lf_src = bytes ("type A;     " ++ nl ++ "pred p(A);" ++ nl).
Proof. vm_compute. reflexivity. Qed.

Example ex_whipe_crlf :
  whipe_comments (bytes ("type A; // a" ++ cr ++ nl ++ "x //" ++ cr))
  = bytes ("type A;     " ++ cr ++ nl ++ "x   " ++ cr).
Proof. vm_compute. reflexivity. Qed.

(* hypotheses of C11_rows_complete_lines / C11_excerpt_wf_b_complete *)
Example ex_rows_wf : rows_wf crlf_src (3, 9) 2 2.
Proof. apply rows_wf_b_sound. vm_compute. reflexivity. Qed.

(* hypotheses of C11_position_of_byte: the "c" of "cd" in crlf_src is byte 4, on line 2 *)
Example ex_position_of_byte :
  nth_error crlf_src (N.to_nat 4) = Some 99 /\ first_line_number crlf_src (4, 5) = 2 /\
  line_number_of crlf_src 4 = 2.
Proof. vm_compute. repeat split; reflexivity. Qed.

(* ------------------------------------------------------------------------------------------ *)
(* The position half of C11 for the model pipeline.  The renderer is given the ORIGINAL text
   (build.rs: CompileErrorWithContext.source is the string read from the file) together with
   locations that index the WIPED text (parse() shadows [source] with [whipe_comments(source)]).
   [position_stmt src] (Model.v): a one-byte location at ANY byte of the text the parser sees -- also the
   CR or LF of a line terminator, which is where lalrpop puts end-of-file errors -- is reported on the
   line that byte is on (1 + the number of LFs before it in the wiped text, which by
   C11_whipe_line_table has the line structure of the original). *)
Definition C11_full : Prop := forall src, position_stmt src.

Theorem C11_full_proved : C11_full.
Proof. exact position_full. Qed.
Print Assumptions C11_full_proved.

(* ... on top of: a one-byte location at any byte of ANY text is reported on the line that byte is on
   (inside the line: the line is hit; on its terminator: the line is empty and the terminator starts
   at its offset, so it lies inside the location, or no line is hit -- an empty line right behind the
   location does not count since 1a1b946 -- and the fallback picks it). *)
Theorem C11_position_of_byte : forall src o,
  o < len src -> first_line_number src (o, o + 1) = line_number_of src o.
Proof. exact position_of_byte. Qed.
Print Assumptions C11_position_of_byte.

(* "type A;\r\ntype B;\r\n}": the "}" is byte 18 of both texts, line 3 (Regress.v has what the previous
   whipe_comments made of it) *)
Definition crlf_witness : list N := bytes ("type A;" ++ cr ++ nl ++ "type B;" ++ cr ++ nl ++ "}").

Example ex_position_crlf :
  18 < len (whipe_comments crlf_witness) /\
  first_line_number crlf_witness (18, 19) = 3 /\ line_number_of (whipe_comments crlf_witness) 18 = 3.
Proof.
  split; [vm_compute; reflexivity|].
  vm_compute. split; reflexivity.
Qed.

(* on the "\r" that ends line 2 (byte 16): still line 2 *)
Example ex_position_on_cr :
  nth_error crlf_witness (N.to_nat 16) = Some CR /\ first_line_number crlf_witness (16, 17) = 2 /\
  line_number_of crlf_witness 16 = 2.
Proof. vm_compute. repeat split; reflexivity. Qed.

(* "type A\n\n": lalrpop reports end of file at (6,7), the "\n" that ends line 1; the empty line 2
   touches the end of that location but does not contain it: line 1 is reported (Regress.v: with the
   closure before 1a1b946 it was line 2, and line 1 for the CRLF twin). *)
Example ex_eof_before_blank_line :
  first_line_number (bytes ("type A" ++ nl ++ nl)) (6, 7) = 1 /\
  first_line_number (bytes ("type A" ++ cr ++ nl ++ cr ++ nl)) (6, 7) = 1 /\
  line_number_of (bytes ("type A" ++ nl ++ nl)) 6 = 1.
Proof. vm_compute. repeat split; reflexivity. Qed.

(* Not modelled: the front end itself (lexer, parser, semantic checks).  That it terminates without
   panicking, and that its locations are locations of the wiped text, is validated by
   harness/cli-driver (README there), not proved. *)
