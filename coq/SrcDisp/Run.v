(* Entry points for generated case files (coq/SrcDisp/gen/cases_*.v): every function takes and returns
   only N, bool, list, option and pairs.  Byte strings are [list N]. *)

From Coq Require Import List NArith Bool.
From SrcDisp Require Import Model.
Import ListNotations.
Open Scope N_scope.

(* (source, loc.begin, loc.end, underlined) |-> the excerpt block without the "--> path:N" line, i.e.
   the output of [SourceDisplay { source_path: None, .. }].  [] stands for a panic (never happens:
   Facts.render_total; every real output contains the two gutter lines). *)
Definition render_case (c : list N * N * N * bool) : list N :=
  let '(src, b, e, u) := c in unwrap_or (render src (b, e) None u) [].

(* (path, source, loc.begin, loc.end, underlined) |-> the output with the pointer line, which is what
   error.rs prints (there: underlined = true). *)
Definition render_path_case (c : list N * list N * N * N * bool) : list N :=
  let '(path, src, b, e, u) := c in unwrap_or (render src (b, e) (Some path) u) [].

(* (source, loc.begin, loc.end) |-> the line number printed after "--> path:" *)
Definition first_line_case (c : list N * N * N) : N :=
  let '(src, b, e) := c in first_line_number src (b, e).

(* (source, loc.begin, loc.end) |-> the (one-based line number, (begin, end)) rows of the excerpt *)
Definition rows_case (c : list N * N * N) : list (N * (N * N)) :=
  let '(src, b, e) := c in nums_locs (b, e) src.

Definition line_table (src : list N) : list (N * N) := line_locations src.

Definition line_texts_case (src : list N) : list (list N) := line_texts src.

(* (source, line number read off the message, texts of the excerpt rows) |-> well-formed? *)
Definition excerpt_check_case (c : list N * N * list (list N)) : bool :=
  let '(src, n, texts) := c in excerpt_wf_b src n texts.

(* (source, loc.begin, loc.end, first line number, number of rows) |-> well-formed for that loc? *)
Definition rows_check_case (c : list N * N * N * N * N) : bool :=
  let '(src, b, e, n, k) := c in rows_wf_b src (b, e) n (N.to_nat k).

Definition whipe_case (src : list N) : list N := whipe_comments src.
