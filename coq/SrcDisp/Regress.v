(* Regression witness for the defect found in round 1 (repaired in /repo commit 85b4372): the previous
   whipe_comments was built on str::lines() and join("\n"); it dropped every "\r" that precedes a
   "\n" (and the final newline), so the locations of all diagnostics -- offsets into the wiped text --
   were k bytes too small for the original text after k CRLF line ends, while the excerpt was rendered
   against the original text.  Nothing in Props_C11.v depends on this file. *)

From Coq Require Import List NArith Bool Lia String Ascii.
From SrcDisp Require Import Model FactsLines Facts FactsWhipe.
Import ListNotations.
Open Scope N_scope.

(* str::lines() = split_inclusive('\n') where each piece loses a final "\n" and then, only if it
   had one, a final "\r". *)
Definition str_line (seg : list N) : list N :=
  match strip_suffix LF seg with
  | None => seg
  | Some l => unwrap_or (strip_suffix CR l) l
  end.

Definition str_lines (s : list N) : list (list N) := map str_line (split_inclusive s).

Fixpoint join_lf (ls : list (list N)) : list N :=
  match ls with
  | [] => []
  | l :: t => match t with [] => l | _ :: _ => l ++ LF :: join_lf t end
  end.

(* build.rs before 85b4372:
     source.lines().map(|line| <blank from the first "//">).collect::<Vec<_>>().join("\n")        *)
Definition whipe_comments_old (s : list N) : list N := join_lf (map whipe_line (str_lines s)).

Lemma str_lines_nonempty : forall s, s <> [] -> str_lines s <> [].
Proof.
  intros s H E. unfold str_lines in E. apply map_eq_nil in E. apply split_nil_iff in E. exact (H E).
Qed.

(* Every CRLF line loses one byte. *)
Theorem whipe_old_crlf_line : forall a rest,
  ~ In LF a -> find_comment a = None -> rest <> [] ->
  whipe_comments_old (a ++ CR :: LF :: rest) = a ++ LF :: whipe_comments_old rest.
Proof.
  intros a rest Ha Hc Hr. unfold whipe_comments_old, str_lines.
  replace (a ++ CR :: LF :: rest) with ((a ++ [CR]) ++ LF :: rest) by (rewrite <- app_assoc; reflexivity).
  rewrite split_app_line.
  2:{ intros Hin. apply in_app_or in Hin. destruct Hin as [Hin|[Hin|[]]]; [exact (Ha Hin)|discriminate Hin]. }
  cbn [map].
  assert (Hl : str_line ((a ++ [CR]) ++ [LF]) = a).
  { unfold str_line. rewrite strip_suffix_app. rewrite strip_suffix_app. reflexivity. }
  rewrite Hl. unfold whipe_line at 1. rewrite Hc.
  pose proof (str_lines_nonempty rest Hr) as Hne. unfold str_lines in Hne.
  destruct (map str_line (split_inclusive rest)) as [|x r]; [exfalso; apply Hne; reflexivity|].
  reflexivity.
Qed.

Definition bytes (s : string) : list N := List.map N_of_ascii (list_ascii_of_string s).
Definition nl : string := String "010" EmptyString.
Definition cr : string := String "013" EmptyString.

Example ex_old_loses_a_byte_per_crlf :
  let src := bytes ("type A;" ++ cr ++ nl ++ "type B;" ++ cr ++ nl ++ "}") in
  whipe_comments_old src = bytes ("type A;" ++ nl ++ "type B;" ++ nl ++ "}") /\
  len src = 19 /\ len (whipe_comments_old src) = 17 /\
  (* the repaired function keeps every byte *)
  whipe_comments src = src.
Proof. vm_compute. repeat split; reflexivity. Qed.

Example ex_old_drops_final_newline :
  whipe_comments_old (bytes ("type A;" ++ nl)) = bytes "type A;" /\
  whipe_comments (bytes ("type A;" ++ nl)) = bytes ("type A;" ++ nl).
Proof. vm_compute. split; reflexivity. Qed.

Example ex_old_line_table_moves :
  let src := bytes ("a" ++ cr ++ nl ++ "b") in
  line_locations (whipe_comments_old src) = [(0, 1); (2, 3)] /\
  line_locations src = [(0, 1); (3, 4)] /\
  line_locations (whipe_comments src) = [(0, 1); (3, 4)].
Proof. vm_compute. repeat split; reflexivity. Qed.

(* The "}" is byte 16 of the old wiped text, on line 3; byte 16 of the original is the "\r" of line 2,
   and line 2 "type B;" is what was reported (driver input 7479706520413b0d0a7479706520423b0d0a7d). *)
Definition crlf_witness : list N := bytes ("type A;" ++ cr ++ nl ++ "type B;" ++ cr ++ nl ++ "}").

Theorem position_old_refuted : ~ (forall src, position_stmt_for whipe_comments_old src).
Proof.
  intros H. specialize (H crlf_witness 16). vm_compute in H.
  assert (E : 2 = 3) by (apply H; reflexivity). discriminate E.
Qed.

Example ex_old_witness_render :
  render crlf_witness (16, 17) (Some (bytes "t.eql")) true
  = Some (bytes (" --> t.eql:2" ++ nl ++ "  | " ++ nl ++ "2 | type B;" ++ nl ++ "  |        " ++ nl ++ "  | " ++ nl)).
Proof. vm_compute. reflexivity. Qed.

(* With the repaired function the "}" is byte 18 of the wiped text, and line 3 is reported. *)
Example ex_new_witness_render :
  nth_error (whipe_comments crlf_witness) 18 = Some 125 /\
  render crlf_witness (18, 19) (Some (bytes "t.eql")) true
  = Some (bytes (" --> t.eql:3" ++ nl ++ "  | " ++ nl ++ "3 | }" ++ nl ++ "  | ^" ++ nl ++ "  | " ++ nl)).
Proof. vm_compute. split; reflexivity. Qed.

(* ------------------------------------------------------------------------------------------ *)
(* Second finding of the LF/CRLF twin comparison (repaired in /repo commit 1a1b946): the closure of
   intersecting_line_locations was plain Location::intersect, under which an EMPTY line that touches
   the end of a non-empty location "intersects" it.  lalrpop reports end of file at (end of the last
   token, +1), i.e. on the "\n" after it; if the next line is empty, that empty line was printed
   instead of the line that owns the terminator -- but only with LF: with CRLF the next line begins
   two bytes on, nothing intersects and the fallback picks the right line. *)
Definition intersecting_line_locations_old (loc : N * N) (src : list N) : list (N * (N * N)) :=
  let L := line_locations src in
  let hits := fun il : N * (N * N) => intersects (snd il) loc in
  let fallback :=
    if existsb (fun l => intersects l loc) L then None
    else last_opt (take_while (fun il : N * (N * N) => (fst il =? 0) || (fst (snd il) <=? fst loc))
                              (enumerate_from 0 L)) in
  take_while hits (skip_while (fun il => negb (hits il)) (enumerate_from 0 L)) ++ opt_list fallback.

Definition first_line_number_old (src : list N) (loc : N * N) : N :=
  first_num_of (map (fun il : N * (N * N) => (fst il + 1, snd il)) (intersecting_line_locations_old loc src)).

(* driver inputs 7479706520410a0a / 7479706520410d0a0d0a *)
Example ex_old_closure_blank_line_after_eof :
  first_line_number_old (bytes ("type A" ++ nl ++ nl)) (6, 7) = 2 /\
  first_line_number_old (bytes ("type A" ++ cr ++ nl ++ cr ++ nl)) (6, 7) = 1 /\
  first_line_number (bytes ("type A" ++ nl ++ nl)) (6, 7) = 1 /\
  first_line_number (bytes ("type A" ++ cr ++ nl ++ cr ++ nl)) (6, 7) = 1.
Proof. vm_compute. repeat split; reflexivity. Qed.

(* The two closures differ only on empty lines: inside a multi-line location an empty line still counts. *)
Example ex_closures_agree_inside :
  intersecting_line_locations_old (0, 4) (bytes ("a" ++ nl ++ nl ++ "b")) = [(0, (0, 1)); (1, (2, 2)); (2, (3, 4))] /\
  intersecting_line_locations (0, 4) (bytes ("a" ++ nl ++ nl ++ "b")) = [(0, (0, 1)); (1, (2, 2)); (2, (3, 4))].
Proof. vm_compute. split; reflexivity. Qed.
