(* Executable model of eqlog's error-excerpt renderer (property C11).

   Sources:  /repo/eqlog/src/source_display.rs   line_locations, intersecting_line_locations (1a1b946),
                                                 impl Display for SourceDisplay
             /repo/eqlog/src/grammar_util.rs     Location, Location::intersect
             /repo/eqlog/src/build.rs            whipe_comments (commit 85b4372)
             /repo/eqlog/src/error.rs            SourceDisplay { source_path: Some(..), underlined: true, .. }

   Strings are byte lists ([list N], every element < 256; nothing below depends on that bound).
   Offsets, line indices and line numbers are [N]; [nat] is used for lengths of padding and fuel.
   This file contains definitions only.  Where the Rust code can panic the model returns [None]:
     - [slice]  : [&source[a..b]] with a > b or b > len (byte level; see Facts.line_bounds_ascii for
                  why the char-boundary check cannot fail),
     - [pad_to] : the usize subtraction [max_line_num_digits - line_num_str.len()]. *)

From Coq Require Import List NArith Bool.
Import ListNotations.
Open Scope N_scope.

Arguments N.add : simpl never.
Arguments N.sub : simpl never.
Arguments N.mul : simpl never.
Arguments N.eqb : simpl never.
Arguments N.ltb : simpl never.
Arguments N.leb : simpl never.
Arguments N.div : simpl never.
Arguments N.modulo : simpl never.
Arguments N.max : simpl never.
Arguments N.min : simpl never.

Definition LF : N := 10.
Definition CR : N := 13.
Definition SP : N := 32.
Definition SLASH : N := 47.
Definition CARET : N := 94.

Definition len {A} (l : list A) : N := N.of_nat (length l).

(* ------------------------------------------------------------------------------------------ *)
(* str::split_inclusive('\n'): every piece but possibly the last ends with LF; no empty piece.  *)

Fixpoint split_inclusive (s : list N) : list (list N) :=
  match s with
  | [] => []
  | c :: t =>
      if c =? LF then [c] :: split_inclusive t
      else match split_inclusive t with
           | [] => [[c]]
           | seg :: rest => (c :: seg) :: rest
           end
  end.

(* str::strip_suffix(char) *)
Fixpoint strip_suffix (b : N) (l : list N) : option (list N) :=
  match l with
  | [] => None
  | x :: t =>
      match t with
      | [] => if x =? b then Some [] else None
      | _ :: _ => option_map (cons x) (strip_suffix b t)
      end
  end.

Definition unwrap_or {A} (o : option A) (d : A) : A :=
  match o with Some x => x | None => d end.

(* source_display.rs:
     let line = segment.strip_suffix('\n').unwrap_or(segment);
     let line = line.strip_suffix('\r').unwrap_or(line);                                        *)
Definition line_content (seg : list N) : list N :=
  let l := unwrap_or (strip_suffix LF seg) seg in
  unwrap_or (strip_suffix CR l) l.

(* .scan(0, |pos, segment| { begin = *pos; *pos += segment.len(); ... Location(begin, end) })   *)
Fixpoint line_locs_from (pos : N) (segs : list (list N)) : list (N * N) :=
  match segs with
  | [] => []
  | seg :: r => (pos, pos + len (line_content seg)) :: line_locs_from (pos + len seg) r
  end.

Definition line_locations (src : list N) : list (N * N) :=
  line_locs_from 0 (split_inclusive src).

(* ------------------------------------------------------------------------------------------ *)
(* grammar_util.rs: Location::intersect                                                         *)

Definition loc_is_empty (l : N * N) : bool := fst l =? snd l.

Definition intersect (x y : N * N) : option (N * N) :=
  let b := N.max (fst x) (fst y) in
  let e := N.min (snd x) (snd y) in
  if negb (loc_is_empty x) && negb (loc_is_empty y)
  then (if b <? e then Some (b, e) else None)
  else (if b <=? e then Some (b, e) else None).

Definition intersects (x y : N * N) : bool :=
  match intersect x y with Some _ => true | None => false end.

(* source_display.rs (commit 1a1b946): the closure `intersects` of intersecting_line_locations.  An
   empty line intersects a non-empty location only if it lies inside of it, not if it merely touches
   its end (the previous closure, plain Location::intersect, is kept in Regress.v).              *)
Definition line_hits (l loc : N * N) : bool :=
  if loc_is_empty l && negb (loc_is_empty loc)
  then (fst loc <=? fst l) && (fst l <? snd loc)
  else intersects l loc.

(* ------------------------------------------------------------------------------------------ *)
(* Iterator adaptors                                                                            *)

Fixpoint enumerate_from {A} (i : N) (l : list A) : list (N * A) :=
  match l with
  | [] => []
  | x :: t => (i, x) :: enumerate_from (i + 1) t
  end.

Fixpoint take_while {A} (p : A -> bool) (l : list A) : list A :=
  match l with
  | [] => []
  | x :: t => if p x then x :: take_while p t else []
  end.

Fixpoint skip_while {A} (p : A -> bool) (l : list A) : list A :=
  match l with
  | [] => []
  | x :: t => if p x then skip_while p t else l
  end.

Fixpoint last_opt {A} (l : list A) : option A :=
  match l with
  | [] => None
  | x :: t => match t with [] => Some x | _ :: _ => last_opt t end
  end.

Definition opt_list {A} (o : option A) : list A :=
  match o with Some x => [x] | None => [] end.

(* source_display.rs: intersecting_line_locations (zero-based line index, line location)         *)
Definition intersecting_line_locations (loc : N * N) (src : list N) : list (N * (N * N)) :=
  let L := line_locations src in
  let hits := fun il : N * (N * N) => line_hits (snd il) loc in
  let fallback :=
    if existsb (fun l => line_hits l loc) L then None
    else last_opt (take_while (fun il : N * (N * N) => (fst il =? 0) || (fst (snd il) <=? fst loc))
                              (enumerate_from 0 L)) in
  take_while hits (skip_while (fun il => negb (hits il)) (enumerate_from 0 L)) ++ opt_list fallback.

(* ------------------------------------------------------------------------------------------ *)
(* usize::to_string.  Fuel 19 gives up to 20 digits, which covers every usize (< 2^64 < 10^20);
   Facts.to_string_value states exactness under that bound.                                     *)

Fixpoint digits_fuel (f : nat) (n : N) : list N :=
  if n <? 10 then [48 + n]
  else match f with
       | O => [48 + n mod 10]
       | S f' => digits_fuel f' (n / 10) ++ [48 + n mod 10]
       end.

Definition to_string (n : N) : list N := digits_fuel 19 n.

Fixpoint list_max_opt (l : list N) : option N :=
  match l with
  | [] => None
  | x :: t => match list_max_opt t with None => Some x | Some m => Some (N.max x m) end
  end.

(* ------------------------------------------------------------------------------------------ *)
(* Slicing and the Display impl                                                                 *)

Definition sub (s : list N) (a b : N) : list N :=
  firstn (N.to_nat (b - a)) (skipn (N.to_nat a) s).

(* &s[a..b] on bytes: panics (None) unless a <= b <= len *)
Definition slice (s : list N) (a b : N) : option (list N) :=
  if (a <=? b) && (b <=? len s) then Some (sub s a b) else None.

Definition pad (n : nat) : list N := repeat SP n.

(* write_padding(f, w - s.len()) followed by s; None where the subtraction would underflow *)
Definition pad_to (w : nat) (s : list N) : option (list N) :=
  if Nat.leb (length s) w then Some (pad (w - length s) ++ s) else None.

(* the byte offsets line_begin..line_end *)
Fixpoint range_from (a : N) (n : nat) : list N :=
  match n with
  | O => []
  | S n' => a :: range_from (a + 1) n'
  end.

Definition range (a b : N) : list N := range_from a (N.to_nat (b - a)).

Definition underline_row (loc : N * N) (l : N * N) : list N :=
  map (fun i => if intersects (i, i + 1) loc then CARET else SP) (range (fst l) (snd l)).

Definition bar : list N := [SP; 124; SP].          (* " | "  *)
Definition arrow : list N := [45; 45; 62; SP].     (* "--> " *)
Definition colon : list N := [58].

Definition gutter (w : nat) : list N := pad w ++ bar ++ [LF].

Definition header (w : nat) (path : option (list N)) (first_num : N) : list N :=
  match path with
  | Some p => pad w ++ arrow ++ p ++ colon ++ to_string first_num ++ [LF]
  | None => []
  end.

Definition render_row (src : list N) (loc : N * N) (u : bool) (w : nat) (nl : N * (N * N))
  : option (list N) :=
  let num_str := to_string (fst nl) in
  match pad_to w num_str with
  | None => None
  | Some padded =>
      match slice src (fst (snd nl)) (snd (snd nl)) with
      | None => None
      | Some text =>
          Some (padded ++ bar ++ text ++ [LF]
                ++ (if u then pad w ++ bar ++ underline_row loc (snd nl) ++ [LF] else []))
      end
  end.

Fixpoint render_rows (src : list N) (loc : N * N) (u : bool) (w : nat) (rows : list (N * (N * N)))
  : option (list N) :=
  match rows with
  | [] => Some []
  | r :: t =>
      match render_row src loc u w r with
      | None => None
      | Some x => match render_rows src loc u w t with
                  | None => None
                  | Some y => Some (x ++ y)
                  end
      end
  end.

Definition nums_locs (loc : N * N) (src : list N) : list (N * (N * N)) :=
  map (fun il : N * (N * N) => (fst il + 1, snd il)) (intersecting_line_locations loc src).

Definition first_num_of (nl : list (N * (N * N))) : N :=
  match nl with [] => 1 | x :: _ => fst x end.

Definition num_width (nl : list (N * (N * N))) : nat :=
  match list_max_opt (map fst nl) with
  | Some m => length (to_string m)
  | None => 1%nat
  end.

(* impl Display for SourceDisplay: the exact output bytes, or None for a panic *)
Definition render (src : list N) (loc : N * N) (path : option (list N)) (u : bool)
  : option (list N) :=
  let nl := nums_locs loc src in
  let w := num_width nl in
  match render_rows src loc u w nl with
  | None => None
  | Some rows => Some (header w path (first_num_of nl) ++ gutter w ++ rows ++ gutter w)
  end.

(* The line number printed after "--> path:" *)
Definition first_line_number (src : list N) (loc : N * N) : N := first_num_of (nums_locs loc src).

(* ------------------------------------------------------------------------------------------ *)
(* build.rs: whipe_comments (as repaired in /repo commit 85b4372; the previous version, built on
   str::lines() and join("\n"), is kept in Regress.v as whipe_comments_old).

     for segment in source.split_inclusive('\n') {
         let line = segment.strip_suffix('\n').unwrap_or(segment);
         let line = line.strip_suffix('\r').unwrap_or(line);
         let terminator = &segment[line.len()..];
         match line.find("//") {
             Some(i) => { result.push_str(&line[0..i]); for _ in i..line.len() { result.push(' '); } }
             None => result.push_str(line),
         }
         result.push_str(terminator);
     }                                                                                           *)

(* line.find("//") *)
Fixpoint find_comment (l : list N) : option nat :=
  match l with
  | [] => None
  | x :: t =>
      match t with
      | y :: _ => if (x =? SLASH) && (y =? SLASH) then Some O else option_map S (find_comment t)
      | [] => None
      end
  end.

Definition whipe_line (l : list N) : list N :=
  match find_comment l with
  | Some i => firstn i l ++ repeat SP (length l - i)
  | None => l
  end.

Definition whipe_segment (seg : list N) : list N :=
  let line := line_content seg in
  whipe_line line ++ skipn (length line) seg.

Definition whipe_comments (s : list N) : list N := concat (map whipe_segment (split_inclusive s)).

(* ------------------------------------------------------------------------------------------ *)
(* Specification side (still definitions only): what a well-formed excerpt is.                  *)

(* The text of every line of src, without terminators *)
Definition line_texts (src : list N) : list (list N) :=
  map (fun l => sub src (fst l) (snd l)) (line_locations src).

(* A decomposition of a text into (content, terminator) pieces and the offsets of the contents *)
Definition piece_bytes (p : list N * list N) : list N := fst p ++ snd p.

Fixpoint locs_of (pos : N) (ps : list (list N * list N)) : list (N * N) :=
  match ps with
  | [] => []
  | p :: r => (pos, pos + len (fst p)) :: locs_of (pos + len (piece_bytes p)) r
  end.

Definition is_terminator (t : list N) : Prop := t = [] \/ t = [LF] \/ t = [CR] \/ t = [CR; LF].
Definition is_lf_terminator (t : list N) : Prop := t = [LF] \/ t = [CR; LF].

(* content has no LF; terminator is "", "\n", "\r" or "\r\n" and is the longest possible one; every
   piece but the last is LF-terminated; no piece is empty *)
Definition piece_ok (p : list N * list N) : Prop :=
  ~ In LF (fst p) /\ is_terminator (snd p) /\ piece_bytes p <> [] /\
  ((snd p = [] \/ snd p = [LF]) -> forall c, fst p <> c ++ [CR]).

Fixpoint pieces_ok (ps : list (list N * list N)) : Prop :=
  match ps with
  | [] => True
  | p :: r => piece_ok p /\ (r <> [] -> is_lf_terminator (snd p)) /\ pieces_ok r
  end.

(* Rows n .. n+k-1 (one-based) are a well-formed excerpt of src for location loc. *)
Definition rows_wf (src : list N) (loc : N * N) (n : N) (k : nat) : Prop :=
  let L := line_locations src in
  1 <= n /\ n <= N.max 1 (len L) /\
  (N.to_nat (n - 1) + k <= length L)%nat /\
  if existsb (fun l => line_hits l loc) L
  then (0 < k)%nat /\
       (forall j, (j < k)%nat ->
          exists l, nth_error L (N.to_nat (n - 1) + j) = Some l /\ line_hits l loc = true) /\
       (* ... and the rows are the first maximal run of intersecting lines *)
       (forall j l, (j < N.to_nat (n - 1))%nat -> nth_error L j = Some l -> line_hits l loc = false) /\
       (forall l, nth_error L (N.to_nat (n - 1) + k) = Some l -> line_hits l loc = false)
  else match L with
       | [] => n = 1 /\ k = O
       | _ :: _ =>
           k = 1%nat /\
           exists l, nth_error L (N.to_nat (n - 1)) = Some l /\ fst l <= fst loc /\
                     forall j l', nth_error L j = Some l' -> fst l' <= fst loc ->
                                  (j <= N.to_nat (n - 1))%nat
       end.

(* The output format, as a total function of the first line number and the number of rows. *)
Definition layout_row (src : list N) (loc : N * N) (u : bool) (w : nat) (nl : N * (N * N)) : list N :=
  let num_str := to_string (fst nl) in
  pad (w - length num_str) ++ num_str ++ bar ++ sub src (fst (snd nl)) (snd (snd nl)) ++ [LF]
  ++ (if u then pad w ++ bar ++ underline_row loc (snd nl) ++ [LF] else []).

Definition layout (src : list N) (loc : N * N) (path : option (list N)) (u : bool) (n : N) (k : nat)
  : list N :=
  let L := firstn k (skipn (N.to_nat (n - 1)) (line_locations src)) in
  let w := match k with
           | O => 1%nat
           | S k' => length (to_string (n + N.of_nat k'))
           end in
  header w path n ++ gutter w
  ++ concat (map (layout_row src loc u w) (enumerate_from n L))
  ++ gutter w.

Definition excerpt_wf (src : list N) (loc : N * N) (path : option (list N)) (u : bool) (out : list N)
  : Prop :=
  exists n k, rows_wf src loc n k /\ first_line_number src loc = n /\ out = layout src loc path u n k.

(* Boolean oracles.  [excerpt_wf_b] judges what can be read off a real message: the line number
   after "--> path:" and the texts of the excerpt rows.  [rows_wf_b] additionally knows loc. *)

Fixpoint list_N_eqb (a b : list N) : bool :=
  match a, b with
  | [], [] => true
  | x :: a', y :: b' => (x =? y) && list_N_eqb a' b'
  | _, _ => false
  end.

Fixpoint texts_eqb (a b : list (list N)) : bool :=
  match a, b with
  | [], [] => true
  | x :: a', y :: b' => list_N_eqb x y && texts_eqb a' b'
  | _, _ => false
  end.

Definition excerpt_wf_b (src : list N) (n : N) (texts : list (list N)) : bool :=
  (1 <=? n) && (n <=? N.max 1 (len (line_locations src)))
  && texts_eqb texts (firstn (length texts) (skipn (N.to_nat (n - 1)) (line_texts src))).

Definition rows_wf_b (src : list N) (loc : N * N) (n : N) (k : nat) : bool :=
  let L := line_locations src in
  (1 <=? n) && (n <=? N.max 1 (len L)) && Nat.leb (N.to_nat (n - 1) + k) (length L)
  && (if existsb (fun l => line_hits l loc) L
      then Nat.ltb 0 k && forallb (fun l => line_hits l loc) (firstn k (skipn (N.to_nat (n - 1)) L))
           && forallb (fun l => negb (line_hits l loc)) (firstn (N.to_nat (n - 1)) L)
           && match nth_error L (N.to_nat (n - 1) + k) with
              | Some l => negb (line_hits l loc)
              | None => true
              end
      else match L with
           | [] => (n =? 1) && Nat.eqb k 0
           | _ :: _ =>
               Nat.eqb k 1
               && match nth_error L (N.to_nat (n - 1)) with
                  | None => false
                  | Some l =>
                      (fst l <=? fst loc)
                      && forallb (fun l' => negb (fst l' <=? fst loc)) (skipn (S (N.to_nat (n - 1))) L)
                  end
           end).

(* One-based line number of byte offset o of a text: one more than the number of LFs before it. *)
Definition count_lf (l : list N) : N := len (filter (fun c => c =? LF) l).
Definition line_number_of (text : list N) (o : N) : N := 1 + count_lf (firstn (N.to_nat o) text).

(* The position half of C11 for the model pipeline.  The parser sees [whipe_comments src]; every
   location it produces indexes that text.  The renderer is given the ORIGINAL src (build.rs:
   CompileErrorWithContext.source is the string read from the file).  Every byte of the text the parser
   sees -- also a CR or LF of a line terminator, where end-of-file errors point -- should be
   reported on the line it is on. *)
Definition position_stmt_for (whipe : list N -> list N) (src : list N) : Prop :=
  forall o, o < len (whipe src) ->
            first_line_number src (o, o + 1) = line_number_of (whipe src) o.

Definition position_stmt (src : list N) : Prop := position_stmt_for whipe_comments src.
