(* Facts about whipe_comments (build.rs, as repaired in commit 85b4372): comments are blanked byte for
   byte and terminators are kept, so every offset of the wiped text is the same offset of the
   original text, for every input. *)

From Coq Require Import List NArith Bool Lia PeanoNat Arith.
From SrcDisp Require Import Model FactsLines Facts.
Import ListNotations.
Open Scope N_scope.

(* b is a, or a blank that replaces a byte other than LF *)
Definition blank_rel (a b : N) : Prop := b = a \/ (b = SP /\ a <> LF).

(* ------------------------------------------------------------------------------------------ *)
(* split_inclusive, once more *)

Lemma split_nil_iff : forall s, split_inclusive s = [] -> s = [].
Proof.
  intros s H. rewrite <- (split_concat s). rewrite H. reflexivity.
Qed.

Lemma split_head_nonempty : forall s seg rest, split_inclusive s = seg :: rest -> seg <> [].
Proof.
  intros s seg rest H. pose proof (split_segs_ok s) as Hok. rewrite H in Hok.
  cbn [segs_ok] in Hok. destruct Hok as [[body [_ [Hs|[Hs [Hne _]]]]] _].
  - subst seg. destruct body; discriminate.
  - subst seg. exact Hne.
Qed.

Lemma split_app_line : forall a rest,
  ~ In LF a -> split_inclusive (a ++ LF :: rest) = (a ++ [LF]) :: split_inclusive rest.
Proof.
  induction a as [|c a IH]; intros rest H.
  - cbn [app split_inclusive]. change (LF =? LF) with true. reflexivity.
  - cbn [app split_inclusive].
    assert (Hc : c <> LF) by (intros E; apply H; left; exact E).
    apply N.eqb_neq in Hc. rewrite Hc.
    rewrite IH by (intros Hin; apply H; right; exact Hin). reflexivity.
Qed.

Lemma split_no_lf : forall l, ~ In LF l -> l <> [] -> split_inclusive l = [l].
Proof.
  induction l as [|c t IH]; intros H Hne; [exfalso; apply Hne; reflexivity|].
  cbn [split_inclusive].
  assert (Hc : c <> LF) by (intros E; apply H; left; exact E).
  apply N.eqb_neq in Hc. rewrite Hc.
  destruct t as [|y t']; [reflexivity|].
  rewrite IH; [reflexivity| |discriminate].
  intros Hin. apply H. right. exact Hin.
Qed.

(* ------------------------------------------------------------------------------------------ *)
(* whipe_line blanks bytes one for one *)

Lemma Forall2_nth_r : forall A B (R : A -> B -> Prop) a b o y,
  Forall2 R a b -> nth_error b o = Some y -> exists x, nth_error a o = Some x /\ R x y.
Proof.
  intros A B R a b o y H. revert o. induction H as [|x0 y0 a b Hxy Hab IH]; intros o Hn.
  - destruct o; discriminate Hn.
  - destruct o as [|o'].
    + cbn [nth_error] in *. inversion Hn. subst. exists x0. split; [reflexivity|exact Hxy].
    + cbn [nth_error] in *. exact (IH _ Hn).
Qed.

Lemma Forall2_firstn : forall A B (R : A -> B -> Prop) n a b,
  Forall2 R a b -> Forall2 R (firstn n a) (firstn n b).
Proof.
  intros A B R n. induction n as [|n IH]; intros a b H; [constructor|].
  destruct H as [|x y a b Hxy Hab]; [constructor|].
  cbn [firstn]. constructor; [exact Hxy|exact (IH _ _ Hab)].
Qed.

Lemma Forall2_same_length : forall A B (R : A -> B -> Prop) l l', Forall2 R l l' -> length l = length l'.
Proof. intros A B R l l' H. induction H as [|x y l l' _ _ IH]; [reflexivity|]. cbn [length]. rewrite IH. reflexivity. Qed.
Arguments Forall2_same_length {A B R l l'} _.

Lemma Forall2_blank_refl : forall l, Forall2 blank_rel l l.
Proof. induction l as [|x l IH]; constructor; [left; reflexivity|exact IH]. Qed.

Lemma Forall2_blank_spaces : forall l, ~ In LF l -> Forall2 blank_rel l (repeat SP (length l)).
Proof.
  induction l as [|x l IH]; intros H; [constructor|].
  cbn [length repeat]. constructor.
  - right. split; [reflexivity|]. intros E. apply H. left. exact E.
  - apply IH. intros Hin. apply H. right. exact Hin.
Qed.

Lemma whipe_line_blank : forall l, ~ In LF l -> Forall2 blank_rel l (whipe_line l).
Proof.
  intros l H. unfold whipe_line. destruct (find_comment l) as [i|]; [|apply Forall2_blank_refl].
  rewrite <- (firstn_skipn i l) at 1. apply Forall2_app; [apply Forall2_blank_refl|].
  rewrite <- skipn_length. apply Forall2_blank_spaces.
  intros Hin. apply H. rewrite <- (firstn_skipn i l). apply in_or_app. right. exact Hin.
Qed.

Lemma whipe_line_length : forall l, ~ In LF l -> length (whipe_line l) = length l.
Proof. intros l H. symmetry. exact (Forall2_same_length (whipe_line_blank l H)). Qed.

Lemma Forall2_blank_last_cr : forall a b' , Forall2 blank_rel a (b' ++ [CR]) -> exists a', a = a' ++ [CR].
Proof.
  intros a b' H. apply Forall2_app_inv_r in H. destruct H as [a1 [a2 [H1 [H2 E]]]].
  inversion H2 as [|x y l l' Hxy Hl]. subst. inversion Hl. subst.
  exists a1. destruct Hxy as [E|[E _]]; [subst x; reflexivity|discriminate E].
Qed.

(* ------------------------------------------------------------------------------------------ *)
(* whipe_comments, piece by piece *)

Definition wpiece (p : list N * list N) : list N * list N := (whipe_line (fst p), snd p).

Lemma whipe_as_pieces : forall src,
  whipe_comments src = concat (map piece_bytes (map wpiece (pieces src))).
Proof.
  intros src. unfold whipe_comments, pieces. rewrite !map_map. reflexivity.
Qed.

Lemma pieces_blank : forall ps,
  pieces_ok ps ->
  Forall2 blank_rel (concat (map piece_bytes ps)) (concat (map piece_bytes (map wpiece ps))).
Proof.
  induction ps as [|p r IH]; intros Hok; [constructor|].
  cbn [pieces_ok] in Hok. destruct Hok as [[Hp1 _] [_ Hr]].
  cbn [map concat]. apply Forall2_app; [|exact (IH Hr)].
  unfold piece_bytes, wpiece. cbn [fst snd].
  apply Forall2_app; [apply whipe_line_blank; exact Hp1|apply Forall2_blank_refl].
Qed.

(* The wiped text is the original with some bytes other than LF replaced by blanks: same length,
   same offsets, for every input. *)
Theorem whipe_preserves_offsets : forall src, Forall2 blank_rel src (whipe_comments src).
Proof.
  intros src. destruct (line_locations_pieces src) as [Hc [_ Hok]].
  rewrite whipe_as_pieces. rewrite <- Hc at 1. apply pieces_blank. exact Hok.
Qed.

Corollary whipe_length : forall src, length (whipe_comments src) = length src.
Proof. intros src. symmetry. exact (Forall2_same_length (whipe_preserves_offsets src)). Qed.

(* "A blank replacing a byte that is neither LF nor CR" is false: a lone CR inside a comment is
   content (it does not end a line) and is blanked like every other comment byte. *)
Definition blank_rel_strict (a b : N) : Prop := b = a \/ (b = SP /\ a <> LF /\ a <> CR).

Lemma whipe_blanks_only_non_cr_refuted : exists src, ~ Forall2 blank_rel_strict src (whipe_comments src).
Proof.
  exists [47; 47; 13; 120]. vm_compute. intros H.
  inversion H as [|x1 y1 l1 l1' _ H1]. subst. inversion H1 as [|x2 y2 l2 l2' _ H2]. subst.
  inversion H2 as [|x3 y3 l3 l3' H3 _]. subst.
  destruct H3 as [E|[_ [_ E]]]; [discriminate E|apply E; reflexivity].
Qed.

(* ------------------------------------------------------------------------------------------ *)
(* A well-formed decomposition determines the line table *)

Lemma line_content_piece : forall c t, piece_ok (c, t) -> line_content (c ++ t) = c.
Proof.
  intros c t [H1 [H2 [_ H4]]]. cbn [fst snd] in *. unfold line_content.
  destruct H2 as [Ht|[Ht|[Ht|Ht]]]; subst t.
  - rewrite app_nil_r.
    assert (E1 : strip_suffix LF c = None).
    { destruct (strip_suffix LF c) as [r|] eqn:E; [|reflexivity].
      apply strip_suffix_some in E. exfalso. exact (not_in_app_last _ _ _ H1 E). }
    rewrite E1. cbn [unwrap_or].
    destruct (strip_suffix CR c) as [r|] eqn:E; [|reflexivity].
    apply strip_suffix_some in E. exfalso. exact (H4 (or_introl eq_refl) r E).
  - rewrite strip_suffix_app. cbn [unwrap_or].
    destruct (strip_suffix CR c) as [r|] eqn:E; [|reflexivity].
    apply strip_suffix_some in E. exfalso. exact (H4 (or_intror eq_refl) r E).
  - assert (E1 : strip_suffix LF (c ++ [CR]) = None).
    { destruct (strip_suffix LF (c ++ [CR])) as [r|] eqn:E; [|reflexivity].
      apply strip_suffix_some in E. exfalso.
      assert (Hin : In LF (c ++ [CR])) by (rewrite E; apply in_or_app; right; left; reflexivity).
      apply in_app_or in Hin. destruct Hin as [Hin|[Hin|[]]]; [exact (H1 Hin)|discriminate Hin]. }
    rewrite E1. cbn [unwrap_or]. rewrite strip_suffix_app. reflexivity.
  - replace (c ++ [CR; LF]) with ((c ++ [CR]) ++ [LF]) by (rewrite <- app_assoc; reflexivity).
    rewrite strip_suffix_app. cbn [unwrap_or]. rewrite strip_suffix_app. reflexivity.
Qed.

Lemma lf_terminator_split : forall t,
  is_lf_terminator t -> exists t', t = t' ++ [LF] /\ (t' = [] \/ t' = [CR]).
Proof.
  intros t [H|H]; subst t; [exists []|exists [CR]]; split; try reflexivity; [left|right]; reflexivity.
Qed.

Lemma line_locs_of_pieces : forall ps pos,
  pieces_ok ps ->
  line_locs_from pos (split_inclusive (concat (map piece_bytes ps))) = locs_of pos ps.
Proof.
  induction ps as [|p r IH]; intros pos Hok; [reflexivity|].
  cbn [pieces_ok] in Hok. destruct Hok as [Hp [Hterm Hr]].
  destruct p as [c t]. pose proof (line_content_piece c t Hp) as Hlc.
  destruct Hp as [H1 [H2 [H3 H4]]]. cbn [fst snd] in *.
  cbn [map concat locs_of]. unfold piece_bytes at 1. cbn [fst snd].
  assert (Hcases : is_lf_terminator t \/ (r = [] /\ ~ In LF (c ++ t))).
  { destruct H2 as [Ht|[Ht|[Ht|Ht]]]; subst t.
    - right. split.
      + destruct r as [|q r']; [reflexivity|].
        assert (Hne : q :: r' <> []) by discriminate. destruct (Hterm Hne) as [H0|H0]; discriminate H0.
      + rewrite app_nil_r. exact H1.
    - left. left. reflexivity.
    - right. split.
      + destruct r as [|q r']; [reflexivity|].
        assert (Hne : q :: r' <> []) by discriminate. destruct (Hterm Hne) as [H0|H0]; discriminate H0.
      + intros Hin. apply in_app_or in Hin. destruct Hin as [Hin|[Hin|[]]]; [exact (H1 Hin)|discriminate Hin].
    - left. right. reflexivity. }
  destruct Hcases as [Hlf|[Hr0 Hnolf]].
  - destruct (lf_terminator_split _ Hlf) as [t' [Ht Ht']].
    assert (Hnolf : ~ In LF (c ++ t')).
    { intros Hin. apply in_app_or in Hin. destruct Hin as [Hin|Hin]; [exact (H1 Hin)|].
      destruct Ht' as [E|E]; subst t'; [destruct Hin|].
      destruct Hin as [Hin|[]]. discriminate Hin. }
    replace ((c ++ t) ++ concat (map piece_bytes r)) with ((c ++ t') ++ LF :: concat (map piece_bytes r)).
    2:{ rewrite Ht. rewrite <- !app_assoc. reflexivity. }
    rewrite split_app_line by exact Hnolf.
    cbn [line_locs_from].
    replace ((c ++ t') ++ [LF]) with (c ++ t) by (rewrite Ht, app_assoc; reflexivity).
    rewrite Hlc. unfold piece_bytes at 2. cbn [fst snd].
    rewrite IH by exact Hr. reflexivity.
  - subst r. cbn [map concat locs_of]. rewrite app_nil_r.
    rewrite split_no_lf by assumption.
    cbn [line_locs_from]. rewrite Hlc. reflexivity.
Qed.

Lemma line_locations_of_pieces : forall ps,
  pieces_ok ps -> line_locations (concat (map piece_bytes ps)) = locs_of 0 ps.
Proof. intros ps H. apply line_locs_of_pieces. exact H. Qed.

Lemma wpiece_ok : forall p, piece_ok p -> piece_ok (wpiece p).
Proof.
  intros [c t] [H1 [H2 [H3 H4]]]. cbn [fst snd] in *.
  pose proof (whipe_line_blank c H1) as Hb.
  unfold piece_ok, wpiece. cbn [fst snd]. split.
  - intros Hin. apply In_nth_error in Hin. destruct Hin as [o Ho].
    destruct (Forall2_nth_r _ _ _ _ _ _ _ Hb Ho) as [x [Hx Hxy]].
    destruct Hxy as [E|[E _]]; [|discriminate E].
    apply H1. rewrite E. exact (nth_error_In _ _ Hx).
  - split; [exact H2|]. split.
    + unfold piece_bytes in *. cbn [fst snd] in *. intros E.
      apply H3. apply app_eq_nil in E. destruct E as [E1 E2].
      assert (Hl : length c = 0%nat) by (rewrite <- (whipe_line_length c H1), E1; reflexivity).
      destruct c; [|discriminate Hl]. rewrite E2. reflexivity.
    + intros Ht c' E. rewrite E in Hb.
      destruct (Forall2_blank_last_cr _ _ Hb) as [a' Ha]. exact (H4 Ht a' Ha).
Qed.

Lemma wpieces_ok : forall ps, pieces_ok ps -> pieces_ok (map wpiece ps).
Proof.
  induction ps as [|p r IH]; intros Hok; [exact I|].
  cbn [pieces_ok] in Hok. destruct Hok as [Hp [Hterm Hr]].
  cbn [map pieces_ok]. split; [exact (wpiece_ok _ Hp)|]. split; [|exact (IH Hr)].
  intros Hne. apply Hterm. intros E. apply Hne. rewrite E. reflexivity.
Qed.

Lemma wpieces_locs : forall ps pos, pieces_ok ps -> locs_of pos (map wpiece ps) = locs_of pos ps.
Proof.
  induction ps as [|p r IH]; intros pos Hok; [reflexivity|].
  cbn [pieces_ok] in Hok. destruct Hok as [[H1 _] [_ Hr]].
  cbn [map locs_of]. unfold piece_bytes, wpiece, len. cbn [fst snd].
  rewrite app_length, (whipe_line_length _ H1), <- app_length.
  rewrite (IH _ Hr). reflexivity.
Qed.

(* The parser's line table (over the wiped text) is the line table of the original text. *)
Theorem whipe_line_table : forall src, line_locations (whipe_comments src) = line_locations src.
Proof.
  intros src. destruct (line_locations_pieces src) as [_ [Hl Hok]].
  rewrite whipe_as_pieces.
  rewrite (line_locations_of_pieces _ (wpieces_ok _ Hok)).
  rewrite (wpieces_locs _ _ Hok). symmetry. exact Hl.
Qed.

(* ------------------------------------------------------------------------------------------ *)
(* A diagnostic for a byte of the wiped text is reported on the line that byte is on *)

Lemma blank_rel_lf : forall a b, blank_rel a b -> (b =? LF) = (a =? LF).
Proof.
  intros a b [H|[H1 H2]].
  - subst. reflexivity.
  - subst b. apply N.eqb_neq in H2. rewrite H2. reflexivity.
Qed.

Lemma count_lf_blank : forall a b, Forall2 blank_rel a b -> count_lf b = count_lf a.
Proof.
  intros a b H. unfold count_lf. induction H as [|x y a b Hxy Hab IH]; [reflexivity|].
  cbn [filter]. rewrite (blank_rel_lf _ _ Hxy). destruct (x =? LF).
  - rewrite !len_cons. rewrite IH. reflexivity.
  - exact IH.
Qed.

Theorem position_full : forall src, position_stmt src.
Proof.
  intros src o Ho.
  pose proof (whipe_preserves_offsets src) as H.
  assert (Hlen : len (whipe_comments src) = len src) by (unfold len; rewrite whipe_length; reflexivity).
  rewrite Hlen in Ho.
  rewrite (position_of_byte src o Ho).
  unfold line_number_of. f_equal.
  symmetry. apply count_lf_blank. apply Forall2_firstn. exact H.
Qed.
