(* Facts about whipe_comments (build.rs): which offsets survive the comment blanking. *)

From Coq Require Import List NArith Bool Lia PeanoNat Arith.
From SrcDisp Require Import Model FactsLines.
Import ListNotations.
Open Scope N_scope.

(* The text without one final "\n" *)
Definition chomp (s : list N) : list N := unwrap_or (strip_suffix LF s) s.

(* b is a, or a blank that replaces a byte other than LF *)
Definition blank_rel (a b : N) : Prop := b = a \/ (b = SP /\ a <> LF).

(* ------------------------------------------------------------------------------------------ *)
(* split_inclusive, once more *)

Lemma split_nil_iff : forall s, split_inclusive s = [] -> s = [].
Proof.
  intros s H. rewrite <- (split_concat s). rewrite H. reflexivity.
Qed.

Lemma split_head_nonempty : forall s seg rest, split_inclusive s = seg :: rest -> seg <> [].
Proof.
  intros s seg rest H. pose proof (split_segs_ok s) as Hok. rewrite H in Hok.
  cbn [segs_ok] in Hok. destruct Hok as [[body [_ [Hs|[Hs [Hne _]]]]] _].
  - subst seg. destruct body; discriminate.
  - subst seg. exact Hne.
Qed.

Lemma split_app_line : forall a rest,
  ~ In LF a -> split_inclusive (a ++ LF :: rest) = (a ++ [LF]) :: split_inclusive rest.
Proof.
  induction a as [|c a IH]; intros rest H.
  - cbn [app split_inclusive]. change (LF =? LF) with true. reflexivity.
  - cbn [app split_inclusive].
    assert (Hc : c <> LF) by (intros E; apply H; left; exact E).
    apply N.eqb_neq in Hc. rewrite Hc.
    rewrite IH by (intros Hin; apply H; right; exact Hin). reflexivity.
Qed.

(* ------------------------------------------------------------------------------------------ *)
(* str_lines and join_lf for CR-free text *)

Lemma strip_suffix_cons : forall b x y t,
  strip_suffix b (x :: y :: t) = option_map (cons x) (strip_suffix b (y :: t)).
Proof. reflexivity. Qed.

Lemma str_line_cons : forall c seg,
  seg <> [] -> c <> CR -> str_line (c :: seg) = c :: str_line seg.
Proof.
  intros c seg Hne Hc. destruct seg as [|y t]; [exfalso; apply Hne; reflexivity|].
  unfold str_line. rewrite strip_suffix_cons.
  destruct (strip_suffix LF (y :: t)) as [l|] eqn:E; cbn [option_map]; [|reflexivity].
  destruct l as [|z l'].
  - cbn [strip_suffix unwrap_or]. apply N.eqb_neq in Hc. rewrite Hc. reflexivity.
  - rewrite strip_suffix_cons.
    destruct (strip_suffix CR (z :: l')); reflexivity.
Qed.

Lemma chomp_cons : forall c t, t <> [] -> chomp (c :: t) = c :: chomp t.
Proof.
  intros c t Hne. destruct t as [|y t']; [exfalso; apply Hne; reflexivity|].
  unfold chomp. rewrite strip_suffix_cons.
  destruct (strip_suffix LF (y :: t')); reflexivity.
Qed.

Lemma join_lf_cons_cons : forall c l ls, join_lf ((c :: l) :: ls) = c :: join_lf (l :: ls).
Proof. intros c l ls. cbn [join_lf]. destruct ls; reflexivity. Qed.

Lemma join_str_lines_lf : forall s, ~ In CR s -> join_lf (str_lines s) = chomp s.
Proof.
  induction s as [|c t IH]; intros H.
  - reflexivity.
  - assert (Ht : ~ In CR t) by (intros Hin; apply H; right; exact Hin).
    assert (Hc : c <> CR) by (intros E; apply H; left; exact E).
    specialize (IH Ht). unfold str_lines in *. cbn [split_inclusive].
    destruct (c =? LF) eqn:E.
    + apply N.eqb_eq in E. subst c. cbn [map].
      change (str_line [LF]) with (@nil N).
      destruct t as [|y t'].
      * reflexivity.
      * rewrite chomp_cons by discriminate. rewrite <- IH.
        destruct (split_inclusive (y :: t')) as [|seg rest] eqn:S.
        -- apply split_nil_iff in S. discriminate S.
        -- reflexivity.
    + destruct (split_inclusive t) as [|seg rest] eqn:S.
      * apply split_nil_iff in S. subst t. cbn [map].
        unfold str_line, chomp. cbn [strip_suffix]. rewrite E. reflexivity.
      * assert (Hseg : seg <> []) by exact (split_head_nonempty _ _ _ S).
        assert (Htne : t <> []) by (intros E0; subst t; discriminate S).
        cbn [map] in *. rewrite str_line_cons by assumption.
        rewrite join_lf_cons_cons, IH. rewrite chomp_cons by exact Htne. reflexivity.
Qed.

Lemma segs_ok_in : forall segs seg,
  segs_ok segs -> In seg segs -> exists body, ~ In LF body /\ (seg = body ++ [LF] \/ seg = body).
Proof.
  induction segs as [|x r IH]; intros seg Hok Hin; [destruct Hin|].
  cbn [segs_ok] in Hok. destruct Hok as [[body [Hb Hs]] Hr]. destruct Hin as [Hin|Hin].
  - subst x. exists body. split; [exact Hb|]. destruct Hs as [Hs|[Hs _]]; [left|right]; exact Hs.
  - exact (IH _ Hr Hin).
Qed.

Lemma str_lines_no_lf : forall s l, In l (str_lines s) -> ~ In LF l.
Proof.
  intros s l H. unfold str_lines in H. apply in_map_iff in H. destruct H as [seg [Hl Hin]].
  pose proof (split_segs_ok s) as Hok.
  pose proof (segs_ok_in _ _ Hok Hin) as Hseg.
  destruct Hseg as [body [Hb [Hs|Hs]]]; subst seg l; unfold str_line.
  - rewrite strip_suffix_app.
    destruct (strip_suffix CR body) as [c|] eqn:E; cbn [unwrap_or]; [|exact Hb].
    apply strip_suffix_some in E. subst body. intros Hc. apply Hb. apply in_or_app. left. exact Hc.
  - destruct (strip_suffix LF body) as [r|] eqn:E; [|exact Hb].
    apply strip_suffix_some in E. exfalso. exact (not_in_app_last _ _ _ Hb E).
Qed.

(* ------------------------------------------------------------------------------------------ *)
(* whipe_line blanks bytes one for one *)

Lemma Forall2_same_length : forall A B (R : A -> B -> Prop) l l', Forall2 R l l' -> length l = length l'.
Proof. intros A B R l l' H. induction H as [|x y l l' _ _ IH]; [reflexivity|]. cbn [length]. rewrite IH. reflexivity. Qed.
Arguments Forall2_same_length {A B R l l'} _.

Lemma Forall2_blank_refl : forall l, Forall2 blank_rel l l.
Proof. induction l as [|x l IH]; constructor; [left; reflexivity|exact IH]. Qed.

Lemma Forall2_blank_spaces : forall l, ~ In LF l -> Forall2 blank_rel l (repeat SP (length l)).
Proof.
  induction l as [|x l IH]; intros H; [constructor|].
  cbn [length repeat]. constructor.
  - right. split; [reflexivity|]. intros E. apply H. left. exact E.
  - apply IH. intros Hin. apply H. right. exact Hin.
Qed.

Lemma whipe_line_blank : forall l, ~ In LF l -> Forall2 blank_rel l (whipe_line l).
Proof.
  intros l H. unfold whipe_line. destruct (find_comment l) as [i|]; [|apply Forall2_blank_refl].
  rewrite <- (firstn_skipn i l) at 1. apply Forall2_app; [apply Forall2_blank_refl|].
  rewrite <- skipn_length. apply Forall2_blank_spaces.
  intros Hin. apply H. rewrite <- (firstn_skipn i l). apply in_or_app. right. exact Hin.
Qed.

Lemma join_lf_Forall2 : forall ls ls',
  Forall2 (Forall2 blank_rel) ls ls' -> Forall2 blank_rel (join_lf ls) (join_lf ls').
Proof.
  intros ls ls' H. induction H as [|l l' r r' Hl Hr IH]; [constructor|].
  cbn [join_lf]. destruct Hr as [|l2 l2' r2 r2' Hl2 Hr2].
  - exact Hl.
  - apply Forall2_app; [exact Hl|]. constructor; [left; reflexivity|exact IH].
Qed.

(* For text without CR: the wiped text is the original minus one final "\n", with some bytes other
   than LF replaced by blanks.  In particular the two have the same length, agree on where the LFs
   are, and every offset denotes the same position of the same line in both. *)
Theorem whipe_preserves_offsets_lf : forall src,
  ~ In CR src -> Forall2 blank_rel (chomp src) (whipe_comments src).
Proof.
  intros src H. rewrite <- (join_str_lines_lf src H). unfold whipe_comments.
  apply join_lf_Forall2.
  assert (Hall : forall l, In l (str_lines src) -> ~ In LF l) by (apply str_lines_no_lf).
  revert Hall. generalize (str_lines src). induction l as [|x r IH]; intros Hall; [constructor|].
  cbn [map]. constructor.
  - apply whipe_line_blank. apply Hall. left. reflexivity.
  - apply IH. intros l Hl. apply Hall. right. exact Hl.
Qed.

Corollary whipe_length_lf : forall src, ~ In CR src -> length (whipe_comments src) = length (chomp src).
Proof.
  intros src H. symmetry. exact (Forall2_same_length (whipe_preserves_offsets_lf src H)).
Qed.

(* ------------------------------------------------------------------------------------------ *)
(* Blanking does not move the line table *)

Lemma blank_rel_lf : forall a b, blank_rel a b -> (b =? LF) = (a =? LF).
Proof.
  intros a b [H|[H1 H2]].
  - subst. reflexivity.
  - subst b. apply N.eqb_neq in H2. rewrite H2. reflexivity.
Qed.

Lemma split_blank : forall a b,
  Forall2 blank_rel a b ->
  Forall2 (Forall2 blank_rel) (split_inclusive a) (split_inclusive b).
Proof.
  intros a b H. induction H as [|x y a b Hxy Hab IH]; [constructor|].
  cbn [split_inclusive]. rewrite (blank_rel_lf _ _ Hxy).
  destruct (x =? LF).
  - constructor; [|exact IH]. constructor; [exact Hxy|constructor].
  - destruct IH as [|s s' r r' Hs Hr].
    + constructor; [|constructor]. constructor; [exact Hxy|constructor].
    + constructor; [|exact Hr]. constructor; [exact Hxy|exact Hs].
Qed.

Lemma strip_suffix_lf_blank : forall a b,
  Forall2 blank_rel a b ->
  match strip_suffix LF a, strip_suffix LF b with
  | Some a', Some b' => Forall2 blank_rel a' b'
  | None, None => True
  | _, _ => False
  end.
Proof.
  intros a b H. induction H as [|x y a b Hxy Hab IH]; [exact I|].
  destruct Hab as [|x2 y2 a2 b2 Hxy2 Hab2].
  - cbn [strip_suffix]. rewrite (blank_rel_lf _ _ Hxy). destruct (x =? LF); [constructor|exact I].
  - rewrite !strip_suffix_cons.
    destruct (strip_suffix LF (x2 :: a2)) as [a'|]; destruct (strip_suffix LF (y2 :: b2)) as [b'|];
      cbn [option_map]; try exact IH.
    constructor; [exact Hxy|exact IH].
Qed.

Lemma strip_suffix_cr_none : forall l, ~ In CR l -> strip_suffix CR l = None.
Proof.
  intros l H. destruct (strip_suffix CR l) as [r|] eqn:E; [|reflexivity].
  apply strip_suffix_some in E. exfalso. exact (not_in_app_last _ _ _ H E).
Qed.

Lemma blank_rel_no_cr : forall a b, Forall2 blank_rel a b -> ~ In CR a -> ~ In CR b.
Proof.
  intros a b H. induction H as [|x y a b Hxy Hab IH]; intros Ha Hin; [destruct Hin|].
  destruct Hin as [Hin|Hin].
  - destruct Hxy as [E|[E _]].
    + apply Ha. left. congruence.
    + subst y. discriminate Hin.
  - apply IH; [|exact Hin]. intros H0. apply Ha. right. exact H0.
Qed.

Lemma line_content_length_blank : forall a b,
  Forall2 blank_rel a b -> ~ In CR a ->
  length (line_content a) = length (line_content b).
Proof.
  intros a b H Ha. pose proof (blank_rel_no_cr _ _ H Ha) as Hb.
  pose proof (strip_suffix_lf_blank _ _ H) as Hs. unfold line_content.
  destruct (strip_suffix LF a) as [a'|] eqn:Ea; destruct (strip_suffix LF b) as [b'|] eqn:Eb;
    try (exfalso; exact Hs); cbn [unwrap_or].
  - apply strip_suffix_some in Ea. apply strip_suffix_some in Eb.
    assert (Ha' : ~ In CR a') by (intros Hin; apply Ha; rewrite Ea; apply in_or_app; left; exact Hin).
    assert (Hb' : ~ In CR b') by (intros Hin; apply Hb; rewrite Eb; apply in_or_app; left; exact Hin).
    rewrite (strip_suffix_cr_none _ Ha'), (strip_suffix_cr_none _ Hb'). cbn [unwrap_or].
    exact (Forall2_same_length Hs).
  - rewrite (strip_suffix_cr_none _ Ha), (strip_suffix_cr_none _ Hb). cbn [unwrap_or].
    exact (Forall2_same_length H).
Qed.

Lemma line_locs_from_blank : forall segs segs' pos,
  Forall2 (Forall2 blank_rel) segs segs' ->
  (forall seg, In seg segs -> ~ In CR seg) ->
  line_locs_from pos segs' = line_locs_from pos segs.
Proof.
  intros segs segs' pos H. revert pos. induction H as [|s s' r r' Hs Hr IH]; intros pos Hcr.
  - reflexivity.
  - cbn [line_locs_from].
    assert (Hs0 : ~ In CR s) by (apply Hcr; left; reflexivity).
    unfold len. rewrite <- (line_content_length_blank _ _ Hs Hs0).
    rewrite <- (Forall2_same_length Hs). f_equal. apply IH.
    intros seg Hin. apply Hcr. right. exact Hin.
Qed.

Lemma line_locations_blank : forall a b,
  Forall2 blank_rel a b -> ~ In CR a -> line_locations b = line_locations a.
Proof.
  intros a b H Ha. unfold line_locations. apply line_locs_from_blank.
  - apply split_blank. exact H.
  - intros seg Hin Hcr. apply Ha. rewrite <- (split_concat a).
    apply in_concat. exists seg. split; assumption.
Qed.

(* The parser's line table (over the wiped text) is the line table of the original text minus its
   final "\n". *)
Theorem whipe_line_table_lf : forall src,
  ~ In CR src -> line_locations (whipe_comments src) = line_locations (chomp src).
Proof.
  intros src H. apply line_locations_blank; [apply whipe_preserves_offsets_lf; exact H|].
  unfold chomp. destruct (strip_suffix LF src) as [r|] eqn:E; cbn [unwrap_or]; [|exact H].
  apply strip_suffix_some in E. intros Hin. apply H. rewrite E. apply in_or_app. left. exact Hin.
Qed.

(* ------------------------------------------------------------------------------------------ *)
(* With CRLF the offsets do move: each "\r\n" line loses one byte. *)

Lemma find_comment_none_whipe : forall l, find_comment l = None -> whipe_line l = l.
Proof. intros l H. unfold whipe_line. rewrite H. reflexivity. Qed.

Lemma str_lines_nonempty : forall s, s <> [] -> str_lines s <> [].
Proof.
  intros s H E. unfold str_lines in E. apply map_eq_nil in E. apply split_nil_iff in E. exact (H E).
Qed.

Theorem whipe_crlf_line : forall a rest,
  ~ In LF a -> find_comment a = None -> rest <> [] ->
  whipe_comments (a ++ CR :: LF :: rest) = a ++ LF :: whipe_comments rest.
Proof.
  intros a rest Ha Hc Hr. unfold whipe_comments, str_lines.
  replace (a ++ CR :: LF :: rest) with ((a ++ [CR]) ++ LF :: rest) by (rewrite <- app_assoc; reflexivity).
  rewrite split_app_line.
  2:{ intros Hin. apply in_app_or in Hin. destruct Hin as [Hin|[Hin|[]]]; [exact (Ha Hin)|discriminate Hin]. }
  cbn [map].
  assert (Hl : str_line ((a ++ [CR]) ++ [LF]) = a).
  { unfold str_line. rewrite strip_suffix_app. rewrite strip_suffix_app. reflexivity. }
  rewrite Hl. rewrite (find_comment_none_whipe _ Hc).
  pose proof (str_lines_nonempty rest Hr) as Hne. unfold str_lines in Hne.
  destruct (map str_line (split_inclusive rest)) as [|x r]; [exfalso; apply Hne; reflexivity|].
  reflexivity.
Qed.

Theorem whipe_lf_line : forall a rest,
  ~ In LF a -> ~ In CR a -> find_comment a = None -> rest <> [] ->
  whipe_comments (a ++ LF :: rest) = a ++ LF :: whipe_comments rest.
Proof.
  intros a rest Ha Hcr Hc Hr. unfold whipe_comments, str_lines.
  rewrite split_app_line by exact Ha. cbn [map].
  assert (Hl : str_line (a ++ [LF]) = a).
  { unfold str_line. rewrite strip_suffix_app. rewrite (strip_suffix_cr_none _ Hcr). reflexivity. }
  rewrite Hl. rewrite (find_comment_none_whipe _ Hc).
  pose proof (str_lines_nonempty rest Hr) as Hne. unfold str_lines in Hne.
  destruct (map str_line (split_inclusive rest)) as [|x r]; [exfalso; apply Hne; reflexivity|].
  reflexivity.
Qed.
