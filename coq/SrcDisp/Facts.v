(* Facts about line selection and rendering: the renderer is total and its output is the layout of a
   well-formed excerpt. *)

From Coq Require Import List NArith Bool Lia PeanoNat Arith.
From SrcDisp Require Import Model FactsLines.
Import ListNotations.
Open Scope N_scope.

(* ------------------------------------------------------------------------------------------ *)
(* Iterator adaptors *)

Lemma take_while_firstn : forall A (p : A -> bool) l,
  take_while p l = firstn (length (take_while p l)) l.
Proof.
  intros A p l. induction l as [|x t IH]; [reflexivity|].
  cbn [take_while]. destruct (p x) eqn:E; [|reflexivity].
  cbn [length firstn]. rewrite <- IH. reflexivity.
Qed.

Lemma skip_while_skipn : forall A (p : A -> bool) l,
  skip_while p l = skipn (length (take_while p l)) l.
Proof.
  intros A p l. induction l as [|x t IH]; [reflexivity|].
  cbn [take_while skip_while]. destruct (p x) eqn:E; [|reflexivity].
  cbn [length skipn]. exact IH.
Qed.

Lemma take_while_all : forall A (p : A -> bool) l x, In x (take_while p l) -> p x = true.
Proof.
  intros A p l. induction l as [|y t IH]; intros x H; [destruct H|].
  cbn [take_while] in H. destruct (p y) eqn:E; [|destruct H].
  destruct H as [H|H]; [subst; exact E|exact (IH _ H)].
Qed.

Lemma take_while_next : forall A (p : A -> bool) l x,
  nth_error l (length (take_while p l)) = Some x -> p x = false.
Proof.
  intros A p l. induction l as [|y t IH]; intros x H; [discriminate H|].
  cbn [take_while] in H. destruct (p y) eqn:E.
  - cbn [length nth_error] in H. exact (IH _ H).
  - cbn [length nth_error] in H. inversion H. subst. exact E.
Qed.

Lemma take_while_length_le : forall A (p : A -> bool) l, (length (take_while p l) <= length l)%nat.
Proof.
  intros A p l. induction l as [|y t IH]; [apply Nat.le_refl|].
  cbn [take_while]. destruct (p y); cbn [length]; lia.
Qed.

Lemma take_while_none : forall A (p : A -> bool) l,
  (forall x, In x l -> p x = false) -> take_while p l = [].
Proof.
  intros A p l H. destruct l as [|y t]; [reflexivity|].
  cbn [take_while]. rewrite (H y (or_introl eq_refl)). reflexivity.
Qed.

Lemma take_while_full : forall A (p : A -> bool) l,
  (forall x, In x l -> p x = true) -> take_while p l = l.
Proof.
  intros A p l. induction l as [|y t IH]; intros H; [reflexivity|].
  cbn [take_while]. rewrite (H y (or_introl eq_refl)).
  rewrite IH; [reflexivity|]. intros x Hx. apply H. right. exact Hx.
Qed.

Lemma last_opt_nth : forall A (l : list A), l <> [] -> last_opt l = nth_error l (length l - 1).
Proof.
  intros A l. induction l as [|x t IH]; intros H; [exfalso; apply H; reflexivity|].
  cbn [last_opt]. destruct t as [|y t'].
  - reflexivity.
  - rewrite IH by discriminate.
    replace (length (x :: y :: t') - 1)%nat with (S (length (y :: t') - 1)) by (cbn [length]; lia).
    reflexivity.
Qed.

Lemma nth_error_firstn_some : forall A k (l : list A) j x,
  nth_error (firstn k l) j = Some x -> nth_error l j = Some x /\ (j < k)%nat.
Proof.
  intros A k. induction k as [|k IH]; intros l j x H.
  - cbn [firstn] in H. destruct j; discriminate H.
  - destruct l as [|y t]; [destruct j; discriminate H|].
    cbn [firstn] in H. destruct j as [|j'].
    + cbn [nth_error] in *. split; [exact H|lia].
    + cbn [nth_error] in *. destruct (IH _ _ _ H) as [H1 H2]. split; [exact H1|lia].
Qed.

Lemma nth_error_firstn_lt : forall A k (l : list A) j,
  (j < k)%nat -> nth_error (firstn k l) j = nth_error l j.
Proof.
  intros A k. induction k as [|k IH]; intros l j H; [lia|].
  destruct l as [|y t]; [reflexivity|].
  cbn [firstn]. destruct j as [|j']; [reflexivity|].
  cbn [nth_error]. apply IH. lia.
Qed.

Lemma nth_error_skipn_add : forall A i (l : list A) j, nth_error (skipn i l) j = nth_error l (i + j).
Proof.
  intros A i. induction i as [|i IH]; intros l j; [reflexivity|].
  destruct l as [|y t]; [destruct j; reflexivity|].
  cbn [skipn Nat.add nth_error]. apply IH.
Qed.

(* ------------------------------------------------------------------------------------------ *)
(* enumerate_from *)

Lemma enumerate_length : forall A (l : list A) i, length (enumerate_from i l) = length l.
Proof. intros A l. induction l as [|x t IH]; intros i; [reflexivity|]. cbn [enumerate_from length]. rewrite IH. reflexivity. Qed.

Lemma enumerate_nth : forall A (l : list A) i j,
  nth_error (enumerate_from i l) j =
  match nth_error l j with Some x => Some (i + N.of_nat j, x) | None => None end.
Proof.
  intros A l. induction l as [|x t IH]; intros i j.
  - destruct j; reflexivity.
  - destruct j as [|j'].
    + cbn [enumerate_from nth_error]. f_equal. f_equal. lia.
    + cbn [enumerate_from nth_error]. rewrite IH.
      destruct (nth_error t j'); [|reflexivity]. f_equal. f_equal. lia.
Qed.

Lemma enumerate_in : forall A (l : list A) i n x, In (n, x) (enumerate_from i l) -> In x l.
Proof.
  intros A l. induction l as [|y t IH]; intros i n x H; [destruct H|].
  cbn [enumerate_from] in H. destruct H as [H|H].
  - inversion H. left. reflexivity.
  - right. exact (IH _ _ _ H).
Qed.

Lemma enumerate_skipn : forall A j (l : list A) i,
  skipn j (enumerate_from i l) = enumerate_from (i + N.of_nat j) (skipn j l).
Proof.
  intros A j. induction j as [|j IH]; intros l i.
  - cbn [skipn]. f_equal. lia.
  - destruct l as [|x t]; [reflexivity|].
    cbn [enumerate_from skipn]. rewrite IH. f_equal. lia.
Qed.

Lemma enumerate_firstn : forall A k (l : list A) i,
  firstn k (enumerate_from i l) = enumerate_from i (firstn k l).
Proof.
  intros A k. induction k as [|k IH]; intros l i; [reflexivity|].
  destruct l as [|x t]; [reflexivity|].
  cbn [enumerate_from firstn]. rewrite IH. reflexivity.
Qed.

Lemma enumerate_map_succ : forall A (l : list A) i,
  map (fun il : N * A => (fst il + 1, snd il)) (enumerate_from i l) = enumerate_from (i + 1) l.
Proof.
  intros A l. induction l as [|x t IH]; intros i; [reflexivity|].
  cbn [enumerate_from map fst snd]. rewrite IH. reflexivity.
Qed.

Lemma enumerate_max : forall A (l : list A) i,
  list_max_opt (map fst (enumerate_from i l)) =
  match l with [] => None | _ :: t => Some (i + len t) end.
Proof.
  intros A l. induction l as [|x t IH]; intros i; [reflexivity|].
  cbn [enumerate_from map fst list_max_opt]. rewrite IH.
  destruct t as [|y t'].
  - rewrite len_nil. f_equal. lia.
  - f_equal. rewrite (len_cons _ y t'). lia.
Qed.

(* ------------------------------------------------------------------------------------------ *)
(* Decimal digits *)

Lemma digits_fuel_eq : forall f n,
  digits_fuel f n =
  if n <? 10 then [48 + n]
  else match f with
       | O => [48 + n mod 10]
       | S f' => digits_fuel f' (n / 10) ++ [48 + n mod 10]
       end.
Proof. intros f n. destruct f; reflexivity. Qed.

Lemma digits_fuel_length_pos : forall f n, (1 <= length (digits_fuel f n))%nat.
Proof.
  intros f n. rewrite digits_fuel_eq. destruct (n <? 10); [cbn; lia|].
  destruct f; [cbn; lia|]. rewrite app_length. cbn [length]. lia.
Qed.

Lemma digits_fuel_length_mono : forall f a b,
  a <= b -> (length (digits_fuel f a) <= length (digits_fuel f b))%nat.
Proof.
  induction f as [|f IH]; intros a b Hab.
  - rewrite (digits_fuel_eq 0 a), (digits_fuel_eq 0 b).
    destruct (a <? 10); destruct (b <? 10); cbn; lia.
  - rewrite (digits_fuel_eq (S f) a).
    destruct (a <? 10) eqn:Ea; [cbn [length]; apply digits_fuel_length_pos|].
    rewrite (digits_fuel_eq (S f) b).
    apply N.ltb_ge in Ea.
    destruct (b <? 10) eqn:Eb; [apply N.ltb_lt in Eb; lia|].
    rewrite !app_length. cbn [length].
    assert (Hd : a / 10 <= b / 10) by (apply N.div_le_mono; lia).
    specialize (IH _ _ Hd). lia.
Qed.

Lemma to_string_length_mono : forall a b, a <= b -> (length (to_string a) <= length (to_string b))%nat.
Proof. intros a b H. apply digits_fuel_length_mono. exact H. Qed.

(* Exactness of the decimal rendering for every number below 10^20 (every usize). *)
Definition decode_digits (l : list N) : N := fold_left (fun acc d => 10 * acc + (d - 48)) l 0.

Lemma decode_digits_snoc : forall l d, decode_digits (l ++ [d]) = 10 * decode_digits l + (d - 48).
Proof. intros l d. unfold decode_digits. rewrite fold_left_app. reflexivity. Qed.

Lemma digits_fuel_value : forall f n,
  n < 10 ^ N.of_nat (S f) ->
  decode_digits (digits_fuel f n) = n /\ Forall (fun d => 48 <= d <= 57) (digits_fuel f n).
Proof.
  induction f as [|f IH]; intros n Hn.
  - change (10 ^ N.of_nat 1) with 10 in Hn. rewrite digits_fuel_eq.
    apply N.ltb_lt in Hn. rewrite Hn. apply N.ltb_lt in Hn.
    split; [unfold decode_digits; cbn [fold_left]; lia|].
    constructor; [lia|constructor].
  - rewrite digits_fuel_eq. destruct (n <? 10) eqn:E.
    + apply N.ltb_lt in E. split; [unfold decode_digits; cbn [fold_left]; lia|].
      constructor; [lia|constructor].
    + assert (Hd : n / 10 < 10 ^ N.of_nat (S f)).
      { apply N.div_lt_upper_bound; [lia|].
        replace (N.of_nat (S (S f))) with (N.succ (N.of_nat (S f))) in Hn by lia.
        rewrite N.pow_succ_r in Hn by lia. exact Hn. }
      destruct (IH _ Hd) as [IH1 IH2].
      pose proof (N.mod_lt n 10 ltac:(lia)) as Hm.
      pose proof (N.div_mod n 10 ltac:(lia)) as Hdm.
      clear Hn Hd IH E.
      set (q := n / 10) in *. set (r := n mod 10) in *.
      split.
      * rewrite decode_digits_snoc, IH1.
        lia.
      * apply Forall_app. split; [exact IH2|]. constructor; [lia|constructor].
Qed.

Lemma to_string_value : forall n,
  n < 10 ^ 20 ->
  decode_digits (to_string n) = n /\ Forall (fun d => 48 <= d <= 57) (to_string n).
Proof. intros n H. apply digits_fuel_value. exact H. Qed.

(* ------------------------------------------------------------------------------------------ *)
(* The selected lines are a block of consecutive lines satisfying rows_wf *)

Lemma existsb_false_all : forall A (p : A -> bool) l, existsb p l = false -> forall x, In x l -> p x = false.
Proof.
  intros A p l H x Hx. destruct (p x) eqn:E; [|reflexivity].
  assert (Ht : existsb p l = true) by (apply existsb_exists; exists x; split; assumption).
  rewrite Ht in H. discriminate H.
Qed.

Lemma skip_while_exists : forall A (q : A -> bool) l,
  (exists x, In x l /\ q x = false) -> exists x r, skip_while q l = x :: r /\ q x = false.
Proof.
  intros A q l. induction l as [|y t IH]; intros [x [Hin Hx]]; [destruct Hin|].
  cbn [skip_while]. destruct (q y) eqn:E.
  - apply IH. destruct Hin as [Hin|Hin]; [subst; rewrite Hx in E; discriminate E|].
    exists x. split; assumption.
  - exists y, t. split; [reflexivity|exact E].
Qed.

Lemma enumerate_in_rev : forall A (l : list A) i x, In x l -> exists n, In (n, x) (enumerate_from i l).
Proof.
  intros A l. induction l as [|y t IH]; intros i x H; [destruct H|].
  cbn [enumerate_from]. destruct H as [H|H].
  - subst. exists i. left. reflexivity.
  - destruct (IH (i + 1) _ H) as [n Hn]. exists n. right. exact Hn.
Qed.

Lemma selection_block : forall loc src,
  exists i0 k,
    intersecting_line_locations loc src
      = enumerate_from (N.of_nat i0) (firstn k (skipn i0 (line_locations src))) /\
    (i0 + k <= length (line_locations src))%nat /\
    (k = O -> i0 = O) /\
    rows_wf src loc (N.of_nat i0 + 1) k.
Proof.
  intros loc src. unfold intersecting_line_locations, rows_wf.
  set (L := line_locations src).
  set (hits := fun il : N * (N * N) => line_hits (snd il) loc).
  set (E := enumerate_from 0 L).
  replace (N.to_nat (N.of_nat 0 + 1 - 1)) with O by lia.
  destruct (existsb (fun l => line_hits l loc) L) eqn:Hex.
  - (* some line intersects loc *)
    set (j := length (take_while (fun il => negb (hits il)) E)).
    set (X := skip_while (fun il => negb (hits il)) E).
    set (k := length (take_while hits X)).
    assert (HX : X = enumerate_from (N.of_nat j) (skipn j L)).
    { unfold X. rewrite skip_while_skipn. fold j. unfold E. rewrite enumerate_skipn. f_equal. }
    assert (Hsel : take_while hits X = enumerate_from (N.of_nat j) (firstn k (skipn j L))).
    { rewrite take_while_firstn. fold k. rewrite HX. apply enumerate_firstn. }
    assert (Hj : (j <= length L)%nat).
    { unfold j. pose proof (take_while_length_le _ (fun il => negb (hits il)) E) as H.
      unfold E in H at 2. rewrite enumerate_length in H. exact H. }
    assert (Hk : (k <= length L - j)%nat).
    { unfold k. pose proof (take_while_length_le _ hits X) as H.
      rewrite HX in H at 2. rewrite enumerate_length, skipn_length in H. exact H. }
    assert (Hkpos : (0 < k)%nat).
    { apply existsb_exists in Hex. destruct Hex as [l [Hl Hi]].
      destruct (enumerate_in_rev _ L 0 l Hl) as [n Hn]. fold E in Hn.
      assert (Hq : exists x, In x E /\ negb (hits x) = false).
      { exists (n, l). split; [exact Hn|]. unfold hits. cbn [snd]. rewrite Hi. reflexivity. }
      destruct (skip_while_exists _ _ _ Hq) as [x [r [Hxr Hx]]]. fold X in Hxr.
      unfold k. rewrite Hxr. cbn [take_while]. apply negb_false_iff in Hx. rewrite Hx.
      cbn [length]. lia. }
    exists j, k. rewrite app_nil_r. cbn [opt_list].
    split; [exact Hsel|]. split; [lia|]. split; [lia|].
    replace (N.to_nat (N.of_nat j + 1 - 1)) with j by lia.
    split; [lia|]. split.
    { apply N.max_le_iff. right. unfold len. lia. }
    split; [lia|]. split; [exact Hkpos|]. split; [|split].
    + intros q Hq.
      destruct (nth_error L (j + q)) as [l|] eqn:Hl.
      2:{ apply nth_error_None in Hl. lia. }
      exists l. split; [reflexivity|].
      assert (Hin : In (N.of_nat j + N.of_nat q, l) (take_while hits X)).
      { rewrite Hsel. apply (nth_error_In _ q). rewrite enumerate_nth.
        rewrite nth_error_firstn_lt by exact Hq. rewrite nth_error_skipn_add, Hl. reflexivity. }
      apply take_while_all in Hin. exact Hin.
    + intros q l Hq Hl.
      assert (Hin : In (0 + N.of_nat q, l) (take_while (fun il => negb (hits il)) E)).
      { rewrite take_while_firstn. fold j. apply (nth_error_In _ q).
        rewrite nth_error_firstn_lt by exact Hq. unfold E. rewrite enumerate_nth, Hl. reflexivity. }
      apply take_while_all in Hin. unfold hits in Hin. cbn [snd] in Hin.
      apply negb_true_iff in Hin. exact Hin.
    + intros l Hl.
      assert (Hnext : hits (N.of_nat j + N.of_nat k, l) = false).
      { apply (take_while_next _ hits X). fold k. rewrite HX. rewrite enumerate_nth.
        rewrite nth_error_skipn_add, Hl. reflexivity. }
      exact Hnext.
  - (* no line intersects loc: fallback *)
    pose proof (existsb_false_all _ _ _ Hex) as Hnone.
    assert (Hskip : skip_while (fun il => negb (hits il)) E = []).
    { rewrite skip_while_skipn. rewrite take_while_full.
      - unfold E. apply skipn_all.
      - intros [n l] Hin. unfold E in Hin. apply enumerate_in in Hin.
        unfold hits. cbn [snd]. rewrite (Hnone _ Hin). reflexivity. }
    unfold hits in Hskip at 1. cbv beta in Hskip. rewrite Hskip. cbn [take_while app].
    set (Q := fun il : N * (N * N) => (fst il =? 0) || (fst (snd il) <=? fst loc)).
    destruct L as [|l0 L'] eqn:EL.
    + exists O, O. cbn. split; [reflexivity|]. split; [lia|]. split; [reflexivity|].
      split; [lia|]. split; [lia|]. split; [lia|]. split; reflexivity.
    + set (T := take_while Q E).
      set (m := length T).
      assert (Hm1 : (1 <= m)%nat).
      { unfold m, T, E. cbn [enumerate_from take_while]. unfold Q at 1. cbn [fst].
        rewrite N.eqb_refl. cbn [orb length]. lia. }
      assert (Hm2 : (m <= length L)%nat).
      { unfold m, T. pose proof (take_while_length_le _ Q E) as H.
        unfold E in H at 2. rewrite enumerate_length in H. rewrite EL. exact H. }
      assert (HT : T = firstn m E) by (unfold T, m; apply take_while_firstn).
      assert (Hne : T <> []) by (intros H0; unfold m in Hm1; rewrite H0 in Hm1; cbn in Hm1; lia).
      destruct (nth_error L (m - 1)) as [l|] eqn:Hl.
      2:{ apply nth_error_None in Hl. lia. }
      assert (Hlast : last_opt T = Some (N.of_nat (m - 1), l)).
      { rewrite last_opt_nth by exact Hne. fold m. rewrite HT.
        rewrite nth_error_firstn_lt by lia. unfold E. rewrite enumerate_nth.
        rewrite <- EL. rewrite Hl. reflexivity. }
      fold E. fold T. rewrite Hlast. cbn [opt_list].
      exists (m - 1)%nat, 1%nat.
      split.
      { rewrite <- EL.
        assert (Hs : firstn 1 (skipn (m - 1) L) = [l]).
        { pose proof (nth_error_skipn_add _ (m - 1)%nat L O) as H. rewrite Nat.add_0_r, Hl in H.
          destruct (skipn (m - 1) L) as [|y r]; [discriminate H|].
          cbn [nth_error] in H. inversion H. reflexivity. }
        rewrite Hs. reflexivity. }
      rewrite <- EL.
      split; [lia|]. split; [lia|].
      replace (N.to_nat (N.of_nat (m - 1) + 1 - 1)) with (m - 1)%nat by lia.
      split; [lia|]. split.
      { apply N.max_le_iff. right. unfold len. lia. }
      split; [lia|].
      rewrite EL. split; [reflexivity|]. rewrite <- EL.
      exists l. split; [exact Hl|].
      assert (HQl : Q (N.of_nat (m - 1), l) = true).
      { apply (take_while_all _ Q E). fold T. rewrite HT.
        apply (nth_error_In _ (m - 1)). rewrite nth_error_firstn_lt by lia.
        unfold E. rewrite enumerate_nth, <- EL, Hl. reflexivity. }
      split.
      * unfold Q in HQl. cbn [fst snd] in HQl. apply orb_true_iff in HQl.
        destruct HQl as [H0|H0].
        -- apply N.eqb_eq in H0. assert (Hm0 : (m - 1 = 0)%nat) by lia.
           rewrite Hm0 in Hl. unfold L in Hl. rewrite (line_first _ _ Hl). lia.
        -- apply N.leb_le in H0. exact H0.
      * intros q l' Hq Hle.
        destruct (Nat.le_gt_cases q (m - 1)) as [Hc|Hc]; [exact Hc|exfalso].
        assert (Hqlen : (q < length L)%nat) by (apply nth_error_Some; rewrite Hq; discriminate).
        destruct (nth_error L m) as [lm|] eqn:Hlm.
        2:{ apply nth_error_None in Hlm. lia. }
        assert (HQm : Q (0 + N.of_nat m, lm) = false).
        { apply (take_while_next _ Q E). fold T. fold m. unfold E. rewrite enumerate_nth.
          rewrite <- EL, Hlm. reflexivity. }
        unfold Q in HQm. cbn [fst snd] in HQm. apply orb_false_iff in HQm.
        destruct HQm as [_ HQm]. apply N.leb_gt in HQm.
        assert (Hmono : fst lm <= fst l').
        { unfold L in Hlm, Hq. apply (line_begins_mono src m q); [lia|exact Hlm|exact Hq]. }
        lia.
Qed.

(* ------------------------------------------------------------------------------------------ *)
(* Rendering never panics *)

Lemma In_firstn_skipn : forall A k i (l : list A) x, In x (firstn k (skipn i l)) -> In x l.
Proof.
  intros A k i l x H. apply In_nth_error in H. destruct H as [j Hj].
  apply nth_error_firstn_some in Hj. destruct Hj as [Hj _].
  rewrite nth_error_skipn_add in Hj. exact (nth_error_In _ _ Hj).
Qed.

Lemma render_rows_ok : forall src loc u w rows,
  (forall nl, In nl rows ->
     In (snd nl) (line_locations src) /\ (length (to_string (fst nl)) <= w)%nat) ->
  render_rows src loc u w rows = Some (concat (map (layout_row src loc u w) rows)).
Proof.
  intros src loc u w rows. induction rows as [|r t IH]; intros H; [reflexivity|].
  cbn [render_rows map concat].
  destruct (H r (or_introl eq_refl)) as [Hin Hw].
  assert (Hrow : render_row src loc u w r = Some (layout_row src loc u w r)).
  { unfold render_row, layout_row, pad_to.
    apply Nat.leb_le in Hw. rewrite Hw.
    rewrite (slice_line _ _ Hin). rewrite <- app_assoc. reflexivity. }
  rewrite Hrow. rewrite IH; [reflexivity|].
  intros nl Hnl. apply H. right. exact Hnl.
Qed.

Theorem render_total : forall src loc path u,
  exists out, render src loc path u = Some out /\ excerpt_wf src loc path u out.
Proof.
  intros src loc path u.
  destruct (selection_block loc src) as [i0 [k [Hsel [Hle [Hk0 Hwf]]]]].
  set (L := line_locations src) in *.
  set (n := N.of_nat i0 + 1) in *.
  set (X := firstn k (skipn i0 L)) in *.
  assert (Hnl : nums_locs loc src = enumerate_from n X).
  { unfold nums_locs. rewrite Hsel. apply enumerate_map_succ. }
  assert (HlenX : length X = k).
  { unfold X. rewrite firstn_length, skipn_length. lia. }
  assert (Hi0 : N.to_nat (n - 1) = i0) by (unfold n; lia).
  unfold render, excerpt_wf, first_line_number. rewrite Hnl.
  destruct k as [|k'].
  - (* no rows: the source has no lines *)
    assert (HX : X = []) by (destruct X; [reflexivity|discriminate HlenX]).
    assert (H0 : i0 = O) by (apply Hk0; reflexivity).
    assert (Hn1 : n = 1) by (unfold n; lia).
    rewrite HX. cbn [enumerate_from render_rows].
    eexists. split; [reflexivity|].
    exists n, O. split; [exact Hwf|]. split; [rewrite Hn1; reflexivity|].
    unfold layout. cbn [firstn enumerate_from map concat]. rewrite Hn1. reflexivity.
  - destruct X as [|x t] eqn:EX; [discriminate HlenX|].
    assert (Hlt : length t = k') by (cbn [length] in HlenX; lia).
    set (w := length (to_string (n + N.of_nat k'))).
    assert (Hw : num_width (enumerate_from n (x :: t)) = w).
    { unfold num_width. rewrite enumerate_max. unfold w, len. rewrite Hlt. reflexivity. }
    rewrite Hw.
    rewrite render_rows_ok.
    + eexists. split; [reflexivity|].
      exists n, (S k'). split; [exact Hwf|].
      split; [reflexivity|].
      unfold layout. fold w. rewrite Hi0. fold L. fold X. rewrite EX. reflexivity.
    + intros [num l] Hin. cbn [fst snd].
      apply In_nth_error in Hin. destruct Hin as [q Hq].
      rewrite enumerate_nth in Hq.
      destruct (nth_error (x :: t) q) as [l'|] eqn:Hl'; [|discriminate Hq].
      inversion Hq. subst l'. clear Hq.
      split.
      * apply nth_error_In in Hl'. rewrite <- EX in Hl'. unfold X in Hl'.
        exact (In_firstn_skipn _ _ _ _ _ Hl').
      * apply to_string_length_mono.
        assert (Hq : (q < length (x :: t))%nat) by (apply nth_error_Some; rewrite Hl'; discriminate).
        cbn [length] in Hq. lia.
Qed.

(* The underflow check of the padding and the bounds check of the slice, separately *)
Corollary render_never_panics : forall src loc path u, render src loc path u <> None.
Proof.
  intros src loc path u H. destruct (render_total src loc path u) as [out [E _]].
  rewrite E in H. discriminate H.
Qed.

(* With a path, the output is the output without a path preceded by the pointer line. *)
Lemma render_path_split : forall src loc p u out,
  render src loc None u = Some out ->
  render src loc (Some p) u =
  Some (pad (num_width (nums_locs loc src)) ++ arrow ++ p ++ colon
        ++ to_string (first_line_number src loc) ++ [LF] ++ out).
Proof.
  intros src loc p u out H. unfold render in *.
  destruct (render_rows src loc u (num_width (nums_locs loc src)) (nums_locs loc src)) as [rows|];
    [|discriminate H].
  inversion H. subst out. unfold header, first_line_number. cbn [app].
  rewrite <- !app_assoc. reflexivity.
Qed.

(* ------------------------------------------------------------------------------------------ *)
(* What rows_wf says about the printed texts: complete lines of src *)

Lemma rows_complete_lines : forall src loc n k j,
  rows_wf src loc n k -> (j < k)%nat ->
  exists l before c t after,
    nth_error (line_locations src) (N.to_nat (n - 1) + j) = Some l /\
    src = before ++ c ++ t ++ after /\
    sub src (fst l) (snd l) = c /\
    fst l = len before /\
    piece_ok (c, t) /\
    (after <> [] -> is_lf_terminator t) /\
    (before = [] \/ exists b', before = b' ++ [LF]).
Proof.
  intros src loc n k j [_ [_ [Hlen _]]] Hj.
  destruct (nth_error (line_locations src) (N.to_nat (n - 1) + j)) as [l|] eqn:Hl.
  2:{ apply nth_error_None in Hl. lia. }
  destruct (line_at _ _ _ Hl) as [before [c [t [after [E [Ef [Es [Hp [Ha Hb]]]]]]]]].
  exists l, before, c, t, after. split; [reflexivity|]. split; [exact E|].
  split.
  - rewrite Ef, Es. rewrite E at 1. apply sub_app_mid.
  - split; [exact Ef|]. split; [exact Hp|]. split; [exact Ha|exact Hb].
Qed.

(* ------------------------------------------------------------------------------------------ *)
(* Soundness of the boolean oracles *)

Lemma list_N_eqb_eq : forall a b, list_N_eqb a b = true -> a = b.
Proof.
  induction a as [|x a IH]; intros b H; destruct b as [|y b]; try discriminate H; [reflexivity|].
  cbn [list_N_eqb] in H. apply andb_true_iff in H. destruct H as [H1 H2].
  apply N.eqb_eq in H1. subst y. rewrite (IH _ H2). reflexivity.
Qed.

Lemma list_N_eqb_refl : forall a, list_N_eqb a a = true.
Proof. induction a as [|x a IH]; [reflexivity|]. cbn [list_N_eqb]. rewrite N.eqb_refl. exact IH. Qed.

Lemma texts_eqb_eq : forall a b, texts_eqb a b = true -> a = b.
Proof.
  induction a as [|x a IH]; intros b H; destruct b as [|y b]; try discriminate H; [reflexivity|].
  cbn [texts_eqb] in H. apply andb_true_iff in H. destruct H as [H1 H2].
  apply list_N_eqb_eq in H1. subst y. rewrite (IH _ H2). reflexivity.
Qed.

Lemma texts_eqb_refl : forall a, texts_eqb a a = true.
Proof. induction a as [|x a IH]; [reflexivity|]. cbn [texts_eqb]. rewrite list_N_eqb_refl. exact IH. Qed.

(* What the oracle on (line number, row texts) establishes: the number is inside the file and the
   rows are the complete texts of consecutive lines starting at that number. *)
Definition excerpt_texts_wf (src : list N) (n : N) (texts : list (list N)) : Prop :=
  1 <= n /\ n <= N.max 1 (len (line_locations src)) /\
  forall j t, nth_error texts j = Some t ->
    exists l before c term after,
      nth_error (line_locations src) (N.to_nat (n - 1) + j) = Some l /\
      src = before ++ c ++ term ++ after /\ t = c /\ fst l = len before /\
      piece_ok (c, term) /\
      (after <> [] -> is_lf_terminator term) /\
      (before = [] \/ exists b', before = b' ++ [LF]).

Theorem excerpt_wf_b_sound : forall src n texts,
  excerpt_wf_b src n texts = true -> excerpt_texts_wf src n texts.
Proof.
  intros src n texts H. unfold excerpt_wf_b in H.
  apply andb_true_iff in H. destruct H as [H H3].
  apply andb_true_iff in H. destruct H as [H1 H2].
  apply N.leb_le in H1. apply N.leb_le in H2. apply texts_eqb_eq in H3.
  split; [exact H1|]. split; [exact H2|].
  intros j t Hj. rewrite H3 in Hj.
  apply nth_error_firstn_some in Hj. destruct Hj as [Hj _].
  rewrite nth_error_skipn_add in Hj. unfold line_texts in Hj.
  rewrite nth_error_map in Hj.
  destruct (nth_error (line_locations src) (N.to_nat (n - 1) + j)) as [l|] eqn:Hl;
    [|discriminate Hj].
  cbn [option_map] in Hj. inversion Hj as [Ht]. clear Hj.
  destruct (line_at _ _ _ Hl) as [before [c [term [after [E [Ef [Es [Hp [Ha Hb]]]]]]]]].
  exists l, before, c, term, after. split; [reflexivity|]. split; [exact E|].
  split.
  - rewrite Ef, Es. rewrite E at 1. apply sub_app_mid.
  - split; [exact Ef|]. split; [exact Hp|]. split; [exact Ha|exact Hb].
Qed.

(* The oracle accepts exactly the rows the model prints. *)
Lemma excerpt_wf_b_complete : forall src loc n k,
  rows_wf src loc n k ->
  excerpt_wf_b src n (firstn k (skipn (N.to_nat (n - 1)) (line_texts src))) = true.
Proof.
  intros src loc n k [H1 [H2 [H3 _]]]. unfold excerpt_wf_b.
  apply N.leb_le in H1. apply N.leb_le in H2. rewrite H1, H2. cbn [andb].
  rewrite firstn_length, skipn_length. unfold line_texts. rewrite map_length.
  replace (Nat.min k (length (line_locations src) - N.to_nat (n - 1))) with k by lia.
  apply texts_eqb_refl.
Qed.

Lemma forallb_nth : forall A (p : A -> bool) l i x,
  forallb p l = true -> nth_error l i = Some x -> p x = true.
Proof.
  intros A p l i x H Hn. rewrite forallb_forall in H. apply H. exact (nth_error_In _ _ Hn).
Qed.

Theorem rows_wf_b_sound : forall src loc n k, rows_wf_b src loc n k = true -> rows_wf src loc n k.
Proof.
  intros src loc n k H. unfold rows_wf_b in H. unfold rows_wf.
  set (L := line_locations src) in *.
  apply andb_true_iff in H. destruct H as [H H4].
  apply andb_true_iff in H. destruct H as [H H3].
  apply andb_true_iff in H. destruct H as [H1 H2].
  apply N.leb_le in H1. apply N.leb_le in H2. apply Nat.leb_le in H3.
  split; [exact H1|]. split; [exact H2|]. split; [exact H3|].
  destruct (existsb (fun l => line_hits l loc) L) eqn:Hex.
  - apply andb_true_iff in H4. destruct H4 as [H4 Hafter].
    apply andb_true_iff in H4. destruct H4 as [H4 Hbefore].
    apply andb_true_iff in H4. destruct H4 as [Hk Hall]. apply Nat.ltb_lt in Hk.
    split; [exact Hk|]. split; [|split].
    + intros j Hj.
      destruct (nth_error L (N.to_nat (n - 1) + j)) as [l|] eqn:Hl.
      2:{ apply nth_error_None in Hl. lia. }
      exists l. split; [reflexivity|].
      apply (forallb_nth _ _ _ j l Hall).
      rewrite nth_error_firstn_lt by exact Hj. rewrite nth_error_skipn_add. exact Hl.
    + intros j l Hj Hl.
      assert (Hl' : nth_error (firstn (N.to_nat (n - 1)) L) j = Some l).
      { rewrite nth_error_firstn_lt by exact Hj. exact Hl. }
      pose proof (forallb_nth _ _ _ _ _ Hbefore Hl') as Hf. cbv beta in Hf.
      apply negb_true_iff in Hf. exact Hf.
    + intros l Hl. rewrite Hl in Hafter. apply negb_true_iff in Hafter. exact Hafter.
  - destruct L as [|l0 L'] eqn:EL.
    + apply andb_true_iff in H4. destruct H4 as [Hn Hk].
      apply N.eqb_eq in Hn. apply Nat.eqb_eq in Hk. split; assumption.
    + rewrite <- EL in *.
      apply andb_true_iff in H4. destruct H4 as [Hk Hrest]. apply Nat.eqb_eq in Hk.
      split; [exact Hk|].
      destruct (nth_error L (N.to_nat (n - 1))) as [l|] eqn:Hl; [|discriminate Hrest].
      apply andb_true_iff in Hrest. destruct Hrest as [Hle Hall]. apply N.leb_le in Hle.
      exists l. split; [reflexivity|]. split; [exact Hle|].
      intros j l' Hj Hle'.
      destruct (Nat.le_gt_cases j (N.to_nat (n - 1))) as [Hc|Hc]; [exact Hc|exfalso].
      assert (Hj' : nth_error (skipn (S (N.to_nat (n - 1))) L) (j - S (N.to_nat (n - 1))) = Some l').
      { rewrite nth_error_skipn_add. rewrite <- Hj. f_equal. lia. }
      pose proof (forallb_nth _ _ _ _ _ Hall Hj') as Hf. cbv beta in Hf.
      apply negb_true_iff in Hf. apply N.leb_gt in Hf. lia.
Qed.

(* ------------------------------------------------------------------------------------------ *)
(* The reported line number is the line the byte is on *)

Lemma first_line_number_of_hit : forall src loc i l,
  nth_error (line_locations src) i = Some l ->
  line_hits l loc = true ->
  (forall j lj, (j < i)%nat -> nth_error (line_locations src) j = Some lj -> line_hits lj loc = false) ->
  first_line_number src loc = N.of_nat i + 1.
Proof.
  intros src loc i l Hl Hi Hbefore.
  destruct (render_total src loc None false) as [out [_ [n [k [Hwf [Hn _]]]]]].
  rewrite Hn. unfold rows_wf in Hwf.
  destruct Hwf as [H1 [H2 [H3 H4]]].
  assert (Hex : existsb (fun l0 => line_hits l0 loc) (line_locations src) = true).
  { apply existsb_exists. exists l. split; [exact (nth_error_In _ _ Hl)|exact Hi]. }
  rewrite Hex in H4. destruct H4 as [Hk [Hrows [Hfirst _]]].
  destruct (Hrows O Hk) as [l0 [Hl0 Hi0]]. rewrite Nat.add_0_r in Hl0.
  destruct (Nat.lt_trichotomy (N.to_nat (n - 1)) i) as [Hlt|[Heq|Hgt]].
  - rewrite (Hbefore _ _ Hlt Hl0) in Hi0. discriminate Hi0.
  - lia.
  - rewrite (Hfirst _ _ Hgt Hl) in Hi. discriminate Hi.
Qed.

Lemma hits_byte_inside : forall l o, fst l <= o -> o < snd l -> line_hits l (o, o + 1) = true.
Proof.
  intros [b e] o H1 H2. cbn [fst snd] in *. unfold line_hits, intersects, intersect, loc_is_empty. cbn [fst snd].
  assert (E1 : (b =? e) = false) by (apply N.eqb_neq; lia).
  assert (E2 : (o =? o + 1) = false) by (apply N.eqb_neq; lia).
  rewrite E1, E2. cbn [negb andb].
  assert (E3 : (N.max b o <? N.min e (o + 1)) = true) by (apply N.ltb_lt; lia).
  rewrite E3. reflexivity.
Qed.

(* a line that ends at or before o, other than an empty line at o itself *)
Lemma hits_byte_after : forall l o,
  snd l <= o -> fst l <= snd l -> (fst l = snd l -> snd l < o) -> line_hits l (o, o + 1) = false.
Proof.
  intros [b e] o H1 H2 H3. cbn [fst snd] in *. unfold line_hits, intersects, intersect, loc_is_empty. cbn [fst snd].
  assert (E2 : (o =? o + 1) = false) by (apply N.eqb_neq; lia).
  rewrite E2. destruct (b =? e) eqn:E1; cbn [negb andb].
  - apply N.eqb_eq in E1. specialize (H3 E1).
    assert (E3 : (o <=? b) = false) by (apply N.leb_gt; lia).
    rewrite E3. reflexivity.
  - apply N.eqb_neq in E1.
    assert (E3 : (N.max b o <? N.min e (o + 1)) = false) by (apply N.ltb_ge; lia).
    rewrite E3. reflexivity.
Qed.

Lemma hits_byte_empty_at : forall l o, fst l = o -> snd l = o -> line_hits l (o, o + 1) = true.
Proof.
  intros [b e] o H1 H2. cbn [fst snd] in *. subst b e. unfold line_hits, loc_is_empty. cbn [fst snd].
  rewrite N.eqb_refl.
  assert (E2 : (o =? o + 1) = false) by (apply N.eqb_neq; lia).
  rewrite E2. cbn [negb andb].
  assert (E3 : (o <=? o) = true) by (apply N.leb_le; lia).
  assert (E4 : (o <? o + 1) = true) by (apply N.ltb_lt; lia).
  rewrite E3, E4. reflexivity.
Qed.

(* a line that begins after o: also an empty line right behind the location does not count *)
Lemma hits_byte_before : forall l o, o + 1 <= fst l -> fst l <= snd l -> line_hits l (o, o + 1) = false.
Proof.
  intros [b e] o H1 H2. cbn [fst snd] in *. unfold line_hits, intersects, intersect, loc_is_empty. cbn [fst snd].
  assert (E2 : (o =? o + 1) = false) by (apply N.eqb_neq; lia).
  rewrite E2. destruct (b =? e) eqn:E1; cbn [negb andb].
  - assert (E3 : (b <? o + 1) = false) by (apply N.ltb_ge; lia).
    rewrite E3. apply andb_false_r.
  - assert (E3 : (N.max b o <? N.min e (o + 1)) = false) by (apply N.ltb_ge; lia).
    rewrite E3. reflexivity.
Qed.

Lemma first_line_number_fallback : forall src loc i l,
  (forall l', In l' (line_locations src) -> line_hits l' loc = false) ->
  nth_error (line_locations src) i = Some l ->
  fst l <= fst loc ->
  (forall j lj, (i < j)%nat -> nth_error (line_locations src) j = Some lj -> fst loc < fst lj) ->
  first_line_number src loc = N.of_nat i + 1.
Proof.
  intros src loc i l Hnone Hl Hle Hlater.
  destruct (render_total src loc None false) as [out [_ [n [k [Hwf [Hn _]]]]]].
  rewrite Hn. unfold rows_wf in Hwf.
  destruct Hwf as [H1 [H2 [H3 H4]]].
  assert (Hex : existsb (fun l0 => line_hits l0 loc) (line_locations src) = false).
  { destruct (existsb (fun l0 => line_hits l0 loc) (line_locations src)) eqn:E; [|reflexivity].
    apply existsb_exists in E. destruct E as [l' [Hin Hi]]. rewrite (Hnone _ Hin) in Hi. discriminate Hi. }
  rewrite Hex in H4.
  destruct (line_locations src) as [|l0 L'] eqn:EL; [destruct i; discriminate Hl|].
  destruct H4 as [_ [lr [Hlr [Hlrle Hmax]]]].
  pose proof (Hmax _ _ Hl Hle) as Hi.
  destruct (Nat.eq_dec i (N.to_nat (n - 1))) as [E|E]; [lia|].
  assert (Hlt : (i < N.to_nat (n - 1))%nat) by lia.
  pose proof (Hlater _ _ Hlt Hlr) as Hc. lia.
Qed.

(* no line is hit: the fallback picks line i *)
Lemma position_fallback : forall src o i l,
  nth_error (line_locations src) i = Some l ->
  fst l <= o ->
  (forall j lj, (j < i)%nat -> nth_error (line_locations src) j = Some lj -> line_hits lj (o, o + 1) = false) ->
  (forall j lj, (i < j)%nat -> nth_error (line_locations src) j = Some lj -> o + 1 <= fst lj) ->
  line_hits l (o, o + 1) = false ->
  first_line_number src (o, o + 1) = N.of_nat i + 1.
Proof.
  intros src o i l Hl Hle Hbefore Hlater Hself.
  apply (first_line_number_fallback src (o, o + 1) i l); [|exact Hl|exact Hle|].
  - intros l' Hin. apply In_nth_error in Hin. destruct Hin as [j Hj].
    destruct (Nat.lt_trichotomy j i) as [Hlt|[Heq|Hgt]].
    + exact (Hbefore _ _ Hlt Hj).
    + subst j. rewrite Hl in Hj. inversion Hj. subst l'. exact Hself.
    + apply hits_byte_before.
      * exact (Hlater _ _ Hgt Hj).
      * apply (line_bounds src). exact (nth_error_In _ _ Hj).
  - intros j lj Hj Hlj. cbn [fst]. pose proof (Hlater _ _ Hj Hlj). lia.
Qed.

(* A one-byte location at ANY byte of a text -- a byte of a token, a blank, the CR or the LF of a
   line terminator -- is reported on the line the byte is on: 1 + the number of LFs before it. *)
Theorem position_of_byte : forall src o,
  o < len src -> first_line_number src (o, o + 1) = line_number_of src o.
Proof.
  intros src o Ho.
  destruct (nth_error src (N.to_nat o)) as [c|] eqn:Hn.
  2:{ apply nth_error_None in Hn. unfold len in Ho. lia. }
  destruct (offset_line _ _ _ Hn) as [i [l [Hl [H1 [H3 H2]]]]].
  rewrite N2Nat.id in H1, H2.
  unfold line_number_of. rewrite H3.
  assert (Hb : fst l <= snd l) by (apply (line_bounds src); exact (nth_error_In _ _ Hl)).
  assert (Hbefore : forall j lj, (j < i)%nat -> nth_error (line_locations src) j = Some lj ->
                                 line_hits lj (o, o + 1) = false).
  { intros j lj Hj Hlj.
    pose proof (line_ascending _ _ _ _ _ Hj Hlj Hl) as Ha.
    apply hits_byte_after; [lia| |lia].
    apply (line_bounds src). exact (nth_error_In _ _ Hlj). }
  destruct H2 as [H2|[H2 Hlater]].
  - (* inside the line *)
    rewrite (first_line_number_of_hit src (o, o + 1) i l Hl); [lia| |exact Hbefore].
    apply hits_byte_inside; assumption.
  - (* a byte of the line's terminator *)
    destruct (N.eq_dec (snd l) o) as [Hat|Hnot].
    + destruct (N.eq_dec (fst l) (snd l)) as [Hempty|Hnonempty].
      * (* empty line whose terminator starts here: the line is inside the location *)
        rewrite (first_line_number_of_hit src (o, o + 1) i l Hl); [lia| |exact Hbefore].
        apply hits_byte_empty_at; lia.
      * rewrite (position_fallback src o i l Hl); [lia|lia|exact Hbefore|exact Hlater|].
        apply hits_byte_after; lia.
    + rewrite (position_fallback src o i l Hl); [lia|lia|exact Hbefore|exact Hlater|].
      apply hits_byte_after; lia.
Qed.
