(* Facts about the line table: split_inclusive, strip_suffix, line_locations. *)

From Coq Require Import List NArith Bool Lia PeanoNat Arith.
From SrcDisp Require Import Model.
Import ListNotations.
Open Scope N_scope.

(* ------------------------------------------------------------------------------------------ *)
(* len *)

Lemma len_nil : forall A, len (@nil A) = 0.
Proof. reflexivity. Qed.

Lemma len_cons : forall A (x : A) l, len (x :: l) = len l + 1.
Proof. intros A x l. unfold len. cbn [length]. lia. Qed.

Lemma len_app : forall A (a b : list A), len (a ++ b) = len a + len b.
Proof. intros A a b. unfold len. rewrite app_length. lia. Qed.

Lemma len_zero_nil : forall A (l : list A), len l = 0 -> l = [].
Proof. intros A l H. destruct l as [|x l]; [reflexivity|]. rewrite len_cons in H. lia. Qed.

(* ------------------------------------------------------------------------------------------ *)
(* strip_suffix *)

Lemma strip_suffix_some : forall b l r, strip_suffix b l = Some r -> l = r ++ [b].
Proof.
  intros b l. induction l as [|x t IH]; intros r H.
  - discriminate H.
  - cbn [strip_suffix] in H. destruct t as [|y t'].
    + destruct (x =? b) eqn:E; [|discriminate H].
      apply N.eqb_eq in E. inversion H. subst. reflexivity.
    + destruct (strip_suffix b (y :: t')) as [r'|] eqn:E; [|discriminate H].
      cbn [option_map] in H. inversion H. subst r.
      rewrite (IH r' eq_refl). reflexivity.
Qed.

Lemma strip_suffix_app : forall b r, strip_suffix b (r ++ [b]) = Some r.
Proof.
  intros b r. induction r as [|x r IH].
  - cbn. rewrite N.eqb_refl. reflexivity.
  - cbn [app strip_suffix]. destruct (r ++ [b]) as [|y t] eqn:E.
    + destruct r; discriminate E.
    + rewrite IH. reflexivity.
Qed.

Lemma strip_suffix_none : forall b l, strip_suffix b l = None -> forall r, l <> r ++ [b].
Proof.
  intros b l H r E. subst l. rewrite strip_suffix_app in H. discriminate H.
Qed.

(* ------------------------------------------------------------------------------------------ *)
(* split_inclusive *)

Lemma split_concat : forall s, concat (split_inclusive s) = s.
Proof.
  induction s as [|c t IH].
  - reflexivity.
  - cbn [split_inclusive]. destruct (c =? LF) eqn:E.
    + cbn [concat app]. rewrite IH. reflexivity.
    + destruct (split_inclusive t) as [|seg rest] eqn:S.
      * cbn in IH. subst t. reflexivity.
      * cbn [concat] in *. rewrite <- IH. reflexivity.
Qed.

(* Shape of the pieces: LF-free body followed by LF, or (only the last) a non-empty LF-free body. *)
Fixpoint segs_ok (segs : list (list N)) : Prop :=
  match segs with
  | [] => True
  | seg :: r =>
      (exists body, ~ In LF body /\ (seg = body ++ [LF] \/ (seg = body /\ body <> [] /\ r = [])))
      /\ segs_ok r
  end.

Lemma split_segs_ok : forall s, segs_ok (split_inclusive s).
Proof.
  induction s as [|c t IH].
  - exact I.
  - cbn [split_inclusive]. destruct (c =? LF) eqn:E.
    + apply N.eqb_eq in E. subst c. cbn [segs_ok]. split; [|exact IH].
      exists []. split; [intros []|]. left. reflexivity.
    + apply N.eqb_neq in E.
      destruct (split_inclusive t) as [|seg rest] eqn:S.
      * cbn [segs_ok]. split; [|exact I].
        exists [c]. split.
        -- intros [H|[]]. congruence.
        -- right. split; [reflexivity|]. split; [discriminate|reflexivity].
      * cbn [segs_ok] in *. destruct IH as [[body [Hb Hs]] Hr]. split; [|exact Hr].
        exists (c :: body). split.
        -- intros [H|H]; [congruence|exact (Hb H)].
        -- destruct Hs as [Hs|[Hs [Hne Hnil]]].
           ++ left. subst seg. reflexivity.
           ++ right. subst seg. split; [reflexivity|]. split; [discriminate|exact Hnil].
Qed.

(* ------------------------------------------------------------------------------------------ *)
(* From segments to (content, terminator) pieces *)

Definition to_piece (seg : list N) : list N * list N :=
  (line_content seg, skipn (length (line_content seg)) seg).

Lemma skipn_app_exact : forall A (a b : list A), skipn (length a) (a ++ b) = b.
Proof. intros A a b. induction a as [|x a IH]; [reflexivity|exact IH]. Qed.

Lemma not_in_app_last : forall (x : N) body r, ~ In x body -> body <> r ++ [x].
Proof. intros x body r H E. apply H. rewrite E. apply in_or_app. right. left. reflexivity. Qed.

Lemma to_piece_lf : forall body,
  ~ In LF body ->
  let p := to_piece (body ++ [LF]) in
  piece_bytes p = body ++ [LF] /\ piece_ok p /\ is_lf_terminator (snd p).
Proof.
  intros body Hb. unfold to_piece, line_content.
  rewrite strip_suffix_app. cbn [unwrap_or].
  destruct (strip_suffix CR body) as [c|] eqn:E.
  - apply strip_suffix_some in E. subst body. cbn [unwrap_or fst snd piece_bytes].
    rewrite <- app_assoc. rewrite skipn_app_exact. cbn [app].
    split; [reflexivity|]. split.
    + unfold piece_ok. cbn [fst snd]. split.
      * intros H. apply Hb. apply in_or_app. left. exact H.
      * split; [right; right; right; reflexivity|]. split.
        -- unfold piece_bytes. cbn [fst snd]. destruct c; discriminate.
        -- intros [H|H]; discriminate H.
    + right. reflexivity.
  - cbn [unwrap_or fst snd piece_bytes]. rewrite skipn_app_exact.
    split; [reflexivity|]. split.
    + unfold piece_ok. cbn [fst snd]. split; [exact Hb|].
      split; [right; left; reflexivity|]. split.
      * unfold piece_bytes. cbn [fst snd]. destruct body; discriminate.
      * intros _ c. exact (strip_suffix_none _ _ E c).
    + left. reflexivity.
Qed.

Lemma to_piece_last : forall body,
  ~ In LF body -> body <> [] ->
  let p := to_piece body in
  piece_bytes p = body /\ piece_ok p.
Proof.
  intros body Hb Hne. unfold to_piece, line_content.
  destruct (strip_suffix LF body) as [r|] eqn:E1.
  - apply strip_suffix_some in E1. exfalso. exact (not_in_app_last _ _ _ Hb E1).
  - cbn [unwrap_or].
    destruct (strip_suffix CR body) as [c|] eqn:E.
    + apply strip_suffix_some in E. subst body. cbn [unwrap_or fst snd piece_bytes].
      rewrite skipn_app_exact. split; [reflexivity|].
      unfold piece_ok. cbn [fst snd]. split.
      * intros H. apply Hb. apply in_or_app. left. exact H.
      * split; [right; right; left; reflexivity|]. split.
        -- unfold piece_bytes. cbn [fst snd]. destruct c; discriminate.
        -- intros [H|H]; discriminate H.
    + cbn [unwrap_or fst snd piece_bytes].
      replace (skipn (length body) body) with (@nil N).
      2:{ symmetry. rewrite <- (app_nil_r body) at 2. apply skipn_app_exact. }
      unfold piece_bytes at 1. cbn [fst snd]. rewrite app_nil_r. split; [reflexivity|].
      unfold piece_ok. cbn [fst snd]. split; [exact Hb|].
      split; [left; reflexivity|]. split.
      * unfold piece_bytes. cbn [fst snd]. rewrite app_nil_r. exact Hne.
      * intros _ c. exact (strip_suffix_none _ _ E c).
Qed.

Definition pieces (src : list N) : list (list N * list N) := map to_piece (split_inclusive src).

Lemma pieces_of_segs : forall segs,
  segs_ok segs ->
  map piece_bytes (map to_piece segs) = segs /\ pieces_ok (map to_piece segs).
Proof.
  induction segs as [|seg r IH]; intros H.
  - split; [reflexivity|exact I].
  - cbn [segs_ok] in H. destruct H as [[body [Hb Hs]] Hr].
    destruct (IH Hr) as [IH1 IH2]. cbn [map pieces_ok].
    destruct Hs as [Hs|[Hs [Hne Hnil]]].
    + subst seg. destruct (to_piece_lf body Hb) as [P1 [P2 P3]].
      split.
      * rewrite P1, IH1. reflexivity.
      * split; [exact P2|]. split; [intros _; exact P3|exact IH2].
    + subst seg r. destruct (to_piece_last body Hb Hne) as [P1 P2].
      split.
      * rewrite P1. reflexivity.
      * split; [exact P2|]. split; [intros H; exfalso; apply H; reflexivity|exact I].
Qed.

Lemma line_locs_from_pieces : forall segs pos,
  segs_ok segs ->
  line_locs_from pos segs = locs_of pos (map to_piece segs).
Proof.
  induction segs as [|seg r IH]; intros pos H.
  - reflexivity.
  - cbn [line_locs_from map locs_of].
    assert (Hp : piece_bytes (to_piece seg) = seg).
    { destruct (pieces_of_segs (seg :: r) H) as [E _]. cbn [map] in E. inversion E.
      rewrite H1. assumption. }
    rewrite Hp. cbn [segs_ok] in H. destruct H as [_ Hr].
    rewrite (IH _ Hr). reflexivity.
Qed.

(* The decomposition theorem: the line table is the table of content offsets of a decomposition of
   src into (content, terminator) pieces. *)
Lemma line_locations_pieces : forall src,
  concat (map piece_bytes (pieces src)) = src /\
  line_locations src = locs_of 0 (pieces src) /\
  pieces_ok (pieces src).
Proof.
  intros src. unfold pieces, line_locations.
  pose proof (split_segs_ok src) as Hs.
  destruct (pieces_of_segs _ Hs) as [E1 E2].
  split; [rewrite E1; apply split_concat|].
  split; [apply line_locs_from_pieces; exact Hs|exact E2].
Qed.

(* ------------------------------------------------------------------------------------------ *)
(* Generic consequences for any well-formed decomposition *)

Lemma locs_of_length : forall ps pos, length (locs_of pos ps) = length ps.
Proof. induction ps as [|p r IH]; intros pos; [reflexivity|]. cbn [locs_of length]. rewrite IH. reflexivity. Qed.

Lemma is_lf_terminator_ends : forall t, is_lf_terminator t -> exists t', t = t' ++ [LF].
Proof.
  intros t [H|H]; subst t; [exists []|exists [CR]]; reflexivity.
Qed.

Lemma is_lf_terminator_is_terminator : forall t, is_lf_terminator t -> is_terminator t.
Proof. intros t [H|H]; subst t; [right; left|right; right; right]; reflexivity. Qed.

Lemma locs_of_nth : forall ps pos i l,
  pieces_ok ps ->
  nth_error (locs_of pos ps) i = Some l ->
  exists before c t after,
    concat (map piece_bytes ps) = before ++ c ++ t ++ after /\
    nth_error ps i = Some (c, t) /\
    fst l = pos + len before /\ snd l = pos + len before + len c /\
    (after <> [] -> is_lf_terminator t) /\
    (before = [] \/ exists b', before = b' ++ [LF]).
Proof.
  induction ps as [|p r IH]; intros pos i l Hok Hn.
  - destruct i; discriminate Hn.
  - cbn [pieces_ok] in Hok. destruct Hok as [Hp [Hlf Hr]].
    destruct i as [|i'].
    + cbn [locs_of nth_error] in Hn. inversion Hn. subst l. clear Hn.
      exists [], (fst p), (snd p), (concat (map piece_bytes r)).
      split; [cbn [map concat app]; unfold piece_bytes; rewrite <- app_assoc; reflexivity|].
      split; [cbn [nth_error]; destruct p; reflexivity|].
      cbn [fst snd]. rewrite len_nil.
      split; [lia|]. split; [lia|]. split.
      * intros Ha. apply Hlf. intros E. subst r. apply Ha. reflexivity.
      * left. reflexivity.
    + cbn [locs_of nth_error] in Hn.
      destruct (IH _ _ _ Hr Hn) as [before [c [t [after [E [En [Ef [Es [Ha Hb]]]]]]]]].
      exists (piece_bytes p ++ before), c, t, after.
      split; [cbn [map concat]; rewrite E; rewrite <- app_assoc; reflexivity|].
      split; [exact En|].
      rewrite len_app.
      split; [lia|]. split; [lia|]. split; [exact Ha|].
      right. destruct Hb as [Hb|[b' Hb]].
      * subst before. rewrite app_nil_r.
        assert (Hne : r <> []) by (intros E0; subst r; destruct i'; discriminate En).
        destruct (is_lf_terminator_ends _ (Hlf Hne)) as [t' Ht].
        exists (fst p ++ t'). unfold piece_bytes. rewrite Ht. rewrite app_assoc. reflexivity.
      * exists (piece_bytes p ++ b'). rewrite Hb. rewrite app_assoc. reflexivity.
Qed.

Lemma locs_of_lower : forall ps pos l, In l (locs_of pos ps) -> pos <= fst l.
Proof.
  induction ps as [|p r IH]; intros pos l H.
  - destruct H.
  - cbn [locs_of] in H. destruct H as [H|H].
    + subst l. cbn [fst]. lia.
    + apply IH in H. lia.
Qed.

(* Every later line starts strictly after the end of an earlier one. *)
Lemma locs_of_ascending : forall ps pos i j li lj,
  pieces_ok ps -> (i < j)%nat ->
  nth_error (locs_of pos ps) i = Some li ->
  nth_error (locs_of pos ps) j = Some lj ->
  snd li < fst lj.
Proof.
  induction ps as [|p r IH]; intros pos i j li lj Hok Hij Hi Hj.
  - destruct i; discriminate Hi.
  - cbn [pieces_ok] in Hok. destruct Hok as [Hp [Hlf Hr]].
    destruct j as [|j']; [lia|].
    cbn [locs_of nth_error] in Hj.
    destruct i as [|i'].
    + cbn [locs_of nth_error] in Hi. inversion Hi. subst li. cbn [snd].
      assert (Hne : r <> []) by (intros E0; subst r; destruct j'; discriminate Hj).
      apply nth_error_In in Hj. apply locs_of_lower in Hj.
      destruct (is_lf_terminator_ends _ (Hlf Hne)) as [t' Ht].
      unfold piece_bytes in Hj. rewrite Ht in Hj. rewrite !len_app in Hj.
      rewrite len_cons, len_nil in Hj. lia.
    + cbn [locs_of nth_error] in Hi. apply (IH (pos + len (piece_bytes p)) i' j' li lj Hr); [lia|exact Hi|exact Hj].
Qed.

Lemma pieces_ok_nth : forall ps i p, pieces_ok ps -> nth_error ps i = Some p -> piece_ok p.
Proof.
  induction ps as [|q r IH]; intros i p Hok Hn.
  - destruct i; discriminate Hn.
  - cbn [pieces_ok] in Hok. destruct Hok as [Hq [_ Hr]].
    destruct i as [|i']; cbn [nth_error] in Hn.
    + inversion Hn. subst. exact Hq.
    + exact (IH _ _ Hr Hn).
Qed.

(* ------------------------------------------------------------------------------------------ *)
(* The line table of a source text *)

(* Line i of src: src = before ++ content ++ terminator ++ after. *)
Lemma line_at : forall src i l,
  nth_error (line_locations src) i = Some l ->
  exists before c t after,
    src = before ++ c ++ t ++ after /\
    fst l = len before /\ snd l = len before + len c /\
    piece_ok (c, t) /\
    (after <> [] -> is_lf_terminator t) /\
    (before = [] \/ exists b', before = b' ++ [LF]).
Proof.
  intros src i l Hn.
  destruct (line_locations_pieces src) as [Hc [Hl Hok]].
  rewrite Hl in Hn.
  destruct (locs_of_nth _ _ _ _ Hok Hn) as [before [c [t [after [E [En [Ef [Es [Ha Hb]]]]]]]]].
  exists before, c, t, after. rewrite Hc in E.
  split; [exact E|]. split; [lia|]. split; [lia|].
  split; [exact (pieces_ok_nth _ _ _ Hok En)|]. split; [exact Ha|exact Hb].
Qed.

Lemma line_bounds : forall src l,
  In l (line_locations src) -> fst l <= snd l /\ snd l <= len src.
Proof.
  intros src l H. apply In_nth_error in H. destruct H as [i Hn].
  destruct (line_at _ _ _ Hn) as [before [c [t [after [E [Ef [Es _]]]]]]].
  split; [lia|]. rewrite E. rewrite !len_app. lia.
Qed.

Lemma line_ascending : forall src i j li lj,
  (i < j)%nat ->
  nth_error (line_locations src) i = Some li ->
  nth_error (line_locations src) j = Some lj ->
  snd li < fst lj.
Proof.
  intros src i j li lj Hij Hi Hj.
  destruct (line_locations_pieces src) as [_ [Hl Hok]].
  rewrite Hl in Hi, Hj. exact (locs_of_ascending _ _ _ _ _ _ Hok Hij Hi Hj).
Qed.

Lemma line_begins_mono : forall src i j li lj,
  (i <= j)%nat ->
  nth_error (line_locations src) i = Some li ->
  nth_error (line_locations src) j = Some lj ->
  fst li <= fst lj.
Proof.
  intros src i j li lj Hij Hi Hj.
  destruct (Nat.eq_dec i j) as [E|E].
  - subst j. rewrite Hi in Hj. inversion Hj. lia.
  - assert (Hlt : (i < j)%nat) by lia.
    pose proof (line_ascending _ _ _ _ _ Hlt Hi Hj) as H.
    assert (Hb : fst li <= snd li).
    { apply (line_bounds src). exact (nth_error_In _ _ Hi). }
    lia.
Qed.

Lemma line_first : forall src l, nth_error (line_locations src) 0 = Some l -> fst l = 0.
Proof.
  intros src l H. destruct (line_locations_pieces src) as [_ [Hl _]]. rewrite Hl in H.
  destruct (pieces src) as [|p r]; [discriminate H|]. cbn [locs_of nth_error] in H.
  inversion H. reflexivity.
Qed.

Lemma line_locations_nil : forall src, line_locations src = [] <-> src = [].
Proof.
  intros src. split; intros H.
  - destruct (line_locations_pieces src) as [Hc [Hl _]]. rewrite Hl in H.
    destruct (pieces src) as [|p r]; [symmetry; exact Hc|discriminate H].
  - subst src. reflexivity.
Qed.

(* sub / slice *)

Lemma sub_app_mid : forall (a c r : list N), sub (a ++ c ++ r) (len a) (len a + len c) = c.
Proof.
  intros a c r. unfold sub, len.
  replace (N.to_nat (N.of_nat (length a) + N.of_nat (length c) - N.of_nat (length a)))
    with (length c) by lia.
  rewrite Nat2N.id. rewrite skipn_app_exact.
  rewrite firstn_app, firstn_all, Nat.sub_diag, firstn_O, app_nil_r. reflexivity.
Qed.

Lemma line_text : forall src i l,
  nth_error (line_locations src) i = Some l ->
  exists before c t after,
    src = before ++ c ++ t ++ after /\ sub src (fst l) (snd l) = c /\ piece_ok (c, t).
Proof.
  intros src i l Hn.
  destruct (line_at _ _ _ Hn) as [before [c [t [after [E [Ef [Es [Hp _]]]]]]]].
  exists before, c, t, after. split; [exact E|]. split; [|exact Hp].
  rewrite Ef, Es. rewrite E at 1. apply sub_app_mid.
Qed.

Lemma slice_line : forall src l,
  In l (line_locations src) -> slice src (fst l) (snd l) = Some (sub src (fst l) (snd l)).
Proof.
  intros src l H. destruct (line_bounds _ _ H) as [H1 H2]. unfold slice.
  apply N.leb_le in H1. apply N.leb_le in H2. rewrite H1, H2. reflexivity.
Qed.

(* The byte before a line begin is LF and the byte at a line end is CR or LF (or they are the two
   ends of the text).  Since 10 and 13 are ASCII, in valid UTF-8 both offsets are char boundaries:
   [&source[line_begin..line_end]] cannot fail the boundary check either. *)
Lemma line_bounds_ascii : forall src l,
  In l (line_locations src) ->
  (fst l = 0 \/ exists a r, src = a ++ LF :: r /\ len a + 1 = fst l) /\
  (snd l = len src \/ exists a x r, src = a ++ x :: r /\ len a = snd l /\ (x = LF \/ x = CR)).
Proof.
  intros src l H. apply In_nth_error in H. destruct H as [i Hn].
  destruct (line_at _ _ _ Hn) as [before [c [t [after [E [Ef [Es [Hp [Ha Hb]]]]]]]]].
  split.
  - destruct Hb as [Hb|[b' Hb]].
    + left. subst before. rewrite Ef. reflexivity.
    + right. exists b', (c ++ t ++ after). split.
      * rewrite E, Hb. rewrite <- app_assoc. reflexivity.
      * rewrite Ef, Hb, len_app, len_cons, len_nil. lia.
  - destruct Hp as [_ [Ht _]]. cbn [snd] in Ht.
    destruct Ht as [Ht|[Ht|[Ht|Ht]]]; subst t.
    + destruct after as [|x after'].
      * left. rewrite E, Es, !len_app, !len_nil. lia.
      * assert (Hne : x :: after' <> []) by discriminate.
        destruct (Ha Hne) as [H0|H0]; discriminate H0.
    + right. exists (before ++ c), LF, after. split.
      * rewrite E. rewrite <- app_assoc. reflexivity.
      * split; [rewrite len_app; lia|left; reflexivity].
    + right. exists (before ++ c), CR, after. split.
      * rewrite E. rewrite <- app_assoc. reflexivity.
      * split; [rewrite len_app; lia|right; reflexivity].
    + right. exists (before ++ c), CR, (LF :: after). split.
      * rewrite E. rewrite <- app_assoc. reflexivity.
      * split; [rewrite len_app; lia|right; reflexivity].
Qed.

(* ------------------------------------------------------------------------------------------ *)
(* Which line a byte is on *)

Lemma count_lf_app : forall a b, count_lf (a ++ b) = count_lf a + count_lf b.
Proof. intros a b. unfold count_lf. rewrite filter_app, len_app. reflexivity. Qed.

Lemma count_lf_none : forall l, ~ In LF l -> count_lf l = 0.
Proof.
  intros l H. unfold count_lf. induction l as [|x l IH]; [reflexivity|].
  cbn [filter]. destruct (x =? LF) eqn:E.
  - apply N.eqb_eq in E. exfalso. apply H. left. exact E.
  - apply IH. intros Hin. apply H. right. exact Hin.
Qed.

Lemma firstn_no_lf : forall n (l : list N), ~ In LF l -> ~ In LF (firstn n l).
Proof.
  intros n l H Hin. apply H. rewrite <- (firstn_skipn n l). apply in_or_app. left. exact Hin.
Qed.

Lemma count_lf_terminator : forall c t, ~ In LF c -> is_lf_terminator t -> count_lf (c ++ t) = 1.
Proof.
  intros c t Hc Ht. rewrite count_lf_app, (count_lf_none _ Hc).
  destruct Ht as [Ht|Ht]; subst t; reflexivity.
Qed.

Lemma count_lf_terminator_prefix : forall t k,
  is_terminator t -> (k < length t)%nat -> count_lf (firstn k t) = 0.
Proof.
  intros t k Ht Hk. destruct Ht as [Ht|[Ht|[Ht|Ht]]]; subst t; cbn [length] in Hk.
  - lia.
  - destruct k; [reflexivity|lia].
  - destruct k; [reflexivity|lia].
  - destruct k as [|[|k]]; [reflexivity|reflexivity|lia].
Qed.

(* Every byte is either inside the content of a line, or it belongs to the terminator of a line (then
   every later line begins behind it).  Either way the number of LFs before it is the line index. *)
Lemma locs_of_offset : forall ps pos o c,
  pieces_ok ps ->
  nth_error (concat (map piece_bytes ps)) o = Some c ->
  exists i l,
    nth_error (locs_of pos ps) i = Some l /\
    fst l <= pos + N.of_nat o /\
    count_lf (firstn o (concat (map piece_bytes ps))) = N.of_nat i /\
    (pos + N.of_nat o < snd l \/
     (snd l <= pos + N.of_nat o /\
      forall j lj, (i < j)%nat -> nth_error (locs_of pos ps) j = Some lj ->
                   pos + N.of_nat o + 1 <= fst lj)).
Proof.
  induction ps as [|p r IH]; intros pos o c Hok Hn.
  - destruct o; discriminate Hn.
  - cbn [pieces_ok] in Hok. destruct Hok as [Hp [Hterm Hr]].
    destruct Hp as [Hp1 [Hp2 [Hp3 Hp4]]].
    cbn [map concat] in *. unfold piece_bytes at 1 in Hn. unfold piece_bytes at 1.
    destruct (Nat.lt_ge_cases o (length (fst p))) as [Hlt|Hge].
    + (* inside the content *)
      exists O, (pos, pos + len (fst p)). cbn [locs_of nth_error fst snd].
      split; [reflexivity|]. split; [lia|]. split.
      * rewrite <- app_assoc. rewrite firstn_app.
        replace (o - length (fst p))%nat with O by lia. rewrite firstn_O, app_nil_r.
        apply count_lf_none. apply firstn_no_lf. exact Hp1.
      * left. unfold len. lia.
    + destruct (Nat.lt_ge_cases o (length (fst p ++ snd p))) as [Hlt2|Hge2].
      * (* inside the terminator *)
        rewrite app_length in Hlt2.
        exists O, (pos, pos + len (fst p)). cbn [locs_of nth_error fst snd].
        split; [reflexivity|]. split; [lia|]. split.
        -- rewrite <- app_assoc. rewrite firstn_app. rewrite firstn_all2 by lia.
           rewrite firstn_app.
           replace (o - length (fst p) - length (snd p))%nat with O by lia.
           rewrite firstn_O, app_nil_r.
           rewrite count_lf_app, (count_lf_none _ Hp1).
           rewrite (count_lf_terminator_prefix _ _ Hp2) by lia. reflexivity.
        -- right. split; [unfold len; lia|].
           intros j lj Hj Hlj. destruct j as [|j']; [lia|]. cbn [nth_error] in Hlj.
           apply nth_error_In in Hlj. apply locs_of_lower in Hlj.
           unfold piece_bytes, len in Hlj. rewrite app_length in Hlj. lia.
      * (* a later piece *)
        rewrite nth_error_app2 in Hn by exact Hge2.
        assert (Hne : r <> []).
        { intros E. subst r. cbn [map concat] in Hn. destruct (o - length (fst p ++ snd p))%nat; discriminate Hn. }
        destruct (IH (pos + len (piece_bytes p)) _ c Hr Hn) as [i [l [Hi [H1 [H3 H2]]]]].
        exists (S i), l. cbn [locs_of nth_error].
        split; [exact Hi|].
        unfold piece_bytes, len in *.
        split; [lia|]. split.
        -- rewrite firstn_app. rewrite firstn_all2 by lia.
           rewrite count_lf_app, H3. rewrite (count_lf_terminator _ _ Hp1 (Hterm Hne)). lia.
        -- destruct H2 as [H2|[H2 Hlater]]; [left; lia|].
           right. split; [lia|].
           intros j lj Hj Hlj. destruct j as [|j']; [lia|]. cbn [nth_error] in Hlj.
           assert (Hj' : (i < j')%nat) by lia.
           specialize (Hlater _ _ Hj' Hlj). lia.
Qed.

Lemma offset_line : forall src o c,
  nth_error src o = Some c ->
  exists i l,
    nth_error (line_locations src) i = Some l /\
    fst l <= N.of_nat o /\
    count_lf (firstn o src) = N.of_nat i /\
    (N.of_nat o < snd l \/
     (snd l <= N.of_nat o /\
      forall j lj, (i < j)%nat -> nth_error (line_locations src) j = Some lj ->
                   N.of_nat o + 1 <= fst lj)).
Proof.
  intros src o c Hn.
  destruct (line_locations_pieces src) as [Hc [Hl Hok]].
  rewrite <- Hc in Hn.
  destruct (locs_of_offset _ 0 _ _ Hok Hn) as [i [l [Hi [H1 [H3 H2]]]]].
  exists i, l. rewrite Hl. rewrite Hc in H3.
  split; [exact Hi|]. split; [lia|]. split; [exact H3|].
  destruct H2 as [H2|[H2 Hlater]]; [left; lia|].
  right. split; [lia|].
  intros j lj Hj Hlj. specialize (Hlater _ _ Hj Hlj). lia.
Qed.

(* ------------------------------------------------------------------------------------------ *)
(* Summary *)

Definition ascending (L : list (N * N)) : Prop :=
  forall i j li lj, (i < j)%nat -> nth_error L i = Some li -> nth_error L j = Some lj -> snd li < fst lj.

Theorem line_locations_spec : forall src,
  (exists ps, concat (map piece_bytes ps) = src /\
              line_locations src = locs_of 0 ps /\
              pieces_ok ps) /\
  (forall l, In l (line_locations src) -> fst l <= snd l /\ snd l <= len src) /\
  ascending (line_locations src).
Proof.
  intros src. split.
  - exists (pieces src). apply line_locations_pieces.
  - split.
    + apply line_bounds.
    + intros i j li lj. apply line_ascending.
Qed.
