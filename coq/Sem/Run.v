(* Entry points used by generated case files. Outputs are built only from N, bool, list,
   option, pairs (and [structure] records, which print as their constructor applied to such).

   check_closed: None = closed under all rules, functional and canonical.
     Some (r, i, e):
       r < number of rules: rule r is violated at statement i (0-based, counting if and then
           statements) by the assignment e (keys: 2*x for variable x, 2*w+1 for wildcard w);
       r = 4294967295: function i is not single-valued (e = []);
       r = 4294967294: the structure is not canonical, i = reason code of [canonical_code]. *)
From Coq Require Import List NArith Bool.
From Sem Require Import Syntax Model Chase Iso.
Import ListNotations.
Open Scope N_scope.

Definition code_functional : N := 4294967295.
Definition code_canonical : N := 4294967294.

Definition first_nonfunctional (p : program) (M : model) : option N :=
  match find (fun fd => negb (implb (rd_func (snd fd)) (func_rows_ok (rws M (fst fd)))))
             (indexed (sg_rels (pg_sig p))) with
  | Some fd => Some (fst fd)
  | None => None
  end.

Definition check_closed (p : program) (M : structure) : option (N * N * list (N * N)) :=
  if negb (canonical_b p M) then Some (code_canonical, canonical_code p M, [])
  else match find_violation p M with
       | Some w => Some w
       | None =>
           match first_nonfunctional p (model_of M) with
           | Some f => Some (code_functional, f, [])
           | None => None
           end
       end.

Definition free_model (fuel : nat) (p : program) (h : list call) : list (option structure) :=
  run_history fuel p h.

Definition check_iso (p : program) (A B : structure) : bool := iso_b p A B.
Definition check_iso_code (p : program) (A B : structure) : N := iso_code p A B.
Definition check_hom (p : program) (A B : structure) : bool := hom_b p A B.
Definition eval_cond (p : program) (M : structure) (c : cond) : bool := eval_cond_s M c.

(* number of root elements per type, for C06-style counting *)
Definition count_roots (M : structure) : list (N * N) :=
  map (fun tc => (fst tc, N.of_nat (length (snd tc)))) (md_cars (model_of M)).
