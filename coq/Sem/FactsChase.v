(* The chase stops only in closed states. *)
From Coq Require Import List NArith Bool Lia.
From Sem Require Import Syntax Model Spec Chase FactsClosed.
Import ListNotations.
Open Scope N_scope.

Theorem chase_closed : forall n p M M', chase n p M = Some M' -> Closed p M'.
Proof.
  intros n p. induction n as [|n IH]; intros M M' H; [discriminate|].
  cbn [chase] in H. destruct (chase_round p M) as [|M1] eqn:Er.
  - destruct (closed_b p M) eqn:Ec; [|discriminate]. injection H as HM. subst M'.
    apply closed_b_sound. exact Ec.
  - exact (IH M1 M' H).
Qed.

(* a chase result is a fixed point of the round function as well *)
Theorem chase_fix : forall n p M M', chase n p M = Some M' -> chase_round p M' = Fix.
Proof.
  intros n p. induction n as [|n IH]; intros M M' H; [discriminate|].
  cbn [chase] in H. destruct (chase_round p M) as [|M1] eqn:Er.
  - destruct (closed_b p M); [|discriminate]. injection H as HM. subst M'. exact Er.
  - exact (IH M1 M' H).
Qed.

(* close_until: a returned state satisfies the condition or is closed *)
Theorem close_until_contract : forall n p c M M', close_until n p c M = Some M' ->
  eval_cond_s M' c = true \/ Closed p M'.
Proof.
  intros n p c. induction n as [|n IH]; intros M M' H; [discriminate|].
  cbn [close_until] in H. destruct (eval_cond_s M c) eqn:Ec.
  - injection H as HM. subst M'. left. exact Ec.
  - destruct (chase_round p M) as [|M1] eqn:Er.
    + destruct (closed_b p M) eqn:Eb; [|discriminate]. injection H as HM. subst M'.
      right. apply closed_b_sound. exact Eb.
    + exact (IH M1 M' H).
Qed.
