(* Every action collected in a chase round is forced: it holds, after mapping by a
   homomorphism, in every closed model. *)
From Coq Require Import List NArith Bool Lia.
From Sem Require Import Syntax Model Spec Chase FactsMatch FactsDom FactsClosed FactsHom.
Import ListNotations.
Open Scope N_scope.

Definition forced (h : N -> N) (B : model) (a : action) : Prop :=
  match a with
  | AddRow r row => In (map h row) (rws B r)
  | Merge x y => h x = h y
  | DefApp f args => exists v, In (map h args ++ [v]) (rws B f)
  end.

(* ---------- lists of terms ---------- *)

Lemma eval_terms_sound : forall M ts e e1 vals, In (e1, vals) (eval_terms M ts e) ->
  forall s, agrees s e1 -> agrees s e /\ Forall2 (teval M s) ts vals.
Proof.
  intros M ts. induction ts as [|t ts IH]; intros e e1 vals Hin s Hag.
  - cbn [eval_terms] in Hin. destruct Hin as [Hin|[]]. injection Hin as He Hv. subst.
    split; [exact Hag | constructor].
  - cbn [eval_terms] in Hin. apply in_flat_map in Hin. destruct Hin as [[e' v] [Hev Hin]].
    apply in_map_iff in Hin. destruct Hin as [[e2 vs] [Heq Hin]]. cbn [fst snd] in Heq, Hin.
    injection Heq as He Hv. subst e2 vals.
    destruct (IH e' e1 vs Hin s Hag) as [Hag' Hvs].
    destruct (eval_term_sound M t e e' v Hev s Hag') as [Hag0 Ht].
    split; [exact Hag0 | constructor; assumption].
Qed.

Lemma Forall2_teval_hom : forall h A B, MHom h A B -> forall s ts vals,
  Forall2 (teval A s) ts vals -> Forall2 (teval B (hcomp h s)) ts (map h vals).
Proof.
  intros h A B HH s ts vals H. induction H as [|t v ts vals Ht H IH]; cbn [map]; constructor.
  - exact (teval_hom h A B HH s t v Ht).
  - exact IH.
Qed.

Definition det (M : model) (s : asg) (t : term) : Prop :=
  forall v1 v2, teval M s t v1 -> teval M s t v2 -> v1 = v2.

Lemma Forall2_pre_det : forall M s ts vals row, Forall (det M s) ts ->
  Forall2 (teval M s) ts vals -> tevals_pre (teval M s) ts row ->
  firstn (length ts) row = vals.
Proof.
  intros M s ts vals row Hd H. revert row Hd.
  induction H as [|t v ts vals Ht H IH]; intros row Hd Hpre.
  - reflexivity.
  - cbn [tevals_pre] in Hpre. destruct row as [|x row]; [destruct Hpre|].
    destruct Hpre as [Hx Hpre]. inversion Hd as [|t' ts' Hdt Hdts]; subst.
    cbn [length firstn]. rewrite (Hdt x v Hx Ht). f_equal. exact (IH row Hdts Hpre).
Qed.

Lemma dets : forall M s ts, (forall f, In f (flat_map funcs_in ts) -> FuncRel M f) ->
  Forall (det M s) ts.
Proof.
  intros M s ts HF. apply Forall_forall. intros t Ht. unfold det. apply teval_det.
  intros f Hf. apply HF. apply in_flat_map. exists t. split; assumption.
Qed.

Lemma tevals_pre_In : forall (ev : term -> N -> Prop) ts row t,
  tevals_pre ev ts row -> In t ts -> exists v, ev t v.
Proof.
  intros ev ts. induction ts as [|t0 ts IH]; intros row t Hpre Hin; [destruct Hin|].
  cbn [tevals_pre] in Hpre. destruct row as [|x row]; [destruct Hpre|].
  destruct Hpre as [Hx Hpre]. destruct Hin as [Hin|Hin].
  - subst. exists x. exact Hx.
  - exact (IH row t Hpre Hin).
Qed.

(* the row of [f] found in [B] for arguments that evaluate in [A] *)
Lemma app_row_forced : forall h A B, MHom h A B -> forall s f args vals v,
  (forall g, In g (flat_map funcs_in args) -> FuncRel B g) ->
  Forall2 (teval A s) args vals ->
  teval B (hcomp h s) (App f args) v ->
  In (map h vals ++ [v]) (rws B f).
Proof.
  intros h A B HH s f args vals v HF Hvals Hv.
  apply teval_App in Hv. destruct Hv as [row [Hrow [Hsk Hpre]]].
  pose proof (Forall2_pre_det B (hcomp h s) args (map h vals) row (dets B _ args HF)
                (Forall2_teval_hom h A B HH s args vals Hvals) Hpre) as Hf.
  rewrite (split_row row _ _ Hsk) in Hrow. rewrite Hf in Hrow. exact Hrow.
Qed.

(* ---------- [undefd] ---------- *)

Lemma undefd_forced : forall h A B, MHom h A B -> forall e t,
  (forall s, agrees s e -> exists v, teval B (hcomp h s) t v) ->
  (forall f, In f (funcs_in t) -> FuncRel B f) ->
  forall act, In act (undefd A e t) -> forced h B act.
Proof.
  intros h A B HH e t. induction t as [x|w|f args IH] using term_ind'; intros Hdef HF act Hin.
  - destruct Hin.
  - destruct Hin.
  - cbn [undefd] in Hin.
    destruct (is_nil (flat_map (undefd A e) args)) eqn:En.
    + destruct (is_nil (eval_term A (App f args) e)); [|destruct Hin].
      apply in_map_iff in Hin. destruct Hin as [[e1 vals] [Hact Hin]]. cbn [snd] in Hact.
      subst act. cbn [forced].
      destruct (eval_terms_sound A args e e1 vals Hin (asg_of e1) (agrees_asg_of e1)) as [Hag Hvals].
      destruct (Hdef (asg_of e1) Hag) as [v Hv]. exists v.
      eapply app_row_forced; try eassumption.
      intros g Hg. apply HF. cbn [funcs_in]. right. exact Hg.
    + apply in_flat_map in Hin. destruct Hin as [t [Ht Hin]].
      rewrite Forall_forall in IH. apply (IH t Ht); [| |exact Hin].
      * intros s Hag. destruct (Hdef s Hag) as [v Hv]. apply teval_App in Hv.
        destruct Hv as [row [_ [_ Hpre]]]. exact (tevals_pre_In _ _ _ _ Hpre Ht).
      * intros g Hg. apply HF. cbn [funcs_in]. right. apply in_flat_map. exists t. split; assumption.
Qed.

(* ---------- [then_actions] ---------- *)

Lemma half_eq_forced : forall h A B, MHom h A B -> forall e a b,
  (forall s, agrees s e -> exists v, teval B (hcomp h s) a v /\ teval B (hcomp h s) b v) ->
  (forall f, In f (funcs_in a ++ funcs_in b) -> FuncRel B f) ->
  forall act, In act (half_eq A a b e) -> forced h B act.
Proof.
  intros h A B HH e a b Heq HF act Hin. unfold half_eq in Hin.
  destruct b as [x|w|g bargs]; try destruct Hin.
  apply in_flat_map in Hin. destruct Hin as [[e1 va] [Hev Hin]].
  apply in_map_iff in Hin. destruct Hin as [[e2 vals] [Hact Hin]]. cbn [fst snd] in Hact, Hin.
  subst act. cbn [forced].
  set (s := asg_of e2).
  destruct (eval_terms_sound A bargs e1 e2 vals Hin s (agrees_asg_of e2)) as [Hag1 Hvals].
  destruct (eval_term_sound A a e e1 va Hev s Hag1) as [Hag Ha].
  destruct (Heq s Hag) as [v [Hav Hbv]].
  assert (Hv : v = h va).
  { apply (teval_det B (hcomp h s) a); [|exact Hav|exact (teval_hom h A B HH s a va Ha)].
    intros f Hf. apply HF. apply in_or_app. left. exact Hf. }
  subst v. rewrite map_app. cbn [map].
  eapply app_row_forced; try eassumption.
  intros f Hf. apply HF. apply in_or_app. right. cbn [funcs_in]. right. exact Hf.
Qed.

Lemma then_actions_raw_forced : forall h A B, MHom h A B -> forall e a,
  (forall s, agrees s e -> atom_holds B (hcomp h s) (then_atom a)) ->
  (forall f, In f (atom_funcs a) -> FuncRel B f) ->
  forall act, In act (then_actions_raw A a e) -> forced h B act.
Proof.
  intros h A B HH e [p args|a b|t|x ty|x t] Hh HF act Hin;
    cbn [then_actions_raw] in Hin; cbn [then_atom atom_holds atom_funcs] in Hh, HF.
  - apply in_map_iff in Hin. destruct Hin as [[e1 vals] [Hact Hin]]. cbn [snd] in Hact.
    subst act. cbn [forced].
    destruct (eval_terms_sound A args e e1 vals Hin (asg_of e1) (agrees_asg_of e1)) as [Hag Hvals].
    destruct (Hh (asg_of e1) Hag) as [row [Hrow [Hsk Hpre]]].
    pose proof (Forall2_pre_det B _ args (map h vals) row (dets B _ args HF)
                  (Forall2_teval_hom h A B HH _ args vals Hvals) Hpre) as Hf.
    rewrite <- (firstn_skipn (length args) row) in Hrow. rewrite Hsk, app_nil_r, Hf in Hrow.
    exact Hrow.
  - destruct (is_nil (flat_map (fun ev => map (fun ev' => Merge (snd ev) (snd ev'))
                                   (eval_term A b (fst ev))) (eval_term A a e))) eqn:En.
    + apply in_app_or in Hin. destruct Hin as [Hin|Hin].
      * eapply half_eq_forced; try eassumption.
      * eapply (half_eq_forced h A B HH e b a); [| |exact Hin].
        -- intros s Hag. destruct (Hh s Hag) as [v [Ha Hb]]. exists v. split; assumption.
        -- intros f Hf. apply HF. apply in_app_or in Hf. apply in_or_app. tauto.
    + apply in_flat_map in Hin. destruct Hin as [[e1 va] [Hev Hin]].
      apply in_map_iff in Hin. destruct Hin as [[e2 vb] [Hact Hin]]. cbn [fst snd] in Hact, Hin.
      subst act. cbn [forced].
      set (s := asg_of e2).
      destruct (eval_term_sound A b e1 e2 vb Hin s (agrees_asg_of e2)) as [Hag1 Hb].
      destruct (eval_term_sound A a e e1 va Hev s Hag1) as [Hag Ha].
      destruct (Hh s Hag) as [v [Hav Hbv]].
      transitivity v.
      * symmetry. apply (teval_det B (hcomp h s) a); [|exact Hav|exact (teval_hom h A B HH s a va Ha)].
        intros f Hf. apply HF. apply in_or_app. left. exact Hf.
      * apply (teval_det B (hcomp h s) b); [|exact Hbv|exact (teval_hom h A B HH s b vb Hb)].
        intros f Hf. apply HF. apply in_or_app. right. exact Hf.
  - eapply undefd_forced; eassumption.
  - destruct Hin.
  - eapply undefd_forced; eassumption.
Qed.

(* ---------- statements, rules ---------- *)

Lemma keys_bound_spec : forall e ks, keys_bound e ks = true -> forall k, In k ks -> bound e k.
Proof.
  intros e ks H k Hk. unfold keys_bound in H. rewrite forallb_forall in H.
  specialize (H k Hk). unfold bound. destruct (assoc k e); [discriminate | discriminate].
Qed.

Lemma collect_stmts_forced : forall h A B, MHom h A B ->
  forall (ss : list stmt) K (P PB : asg -> Prop) envs,
  covers K P envs ->
  (forall s, P s -> PB (hcomp h s)) ->
  stmts_hold B K PB ss ->
  (forall f, In f (rule_funcs ss) -> FuncRel B f) ->
  forall act, In act (collect_stmts A ss envs) -> forced h B act.
Proof.
  intros h A B HH ss. induction ss as [|st rest IH]; intros K P PB envs Hcov HP Hhold HF act Hin.
  - destruct Hin.
  - assert (HFrest : forall f, In f (rule_funcs rest) -> FuncRel B f).
    { intros f Hf. apply HF. unfold rule_funcs. cbn [flat_map]. apply in_or_app. right. exact Hf. }
    assert (HPstep : forall a s, P s /\ atom_holds A s a ->
                     PB (hcomp h s) /\ atom_holds B (hcomp h s) a).
    { intros a s [H1 H2]. split; [exact (HP s H1) | exact (atom_holds_hom h A B HH s a H2)]. }
    destruct st as [a|a]; cbn [collect_stmts] in Hin; cbn [stmts_hold] in Hhold.
    + exact (IH _ _ _ _ (covers_step A K P envs a Hcov) (HPstep a) Hhold HFrest act Hin).
    + destruct Hhold as [Hthen Hrest]. apply in_app_or in Hin. destruct Hin as [Hin|Hin].
      * apply in_flat_map in Hin. destruct Hin as [e [He Hin]]. unfold then_actions in Hin.
        destruct (keys_bound e (atom_keys (then_atom a))) eqn:Ekb; [|destruct Hin].
        apply (then_actions_raw_forced h A B HH e a); [| |exact Hin].
        -- intros s Hag. destruct Hcov as [Hs Hc Hd].
           destruct (Hthen (hcomp h s) (HP s (Hs e He s Hag))) as [s' [Hk Hh]].
           apply (atom_holds_ext B s' (hcomp h s)); [|exact Hh].
           intros k Hkin. apply Hk. apply (Hd e He k).
           exact (keys_bound_spec e _ Ekb k Hkin).
        -- intros f Hf. apply HF. unfold rule_funcs. cbn [flat_map stmt_atom].
           apply in_or_app. left. exact Hf.
      * destruct rest as [|st' rest']; [destruct Hin|].
        exact (IH _ _ _ _ (covers_step A K P envs a Hcov) (HPstep a) Hrest HFrest act Hin).
Qed.

Lemma removelast_map : forall (h : N -> N) l, removelast (map h l) = map h (removelast l).
Proof.
  intros h l. induction l as [|x l IH]; [reflexivity|].
  destruct l as [|y l]; [reflexivity|]. cbn [map removelast] in *. f_equal. exact IH.
Qed.

Lemma last_map : forall (h : N -> N) l d, last (map h l) (h d) = h (last l d).
Proof.
  intros h l d. induction l as [|x l IH]; [reflexivity|].
  destruct l as [|y l]; [reflexivity|]. cbn [map last] in *. exact IH.
Qed.

Lemma func_actions_forced : forall h A B p, MHom h A B -> Functional p B ->
  forall act, In act (func_actions p A) -> forced h B act.
Proof.
  intros h A B p HH HFn act Hin. unfold func_actions in Hin.
  apply in_flat_map in Hin. destruct Hin as [[f d] [Hfd Hin]]. cbn [fst snd] in Hin.
  destruct (rd_func d) eqn:Ef; [|destruct Hin].
  unfold func_row_actions in Hin.
  apply in_flat_map in Hin. destruct Hin as [r1 [Hr1 Hin]].
  apply in_flat_map in Hin. destruct Hin as [r2 [Hr2 Hin]].
  destruct (list_eqb (removelast r1) (removelast r2) && negb (last r1 0 =? last r2 0)) eqn:Ec;
    [|destruct Hin].
  destruct Hin as [Hin|[]]. subst act. cbn [forced].
  apply andb_true_iff in Ec. destruct Ec as [Ec _]. apply list_eqb_eq in Ec.
  apply indexed_In in Hfd.
  assert (Heq : map h r1 = map h r2).
  { apply (HFn f d Hfd Ef).
    - exact (mh_rows _ _ _ HH f r1 Hr1).
    - exact (mh_rows _ _ _ HH f r2 Hr2).
    - rewrite !removelast_map, Ec. reflexivity. }
  rewrite <- !last_map. rewrite Heq. reflexivity.
Qed.

Lemma is_func_FuncRel : forall p B f, Functional p B -> is_func p f = true -> FuncRel B f.
Proof.
  intros p B f HFn Hf. unfold is_func in Hf.
  destruct (nth_error (sg_rels (pg_sig p)) (N.to_nat f)) as [d|] eqn:En; [|discriminate].
  exact (HFn f d En Hf).
Qed.

Theorem round_actions_forced : forall h p S B, MHom h (model_of S) B ->
  ClosedM p B -> wf_prog_b p = true ->
  forall act, In act (round_actions p S) -> forced h B act.
Proof.
  intros h p S B HH [Hrules HFn] Hwf act Hin. unfold round_actions in Hin.
  apply filter_In in Hin. destruct Hin as [Hin _].
  apply in_app_or in Hin. destruct Hin as [Hin|Hin].
  - unfold collect_rules in Hin. apply in_flat_map in Hin. destruct Hin as [r [Hr Hin]].
    apply (collect_stmts_forced h (model_of S) B HH r [] (fun _ => True) (fun _ => True) [[]]
             covers_init); [intros; exact I | exact (Hrules r Hr) | | exact Hin].
    intros f Hf. apply (is_func_FuncRel p B f HFn).
    unfold wf_prog_b in Hwf. rewrite forallb_forall in Hwf. specialize (Hwf r Hr).
    rewrite forallb_forall in Hwf. exact (Hwf f Hf).
  - exact (func_actions_forced h (model_of S) B p HH HFn act Hin).
Qed.
