(* What [canonical_b] guarantees. *)
From Coq Require Import List NArith Bool Lia.
From Sem Require Import Syntax Model Spec Chase SpecHom FactsMatch FactsIso FactsStruct FactsInitial.
Import ListNotations.
Open Scope N_scope.

Record Canonical (p : program) (S : structure) : Prop := {
  (* rows have the declared arity and mention only root elements of the column types *)
  can_typed : RowsTyped p (model_of S);
  (* no duplicate rows *)
  can_nodup : forall r, NoDup (srows S r);
  (* the root of every element is an element of the same type and its own root *)
  can_roots : forall ty cls el r, In (ty, cls) (st_elems S) -> In (el, r) cls -> In (r, r) cls;
  (* element ids are unique across all types *)
  can_ids : NoDup (all_elems S);
  (* handles are elements *)
  can_handles : forall a, In a (st_handles S) -> In a (all_elems S) }.

Lemma nodupN_b_spec : forall l, nodupN_b l = true -> NoDup l.
Proof.
  induction l as [|x l IH]; intro H; [constructor|]. cbn [nodupN_b] in H.
  apply andb_true_iff in H. destruct H as [H1 H2]. constructor; [|exact (IH H2)].
  intro Hin. apply memN_In in Hin. rewrite Hin in H1. discriminate.
Qed.

Lemma nodup_rows_b_spec : forall l, nodup_rows_b l = true -> NoDup l.
Proof.
  induction l as [|x l IH]; intro H; [constructor|]. cbn [nodup_rows_b] in H.
  apply andb_true_iff in H. destruct H as [H1 H2]. constructor; [|exact (IH H2)].
  intro Hin. apply mem_row_In in Hin. rewrite Hin in H1. discriminate.
Qed.

Lemma row_typed_b_spec : forall M cols row, row_typed_b M cols row = true ->
  Forall2 (fun c x => In x (car M c)) cols row.
Proof.
  intros M cols. induction cols as [|c cols IH]; intros [|x row] H; cbn [row_typed_b] in H;
    try discriminate; [constructor|].
  apply andb_true_iff in H. destruct H as [H1 H2]. constructor; [apply memN_In; exact H1 | exact (IH row H2)].
Qed.

Theorem canonical_b_sound : forall p S, canonical_b p S = true -> Canonical p S.
Proof.
  intros p S H. unfold canonical_b, canonical_code in H.
  destruct (nodup_keys_b (st_elems S) && forallb (fun tc => fst tc <? sg_ntypes (pg_sig p)) (st_elems S));
    cbn [negb] in H; [|discriminate].
  destruct (nodup_keys_b (st_rows S) &&
            forallb (fun rr => fst rr <? N.of_nat (length (sg_rels (pg_sig p)))) (st_rows S));
    cbn [negb] in H; [|discriminate].
  destruct (nodupN_b (all_elems S)) eqn:E3; cbn [negb] in H; [|discriminate].
  match type of H with (if negb ?c then _ else _) =? 0 = true => destruct c eqn:E4 end;
    cbn [negb] in H; [|discriminate].
  match type of H with (if negb ?c then _ else _) =? 0 = true => destruct c eqn:E5 end;
    cbn [negb] in H; [|discriminate].
  match type of H with (if negb ?c then _ else _) =? 0 = true => destruct c eqn:E6 end;
    cbn [negb] in H; [|discriminate].
  match type of H with (if negb ?c then _ else _) =? 0 = true => destruct c eqn:E7 end;
    cbn [negb] in H; [|discriminate].
  clear H. constructor.
  - intros f d Hd row Hrow. rewrite rws_model_of in Hrow. unfold srows, assoc_d in Hrow.
    destruct (assoc f (st_rows S)) as [rows|] eqn:Ea; [|destruct Hrow].
    rewrite forallb_forall in E5. specialize (E5 (f, rows) (assoc_In _ _ _ _ Ea)).
    cbn [fst snd] in E5. rewrite Hd in E5. rewrite forallb_forall in E5.
    exact (row_typed_b_spec _ _ _ (E5 row Hrow)).
  - intro r. unfold srows, assoc_d. destruct (assoc r (st_rows S)) as [rows|] eqn:Ea; [|constructor].
    rewrite forallb_forall in E6. exact (nodup_rows_b_spec _ (E6 (r, rows) (assoc_In _ _ _ _ Ea))).
  - intros ty cls el r Hin Hel. rewrite forallb_forall in E4. specialize (E4 (ty, cls) Hin).
    cbn [snd] in E4. rewrite forallb_forall in E4. specialize (E4 (el, r) Hel). cbn [snd] in E4.
    apply existsb_exists in E4. destruct E4 as [[el' r'] [Hin' Heq]]. cbn [fst snd] in Heq.
    apply andb_true_iff in Heq. destruct Heq as [H1 H2]. apply N.eqb_eq in H1. apply N.eqb_eq in H2.
    subst. exact Hin'.
  - exact (nodupN_b_spec _ E3).
  - intros a Ha. rewrite forallb_forall in E7. apply memN_In. exact (E7 a Ha).
Qed.

Corollary canonical_b_typed : forall p S, canonical_b p S = true -> RowsTyped p (model_of S).
Proof. intros p S H. exact (can_typed p S (canonical_b_sound p S H)). Qed.
