(* Soundness of the entry points of Run.v. *)
From Coq Require Import List NArith Bool Lia.
From Sem Require Import Syntax Model Spec Chase Iso SpecHom Run FactsMatch FactsClosed FactsIso
  FactsInitial FactsCanon.
Import ListNotations.
Open Scope N_scope.

Lemma first_nonfunctional_none : forall p M, first_nonfunctional p M = None -> Functional p M.
Proof.
  intros p M H. apply functional_model_b_spec. unfold functional_model_b. apply forallb_forall.
  intros fd Hin. unfold first_nonfunctional in H.
  destruct (find (fun fd => negb (implb (rd_func (snd fd)) (func_rows_ok (rws M (fst fd)))))
                 (indexed (sg_rels (pg_sig p)))) as [fd'|] eqn:Ef; [discriminate|].
  pose proof (find_none _ _ Ef fd Hin) as Hn. cbn beta in Hn. apply negb_false_iff in Hn. exact Hn.
Qed.

Lemma first_nonfunctional_some : forall p M f, first_nonfunctional p M = Some f -> ~ Functional p M.
Proof.
  intros p M f H HF. apply functional_model_b_spec in HF. unfold functional_model_b in HF.
  rewrite forallb_forall in HF. unfold first_nonfunctional in H.
  destruct (find (fun fd => negb (implb (rd_func (snd fd)) (func_rows_ok (rws M (fst fd)))))
                 (indexed (sg_rels (pg_sig p)))) as [fd'|] eqn:Ef; [|discriminate].
  apply find_some in Ef. destruct Ef as [Hin Hb]. rewrite (HF fd' Hin) in Hb. discriminate.
Qed.

Theorem check_closed_none : forall p S, check_closed p S = None -> Closed p S /\ Canonical p S.
Proof.
  intros p S H. unfold check_closed in H.
  destruct (canonical_b p S) eqn:Ec; cbn [negb] in H; [|discriminate].
  destruct (find_violation p S) as [w|] eqn:Ev; [discriminate|].
  destruct (first_nonfunctional p (model_of S)) as [f|] eqn:Ef; [discriminate|].
  split; [|exact (canonical_b_sound p S Ec)]. split.
  - intros r Hr. destruct (In_indexed _ _ _ Hr) as [i Hi].
    exact (find_violation_rules_none _ _ Ev i r Hi).
  - exact (first_nonfunctional_none p _ Ef).
Qed.

(* a reported rule or functionality violation is real *)
Theorem check_closed_some : forall p S w, check_closed p S = Some w ->
  fst (fst w) <> code_canonical -> ~ Closed p S.
Proof.
  intros p S w H Hcode. unfold check_closed in H.
  destruct (canonical_b p S); cbn [negb] in H.
  - destruct (find_violation p S) as [w'|] eqn:Ev.
    + exact (find_violation_sound p S w' Ev).
    + destruct (first_nonfunctional p (model_of S)) as [f|] eqn:Ef; [|discriminate].
      intros [_ HF]. exact (first_nonfunctional_some p _ f Ef HF).
  - injection H as H. subst w. cbn [fst] in Hcode. contradiction.
Qed.

Theorem check_iso_sound : forall p A B, check_iso p A B = true -> Iso A B.
Proof. exact iso_b_sound. Qed.

Theorem check_hom_sound : forall p A B, check_hom p A B = true -> exists h, Hom h A B.
Proof. exact hom_b_sound. Qed.
