(* The state-changing operations of the chase preserve well-formedness and, when the change is
   forced, the existence of a homomorphism into a closed model. *)
From Coq Require Import List NArith Bool Lia.
From Sem Require Import Syntax Model Spec Chase SpecHom FactsMatch FactsIso FactsStruct.
Import ListNotations.
Open Scope N_scope.

(* roots are elements and their own roots; rows mention roots only *)
Record WF (S : structure) : Prop := {
  wf_roots : forall x, In x (univ (model_of S)) -> find_root_cls (st_elems S) x = Some x;
  wf_rows : forall r row x, In row (srows S r) -> In x row -> In x (univ (model_of S)) }.

Lemma find_root_of_root : forall S x, WF S -> In x (univ (model_of S)) -> find_root S x = x.
Proof. intros S x HW Hx. unfold find_root. rewrite (wf_roots S HW x Hx). reflexivity. Qed.

(* ---------- merged ---------- *)

Lemma univ_merged : forall S lo hi x', In x' (univ (model_of (merged S lo hi))) <->
  exists x, In x (univ (model_of S)) /\ x' = gmap lo hi x.
Proof.
  intros S lo hi x'. rewrite univ_model_of. split.
  - intros [ty [cls' [el [Hin Hel]]]]. cbn [merged st_elems] in Hin.
    apply in_map_iff in Hin. destruct Hin as [[ty0 cls] [Heq Hin]]. cbn [fst snd] in Heq.
    injection Heq as Hty Hcls. subst cls'. apply in_map_iff in Hel.
    destruct Hel as [[el0 r] [Heq Hel]]. cbn [fst snd] in Heq. injection Heq as Hel0 Hr. subst.
    exists r. split; [|reflexivity]. apply univ_model_of. do 3 eexists. split; eassumption.
  - intros [x [Hx Hx']]. apply univ_model_of in Hx. destruct Hx as [ty [cls [el [Hin Hel]]]].
    exists ty, (map (fun er => (fst er, gmap lo hi (snd er))) cls), el. split.
    + cbn [merged st_elems]. apply in_map_iff. exists (ty, cls). split; [reflexivity | exact Hin].
    + apply in_map_iff. exists (el, x). cbn [fst snd]. subst x'. split; [reflexivity | exact Hel].
Qed.

Lemma car_merged : forall S lo hi ty x', In x' (car (model_of (merged S lo hi)) ty) <->
  exists x, In x (car (model_of S) ty) /\ x' = gmap lo hi x.
Proof.
  intros S lo hi ty x'. rewrite car_model_of. cbn [merged st_elems].
  rewrite (assoc_map_val _ _ (map (fun er => (fst er, gmap lo hi (snd er)))) ty (st_elems S)).
  split.
  - intros [cls' [el [Ha Hel]]]. destruct (assoc ty (st_elems S)) as [cls|] eqn:Ea; [|discriminate].
    cbn [option_map] in Ha. injection Ha as Hc. subst cls'. apply in_map_iff in Hel.
    destruct Hel as [[el0 r] [Heq Hel]]. cbn [fst snd] in Heq. injection Heq as Hel0 Hr. subst.
    exists r. split; [|reflexivity]. apply car_model_of. exists cls, el. split; [exact Ea | exact Hel].
  - intros [x [Hx Hx']]. apply car_model_of in Hx. destruct Hx as [cls [el [Ha Hel]]].
    rewrite Ha. cbn [option_map]. eexists _, el. split; [reflexivity|].
    apply in_map_iff. exists (el, x). cbn [fst snd]. subst x'. split; [reflexivity | exact Hel].
Qed.

Lemma srows_merged : forall S lo hi r row', In row' (srows (merged S lo hi) r) <->
  exists row, In row (srows S r) /\ row' = map (gmap lo hi) row.
Proof.
  intros S lo hi r row'. unfold srows, assoc_d. cbn [merged st_rows].
  rewrite (assoc_map_val _ _ (fun rows => nodup_rows (map (map (gmap lo hi)) rows)) r (st_rows S)).
  destruct (assoc r (st_rows S)) as [rows|]; cbn [option_map].
  - rewrite nodup_rows_In, in_map_iff. split.
    + intros [row [Heq Hin]]. exists row. split; [exact Hin | symmetry; exact Heq].
    + intros [row [Hin Heq]]. exists row. split; [symmetry; exact Heq | exact Hin].
  - split; [intros [] | intros [row [[] _]]].
Qed.

Lemma find_root_cls_merged : forall S lo hi x,
  find_root_cls (st_elems (merged S lo hi)) x = option_map (gmap lo hi) (find_root_cls (st_elems S) x).
Proof. intros S lo hi x. cbn [merged st_elems]. apply find_root_cls_map. Qed.

Lemma gmap_idem : forall lo hi x, lo <> hi -> gmap lo hi (gmap lo hi x) = gmap lo hi x.
Proof.
  intros lo hi x Hne. unfold gmap. destruct (x =? hi) eqn:E; [|rewrite E; reflexivity].
  destruct (lo =? hi) eqn:E2; [apply N.eqb_eq in E2; contradiction | reflexivity].
Qed.

Lemma gmap_univ : forall S lo hi x, In lo (univ (model_of S)) -> In x (univ (model_of S)) ->
  In (gmap lo hi x) (univ (model_of S)).
Proof. intros S lo hi x Hlo Hx. unfold gmap. destruct (x =? hi); assumption. Qed.

Lemma WF_merged : forall S lo hi, WF S -> In lo (univ (model_of S)) -> lo <> hi ->
  WF (merged S lo hi).
Proof.
  intros S lo hi HW Hlo Hne. constructor.
  - intros x' Hx'. apply univ_merged in Hx'. destruct Hx' as [x [Hx Heq]]. subst x'.
    rewrite find_root_cls_merged.
    rewrite (wf_roots S HW _ (gmap_univ S lo hi x Hlo Hx)). cbn [option_map].
    rewrite gmap_idem; [reflexivity | exact Hne].
  - intros r row' x' Hrow' Hx'. apply srows_merged in Hrow'. destruct Hrow' as [row [Hrow Heq]].
    subst row'. apply in_map_iff in Hx'. destruct Hx' as [x [Heq Hx]]. subst x'.
    apply univ_merged. exists x. split; [exact (wf_rows S HW r row x Hrow Hx) | reflexivity].
Qed.

Lemma find_root_merged : forall S lo hi (h : N -> N) x, h hi = h lo ->
  h (find_root (merged S lo hi) x) = h (find_root S x).
Proof.
  intros S lo hi h x Hh. unfold find_root. rewrite find_root_cls_merged.
  destruct (find_root_cls (st_elems S) x) as [r|]; cbn [option_map]; [|reflexivity].
  unfold gmap. destruct (r =? hi) eqn:E; [|reflexivity].
  apply N.eqb_eq in E. subst r. symmetry. exact Hh.
Qed.

Lemma map_gmap_h : forall lo hi (h : N -> N) row, h hi = h lo ->
  map h (map (gmap lo hi) row) = map h row.
Proof.
  intros lo hi h row Hh. rewrite map_map. apply map_ext. intro x. unfold gmap.
  destruct (x =? hi) eqn:E; [|reflexivity]. apply N.eqb_eq in E. subst x. symmetry. exact Hh.
Qed.

Lemma Hom_merged : forall S lo hi h N0, Hom h S N0 -> h hi = h lo -> Hom h (merged S lo hi) N0.
Proof.
  intros S lo hi h N0 [Hu Hc Hr Hh] Heq.
  assert (Hg : forall x, h (gmap lo hi x) = h x).
  { intro x. unfold gmap. destruct (x =? hi) eqn:E; [|reflexivity].
    apply N.eqb_eq in E. subst x. symmetry. exact Heq. }
  constructor.
  - intros x' Hx'. apply univ_merged in Hx'. destruct Hx' as [x [Hx Hx']]. subst x'.
    rewrite Hg. exact (Hu x Hx).
  - intros ty x' Hx'. apply car_merged in Hx'. destruct Hx' as [x [Hx Hx']]. subst x'.
    rewrite Hg. exact (Hc ty x Hx).
  - intros r row' Hrow'. rewrite rws_model_of in Hrow'. apply srows_merged in Hrow'.
    destruct Hrow' as [row [Hrow Heq']]. subst row'. rewrite (map_gmap_h lo hi h row Heq).
    apply Hr. rewrite rws_model_of. exact Hrow.
  - cbn [merged st_handles]. clear -Hh Heq.
    induction Hh as [|a b ha hb Hab Hh IH]; constructor; [|exact IH].
    rewrite (find_root_merged S lo hi h a Heq). exact Hab.
Qed.

(* ---------- with_row ---------- *)

Lemma srows_with_row : forall S r row r',
  srows (with_row S r row) r' = if r' =? r then srows S r ++ [row] else srows S r'.
Proof.
  intros S r row r'. unfold srows at 1. unfold assoc_d. cbn [with_row st_rows].
  rewrite assoc_upd_assoc. destruct (r' =? r); reflexivity.
Qed.

Lemma WF_with_row : forall S r row, WF S ->
  (forall x, In x row -> In x (univ (model_of S))) -> WF (with_row S r row).
Proof.
  intros S r row HW Hrow. constructor.
  - exact (wf_roots S HW).
  - intros r' row0 x Hin Hx. rewrite srows_with_row in Hin. destruct (r' =? r).
    + apply in_app_or in Hin. destruct Hin as [Hin|[Hin|[]]].
      * exact (wf_rows S HW r row0 x Hin Hx).
      * subst row0. exact (Hrow x Hx).
    + exact (wf_rows S HW r' row0 x Hin Hx).
Qed.

Lemma Hom_with_row : forall S r row h N0, Hom h S N0 ->
  In (map h row) (rws (model_of N0) r) -> Hom h (with_row S r row) N0.
Proof.
  intros S r row h N0 [Hu Hc Hr Hh] Hrow. constructor.
  - exact Hu.
  - exact Hc.
  - intros r' row0 Hin. rewrite rws_model_of, srows_with_row in Hin.
    destruct (r' =? r) eqn:E.
    + apply N.eqb_eq in E. subst r'. apply in_app_or in Hin. destruct Hin as [Hin|[Hin|[]]].
      * apply Hr. rewrite rws_model_of. exact Hin.
      * subst row0. exact Hrow.
    + apply Hr. rewrite rws_model_of. exact Hin.
  - exact Hh.
Qed.

(* ---------- with_elem ---------- *)

Lemma univ_with_elem : forall S ty n x,
  In x (univ (model_of (with_elem S ty n))) <-> In x (univ (model_of S)) \/ x = n.
Proof.
  intros S ty n x. rewrite !univ_model_of. cbn [with_elem st_elems]. split.
  - intros [k [c' [el [Hin Hel]]]]. apply upd_assoc_In in Hin.
    destruct Hin as [[c [Hc [Heq|[Hk Heq]]]]|[Hk Heq]]; subst c'.
    + left. do 3 eexists. split; eassumption.
    + apply in_app_or in Hel. destruct Hel as [Hel|[Hel|[]]].
      * left. do 3 eexists. split; eassumption.
      * right. injection Hel as H1 H2. symmetry. exact H2.
    + destruct Hel as [Hel|[]]. right. injection Hel as H1 H2. symmetry. exact H2.
  - intros [[k [c [el [Hin Hel]]]]|Hx].
    + destruct (upd_assoc_old _ (fun l => l ++ [(n, n)]) [] ty k c (st_elems S) Hin) as [H|H].
      * exists k, c, el. split; assumption.
      * exists k, (c ++ [(n, n)]), el. split; [exact H | apply in_or_app; left; exact Hel].
    + subst x. destruct (upd_assoc_has _ (fun l => l ++ [(n, n)]) [] ty (st_elems S)) as [c Hc].
      exists ty, (c ++ [(n, n)]), n. split; [exact Hc | apply in_or_app; right; left; reflexivity].
Qed.

Lemma car_with_elem : forall S ty n ty' x,
  In x (car (model_of (with_elem S ty n)) ty') <->
  In x (car (model_of S) ty') \/ (ty' = ty /\ x = n).
Proof.
  intros S ty n ty' x. rewrite !car_model_of. cbn [with_elem st_elems].
  rewrite assoc_upd_assoc. destruct (ty' =? ty) eqn:E.
  - apply N.eqb_eq in E. subst ty'. unfold assoc_d. split.
    + intros [cls [el [Heq Hel]]]. injection Heq as Hc. subst cls.
      apply in_app_or in Hel. destruct Hel as [Hel|[Hel|[]]].
      * destruct (assoc ty (st_elems S)) as [c|]; [|destruct Hel].
        left. exists c, el. split; [reflexivity | exact Hel].
      * right. injection Hel as H1 H2. split; [reflexivity | symmetry; exact H2].
    + intros [[cls [el [Heq Hel]]]|[_ Hx]].
      * rewrite Heq. eexists _, el. split; [reflexivity | apply in_or_app; left; exact Hel].
      * subst x. eexists _, n. split; [reflexivity | apply in_or_app; right; left; reflexivity].
  - apply N.eqb_neq in E. split.
    + intros H. left. exact H.
    + intros [H|[H _]]; [exact H | contradiction].
Qed.

Lemma assoc_snoc : forall x n (c : list (N * N)),
  assoc x (c ++ [(n, n)]) =
  match assoc x c with Some r => Some r | None => if n =? x then Some n else None end.
Proof.
  intros x n c. induction c as [|[k v] c IH]; [reflexivity|].
  cbn [app assoc]. destruct (k =? x); [reflexivity | exact IH].
Qed.

Lemma find_root_cls_app : forall l1 l2 x,
  find_root_cls (l1 ++ l2) x =
  match find_root_cls l1 x with Some r => Some r | None => find_root_cls l2 x end.
Proof.
  intros l1 l2 x. induction l1 as [|tc l1 IH]; [reflexivity|].
  cbn [app find_root_cls]. destruct (assoc x (snd tc)); [reflexivity | exact IH].
Qed.

Lemma find_root_cls_upd_other : forall ty n cls x, (n =? x) = false ->
  find_root_cls (map (fun kv => if fst kv =? ty then (ty, snd kv ++ [(n, n)]) else kv) cls) x =
  find_root_cls cls x.
Proof.
  intros ty n cls x E. induction cls as [|[k c] cls IH]; [reflexivity|].
  cbn [map find_root_cls fst snd]. destruct (k =? ty); cbn [find_root_cls snd].
  - rewrite assoc_snoc, E. destruct (assoc x c); [reflexivity | exact IH].
  - destruct (assoc x c); [reflexivity | exact IH].
Qed.

Lemma find_root_cls_upd_same : forall ty n cls, find_root_cls cls n = None ->
  existsb (fun kv => fst kv =? ty) cls = true ->
  find_root_cls (map (fun kv => if fst kv =? ty then (ty, snd kv ++ [(n, n)]) else kv) cls) n =
  Some n.
Proof.
  intros ty n cls. induction cls as [|[k c] cls IH]; intros Hn Hex; [discriminate|].
  cbn [find_root_cls snd] in Hn. destruct (assoc n c) eqn:Ea; [discriminate|].
  cbn [map fst snd]. cbn [existsb fst] in Hex. destruct (k =? ty); cbn [find_root_cls snd].
  - rewrite assoc_snoc, Ea, N.eqb_refl. reflexivity.
  - rewrite Ea. cbn [orb] in Hex. exact (IH Hn Hex).
Qed.

Lemma find_root_cls_with_elem : forall S ty n x, find_root_cls (st_elems S) n = None ->
  find_root_cls (st_elems (with_elem S ty n)) x =
  if x =? n then Some n else find_root_cls (st_elems S) x.
Proof.
  intros S ty n x Hn. cbn [with_elem st_elems]. unfold upd_assoc.
  destruct (existsb (fun kv => fst kv =? ty) (st_elems S)) eqn:Ex.
  - destruct (x =? n) eqn:E.
    + apply N.eqb_eq in E. subst x. apply find_root_cls_upd_same; assumption.
    + apply find_root_cls_upd_other. rewrite N.eqb_sym. exact E.
  - rewrite find_root_cls_app. cbn [find_root_cls snd app assoc]. rewrite (N.eqb_sym n x).
    destruct (x =? n) eqn:E.
    + apply N.eqb_eq in E. subst x. rewrite Hn. reflexivity.
    + destruct (find_root_cls (st_elems S) x); reflexivity.
Qed.

Lemma WF_with_elem : forall S ty n, WF S -> find_root_cls (st_elems S) n = None ->
  WF (with_elem S ty n).
Proof.
  intros S ty n HW Hn. constructor.
  - intros x Hx. rewrite (find_root_cls_with_elem S ty n x Hn). destruct (x =? n) eqn:E.
    + apply N.eqb_eq in E. subst. reflexivity.
    + apply univ_with_elem in Hx. destruct Hx as [Hx|Hx].
      * exact (wf_roots S HW x Hx).
      * apply N.eqb_neq in E. contradiction.
  - intros r row x Hrow Hx. apply univ_with_elem. left. exact (wf_rows S HW r row x Hrow Hx).
Qed.
