(* The proved statements of the Sem library (reference semantics for C01, C02, C03, C06, C07).
   Every theorem is closed by [exact]; Print Assumptions must say
   "Closed under the global context". *)
From Coq Require Import List NArith Bool.
From Sem Require Import Syntax Model Spec Chase Iso SpecHom Run Examples
  FactsClosed FactsIso FactsChase FactsApply FactsInitial FactsWF FactsCanon FactsRun.
Import ListNotations.
Open Scope N_scope.

(* ---- C01: the closedness oracle ---- *)

Theorem Sem_closed_b_sound : forall p S, closed_b p S = true -> Closed p S.
Proof. exact closed_b_sound. Qed.
Print Assumptions Sem_closed_b_sound.
Example Sem_closed_b_sound_nv : closed_b semilattice assoc_model = true.
Proof. vm_compute. reflexivity. Qed.

Theorem Sem_closed_b_complete : forall p S, Closed p S -> closed_b p S = true.
Proof. exact closed_b_complete. Qed.
Print Assumptions Sem_closed_b_complete.
Example Sem_closed_b_complete_nv : Closed semilattice assoc_model.
Proof. apply closed_b_sound. vm_compute. reflexivity. Qed.

Theorem Sem_find_violation_sound : forall p S w, find_violation p S = Some w -> ~ Closed p S.
Proof. exact find_violation_sound. Qed.
Print Assumptions Sem_find_violation_sound.
Example Sem_find_violation_sound_nv :
  find_violation semilattice bad_trans = Some (1, 2, [(4, 2); (2, 1); (0, 0)]).
Proof. exact bad_trans_find. Qed.

Theorem Sem_find_violation_witness : forall p S i j e, find_violation p S = Some (i, j, e) ->
  exists r, nth_error (pg_rules p) (N.to_nat i) = Some r /\ ~ rule_holds (model_of S) r.
Proof. exact find_violation_witness. Qed.
Print Assumptions Sem_find_violation_witness.

Theorem Sem_check_closed_none : forall p S, check_closed p S = None -> Closed p S /\ Canonical p S.
Proof. exact check_closed_none. Qed.
Print Assumptions Sem_check_closed_none.
Example Sem_check_closed_none_nv : check_closed semilattice assoc_model = None.
Proof. exact assoc_model_closed. Qed.

Theorem Sem_check_closed_some : forall p S w, check_closed p S = Some w ->
  fst (fst w) <> code_canonical -> ~ Closed p S.
Proof. exact check_closed_some. Qed.
Print Assumptions Sem_check_closed_some.
Example Sem_check_closed_some_nv :
  check_closed semilattice bad_trans = Some (1, 2, [(4, 2); (2, 1); (0, 0)]).
Proof. exact bad_trans_violation. Qed.

Theorem Sem_canonical_b_sound : forall p S, canonical_b p S = true -> Canonical p S.
Proof. exact canonical_b_sound. Qed.
Print Assumptions Sem_canonical_b_sound.
Example Sem_canonical_b_sound_nv : canonical_b semilattice assoc_model = true.
Proof. vm_compute. reflexivity. Qed.

(* ---- C01/C02: the reference chase ---- *)

Theorem Sem_chase_closed : forall n p M M', chase n p M = Some M' -> Closed p M'.
Proof. exact chase_closed. Qed.
Print Assumptions Sem_chase_closed.
Example Sem_chase_closed_nv : chase 100 semilattice sl_start = Some sl_free.
Proof. exact free_is_chase. Qed.

Theorem Sem_chase_fix : forall n p M M', chase n p M = Some M' -> chase_round p M' = Fix.
Proof. exact chase_fix. Qed.
Print Assumptions Sem_chase_fix.

Theorem Sem_close_until_contract : forall n p c M M', close_until n p c M = Some M' ->
  eval_cond_s M' c = true \/ Closed p M'.
Proof. exact close_until_contract. Qed.
Print Assumptions Sem_close_until_contract.

(* the universal property of the free model. Side conditions: the start state is well formed
   (true of every state of [run_history], see Sem_run_history_WF), every applied symbol of the
   program is a declared function ([wf_prog_b], checked per program), and the target is
   well typed (implied by [canonical_b], see Sem_canonical_b_sound). *)
Theorem Sem_chase_initial : forall n p M M', chase n p M = Some M' ->
  WF M -> wf_prog_b p = true ->
  forall N0, Closed p N0 -> RowsTyped p (model_of N0) -> hom_from_facts M N0 ->
  exists h, Hom h M' N0.
Proof. exact chase_initial. Qed.
Print Assumptions Sem_chase_initial.
Example Sem_chase_initial_nv :
  chase 100 semilattice sl_start = Some sl_free /\ WF sl_start /\ wf_prog_b semilattice = true /\
  Closed semilattice sl_one /\ RowsTyped semilattice (model_of sl_one) /\
  hom_from_facts sl_start sl_one.
Proof.
  split; [exact free_is_chase|].
  split; [exact (run_history_WF _ _ _ _ start_in_history)|].
  split; [exact sl_wf|].
  split; [exact (proj1 (check_closed_none _ _ one_closed))|].
  split; [exact (can_typed _ _ (proj2 (check_closed_none _ _ one_closed)))|].
  exact (hom_b_sound _ _ _ start_to_one).
Qed.

(* the statement without the side conditions; NOT proved in this generality. What is missing:
   determinism of term evaluation in the target needs every applied symbol to be a declared
   (hence single-valued) function, the image of a freshly defined element must have the result
   type in the target, and the proof uses that rows of the start state mention roots only. *)
Definition Sem_chase_initial_full : Prop :=
  forall n p M M', chase n p M = Some M' ->
  forall N0, Closed p N0 -> hom_from_facts M N0 -> exists h, Hom h M' N0.

Theorem Sem_chase_WF : forall n p M M', chase n p M = Some M' -> WF M -> WF M'.
Proof. exact chase_WF. Qed.
Print Assumptions Sem_chase_WF.

Theorem Sem_run_history_WF : forall fuel p cs S, In (Some S) (run_history fuel p cs) -> WF S.
Proof. exact run_history_WF. Qed.
Print Assumptions Sem_run_history_WF.
Example Sem_run_history_WF_nv : In (Some m_once) (run_history 100 semilattice h_once).
Proof. exact once_in_history. Qed.

(* ---- C02/C03/C07: isomorphism and homomorphism oracles ---- *)

Theorem Sem_iso_b_sound : forall p A B, iso_b p A B = true -> Iso A B.
Proof. exact iso_b_sound. Qed.
Print Assumptions Sem_iso_b_sound.
Example Sem_iso_b_sound_nv : iso_b semilattice m_once m_incr = true.
Proof. exact history_independent. Qed.

Theorem Sem_hom_b_sound : forall p A B, hom_b p A B = true -> exists h, Hom h A B.
Proof. exact hom_b_sound. Qed.
Print Assumptions Sem_hom_b_sound.
Example Sem_hom_b_sound_nv : hom_b semilattice m_until m_once = true.
Proof. exact until_sound. Qed.

(* completeness of the propagation-based oracles is not proved: [iso_b] may answer [false] for
   isomorphic structures that contain elements not reachable from handles through function
   rows ([iso_code] = 3) *)
Definition Sem_iso_b_complete_full : Prop := forall p A B, Iso A B -> iso_b p A B = true.
