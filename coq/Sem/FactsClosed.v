(* The closedness checker decides [Closed]; reported violations are real. *)
From Coq Require Import List NArith Bool Lia.
From Sem Require Import Syntax Model Spec FactsMatch FactsDom.
Import ListNotations.
Open Scope N_scope.

(* [envs] represents exactly the assignments satisfying [P]; all of them bind exactly [K] *)
Record covers (K : list N) (P : asg -> Prop) (envs : list env) : Prop := {
  cov_sound : forall e, In e envs -> forall s, agrees s e -> P s;
  cov_complete : forall s, P s -> exists e, In e envs /\ agrees s e;
  cov_dom : forall e, In e envs -> forall k, bound e k <-> In k K }.

Lemma covers_init : covers [] (fun _ => True) [[]].
Proof.
  constructor.
  - intros; exact I.
  - intros s _. exists []. split; [left; reflexivity | apply agrees_nil].
  - intros e [He|[]] k. subst e. unfold bound. cbn. tauto.
Qed.

Lemma covers_step : forall M K P envs a, covers K P envs ->
  covers (K ++ atom_keys a) (fun s => P s /\ atom_holds M s a) (flat_map (match_atom M a) envs).
Proof.
  intros M K P envs a [Hs Hc Hd]. constructor.
  - intros e' Hin s Hag. apply in_flat_map in Hin. destruct Hin as [e [He Hm]].
    destruct (match_atom_sound M a e e' Hm s Hag) as [Hag0 Hh].
    split; [exact (Hs e He s Hag0) | exact Hh].
  - intros s [HP Hh]. destruct (Hc s HP) as [e [He Hag]].
    destruct (match_atom_complete M a e s Hag Hh) as [e' [He' Hag']].
    exists e'. split; [|exact Hag']. apply in_flat_map. exists e. split; assumption.
  - intros e' Hin k. apply in_flat_map in Hin. destruct Hin as [e [He Hm]].
    rewrite (match_atom_dom M a e e' Hm k), (Hd e He k), in_app_iff. tauto.
Qed.

Lemma check_stmts_spec : forall M ss K P idx envs, covers K P envs ->
  (check_stmts M ss idx envs = None -> stmts_hold M K P ss) /\
  (forall w, check_stmts M ss idx envs = Some w -> ~ stmts_hold M K P ss).
Proof.
  intros M ss. induction ss as [|st rest IH]; intros K P idx envs Hcov.
  - cbn [check_stmts stmts_hold]. split; [intros _; exact I | intros w H; discriminate].
  - destruct st as [a|a]; cbn [check_stmts stmts_hold].
    + apply IH. apply covers_step. exact Hcov.
    + destruct (find (fun e => is_nil (match_atom M (then_atom a) e)) envs) as [e|] eqn:Ef.
      * split; [intro H; discriminate|]. intros w _ [Hthen _].
        apply find_some in Ef. destruct Ef as [He Hnil]. apply is_nil_true in Hnil.
        destruct Hcov as [Hs Hc Hd].
        destruct (Hthen (asg_of e) (Hs e He _ (agrees_asg_of e))) as [s' [Hk Hh]].
        assert (Hag : agrees s' e).
        { intros k v Hkv. rewrite Hk.
          - apply agrees_asg_of. exact Hkv.
          - apply (Hd e He k). unfold bound. rewrite Hkv. discriminate. }
        destruct (match_atom_complete M (then_atom a) e s' Hag Hh) as [e' [He' _]].
        rewrite Hnil in He'. destruct He'.
      * assert (Hthen : forall s, P s -> then_holds M K s a).
        { intros s HP. destruct Hcov as [Hs Hc Hd]. destruct (Hc s HP) as [e [He Hag]].
          pose proof (find_none _ _ Ef e He) as Hnn. cbn beta in Hnn.
          destruct (match_atom M (then_atom a) e) as [|e' l] eqn:Em; [discriminate|].
          assert (Hin : In e' (match_atom M (then_atom a) e)) by (rewrite Em; left; reflexivity).
          set (s' := fun k => match assoc k e' with Some v => v | None => s k end).
          assert (Hag' : agrees s' e').
          { intros k v Hkv. unfold s'. rewrite Hkv. reflexivity. }
          exists s'. split.
          - intros k HkK. apply (Hd e He k) in HkK. unfold bound in HkK.
            destruct (assoc k e) as [v|] eqn:Ek; [|contradiction].
            pose proof (msound_extends _ _ _ _ (match_atom_sound M (then_atom a) e) Hin k v Ek) as Hk'.
            unfold s'. rewrite Hk'. symmetry. apply Hag. exact Ek.
          - exact (proj2 (match_atom_sound M (then_atom a) e e' Hin s' Hag')). }
        destruct (IH (K ++ atom_keys a) (fun s => P s /\ atom_holds M s a) (N.succ idx)
                     (flat_map (match_atom M a) envs) (covers_step M K P envs a Hcov)) as [IH1 IH2].
        destruct rest as [|st' rest'].
        -- split; [intros _; split; [exact Hthen | exact I] | intros w H; discriminate].
        -- split.
           ++ intro H. split; [exact Hthen | exact (IH1 H)].
           ++ intros w H [_ Hrest]. exact (IH2 w H Hrest).
Qed.

Lemma check_rule_none : forall M r, check_rule M r = None -> rule_holds M r.
Proof. intros M r H. exact (proj1 (check_stmts_spec M r [] _ 0 [[]] covers_init) H). Qed.

Lemma check_rule_some : forall M r w, check_rule M r = Some w -> ~ rule_holds M r.
Proof. intros M r w H. exact (proj2 (check_stmts_spec M r [] _ 0 [[]] covers_init) w H). Qed.

(* ---------- indexed lists ---------- *)

Lemma index_from_In : forall (A : Type) (l : list A) n i d,
  In (i, d) (index_from n l) <-> exists j : nat, i = n + N.of_nat j /\ nth_error l j = Some d.
Proof.
  intros A l. induction l as [|x l IH]; intros n i d; cbn [index_from].
  - split; [intros [] | intros [j [_ H]]; destruct j; discriminate].
  - cbn [In]. rewrite IH. split.
    + intros [H|[j [Hi Hj]]].
      * injection H as Hn Hx. subst. exists O. split; [cbn; lia | reflexivity].
      * exists (S j). split; [lia | exact Hj].
    + intros [[|j] [Hi Hj]].
      * left. cbn in Hj. injection Hj as Hx. subst. f_equal. cbn. lia.
      * right. exists j. split; [lia | exact Hj].
Qed.

Lemma indexed_In : forall (A : Type) (l : list A) i d,
  In (i, d) (indexed l) <-> nth_error l (N.to_nat i) = Some d.
Proof.
  intros A l i d. unfold indexed. rewrite index_from_In. split.
  - intros [j [Hi Hj]]. subst i. cbn. rewrite Nat2N.id. exact Hj.
  - intro H. exists (N.to_nat i). split; [cbn; rewrite N2Nat.id; reflexivity | exact H].
Qed.

Lemma indexed_In_snd : forall (A : Type) (l : list A) i d, In (i, d) (indexed l) -> In d l.
Proof. intros A l i d H. apply indexed_In in H. eapply nth_error_In. exact H. Qed.

Lemma In_indexed : forall (A : Type) (l : list A) d, In d l -> exists i, In (i, d) (indexed l).
Proof.
  intros A l d H. apply In_nth_error in H. destruct H as [j Hj].
  exists (N.of_nat j). apply indexed_In. rewrite Nat2N.id. exact Hj.
Qed.

(* ---------- rules ---------- *)

Lemma find_violation_rules_none : forall M rs,
  find_violation_rules M rs = None -> forall i r, In (i, r) rs -> rule_holds M r.
Proof.
  intros M rs. induction rs as [|[i0 r0] rs IH]; intros H i r Hin; [destruct Hin|].
  cbn [find_violation_rules] in H.
  destruct (check_rule M r0) as [[j e]|] eqn:Ec; [discriminate|].
  destruct Hin as [Hin|Hin].
  - injection Hin as Hi Hr. subst. apply check_rule_none. exact Ec.
  - exact (IH H i r Hin).
Qed.

Lemma find_violation_rules_some : forall M rs w,
  find_violation_rules M rs = Some w ->
  exists r, In (fst (fst w), r) rs /\ ~ rule_holds M r.
Proof.
  intros M rs. induction rs as [|[i0 r0] rs IH]; intros w H; [discriminate|].
  cbn [find_violation_rules] in H.
  destruct (check_rule M r0) as [[j e]|] eqn:Ec.
  - injection H as Hw. subst w. cbn [fst]. exists r0. split; [left; reflexivity|].
    eapply check_rule_some. exact Ec.
  - destruct (IH w H) as [r [Hin Hn]]. exists r. split; [right; exact Hin | exact Hn].
Qed.

(* ---------- functionality ---------- *)

Lemma func_rows_ok_spec : forall rows, func_rows_ok rows = true <->
  (forall r1 r2, In r1 rows -> In r2 rows -> removelast r1 = removelast r2 -> r1 = r2).
Proof.
  intro rows. unfold func_rows_ok. rewrite forallb_forall. split.
  - intros H r1 r2 H1 H2 Heq. specialize (H r1 H1). rewrite forallb_forall in H.
    specialize (H r2 H2). rewrite Heq in H. rewrite list_eqb_refl in H. cbn [implb] in H.
    apply list_eqb_eq. exact H.
  - intros H r1 H1. apply forallb_forall. intros r2 H2.
    destruct (list_eqb (removelast r1) (removelast r2)) eqn:E; [|reflexivity].
    cbn [implb]. apply list_eqb_eq. apply H; try assumption. apply list_eqb_eq. exact E.
Qed.

Lemma functional_model_b_spec : forall p M, functional_model_b p M = true <-> Functional p M.
Proof.
  intros p M. unfold functional_model_b, Functional. rewrite forallb_forall. split.
  - intros H f d Hn Hf. apply indexed_In in Hn. specialize (H (f, d) Hn). cbn [fst snd] in H.
    rewrite Hf in H. cbn [implb] in H. apply func_rows_ok_spec. exact H.
  - intros H [f d] Hin. cbn [fst snd]. destruct (rd_func d) eqn:Ef; [|reflexivity].
    cbn [implb]. apply func_rows_ok_spec. apply indexed_In in Hin. exact (H f d Hin Ef).
Qed.

(* ---------- the main statements ---------- *)

Theorem closed_b_sound : forall p S, closed_b p S = true -> Closed p S.
Proof.
  intros p S H. unfold closed_b in H.
  destruct (find_violation p S) as [w|] eqn:Ev; [discriminate|].
  unfold Closed, ClosedM. split.
  - intros r Hr. destruct (In_indexed _ _ _ Hr) as [i Hi].
    exact (find_violation_rules_none _ _ Ev i r Hi).
  - apply functional_model_b_spec. exact H.
Qed.

Theorem find_violation_sound : forall p S w, find_violation p S = Some w -> ~ Closed p S.
Proof.
  intros p S w H [Hrules _]. unfold find_violation in H.
  destruct (find_violation_rules_some _ _ _ H) as [r [Hin Hn]].
  apply Hn. apply Hrules. eapply indexed_In_snd. exact Hin.
Qed.

Theorem closed_b_complete : forall p S, Closed p S -> closed_b p S = true.
Proof.
  intros p S HC. unfold closed_b. destruct (find_violation p S) as [w|] eqn:Ev.
  - exfalso. exact (find_violation_sound p S w Ev HC).
  - apply functional_model_b_spec. exact (proj2 HC).
Qed.

Theorem closed_b_iff : forall p S, closed_b p S = true <-> Closed p S.
Proof. intros p S. split; [apply closed_b_sound | apply closed_b_complete]. Qed.

(* the witness: rule index in range, and that very rule fails *)
Theorem find_violation_witness : forall p S i j e, find_violation p S = Some (i, j, e) ->
  exists r, nth_error (pg_rules p) (N.to_nat i) = Some r /\ ~ rule_holds (model_of S) r.
Proof.
  intros p S i j e H. unfold find_violation in H.
  destruct (find_violation_rules_some _ _ _ H) as [r [Hin Hn]]. cbn [fst] in Hin.
  exists r. split; [apply indexed_In; exact Hin | exact Hn].
Qed.
