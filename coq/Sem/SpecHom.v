(* Homomorphisms and isomorphisms of structures that respect handles. Definitions only. *)
From Coq Require Import List NArith Bool.
From Sem Require Import Syntax Model Chase.
Import ListNotations.
Open Scope N_scope.

(* [h] maps root elements of [A] to root elements of [B] of the same type, maps rows to rows,
   and sends (the root of) handle k of [A] to (the root of) handle k of [B] *)
Record Hom (h : N -> N) (A B : structure) : Prop := {
  hom_univ : forall x, In x (univ (model_of A)) -> In (h x) (univ (model_of B));
  hom_car : forall ty x, In x (car (model_of A) ty) -> In (h x) (car (model_of B) ty);
  hom_rows : forall r row, In row (rws (model_of A) r) -> In (map h row) (rws (model_of B) r);
  hom_handles : Forall2 (fun a b => h (find_root A a) = find_root B b)
                        (st_handles A) (st_handles B) }.

Definition Iso (A B : structure) : Prop :=
  exists h g, Hom h A B /\ Hom g B A /\
    (forall x, In x (univ (model_of A)) -> g (h x) = x) /\
    (forall y, In y (univ (model_of B)) -> h (g y) = y).

(* the hypothesis of the universal property: the asserted facts hold in [N] *)
Definition hom_from_facts (M N : structure) : Prop := exists h, Hom h M N.
