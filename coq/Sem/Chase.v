(* Executable reference semantics, part 2: the naive chase and the API-history interpreter.
   Definitions only.

   State = a [structure] whose rows mention only root ids (merging rewrites every row and
   every class entry; no union-find). Fresh ids are 1 + the largest id in use, so ids are
   globally unique across types.

   One round ([chase_round]):
     1. enumerate, for every rule, every assignment satisfying a statement prefix and collect
        what the next then-atom asks for (see [then_actions]); add the functionality merges;
     2. apply all merges, then all row insertions. If anything changed the round is over;
     3. otherwise (surjective part saturated) apply ALL pending definitions [DefApp] of this
        round (each one only if the application is still undefined). If something changed
        the round is over;
     4. otherwise the state is a fixed point: [chase] returns it after re-checking it with the
        verified [closed_b] (a state in which no action applies but which is not closed can
        only arise from programs that eqlog rejects; [chase] returns [None] for them, like
        for exhausted fuel). *)
From Coq Require Import List NArith Bool.
From Sem Require Import Syntax Model.
Import ListNotations.
Open Scope N_scope.

Inductive action :=
  | AddRow (r : N) (row : list N)
  | Merge (a b : N)
  | DefApp (f : N) (args : list N).

(* ---------- collecting actions ---------- *)

Fixpoint eval_terms (M : model) (ts : list term) (e : env) : list (env * list N) :=
  match ts with
  | [] => [(e, [])]
  | t :: ts' =>
      flat_map (fun ev => map (fun evs => (fst evs, snd ev :: snd evs))
                              (eval_terms M ts' (fst ev)))
               (eval_term M t e)
  end.

(* innermost undefined applications of [t] whose arguments are defined *)
Fixpoint undefd (M : model) (e : env) (t : term) {struct t} : list action :=
  match t with
  | App f args =>
      let sub := flat_map (undefd M e) args in
      if is_nil sub then
        (if is_nil (eval_term M t e)
         then map (fun evs => DefApp f (snd evs)) (eval_terms M args e)
         else [])
      else sub
  | _ => []
  end.

(* [a] is defined (value va); [b = g(bargs)] with defined arguments: the row (bargs, va) *)
Definition half_eq (M : model) (a b : term) (e : env) : list action :=
  match b with
  | App g bargs =>
      flat_map (fun ev => map (fun evs => AddRow g (snd evs ++ [snd ev]))
                              (eval_terms M bargs (fst ev)))
               (eval_term M a e)
  | _ => []
  end.

Definition then_actions_raw (M : model) (a : atom) (e : env) : list action :=
  match a with
  | APred p args => map (fun evs => AddRow p (snd evs)) (eval_terms M args e)
  | AEq a b =>
      let both := flat_map (fun ev => map (fun ev' => Merge (snd ev) (snd ev'))
                                          (eval_term M b (fst ev)))
                           (eval_term M a e) in
      if is_nil both then half_eq M a b e ++ half_eq M b a e else both
  | ADef t => undefd M e t
  | ALet _ t => undefd M e t
  | ATy _ _ => []
  end.

Definition keys_bound (e : env) (ks : list N) : bool :=
  forallb (fun k => match assoc k e with Some _ => true | None => false end) ks.

(* nothing is done for a then-atom that mentions a variable not bound by earlier statements
   (other than the [x] of [x := t!]); eqlog rejects such rules *)
Definition then_actions (M : model) (a : atom) (e : env) : list action :=
  if keys_bound e (atom_keys (then_atom a)) then then_actions_raw M a e else [].

Fixpoint collect_stmts (M : model) (ss : list stmt) (envs : list env) : list action :=
  match ss with
  | [] => []
  | If a :: rest => collect_stmts M rest (flat_map (match_atom M a) envs)
  | Then a :: rest =>
      flat_map (then_actions M a) envs ++
      match rest with
      | [] => []
      | _ => collect_stmts M rest (flat_map (match_atom M a) envs)
      end
  end.

Definition collect_rules (M : model) (rs : list rule) : list action :=
  flat_map (fun r => collect_stmts M r [[]]) rs.

Definition func_row_actions (rows : list (list N)) : list action :=
  flat_map (fun r1 => flat_map (fun r2 =>
     if list_eqb (removelast r1) (removelast r2) && negb (last r1 0 =? last r2 0)
     then [Merge (last r1 0) (last r2 0)] else []) rows) rows.

Definition func_actions (p : program) (M : model) : list action :=
  flat_map (fun fd => if rd_func (snd fd) then func_row_actions (rws M (fst fd)) else [])
           (indexed (sg_rels (pg_sig p))).

(* ---------- applying actions ---------- *)

Fixpoint find_root_cls (cls : list (N * list (N * N))) (x : N) : option N :=
  match cls with
  | [] => None
  | tc :: rest =>
      match assoc x (snd tc) with
      | Some r => Some r
      | None => find_root_cls rest x
      end
  end.

Definition find_root (S : structure) (x : N) : N :=
  match find_root_cls (st_elems S) x with Some r => r | None => x end.

Definition next_id (S : structure) : N :=
  fold_left (fun m x => N.max m (N.succ x))
            (flat_map (fun tc => flat_map (fun er => [fst er; snd er]) (snd tc)) (st_elems S) ++
             st_handles S) 0.

Definition upd_assoc {A : Type} (k : N) (f : A -> A) (d : A) (l : list (N * A)) : list (N * A) :=
  if existsb (fun kv => fst kv =? k) l
  then map (fun kv => if fst kv =? k then (k, f (snd kv)) else kv) l
  else l ++ [(k, f d)].

Definition srows (S : structure) (r : N) : list (list N) := assoc_d [] r (st_rows S).

Definition gmap (lo hi x : N) : N := if x =? hi then lo else x.

(* [hi] is replaced by [lo] everywhere (as a root and in rows) *)
Definition merged (S : structure) (lo hi : N) : structure :=
  {| st_elems := map (fun tc => (fst tc, map (fun er => (fst er, gmap lo hi (snd er))) (snd tc)))
                     (st_elems S);
     st_rows := map (fun rr => (fst rr, nodup_rows (map (map (gmap lo hi)) (snd rr)))) (st_rows S);
     st_handles := st_handles S |}.

(* merging and inserting do nothing if an argument is not an element of the structure *)
Definition merge (S : structure) (a b : N) : structure * bool :=
  match find_root_cls (st_elems S) a, find_root_cls (st_elems S) b with
  | Some ra, Some rb =>
      if ra =? rb then (S, false) else (merged S (N.min ra rb) (N.max ra rb), true)
  | _, _ => (S, false)
  end.

Fixpoint roots_opt (cls : list (N * list (N * N))) (row : list N) : option (list N) :=
  match row with
  | [] => Some []
  | x :: row' =>
      match find_root_cls cls x, roots_opt cls row' with
      | Some y, Some r => Some (y :: r)
      | _, _ => None
      end
  end.

Definition with_row (S : structure) (r : N) (row : list N) : structure :=
  {| st_elems := st_elems S;
     st_rows := upd_assoc r (fun l => l ++ [row]) [] (st_rows S);
     st_handles := st_handles S |}.

Definition add_row (S : structure) (r : N) (row : list N) : structure * bool :=
  match roots_opt (st_elems S) row with
  | None => (S, false)
  | Some row' => if mem_row row' (srows S r) then (S, false) else (with_row S r row', true)
  end.

Definition with_elem (S : structure) (ty n : N) : structure :=
  {| st_elems := upd_assoc ty (fun l => l ++ [(n, n)]) [] (st_elems S);
     st_rows := st_rows S;
     st_handles := st_handles S |}.

Definition new_elem (S : structure) (ty : N) : structure * N :=
  (with_elem S ty (next_id S), next_id S).

Definition has_prefix (args row : list N) : bool := list_eqb args (removelast row).

Definition lookup_fun (rows : list (list N)) (args : list N) : option N :=
  match find (has_prefix args) rows with
  | Some row => Some (last row 0)
  | None => None
  end.

Definition res_type (p : program) (f : N) : N :=
  match nth_error (sg_rels (pg_sig p)) (N.to_nat f) with
  | Some d => last (rd_cols d) 0
  | None => 0
  end.

Definition def_app (p : program) (S : structure) (f : N) (args : list N) : structure * bool :=
  if is_func p f then
    match roots_opt (st_elems S) args with
    | None => (S, false)
    | Some args' =>
        match lookup_fun (srows S f) args' with
        | Some _ => (S, false)
        | None =>
            let Sn := new_elem S (res_type p f) in
            (fst (add_row (fst Sn) f (args' ++ [snd Sn])), true)
        end
    end
  else (S, false).

Definition apply_merge (S : structure) (a : action) : structure * bool :=
  match a with Merge x y => merge S x y | _ => (S, false) end.
Definition apply_row (S : structure) (a : action) : structure * bool :=
  match a with AddRow r row => add_row S r row | _ => (S, false) end.
Definition apply_def (p : program) (S : structure) (a : action) : structure * bool :=
  match a with DefApp f args => def_app p S f args | _ => (S, false) end.

Definition apply_list (f : structure -> action -> structure * bool)
           (acts : list action) (S : structure) : structure * bool :=
  fold_left (fun sb a => let r := f (fst sb) a in (fst r, snd sb || snd r)) acts (S, false).

Inductive round_result := Fix | Changed (S : structure).

(* actions are kept only if they mention root elements of the current state only (always the
   case when rows mention roots only; the filter saves proving it) *)
Definition act_ok (U : list N) (a : action) : bool :=
  match a with
  | AddRow _ row => forallb (fun x => memN x U) row
  | Merge x y => memN x U && memN y U
  | DefApp _ args => forallb (fun x => memN x U) args
  end.

Definition round_actions (p : program) (S : structure) : list action :=
  let M := model_of S in
  filter (act_ok (univ M)) (collect_rules M (pg_rules p) ++ func_actions p M).

Definition chase_round (p : program) (S : structure) : round_result :=
  let acts := round_actions p S in
  let r1 := apply_list apply_merge acts S in
  let r2 := apply_list apply_row acts (fst r1) in
  if snd r1 || snd r2 then Changed (fst r2) else
  let r3 := apply_list (apply_def p) acts S in
  if snd r3 then Changed (fst r3) else Fix.

Fixpoint chase (fuel : nat) (p : program) (S : structure) : option structure :=
  match fuel with
  | O => None
  | Datatypes.S n =>
      match chase_round p S with
      | Fix => if closed_b p S then Some S else None
      | Changed S' => chase n p S'
      end
  end.

(* ---------- conditions and histories ---------- *)

Definition handle (S : structure) (k : N) : N := nth (N.to_nat k) (st_handles S) 0.
Definition hroot (S : structure) (k : N) : N := find_root S (handle S k).

Fixpoint eval_cond_s (S : structure) (c : cond) : bool :=
  match c with
  | CPred p hs => mem_row (map (hroot S) hs) (srows S p)
  | CDefined f hs => existsb (has_prefix (map (hroot S) hs)) (srows S f)
  | CEqual _ a b => hroot S a =? hroot S b
  | CAnd a b => eval_cond_s S a && eval_cond_s S b
  | COr a b => eval_cond_s S a || eval_cond_s S b
  end.

(* stops as soon as [c] holds (checked before every round) or at the fixed point *)
Fixpoint close_until (fuel : nat) (p : program) (c : cond) (S : structure) : option structure :=
  match fuel with
  | O => None
  | Datatypes.S n =>
      if eval_cond_s S c then Some S else
      match chase_round p S with
      | Fix => if closed_b p S then Some S else None
      | Changed S' => close_until n p c S'
      end
  end.

Definition push_handle (S : structure) (n : N) : structure :=
  {| st_elems := st_elems S; st_rows := st_rows S; st_handles := st_handles S ++ [n] |}.

Definition do_call (fuel : nat) (p : program) (S : structure) (c : call) : option structure :=
  match c with
  | New ty => let Sn := new_elem S ty in Some (push_handle (fst Sn) (snd Sn))
  | Insert r hs => Some (fst (add_row S r (map (handle S) hs)))
  | Define f hs =>
      let args := map (hroot S) hs in
      match lookup_fun (srows S f) args with
      | Some v => Some (push_handle S v)
      | None =>
          let Sn := new_elem S (res_type p f) in
          Some (push_handle (fst (add_row (fst Sn) f (args ++ [snd Sn]))) (snd Sn))
      end
  | Equate _ a b => Some (fst (merge S (handle S a) (handle S b)))
  | Close => chase fuel p S
  | CloseUntil c => close_until fuel p c S
  | Dump => Some S
  end.

Fixpoint run_from (fuel : nat) (p : program) (st : option structure) (cs : list call)
  : list (option structure) :=
  match cs with
  | [] => []
  | Dump :: cs' => st :: run_from fuel p st cs'
  | c :: cs' =>
      run_from fuel p (match st with Some s0 => do_call fuel p s0 c | None => None end) cs'
  end.

Definition nrange (n : N) : list N := map N.of_nat (seq 0 (N.to_nat n)).

Definition init_structure (p : program) : structure :=
  {| st_elems := map (fun i => (i, [])) (nrange (sg_ntypes (pg_sig p)));
     st_rows := map (fun i => (i, [])) (nrange (N.of_nat (length (sg_rels (pg_sig p)))));
     st_handles := [] |}.

(* one output per [Dump]; [None] once a close ran out of fuel (or got stuck) *)
Definition run_history (fuel : nat) (p : program) (cs : list call) : list (option structure) :=
  run_from fuel p (Some (init_structure p)) cs.
