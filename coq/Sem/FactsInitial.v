(* The universal property of the chase: a homomorphism from the start state into a closed,
   well-typed structure extends along every round. *)
From Coq Require Import List NArith Bool Lia.
From Sem Require Import Syntax Model Spec Chase SpecHom FactsMatch FactsIso FactsClosed FactsHom
  FactsForced FactsStruct FactsApply.
Import ListNotations.
Open Scope N_scope.

(* rows of declared relations have the declared column types *)
Definition RowsTyped (p : program) (M : model) : Prop :=
  forall f d, nth_error (sg_rels (pg_sig p)) (N.to_nat f) = Some d ->
  forall row, In row (rws M f) -> Forall2 (fun c x => In x (car M c)) (rd_cols d) row.

Definition act_in (U : list N) (a : action) : Prop :=
  match a with
  | AddRow _ row => forall x, In x row -> In x U
  | Merge x y => In x U /\ In y U
  | DefApp _ args => forall x, In x args -> In x U
  end.

Lemma act_ok_spec : forall U a, act_ok U a = true -> act_in U a.
Proof.
  intros U [r row|x y|f args] H; cbn [act_ok act_in] in *.
  - intros x Hx. rewrite forallb_forall in H. apply memN_In. exact (H x Hx).
  - apply andb_true_iff in H. destruct H as [H1 H2]. split; apply memN_In; assumption.
  - intros x Hx. rewrite forallb_forall in H. apply memN_In. exact (H x Hx).
Qed.

Lemma apply_list_inv : forall (I : structure -> Prop) f acts,
  (forall S a, In a acts -> I S -> I (fst (f S a))) ->
  forall S, I S -> I (fst (apply_list f acts S)).
Proof.
  intros I f acts Hstep S HS. unfold apply_list.
  assert (G : forall sb : structure * bool, I (fst sb) ->
    I (fst (fold_left (fun sb a => let r := f (fst sb) a in (fst r, snd sb || snd r)) acts sb))).
  { induction acts as [|a acts IH]; intros sb Hsb; [exact Hsb|].
    cbn [fold_left]. apply IH.
    - intros S' a' Hin. apply Hstep. right. exact Hin.
    - cbn [fst]. apply Hstep; [left; reflexivity | exact Hsb]. }
  exact (G (S, false) HS).
Qed.

Lemma apply_list_unchanged : forall f acts S,
  (forall S' a, snd (f S' a) = false -> fst (f S' a) = S') ->
  snd (apply_list f acts S) = false -> fst (apply_list f acts S) = S.
Proof.
  intros f acts S Hf. unfold apply_list.
  assert (G : forall sb : structure * bool,
    snd (fold_left (fun sb a => let r := f (fst sb) a in (fst r, snd sb || snd r)) acts sb) = false ->
    fst (fold_left (fun sb a => let r := f (fst sb) a in (fst r, snd sb || snd r)) acts sb) = fst sb
    /\ snd sb = false).
  { induction acts as [|a acts IH]; intros sb H; [split; [reflexivity | exact H]|].
    cbn [fold_left] in *. destruct (IH _ H) as [H1 H2]. cbn [fst snd] in H1, H2.
    apply orb_false_iff in H2. destruct H2 as [H2 H3].
    split; [|exact H2]. rewrite H1. apply Hf. exact H3. }
  intro H. exact (proj1 (G (S, false) H)).
Qed.

Section Round.
  Variable p : program.
  Variable S0 : structure.
  Variable N0 : structure.
  Variable h : N -> N.
  Hypothesis HW0 : WF S0.
  Hypothesis HH0 : Hom h S0 N0.

  Let U0 := univ (model_of S0).
  Let MN := model_of N0.

  (* ----- merges and rows: the homomorphism stays the same ----- *)

  Definition I1 (S : structure) : Prop :=
    WF S /\ Hom h S N0 /\
    (forall x r, In x U0 -> find_root_cls (st_elems S) x = Some r -> h r = h x).

  Lemma I1_init : I1 S0.
  Proof.
    split; [exact HW0|]. split; [exact HH0|]. intros x r Hx Hr.
    rewrite (wf_roots S0 HW0 x Hx) in Hr. injection Hr as Hr. subst. reflexivity.
  Qed.

  Lemma merge_step : forall S x y, I1 S -> In x U0 -> In y U0 -> h x = h y ->
    I1 (fst (merge S x y)).
  Proof.
    intros S x y [HW [HH HJ]] Hx Hy Hxy. unfold merge.
    destruct (find_root_cls (st_elems S) x) as [ra|] eqn:Ea; [|split; [exact HW|split; assumption]].
    destruct (find_root_cls (st_elems S) y) as [rb|] eqn:Eb; [|split; [exact HW|split; assumption]].
    destruct (ra =? rb) eqn:E; [split; [exact HW|split; assumption]|].
    apply N.eqb_neq in E. cbn [fst].
    assert (Hab : h ra = h rb).
    { rewrite (HJ x ra Hx Ea), (HJ y rb Hy Eb). exact Hxy. }
    assert (Hhl : h (N.max ra rb) = h (N.min ra rb)).
    { destruct (N.max_spec ra rb) as [[_ Hm]|[_ Hm]]; destruct (N.min_spec ra rb) as [[_ Hn]|[_ Hn]];
        rewrite Hm, Hn; congruence. }
    assert (Hlo : In (N.min ra rb) (univ (model_of S))).
    { destruct (N.min_spec ra rb) as [[_ Hn]|[_ Hn]]; rewrite Hn;
        [exact (find_root_univ S x ra Ea) | exact (find_root_univ S y rb Eb)]. }
    assert (Hne : N.min ra rb <> N.max ra rb) by lia.
    split; [exact (WF_merged S _ _ HW Hlo Hne)|].
    split; [exact (Hom_merged S _ _ h N0 HH Hhl)|].
    intros z r' Hz Hr'. rewrite find_root_cls_merged in Hr'.
    destruct (find_root_cls (st_elems S) z) as [r|] eqn:Ez; [|discriminate].
    cbn [option_map] in Hr'. injection Hr' as Hr'. subst r'.
    rewrite <- (HJ z r Hz Ez). unfold gmap. destruct (r =? N.max ra rb) eqn:Er; [|reflexivity].
    apply N.eqb_eq in Er. subst r. symmetry. exact Hhl.
  Qed.

  Lemma add_row_step : forall S r row, I1 S -> (forall x, In x row -> In x U0) ->
    In (map h row) (rws MN r) -> I1 (fst (add_row S r row)).
  Proof.
    intros S r row [HW [HH HJ]] Hrow Hf. unfold add_row.
    destruct (roots_opt (st_elems S) row) as [row'|] eqn:Er; [|split; [exact HW|split; assumption]].
    destruct (mem_row row' (srows S r)); [split; [exact HW|split; assumption]|]. cbn [fst].
    pose proof (roots_opt_Forall2 _ _ _ Er) as HF2.
    assert (Hmap : map h row' = map h row).
    { clear Er Hf. induction HF2 as [|x y row row' Hxy HF2 IH]; [reflexivity|].
      cbn [map]. rewrite (HJ x y (Hrow x (or_introl eq_refl)) Hxy). f_equal.
      apply IH. intros z Hz. apply Hrow. right. exact Hz. }
    assert (Hin' : forall y, In y row' -> In y (univ (model_of S))).
    { clear Er Hf Hmap. induction HF2 as [|x y row row' Hxy HF2 IH]; intros z Hz; [destruct Hz|].
      destruct Hz as [Hz|Hz].
      - subst z. exact (find_root_univ S x y Hxy).
      - apply IH; [|exact Hz]. intros w Hw. apply Hrow. right. exact Hw. }
    split; [exact (WF_with_row S r row' HW Hin')|].
    split; [apply Hom_with_row; [exact HH | rewrite Hmap; exact Hf]|].
    exact HJ.
  Qed.

  (* ----- definitions: the homomorphism is extended ----- *)

  Hypothesis HT : RowsTyped p MN.

  Definition I3 (S : structure) : Prop :=
    WF S /\ (forall x, In x U0 -> In x (univ (model_of S))) /\
    exists h', Hom h' S N0 /\ (forall x, In x U0 -> h' x = h x).

  Lemma I3_init : I3 S0.
  Proof.
    split; [exact HW0|]. split; [intros x Hx; exact Hx|]. exists h. split; [exact HH0 | reflexivity].
  Qed.

  Lemma Forall2_last : forall (P : N -> N -> Prop) cols l v,
    Forall2 P cols (l ++ [v]) -> P (last cols 0) v.
  Proof.
    intros P cols. induction cols as [|c cols IH]; intros l v H.
    - inversion H as [Hnil|]. destruct l; discriminate.
    - destruct l as [|x l]; cbn [app] in H; inversion H as [|c' x' cols' l' Hcx Hrest]; subst.
      + inversion Hrest. subst. exact Hcx.
      + destruct cols as [|c2 cols].
        * inversion Hrest. destruct l; discriminate.
        * cbn [last]. exact (IH l v Hrest).
  Qed.

  Lemma roots_opt_roots : forall S args, WF S -> (forall x, In x args -> In x (univ (model_of S))) ->
    roots_opt (st_elems S) args = Some args.
  Proof.
    intros S args HW. induction args as [|x args IH]; intros Hargs; [reflexivity|].
    cbn [roots_opt]. rewrite (wf_roots S HW x (Hargs x (or_introl eq_refl))).
    rewrite IH; [reflexivity|]. intros z Hz. apply Hargs. right. exact Hz.
  Qed.

  Lemma def_app_step : forall S f args, I3 S -> (forall x, In x args -> In x U0) ->
    (exists v, In (map h args ++ [v]) (rws MN f)) -> I3 (fst (def_app p S f args)).
  Proof.
    intros S f args HI Hargs [v Hv]. unfold def_app.
    destruct (is_func p f) eqn:Ef; [|exact HI].
    destruct HI as [HW [HU [h' [HH Hh']]]].
    assert (HargsS : forall x, In x args -> In x (univ (model_of S))).
    { intros x Hx. apply HU. apply Hargs. exact Hx. }
    rewrite (roots_opt_roots S args HW HargsS).
    destruct (lookup_fun (srows S f) args); [split; [exact HW|split; [exact HU|exists h'; split; assumption]]|].
    cbn [fst new_elem snd].
    set (n := next_id S). set (ty := res_type p f). set (S1 := with_elem S ty n).
    pose proof (next_id_no_entry S) as Hn. fold n in Hn.
    pose proof (WF_with_elem S ty n HW Hn) as HW1. fold S1 in HW1.
    set (h'' := fun x => if x =? n then v else h' x).
    assert (Hold : forall x, In x (univ (model_of S)) -> h'' x = h' x).
    { intros x Hx. unfold h''. pose proof (next_id_gt_univ S x Hx) as Hlt. fold n in Hlt.
      destruct (x =? n) eqn:E; [apply N.eqb_eq in E; lia | reflexivity]. }
    (* the value v has the result type *)
    assert (Hvty : In v (car MN ty)).
    { unfold is_func in Ef. unfold ty, res_type.
      destruct (nth_error (sg_rels (pg_sig p)) (N.to_nat f)) as [d|] eqn:Ed; [|discriminate].
      exact (Forall2_last _ _ _ _ (HT f d Ed _ Hv)). }
    destruct HH as [Hu Hc Hr Hhd].
    assert (HH1 : Hom h'' S1 N0).
    { constructor.
      - intros x Hx. apply univ_with_elem in Hx. destruct Hx as [Hx|Hx].
        + rewrite (Hold x Hx). exact (Hu x Hx).
        + subst x. unfold h''. rewrite N.eqb_refl. exact (car_sub_univ N0 ty v Hvty).
      - intros ty' x Hx. apply car_with_elem in Hx. destruct Hx as [Hx|[Hty Hx]].
        + rewrite (Hold x (car_sub_univ S ty' x Hx)). exact (Hc ty' x Hx).
        + subst x ty'. unfold h''. rewrite N.eqb_refl. exact Hvty.
      - intros r row Hrow. change (In row (srows S r)) in Hrow.
        assert (Hm : map h'' row = map h' row).
        { apply map_ext_in. intros x Hx. apply Hold. exact (wf_rows S HW r row x Hrow Hx). }
        rewrite Hm. apply Hr. exact Hrow.
      - change (st_handles S1) with (st_handles S).
        assert (Hall : forall a, In a (st_handles S) -> h'' (find_root S1 a) = h' (find_root S a)).
        { intros a Ha. pose proof (next_id_gt_handle S a Ha) as Hlt. fold n in Hlt.
          unfold find_root. unfold S1. rewrite (find_root_cls_with_elem S ty n a Hn).
          destruct (a =? n) eqn:E; [apply N.eqb_eq in E; lia|].
          destruct (find_root_cls (st_elems S) a) as [r|] eqn:Er.
          - apply Hold. exact (find_root_univ S a r Er).
          - unfold h''. rewrite E. reflexivity. }
        clear -Hhd Hall. induction Hhd as [|a b ha hb Hab Hhd IH]; constructor.
        + rewrite (Hall a (or_introl eq_refl)). exact Hab.
        + apply IH. intros a' Ha'. apply Hall. right. exact Ha'. }
    assert (Hargs1 : forall x, In x (args ++ [n]) -> In x (univ (model_of S1))).
    { intros x Hx. apply univ_with_elem. apply in_app_or in Hx. destruct Hx as [Hx|[Hx|[]]].
      - left. exact (HargsS x Hx).
      - right. symmetry. exact Hx. }
    assert (HU1 : forall x, In x U0 -> In x (univ (model_of S1))).
    { intros x Hx. apply univ_with_elem. left. exact (HU x Hx). }
    assert (Hh1 : forall x, In x U0 -> h'' x = h x).
    { intros x Hx. rewrite (Hold x (HU x Hx)). exact (Hh' x Hx). }
    unfold add_row. rewrite (roots_opt_roots S1 (args ++ [n]) HW1 Hargs1).
    destruct (mem_row (args ++ [n]) (srows S1 f));
      [split; [exact HW1|split; [exact HU1|exists h''; split; assumption]]|].
    cbn [fst]. split; [exact (WF_with_row S1 f _ HW1 Hargs1)|].
    split; [exact HU1|]. exists h''. split; [|exact Hh1].
    apply Hom_with_row; [exact HH1|].
    assert (Hm : map h'' (args ++ [n]) = map h args ++ [v]).
    { rewrite map_app. cbn [map]. unfold h'' at 2. rewrite N.eqb_refl. f_equal.
      apply map_ext_in. intros x Hx. exact (Hh1 x (Hargs x Hx)). }
    rewrite Hm. exact Hv.
  Qed.

  (* ----- one round ----- *)

  Hypothesis HC : Closed p N0.
  Hypothesis Hwf : wf_prog_b p = true.

  Lemma MHom_of_Hom : MHom h (model_of S0) MN.
  Proof. destruct HH0 as [Hu Hc Hr _]. constructor; assumption. Qed.

  Lemma round_acts : forall act, In act (round_actions p S0) ->
    forced h MN act /\ act_in U0 act.
  Proof.
    intros act Hin. split.
    - exact (round_actions_forced h p S0 MN MHom_of_Hom HC Hwf act Hin).
    - unfold round_actions in Hin. apply filter_In in Hin. exact (act_ok_spec _ _ (proj2 Hin)).
  Qed.

  Lemma chase_round_hom : forall S', chase_round p S0 = Changed S' ->
    WF S' /\ exists h', Hom h' S' N0.
  Proof.
    intros S' H. unfold chase_round in H.
    set (acts := round_actions p S0) in *.
    assert (H12 : I1 (fst (apply_list apply_row acts (fst (apply_list apply_merge acts S0))))).
    { apply apply_list_inv.
      - intros S a Ha HI. destruct (round_acts a Ha) as [Hf Hi].
        destruct a as [r row|x y|f args]; cbn [apply_row fst]; try exact HI.
        exact (add_row_step S r row HI Hi Hf).
      - apply apply_list_inv; [|exact I1_init].
        intros S a Ha HI. destruct (round_acts a Ha) as [Hf Hi].
        destruct a as [r row|x y|f args]; cbn [apply_merge fst]; try exact HI.
        destruct Hi as [Hx Hy]. exact (merge_step S x y HI Hx Hy Hf). }
    destruct (snd (apply_list apply_merge acts S0) ||
              snd (apply_list apply_row acts (fst (apply_list apply_merge acts S0)))).
    - injection H as H. subst S'. destruct H12 as [HW [HH _]]. split; [exact HW | exists h; exact HH].
    - destruct (snd (apply_list (apply_def p) acts S0)); [|discriminate].
      injection H as H. subst S'.
      assert (H3 : I3 (fst (apply_list (apply_def p) acts S0))).
      { apply apply_list_inv; [|exact I3_init].
        intros S a Ha HI. destruct (round_acts a Ha) as [Hf Hi].
        destruct a as [r row|x y|f args]; cbn [apply_def fst]; try exact HI.
        exact (def_app_step S f args HI Hi Hf). }
      destruct H3 as [HW [_ [h' [HH _]]]]. split; [exact HW | exists h'; exact HH].
  Qed.
End Round.

Theorem chase_initial : forall n p M M', chase n p M = Some M' ->
  WF M -> wf_prog_b p = true ->
  forall N0, Closed p N0 -> RowsTyped p (model_of N0) -> hom_from_facts M N0 ->
  exists h, Hom h M' N0.
Proof.
  intros n p. induction n as [|n IH]; intros M M' H HW Hwf N0 HC HT [h HH]; [discriminate|].
  cbn [chase] in H. destruct (chase_round p M) as [|M1] eqn:Er.
  - destruct (closed_b p M); [|discriminate]. injection H as H. subst M'. exists h. exact HH.
  - destruct (chase_round_hom p M N0 h HW HH HT HC Hwf M1 Er) as [HW1 [h1 HH1]].
    exact (IH M1 M' H HW1 Hwf N0 HC HT (ex_intro _ h1 HH1)).
Qed.
