(* Which keys the matching functions bind: exactly the keys of the term / atom matched. *)
From Coq Require Import List NArith Bool Lia.
From Sem Require Import Syntax Model Spec FactsMatch.
Import ListNotations.
Open Scope N_scope.

Definition bound (e : env) (k : N) : Prop := assoc k e <> None.

Definition dom_ext (ks : list N) (e e' : env) : Prop :=
  forall k, bound e' k <-> (bound e k \/ In k ks).

Lemma dom_ext_nil : forall e, dom_ext [] e e.
Proof. intros e k. cbn [In]. tauto. Qed.

Lemma dom_ext_bound : forall e k0, bound e k0 -> dom_ext [k0] e e.
Proof.
  intros e k0 Hb k. cbn [In]. split.
  - intro H. left. exact H.
  - intros [H|[H|[]]]; [exact H | subst; exact Hb].
Qed.

Lemma dom_ext_cons : forall e k0 v, dom_ext [k0] e ((k0, v) :: e).
Proof.
  intros e k0 v k. unfold bound. cbn [assoc In].
  destruct (k0 =? k) eqn:E.
  - apply N.eqb_eq in E. subst. split; [intros _; right; left; reflexivity | intros _; discriminate].
  - apply N.eqb_neq in E. split.
    + intro H. left. exact H.
    + intros [H|[H|[]]]; [exact H | contradiction].
Qed.

Lemma dom_ext_trans : forall k1 k2 e e1 e2,
  dom_ext k1 e e1 -> dom_ext k2 e1 e2 -> dom_ext (k1 ++ k2) e e2.
Proof.
  intros k1 k2 e e1 e2 H1 H2 k. rewrite (H2 k), (H1 k), in_app_iff. tauto.
Qed.

Lemma dom_ext_equiv : forall ks ks' e e',
  dom_ext ks e e' -> (forall k, In k ks <-> In k ks') -> dom_ext ks' e e'.
Proof. intros ks ks' e e' H Hk k. rewrite (H k), (Hk k). tauto. Qed.

Lemma match_key_dom : forall M k v e e', In e' (match_key M k v e) -> dom_ext [k] e e'.
Proof.
  intros M k v e e' Hin. unfold match_key in Hin.
  destruct (assoc k e) as [v'|] eqn:Ea.
  - destruct (v' =? v); [|destruct Hin]. destruct (in_univ M v); [|destruct Hin].
    destruct Hin as [Hin|[]]. subst e'. apply dom_ext_bound. unfold bound. rewrite Ea. discriminate.
  - destruct (in_univ M v); [|destruct Hin]. destruct Hin as [Hin|[]]. subst e'.
    apply dom_ext_cons.
Qed.

Lemma eval_key_dom : forall M k e e' v, In (e', v) (eval_key M k e) -> dom_ext [k] e e'.
Proof.
  intros M k e e' v Hin. unfold eval_key in Hin.
  destruct (assoc k e) as [v'|] eqn:Ea.
  - destruct (in_univ M v'); [|destruct Hin]. destruct Hin as [Hin|[]].
    injection Hin as He Hv. subst e'. apply dom_ext_bound. unfold bound. rewrite Ea. discriminate.
  - apply in_map_iff in Hin. destruct Hin as [v0 [Heq _]]. injection Heq as He Hv. subst e'.
    apply dom_ext_cons.
Qed.

Definition dspec (M : model) (t : term) : Prop :=
  forall v e e', In e' (match_term M t v e) -> dom_ext (term_keys t) e e'.

Lemma match_pre_dom : forall M ts, Forall (dspec M) ts -> forall vs es e',
  In e' (match_pre (match_term M) ts vs es) ->
  exists e, In e es /\ dom_ext (flat_map term_keys ts) e e'.
Proof.
  intros M ts Hts. induction Hts as [|t ts Ht Hts IH]; intros vs es e' Hin.
  - cbn [match_pre] in Hin. exists e'. split; [exact Hin | apply dom_ext_nil].
  - cbn [match_pre] in Hin. destruct vs as [|v vs]; [destruct Hin|].
    destruct (IH _ _ _ Hin) as [e1 [He1 Hd1]].
    apply in_flat_map in He1. destruct He1 as [e [He Hm]].
    exists e. split; [exact He|]. cbn [flat_map].
    eapply dom_ext_trans; [apply (Ht v e e1 Hm) | exact Hd1].
Qed.

Lemma match_term_dom : forall M t, dspec M t.
Proof.
  intros M. apply term_ind'.
  - intros x v e e' Hin. exact (match_key_dom _ _ _ _ _ Hin).
  - intros w v e e' Hin. exact (match_key_dom _ _ _ _ _ Hin).
  - intros f args Hargs v e e' Hin. rewrite match_term_App in Hin.
    apply in_flat_map in Hin. destruct Hin as [row [_ Hin]].
    destruct (list_eqb (skipn (length args) row) [v]); [|destruct Hin].
    destruct (match_pre_dom M args Hargs _ _ _ Hin) as [e0 [He0 Hd]].
    destruct He0 as [He0|[]]. subst e0. exact Hd.
Qed.

Lemma all_dspec : forall M ts, Forall (dspec M) ts.
Proof. intros M ts. apply Forall_forall. intros t _. apply match_term_dom. Qed.

Lemma match_terms_dom : forall M ts vs e e',
  In e' (match_terms M ts vs e) -> dom_ext (flat_map term_keys ts) e e'.
Proof.
  intros M ts vs e e' Hin. unfold match_terms in Hin.
  destruct (is_nil (skipn (length ts) vs)); [|destruct Hin].
  destruct (match_pre_dom M ts (all_dspec M ts) _ _ _ Hin) as [e0 [He0 Hd]].
  destruct He0 as [He0|[]]. subst e0. exact Hd.
Qed.

Lemma eval_term_dom : forall M t e e' v,
  In (e', v) (eval_term M t e) -> dom_ext (term_keys t) e e'.
Proof.
  intros M [x|w|f args] e e' v Hin; cbn [eval_term] in Hin; cbn [term_keys].
  - exact (eval_key_dom _ _ _ _ _ Hin).
  - exact (eval_key_dom _ _ _ _ _ Hin).
  - apply in_flat_map in Hin. destruct Hin as [row [_ Hin]]. unfold match_args in Hin.
    destruct (skipn (length args) row) as [|r [|r' l]]; try destruct Hin.
    apply in_map_iff in Hin. destruct Hin as [e1 [Heq Hin]]. injection Heq as He Hr. subst e1.
    destruct (match_pre_dom M args (all_dspec M args) _ _ _ Hin) as [e0 [He0 Hd]].
    destruct He0 as [He0|[]]. subst e0. exact Hd.
Qed.

Lemma match_atom_dom : forall M a e e',
  In e' (match_atom M a e) -> dom_ext (atom_keys a) e e'.
Proof.
  intros M [p args|a b|t|x ty|x t] e e' Hin; cbn [match_atom] in Hin; cbn [atom_keys].
  - apply in_flat_map in Hin. destruct Hin as [row [_ Hin]].
    exact (match_terms_dom _ _ _ _ _ Hin).
  - destruct (is_app a).
    + apply in_flat_map in Hin. destruct Hin as [[e1 v] [Hev Hin]]. cbn [fst snd] in Hin.
      eapply dom_ext_trans; [exact (eval_term_dom _ _ _ _ _ Hev) | exact (match_term_dom _ _ _ _ _ Hin)].
    + apply in_flat_map in Hin. destruct Hin as [[e1 v] [Hev Hin]]. cbn [fst snd] in Hin.
      eapply dom_ext_equiv.
      * eapply dom_ext_trans;
          [exact (eval_term_dom _ _ _ _ _ Hev) | exact (match_term_dom _ _ _ _ _ Hin)].
      * intro k. rewrite !in_app_iff. tauto.
  - apply in_map_iff in Hin. destruct Hin as [[e1 v] [Heq Hev]]. cbn [fst] in Heq. subst e1.
    exact (eval_term_dom _ _ _ _ _ Hev).
  - destruct (assoc (vkey x) e) as [v|] eqn:Ea.
    + destruct (memN v (car M ty)); [|destruct Hin]. destruct Hin as [Hin|[]]. subst e'.
      apply dom_ext_bound. unfold bound. rewrite Ea. discriminate.
    + apply in_map_iff in Hin. destruct Hin as [v [Heq _]]. subst e'. apply dom_ext_cons.
  - apply in_flat_map in Hin. destruct Hin as [[e1 v] [Hev Hin]]. cbn [fst snd] in Hin.
    eapply dom_ext_trans; [exact (eval_term_dom _ _ _ _ _ Hev) | exact (match_key_dom _ _ _ _ _ Hin)].
Qed.

(* an extension produced by a sound matcher keeps the old bindings *)
Lemma msound_extends : forall Q e l e', msound Q e l -> In e' l ->
  forall k v, assoc k e = Some v -> assoc k e' = Some v.
Proof.
  intros Q e l e' Hs Hin k v Hk.
  destruct (assoc k e') as [w|] eqn:Ew.
  - destruct (Hs e' Hin (asg_of e') (agrees_asg_of e')) as [Hag _].
    specialize (Hag k v Hk). unfold asg_of, assoc_d in Hag. rewrite Ew in Hag. subst. reflexivity.
  - exfalso.
    set (s := fun k' => if k' =? k then N.succ v else asg_of e' k').
    assert (Hag' : agrees s e').
    { intros k' v' Hk'. unfold s. destruct (k' =? k) eqn:E.
      - apply N.eqb_eq in E. subst. rewrite Ew in Hk'. discriminate.
      - apply agrees_asg_of. exact Hk'. }
    destruct (Hs e' Hin s Hag') as [Hag _]. specialize (Hag k v Hk). unfold s in Hag.
    rewrite N.eqb_refl in Hag. lia.
Qed.
