(* The README semilattice theory encoded by hand, a few histories and structures, as executable
   tests (all proved by vm_compute). Also used as non-vacuity witnesses in Props_Sem.v. *)
From Coq Require Import List NArith Bool.
From Sem Require Import Syntax Model Chase Iso Run.
Import ListNotations.
Open Scope N_scope.

Definition sl_sig : sig :=
  {| sg_ntypes := 1;
     sg_rels := [ {| rd_cols := [0; 0]; rd_func := false |};        (* 0: le *)
                  {| rd_cols := [0; 0; 0]; rd_func := true |} ] |}.  (* 1: meet *)

Definition le (a b : term) := APred 0 [a; b].
Definition meet (a b : term) := App 1 [a; b].
Definition vx := Var 0. Definition vy := Var 1. Definition vz := Var 2. Definition vm := Var 3.

Definition semilattice : program :=
  {| pg_sig := sl_sig;
     pg_rules :=
       [ [If (ATy 0 0); Then (le vx vx)];                                           (* reflexivity *)
         [If (le vx vy); If (le vy vz); Then (le vx vz)];                           (* transitivity *)
         [If (le vx vy); If (le vy vx); Then (AEq vx vy)];                          (* antisymmetry *)
         [If (ATy 0 0); If (ATy 1 0); Then (ADef (meet vx vy))];                    (* totality *)
         [If (AEq vm (meet vx vy)); Then (le vm vx); Then (le vm vy)];              (* lower bound *)
         [If (le vz vx); If (le vz vy); If (AEq vm (meet vx vy)); Then (le vz vm)]  (* greatest *)
       ] |}.

Definition run1 (h : list call) : structure :=
  match nth 0 (free_model 100 semilattice h) None with
  | Some M => M
  | None => init_structure semilattice
  end.

(* README main.rs: three elements, close, the two associations of the meet *)
Definition assoc_history : list call :=
  [New 0; New 0; New 0; Close;
   Define 1 [0; 1]; Define 1 [3; 2]; Define 1 [1; 2]; Define 1 [0; 5]; Dump].
Definition assoc_model : structure := Eval vm_compute in run1 assoc_history.

Example sl_wf : wf_prog_b semilattice = true.
Proof. vm_compute. reflexivity. Qed.

Example assoc_terminates : nth 0 (free_model 100 semilattice assoc_history) None = Some assoc_model.
Proof. vm_compute. reflexivity. Qed.

Example meet_is_associative : eval_cond semilattice assoc_model (CEqual 0 4 6) = true.
Proof. vm_compute. reflexivity. Qed.

Example assoc_model_closed : check_closed semilattice assoc_model = None.
Proof. vm_compute. reflexivity. Qed.

(* the free semilattice on three generators has 7 elements *)
Example assoc_model_size : count_roots assoc_model = [(0, 7)].
Proof. vm_compute. reflexivity. Qed.

(* a non-closed structure: le(0,1), le(1,2) but not le(0,2); witness = rule 1 (transitivity),
   statement 2, x=0 y=1 z=2 *)
Definition bad_trans : structure :=
  {| st_elems := [(0, [(0,0);(1,1);(2,2)])];
     st_rows := [(0, [[0;0];[1;1];[2;2];[0;1];[1;2]]); (1, [])];
     st_handles := [0;1;2] |}.
Example bad_trans_violation :
  check_closed semilattice bad_trans = Some (1, 2, [(4, 2); (2, 1); (0, 0)]).
Proof. vm_compute. reflexivity. Qed.
Example bad_trans_find : find_violation semilattice bad_trans = Some (1, 2, [(4, 2); (2, 1); (0, 0)]).
Proof. vm_compute. reflexivity. Qed.

(* a non-functional meet table *)
Definition bad_func : structure :=
  {| st_elems := [(0, [(0,0);(1,1);(2,2)])];
     st_rows := [(0, [[0;0];[1;1];[2;2]]); (1, [[0;1;2];[0;1;1]])];
     st_handles := [0;1;2] |}.
Example bad_func_detected : functional_b semilattice bad_func = false.
Proof. vm_compute. reflexivity. Qed.

(* per-type id spaces are rejected: reason code 3 *)
Definition bad_ids : structure :=
  {| st_elems := [(0, [(0,0)]); (1, [(0,0)])]; st_rows := []; st_handles := [] |}.
Example bad_ids_detected :
  check_closed {| pg_sig := {| sg_ntypes := 2; sg_rels := [] |}; pg_rules := [] |} bad_ids =
  Some (code_canonical, 3, []).
Proof. vm_compute. reflexivity. Qed.

(* history independence (C03): same facts, different order and extra closes *)
Definition h_once : list call := [New 0; New 0; New 0; Insert 0 [0;1]; Close; Dump].
Definition h_incr : list call :=
  [New 0; New 0; Insert 0 [0;1]; Close; New 0; Insert 0 [0;1]; Close; Close; Dump].
Definition h_other : list call := [New 0; New 0; New 0; Insert 0 [1;0]; Close; Dump].
Definition m_once : structure := Eval vm_compute in run1 h_once.
Definition m_incr : structure := Eval vm_compute in run1 h_incr.
Definition m_other : structure := Eval vm_compute in run1 h_other.

Example once_in_history : In (Some m_once) (run_history 100 semilattice h_once).
Proof. vm_compute. left. reflexivity. Qed.
Example history_independent : check_iso semilattice m_once m_incr = true.
Proof. vm_compute. reflexivity. Qed.
Example different_facts_differ : check_iso semilattice m_once m_other = false.
Proof. vm_compute. reflexivity. Qed.
Example once_size : count_roots m_once = [(0, 5)].
Proof. vm_compute. reflexivity. Qed.

(* close_until (C07): the stopping state satisfies the condition, is not closed, maps into the
   free model, and a further close reaches the free model *)
Definition h_until : list call :=
  [New 0; New 0; New 0; Insert 0 [0;1]; CloseUntil (CDefined 1 [0;2]); Dump; Close; Dump].
Definition m_until : structure := Eval vm_compute in run1 h_until.
Definition m_resumed : structure := Eval vm_compute in
  match nth 1 (free_model 100 semilattice h_until) None with
  | Some M => M | None => init_structure semilattice end.
Example until_cond : eval_cond semilattice m_until (CDefined 1 [0;2]) = true.
Proof. vm_compute. reflexivity. Qed.
Example until_not_closed : check_closed semilattice m_until = Some (0, 1, [(0, 3)]).
Proof. vm_compute. reflexivity. Qed.
Example until_sound : check_hom semilattice m_until m_once = true.
Proof. vm_compute. reflexivity. Qed.
Example until_resumed : check_iso semilattice m_resumed m_once = true.
Proof. vm_compute. reflexivity. Qed.

(* the universal property: the one-element semilattice receives the free model *)
Definition sl_start : structure := Eval vm_compute in run1 [New 0; New 0; New 0; Dump].
Definition sl_free : structure := Eval vm_compute in run1 [New 0; New 0; New 0; Close; Dump].
Definition sl_one : structure :=
  {| st_elems := [(0, [(7,7)])]; st_rows := [(0, [[7;7]]); (1, [[7;7;7]])]; st_handles := [7;7;7] |}.
Example start_in_history : In (Some sl_start) (run_history 100 semilattice [New 0; New 0; New 0; Dump]).
Proof. vm_compute. left. reflexivity. Qed.
Example free_is_chase : chase 100 semilattice sl_start = Some sl_free.
Proof. vm_compute. reflexivity. Qed.
Example one_closed : check_closed semilattice sl_one = None.
Proof. vm_compute. reflexivity. Qed.
Example start_to_one : check_hom semilattice sl_start sl_one = true.
Proof. vm_compute. reflexivity. Qed.
Example free_to_one : check_hom semilattice sl_free sl_one = true.
Proof. vm_compute. reflexivity. Qed.
