(* The README semilattice theory by hand, and a few histories, as executable tests. *)
From Coq Require Import List NArith Bool.
From Sem Require Import Syntax Model Chase Iso Run.
Import ListNotations.
Open Scope N_scope.

Definition sl_sig : sig :=
  {| sg_ntypes := 1;
     sg_rels := [ {| rd_cols := [0; 0]; rd_func := false |};        (* 0: le *)
                  {| rd_cols := [0; 0; 0]; rd_func := true |} ] |}.  (* 1: meet *)

Definition le (a b : term) := APred 0 [a; b].
Definition meet (a b : term) := App 1 [a; b].
Definition vx := Var 0. Definition vy := Var 1. Definition vz := Var 2. Definition vm := Var 3.

Definition semilattice : program :=
  {| pg_sig := sl_sig;
     pg_rules :=
       [ [If (ATy 0 0); Then (le vx vx)];
         [If (le vx vy); If (le vy vz); Then (le vx vz)];
         [If (le vx vy); If (le vy vx); Then (AEq vx vy)];
         [If (ATy 0 0); If (ATy 1 0); Then (ADef (meet vx vy))];
         [If (AEq vm (meet vx vy)); Then (le vm vx); Then (le vm vy)];
         [If (le vz vx); If (le vz vy); If (AEq vm (meet vx vy)); Then (le vz vm)] ] |}.

Definition assoc_history : list call :=
  [New 0; New 0; New 0; Close;
   Define 1 [0; 1]; Define 1 [3; 2]; Define 1 [1; 2]; Define 1 [0; 5]; Dump].

Definition assoc_model : option structure :=
  nth 0 (free_model 100 semilattice assoc_history) None.

Time Eval vm_compute in assoc_model.
Time Eval vm_compute in
  match assoc_model with Some M => Some (check_closed semilattice M, count_roots M) | None => None end.
