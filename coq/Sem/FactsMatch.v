(* Soundness and completeness of the matching functions of Model.v with respect to the
   declarative evaluation of Spec.v. *)
From Coq Require Import List NArith Bool Lia.
From Sem Require Import Syntax Model Spec.
Import ListNotations.
Open Scope N_scope.

(* ---------- reflection of the boolean helpers ---------- *)

Lemma list_eqb_eq : forall a b, list_eqb a b = true <-> a = b.
Proof.
  induction a as [|x a IH]; intros [|y b]; cbn [list_eqb]; split; intro H;
    try reflexivity; try discriminate.
  - apply andb_true_iff in H. destruct H as [H1 H2].
    apply N.eqb_eq in H1. apply IH in H2. subst. reflexivity.
  - injection H as Hx Ha. subst. apply andb_true_iff. split.
    + apply N.eqb_refl.
    + apply IH. reflexivity.
Qed.

Lemma list_eqb_refl : forall a, list_eqb a a = true.
Proof. intro a. apply list_eqb_eq. reflexivity. Qed.

Lemma memN_In : forall x l, memN x l = true <-> In x l.
Proof.
  intros x l. unfold memN. rewrite existsb_exists. split.
  - intros [y [Hy He]]. apply N.eqb_eq in He. subst. exact Hy.
  - intro H. exists x. split; [exact H | apply N.eqb_refl].
Qed.

Lemma mem_row_In : forall r l, mem_row r l = true <-> In r l.
Proof.
  intros r l. unfold mem_row. rewrite existsb_exists. split.
  - intros [y [Hy He]]. apply list_eqb_eq in He. subst. exact Hy.
  - intro H. exists r. split; [exact H | apply list_eqb_refl].
Qed.

Lemma in_univ_In : forall M v, in_univ M v = true <-> In v (univ M).
Proof. intros M v. unfold in_univ. apply memN_In. Qed.

Lemma is_nil_true : forall (A : Type) (l : list A), is_nil l = true <-> l = [].
Proof. intros A [|x l]; cbn; split; intro H; try reflexivity; discriminate. Qed.

(* ---------- environments ---------- *)

Definition agrees (s : asg) (e : env) : Prop := forall k v, assoc k e = Some v -> s k = v.

Lemma agrees_nil : forall s, agrees s [].
Proof. intros s k v H. cbn in H. discriminate. Qed.

Lemma agrees_cons_hd : forall s k v e, agrees s ((k, v) :: e) -> s k = v.
Proof.
  intros s k v e H. apply H. cbn [assoc]. rewrite N.eqb_refl. reflexivity.
Qed.

Lemma agrees_cons_tl : forall s k v e, assoc k e = None -> agrees s ((k, v) :: e) -> agrees s e.
Proof.
  intros s k v e Hn H k' v' Hk'. apply H. cbn [assoc].
  destruct (k =? k') eqn:E.
  - apply N.eqb_eq in E. subst. rewrite Hn in Hk'. discriminate.
  - exact Hk'.
Qed.

Lemma agrees_cons_intro : forall s k v e, s k = v -> agrees s e -> agrees s ((k, v) :: e).
Proof.
  intros s k v e Hk H k' v' Hk'. cbn [assoc] in Hk'.
  destruct (k =? k') eqn:E.
  - apply N.eqb_eq in E. injection Hk' as Hv. subst. reflexivity.
  - apply H. exact Hk'.
Qed.

(* the assignment read off an environment *)
Definition asg_of (e : env) : asg := fun k => assoc_d 0 k e.

Lemma agrees_asg_of : forall e, agrees (asg_of e) e.
Proof. intros e k v H. unfold asg_of, assoc_d. rewrite H. reflexivity. Qed.

(* a matcher [l] for property [Q] starting from environment [e] *)
Definition msound (Q : asg -> Prop) (e : env) (l : list env) : Prop :=
  forall e', In e' l -> forall s, agrees s e' -> agrees s e /\ Q s.
Definition mcomplete (Q : asg -> Prop) (e : env) (l : list env) : Prop :=
  forall s, agrees s e -> Q s -> exists e', In e' l /\ agrees s e'.

(* the same for matchers that also return a value *)
Definition vsound (Q : asg -> N -> Prop) (e : env) (l : list (env * N)) : Prop :=
  forall e' v, In (e', v) l -> forall s, agrees s e' -> agrees s e /\ Q s v.
Definition vcomplete (Q : asg -> N -> Prop) (e : env) (l : list (env * N)) : Prop :=
  forall s v, agrees s e -> Q s v -> exists e', In (e', v) l /\ agrees s e'.

(* ---------- keys ---------- *)

Lemma match_key_sound : forall M k v e,
  msound (fun s => s k = v /\ In v (univ M)) e (match_key M k v e).
Proof.
  intros M k v e e' Hin s Hag. unfold match_key in Hin.
  destruct (assoc k e) as [v'|] eqn:Ea.
  - destruct (v' =? v) eqn:Ev; [|destruct Hin].
    destruct (in_univ M v) eqn:Eu; [|destruct Hin].
    destruct Hin as [Hin|[]]. subst e'. apply N.eqb_eq in Ev. subst v'.
    apply in_univ_In in Eu. split; [exact Hag|]. split; [apply Hag; exact Ea | exact Eu].
  - destruct (in_univ M v) eqn:Eu; [|destruct Hin].
    destruct Hin as [Hin|[]]. subst e'. apply in_univ_In in Eu. split.
    + eapply agrees_cons_tl; eassumption.
    + split; [eapply agrees_cons_hd; eassumption | exact Eu].
Qed.

Lemma match_key_complete : forall M k v e,
  mcomplete (fun s => s k = v /\ In v (univ M)) e (match_key M k v e).
Proof.
  intros M k v e s Hag [Hk Hu]. unfold match_key. apply in_univ_In in Hu. rewrite Hu.
  destruct (assoc k e) as [v'|] eqn:Ea.
  - assert (Hv : v' = v) by (rewrite <- Hk; symmetry; apply Hag; exact Ea).
    rewrite Hv. rewrite N.eqb_refl.
    exists e. split; [left; reflexivity | exact Hag].
  - exists ((k, v) :: e). split; [left; reflexivity|]. apply agrees_cons_intro; assumption.
Qed.

Lemma eval_key_sound : forall M k e,
  vsound (fun s v => s k = v /\ In v (univ M)) e (eval_key M k e).
Proof.
  intros M k e e' v Hin s Hag. unfold eval_key in Hin.
  destruct (assoc k e) as [v'|] eqn:Ea.
  - destruct (in_univ M v') eqn:Eu; [|destruct Hin].
    destruct Hin as [Hin|[]]. injection Hin as He Hv. subst e' v'.
    apply in_univ_In in Eu. split; [exact Hag|]. split; [apply Hag; exact Ea | exact Eu].
  - apply in_map_iff in Hin. destruct Hin as [v0 [Heq Hv0]]. injection Heq as He Hv. subst e' v0.
    split.
    + eapply agrees_cons_tl; eassumption.
    + split; [eapply agrees_cons_hd; eassumption | exact Hv0].
Qed.

Lemma eval_key_complete : forall M k e,
  vcomplete (fun s v => s k = v /\ In v (univ M)) e (eval_key M k e).
Proof.
  intros M k e s v Hag [Hk Hu]. unfold eval_key.
  destruct (assoc k e) as [v'|] eqn:Ea.
  - assert (Hv : v' = v) by (rewrite <- Hk; symmetry; apply Hag; exact Ea).
    rewrite Hv.
    assert (Hu' := Hu). apply in_univ_In in Hu'. rewrite Hu'.
    exists e. split; [left; reflexivity | exact Hag].
  - exists ((k, v) :: e). split.
    + apply in_map_iff. exists v. split; [reflexivity | exact Hu].
    + apply agrees_cons_intro; assumption.
Qed.

(* ---------- terms ---------- *)

Lemma term_ind' (P : term -> Prop) :
  (forall x, P (Var x)) -> (forall w, P (Wild w)) ->
  (forall f args, Forall P args -> P (App f args)) -> forall t, P t.
Proof.
  intros HV HW HA. fix IH 1. intros [x|w|f args].
  - apply HV.
  - apply HW.
  - apply HA. induction args as [|a args IHa].
    + constructor.
    + constructor; [apply IH | exact IHa].
Qed.

Lemma match_term_App : forall M f args v e,
  match_term M (App f args) v e =
  flat_map (fun row => if list_eqb (skipn (length args) row) [v]
                       then match_pre (match_term M) args row [e] else [])
           (sel_rows (map (pat_of e) args) (rws M f)).
Proof. reflexivity. Qed.

Lemma teval_App : forall M s f args v,
  teval M s (App f args) v <->
  exists row, In row (rws M f) /\ skipn (length args) row = [v] /\
              tevals_pre (teval M s) args row.
Proof. intros. reflexivity. Qed.

Lemma sel_rows_In : forall pat rows row, In row (sel_rows pat rows) -> In row rows.
Proof. intros pat rows row H. unfold sel_rows in H. apply filter_In in H. exact (proj1 H). Qed.

Lemma pat_ok_complete : forall M s e, agrees s e -> forall ts row,
  tevals_pre (teval M s) ts row -> pat_ok (map (pat_of e) ts) row = true.
Proof.
  intros M s e Hag ts. induction ts as [|t ts IH]; intros row Hpre; [reflexivity|].
  cbn [map pat_ok]. destruct row as [|x row]; [reflexivity|].
  cbn [tevals_pre] in Hpre. destruct Hpre as [Ht Hpre].
  destruct (pat_of e t) as [w|] eqn:Ep; [|exact (IH row Hpre)].
  assert (Hw : x = w).
  { destruct t as [y|y|f args]; cbn [pat_of] in Ep; cbn [teval] in Ht.
    - rewrite <- (proj1 Ht). apply Hag. exact Ep.
    - rewrite <- (proj1 Ht). apply Hag. exact Ep.
    - discriminate. }
  subst w. rewrite N.eqb_refl. exact (IH row Hpre).
Qed.

Lemma sel_rows_complete : forall M s e ts rows row, agrees s e -> In row rows ->
  tevals_pre (teval M s) ts row -> In row (sel_rows (map (pat_of e) ts) rows).
Proof.
  intros M s e ts rows row Hag Hin Hpre. unfold sel_rows. apply filter_In.
  split; [exact Hin | eapply pat_ok_complete; eassumption].
Qed.

Definition mspec (M : model) (t : term) : Prop :=
  forall v e, msound (fun s => teval M s t v) e (match_term M t v e) /\
              mcomplete (fun s => teval M s t v) e (match_term M t v e).

(* list versions for [match_pre]: from a list of environments *)
Lemma match_pre_sound : forall M ts, Forall (mspec M) ts -> forall vs es e',
  In e' (match_pre (match_term M) ts vs es) -> forall s, agrees s e' ->
  (exists e, In e es /\ agrees s e) /\ tevals_pre (teval M s) ts vs.
Proof.
  intros M ts Hts. induction Hts as [|t ts Ht Hts IH]; intros vs es e' Hin s Hag.
  - cbn [match_pre] in Hin. cbn [tevals_pre]. split; [|exact I]. exists e'. split; assumption.
  - cbn [match_pre] in Hin. destruct vs as [|v vs]; [destruct Hin|].
    destruct (IH _ _ _ Hin s Hag) as [[e1 [He1 Hag1]] Hpre].
    apply in_flat_map in He1. destruct He1 as [e [He Hm]].
    destruct (Ht v e) as [Hs _]. destruct (Hs _ Hm s Hag1) as [Hage Hte].
    split; [exists e; split; assumption|]. cbn [tevals_pre]. split; assumption.
Qed.

Lemma match_pre_complete : forall M ts, Forall (mspec M) ts -> forall vs es e s,
  In e es -> agrees s e -> tevals_pre (teval M s) ts vs ->
  exists e', In e' (match_pre (match_term M) ts vs es) /\ agrees s e'.
Proof.
  intros M ts Hts. induction Hts as [|t ts Ht Hts IH]; intros vs es e s Hin Hag Hpre.
  - cbn [match_pre]. exists e. split; assumption.
  - cbn [match_pre]. cbn [tevals_pre] in Hpre. destruct vs as [|v vs]; [destruct Hpre|].
    destruct Hpre as [Hte Hpre]. destruct (Ht v e) as [_ Hc].
    destruct (Hc s Hag Hte) as [e1 [He1 Hag1]].
    apply (IH vs (flat_map (match_term M t v) es) e1 s).
    + apply in_flat_map. exists e. split; assumption.
    + exact Hag1.
    + exact Hpre.
Qed.

Lemma match_term_spec : forall M t, mspec M t.
Proof.
  intros M. apply term_ind'.
  - intros x v e. split; [apply match_key_sound | apply match_key_complete].
  - intros w v e. split; [apply match_key_sound | apply match_key_complete].
  - intros f args Hargs v e. split.
    + intros e' Hin s Hag. rewrite match_term_App in Hin.
      apply in_flat_map in Hin. destruct Hin as [row [Hrow Hin]]. apply sel_rows_In in Hrow.
      destruct (list_eqb (skipn (length args) row) [v]) eqn:El; [|destruct Hin].
      apply list_eqb_eq in El.
      destruct (match_pre_sound M args Hargs _ _ _ Hin s Hag) as [[e0 [He0 Hag0]] Hpre].
      destruct He0 as [He0|[]]. subst e0. split; [exact Hag0|].
      apply teval_App. exists row. split; [exact Hrow|]. split; assumption.
    + intros s Hag Hte. apply teval_App in Hte. destruct Hte as [row [Hrow [Hsk Hpre]]].
      destruct (match_pre_complete M args Hargs row [e] e s) as [e' [He' Hag']];
        [left; reflexivity | exact Hag | exact Hpre |].
      exists e'. split; [|exact Hag']. rewrite match_term_App. apply in_flat_map.
      exists row. split; [eapply sel_rows_complete; eassumption|].
      rewrite Hsk. rewrite list_eqb_refl. exact He'.
Qed.

Lemma all_mspec : forall M ts, Forall (mspec M) ts.
Proof. intros M ts. apply Forall_forall. intros t _. apply match_term_spec. Qed.

Lemma match_term_sound : forall M t v e, msound (fun s => teval M s t v) e (match_term M t v e).
Proof. intros. apply match_term_spec. Qed.
Lemma match_term_complete : forall M t v e,
  mcomplete (fun s => teval M s t v) e (match_term M t v e).
Proof. intros. apply match_term_spec. Qed.

Lemma match_terms_sound : forall M ts vs e,
  msound (fun s => tevals M s ts vs) e (match_terms M ts vs e).
Proof.
  intros M ts vs e e' Hin s Hag. unfold match_terms in Hin.
  destruct (is_nil (skipn (length ts) vs)) eqn:En; [|destruct Hin].
  apply is_nil_true in En.
  destruct (match_pre_sound M ts (all_mspec M ts) _ _ _ Hin s Hag) as [[e0 [He0 Hag0]] Hpre].
  destruct He0 as [He0|[]]. subst e0. split; [exact Hag0|]. split; assumption.
Qed.

Lemma match_terms_complete : forall M ts vs e,
  mcomplete (fun s => tevals M s ts vs) e (match_terms M ts vs e).
Proof.
  intros M ts vs e s Hag [Hsk Hpre]. unfold match_terms. rewrite Hsk. cbn [is_nil].
  apply (match_pre_complete M ts (all_mspec M ts) vs [e] e s);
    [left; reflexivity | exact Hag | exact Hpre].
Qed.

Lemma eval_term_sound : forall M t e, vsound (fun s v => teval M s t v) e (eval_term M t e).
Proof.
  intros M [x|w|f args] e; cbn [eval_term teval]; try apply eval_key_sound.
  intros e' v Hin s Hag. apply in_flat_map in Hin. destruct Hin as [row [Hrow Hin]].
  apply sel_rows_In in Hrow. unfold match_args in Hin.
  destruct (skipn (length args) row) as [|r [|r' l]] eqn:Esk; try destruct Hin.
  apply in_map_iff in Hin. destruct Hin as [e1 [Heq Hin]]. injection Heq as He Hr. subst e1 r.
  destruct (match_pre_sound M args (all_mspec M args) _ _ _ Hin s Hag) as [[e0 [He0 Hag0]] Hpre].
  destruct He0 as [He0|[]]. subst e0. split; [exact Hag0|].
  apply teval_App. exists row. split; [exact Hrow|]. split; assumption.
Qed.

Lemma eval_term_complete : forall M t e,
  vcomplete (fun s v => teval M s t v) e (eval_term M t e).
Proof.
  intros M [x|w|f args] e; cbn [eval_term]; try apply eval_key_complete.
  intros s v Hag Hte. apply teval_App in Hte. destruct Hte as [row [Hrow [Hsk Hpre]]].
  destruct (match_pre_complete M args (all_mspec M args) row [e] e s) as [e' [He' Hag']];
    [left; reflexivity | exact Hag | exact Hpre |].
  exists e'. split; [|exact Hag']. apply in_flat_map. exists row.
  split; [eapply sel_rows_complete; eassumption|].
  unfold match_args. rewrite Hsk. apply in_map_iff. exists e'. split; [reflexivity | exact He'].
Qed.

(* ---------- atoms ---------- *)

Lemma match_atom_sound : forall M a e, msound (fun s => atom_holds M s a) e (match_atom M a e).
Proof.
  intros M [p args|a b|t|x ty|x t] e e' Hin s Hag; cbn [match_atom] in Hin; cbn [atom_holds].
  - apply in_flat_map in Hin. destruct Hin as [row [Hrow Hin]]. apply sel_rows_In in Hrow.
    destruct (match_terms_sound M args row e _ Hin s Hag) as [Hag0 Hte].
    split; [exact Hag0|]. exists row. split; assumption.
  - destruct (is_app a).
    + apply in_flat_map in Hin. destruct Hin as [[e1 v] [Hev Hin]]. cbn [fst snd] in Hin.
      destruct (match_term_sound M b v e1 _ Hin s Hag) as [Hag1 Hb].
      destruct (eval_term_sound M a e _ _ Hev s Hag1) as [Hag0 Ha].
      split; [exact Hag0|]. exists v. split; assumption.
    + apply in_flat_map in Hin. destruct Hin as [[e1 v] [Hev Hin]]. cbn [fst snd] in Hin.
      destruct (match_term_sound M a v e1 _ Hin s Hag) as [Hag1 Ha].
      destruct (eval_term_sound M b e _ _ Hev s Hag1) as [Hag0 Hb].
      split; [exact Hag0|]. exists v. split; assumption.
  - apply in_map_iff in Hin. destruct Hin as [[e1 v] [Heq Hev]]. cbn [fst] in Heq. subst e1.
    destruct (eval_term_sound M t e _ _ Hev s Hag) as [Hag0 Ht].
    split; [exact Hag0|]. exists v. exact Ht.
  - destruct (assoc (vkey x) e) as [v|] eqn:Ea.
    + destruct (memN v (car M ty)) eqn:Em; [|destruct Hin].
      destruct Hin as [Hin|[]]. subst e'. apply memN_In in Em. split; [exact Hag|].
      rewrite (Hag _ _ Ea). exact Em.
    + apply in_map_iff in Hin. destruct Hin as [v [Heq Hv]]. subst e'. split.
      * eapply agrees_cons_tl; eassumption.
      * rewrite (agrees_cons_hd _ _ _ _ Hag). exact Hv.
  - apply in_flat_map in Hin. destruct Hin as [[e1 v] [Hev Hin]]. cbn [fst snd] in Hin.
    destruct (match_key_sound M (vkey x) v e1 _ Hin s Hag) as [Hag1 [Hk Hu]].
    destruct (eval_term_sound M t e _ _ Hev s Hag1) as [Hag0 Ht].
    split; [exact Hag0|]. rewrite Hk. split; assumption.
Qed.

Lemma match_atom_complete : forall M a e,
  mcomplete (fun s => atom_holds M s a) e (match_atom M a e).
Proof.
  intros M [p args|a b|t|x ty|x t] e s Hag Hh; cbn [match_atom]; cbn [atom_holds] in Hh.
  - destruct Hh as [row [Hrow Hte]].
    destruct (match_terms_complete M args row e s Hag Hte) as [e' [He' Hag']].
    exists e'. split; [|exact Hag']. apply in_flat_map. exists row.
    split; [eapply sel_rows_complete; [exact Hag | exact Hrow | exact (proj2 Hte)] | exact He'].
  - destruct Hh as [v [Ha Hb]]. destruct (is_app a).
    + destruct (eval_term_complete M a e s v Hag Ha) as [e1 [He1 Hag1]].
      destruct (match_term_complete M b v e1 s Hag1 Hb) as [e' [He' Hag']].
      exists e'. split; [|exact Hag']. apply in_flat_map. exists (e1, v). split; assumption.
    + destruct (eval_term_complete M b e s v Hag Hb) as [e1 [He1 Hag1]].
      destruct (match_term_complete M a v e1 s Hag1 Ha) as [e' [He' Hag']].
      exists e'. split; [|exact Hag']. apply in_flat_map. exists (e1, v). split; assumption.
  - destruct Hh as [v Ht].
    destruct (eval_term_complete M t e s v Hag Ht) as [e1 [He1 Hag1]].
    exists e1. split; [|exact Hag1]. apply in_map_iff. exists (e1, v). split; [reflexivity|exact He1].
  - destruct (assoc (vkey x) e) as [v|] eqn:Ea.
    + rewrite <- (Hag _ _ Ea). apply memN_In in Hh. rewrite Hh.
      exists e. split; [left; reflexivity | exact Hag].
    + exists ((vkey x, s (vkey x)) :: e). split.
      * apply in_map_iff. exists (s (vkey x)). split; [reflexivity | exact Hh].
      * apply agrees_cons_intro; [reflexivity | exact Hag].
  - destruct Hh as [Ht Hu].
    destruct (eval_term_complete M t e s _ Hag Ht) as [e1 [He1 Hag1]].
    destruct (match_key_complete M (vkey x) (s (vkey x)) e1 s Hag1) as [e' [He' Hag']];
      [split; [reflexivity | exact Hu]|].
    exists e'. split; [|exact Hag']. apply in_flat_map. exists (e1, s (vkey x)). split; assumption.
Qed.

