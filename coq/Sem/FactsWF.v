(* Well-formedness [WF] is preserved by every operation, hence holds in every state of
   [run_history]. *)
From Coq Require Import List NArith Bool Lia.
From Sem Require Import Syntax Model Spec Chase SpecHom FactsMatch FactsIso FactsStruct FactsApply
  FactsInitial.
Import ListNotations.
Open Scope N_scope.

Lemma merge_WF : forall S a b, WF S -> WF (fst (merge S a b)).
Proof.
  intros S a b HW. unfold merge.
  destruct (find_root_cls (st_elems S) a) as [ra|] eqn:Ea; [|exact HW].
  destruct (find_root_cls (st_elems S) b) as [rb|] eqn:Eb; [|exact HW].
  destruct (ra =? rb) eqn:E; [exact HW|]. apply N.eqb_neq in E. cbn [fst].
  apply WF_merged; [exact HW | | lia].
  destruct (N.min_spec ra rb) as [[_ Hn]|[_ Hn]]; rewrite Hn;
    [exact (find_root_univ S a ra Ea) | exact (find_root_univ S b rb Eb)].
Qed.

Lemma roots_opt_univ : forall S row row', roots_opt (st_elems S) row = Some row' ->
  forall y, In y row' -> In y (univ (model_of S)).
Proof.
  intros S row row' H. pose proof (roots_opt_Forall2 _ _ _ H) as HF2. clear H.
  induction HF2 as [|x y row row' Hxy HF2 IH]; intros z Hz; [destruct Hz|].
  destruct Hz as [Hz|Hz]; [subst z; exact (find_root_univ S x y Hxy) | exact (IH z Hz)].
Qed.

Lemma add_row_WF : forall S r row, WF S -> WF (fst (add_row S r row)).
Proof.
  intros S r row HW. unfold add_row.
  destruct (roots_opt (st_elems S) row) as [row'|] eqn:Er; [|exact HW].
  destruct (mem_row row' (srows S r)); [exact HW|]. cbn [fst].
  apply WF_with_row; [exact HW | exact (roots_opt_univ S row row' Er)].
Qed.

Lemma new_elem_WF : forall S ty, WF S -> WF (fst (new_elem S ty)).
Proof.
  intros S ty HW. cbn [new_elem fst]. apply WF_with_elem; [exact HW | apply next_id_no_entry].
Qed.

Lemma def_app_WF : forall p S f args, WF S -> WF (fst (def_app p S f args)).
Proof.
  intros p S f args HW. unfold def_app. destruct (is_func p f); [|exact HW].
  destruct (roots_opt (st_elems S) args) as [args'|]; [|exact HW].
  destruct (lookup_fun (srows S f) args'); [exact HW|]. cbn [fst].
  apply add_row_WF. apply new_elem_WF. exact HW.
Qed.

Lemma push_handle_WF : forall S n, WF S -> WF (push_handle S n).
Proof. intros S n [H1 H2]. constructor; [exact H1 | exact H2]. Qed.

Lemma chase_round_WF : forall p S S', WF S -> chase_round p S = Changed S' -> WF S'.
Proof.
  intros p S S' HW H. unfold chase_round in H.
  set (acts := round_actions p S) in *.
  assert (H12 : WF (fst (apply_list apply_row acts (fst (apply_list apply_merge acts S))))).
  { apply apply_list_inv.
    - intros S1 a _ H1. destruct a; cbn [apply_row fst]; try exact H1. apply add_row_WF. exact H1.
    - apply apply_list_inv; [|exact HW].
      intros S1 a _ H1. destruct a; cbn [apply_merge fst]; try exact H1. apply merge_WF. exact H1. }
  destruct (snd (apply_list apply_merge acts S) ||
            snd (apply_list apply_row acts (fst (apply_list apply_merge acts S)))).
  - injection H as H. subst S'. exact H12.
  - destruct (snd (apply_list (apply_def p) acts S)); [|discriminate].
    injection H as H. subst S'. apply apply_list_inv; [|exact HW].
    intros S1 a _ H1. destruct a; cbn [apply_def fst]; try exact H1. apply def_app_WF. exact H1.
Qed.

Theorem chase_WF : forall n p M M', chase n p M = Some M' -> WF M -> WF M'.
Proof.
  intros n p. induction n as [|n IH]; intros M M' H HW; [discriminate|].
  cbn [chase] in H. destruct (chase_round p M) as [|M1] eqn:Er.
  - destruct (closed_b p M); [|discriminate]. injection H as H. subst M'. exact HW.
  - exact (IH M1 M' H (chase_round_WF p M M1 HW Er)).
Qed.

Lemma close_until_WF : forall n p c M M', close_until n p c M = Some M' -> WF M -> WF M'.
Proof.
  intros n p c. induction n as [|n IH]; intros M M' H HW; [discriminate|].
  cbn [close_until] in H. destruct (eval_cond_s M c); [injection H as H; subst; exact HW|].
  destruct (chase_round p M) as [|M1] eqn:Er.
  - destruct (closed_b p M); [|discriminate]. injection H as H. subst M'. exact HW.
  - exact (IH M1 M' H (chase_round_WF p M M1 HW Er)).
Qed.

Lemma do_call_WF : forall fuel p S c S', do_call fuel p S c = Some S' -> WF S -> WF S'.
Proof.
  intros fuel p S c S' H HW. destruct c as [ty|r hs|f hs|ty a b| |c|]; cbn [do_call] in H.
  - injection H as H. subst S'. apply push_handle_WF. apply new_elem_WF. exact HW.
  - injection H as H. subst S'. apply add_row_WF. exact HW.
  - destruct (lookup_fun (srows S f) (map (hroot S) hs)).
    + injection H as H. subst S'. apply push_handle_WF. exact HW.
    + injection H as H. subst S'. apply push_handle_WF. apply add_row_WF. apply new_elem_WF. exact HW.
  - injection H as H. subst S'. apply merge_WF. exact HW.
  - exact (chase_WF fuel p S S' H HW).
  - exact (close_until_WF fuel p c S S' H HW).
  - injection H as H. subst S'. exact HW.
Qed.

Lemma init_structure_WF : forall p, WF (init_structure p).
Proof.
  intro p. assert (Hu : forall x, ~ In x (univ (model_of (init_structure p)))).
  { intros x Hx. apply univ_model_of in Hx. destruct Hx as [ty [cls [el [Hin Hel]]]].
    cbn [init_structure st_elems] in Hin. apply in_map_iff in Hin.
    destruct Hin as [i [Heq _]]. injection Heq as _ Hc. subst cls. destruct Hel. }
  constructor.
  - intros x Hx. destruct (Hu x Hx).
  - intros r row x Hrow Hx. exfalso. unfold srows, assoc_d in Hrow.
    destruct (assoc r (st_rows (init_structure p))) as [rows|] eqn:Ea; [|destruct Hrow].
    apply assoc_In in Ea. cbn [init_structure st_rows] in Ea. apply in_map_iff in Ea.
    destruct Ea as [i [Heq _]]. injection Heq as _ Hc. subst rows. destruct Hrow.
Qed.

Lemma run_from_WF : forall fuel p cs st,
  (forall S, st = Some S -> WF S) ->
  forall S, In (Some S) (run_from fuel p st cs) -> WF S.
Proof.
  intros fuel p cs. induction cs as [|c cs IH]; intros st Hst S Hin; [destruct Hin|].
  assert (Hstep : forall S1, match st with Some s0 => do_call fuel p s0 c | None => None end = Some S1 ->
                             WF S1).
  { intros S1 H1. destruct st as [s0|]; [|discriminate]. exact (do_call_WF fuel p s0 c S1 H1 (Hst s0 eq_refl)). }
  destruct c; cbn [run_from] in Hin; try exact (IH _ Hstep S Hin).
  destruct Hin as [Hin|Hin]; [exact (Hst S Hin) | exact (IH st Hst S Hin)].
Qed.

Theorem run_history_WF : forall fuel p cs S, In (Some S) (run_history fuel p cs) -> WF S.
Proof.
  intros fuel p cs S Hin. unfold run_history in Hin.
  apply (run_from_WF fuel p cs (Some (init_structure p))); [|exact Hin].
  intros S0 H0. injection H0 as H0. subst S0. apply init_structure_WF.
Qed.
