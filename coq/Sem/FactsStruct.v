(* Basic facts about association lists, [model_of], [find_root_cls], [upd_assoc], [next_id]. *)
From Coq Require Import List NArith Bool Lia.
From Sem Require Import Syntax Model Chase FactsMatch FactsIso.
Import ListNotations.
Open Scope N_scope.

Lemma nodupN_In : forall x l, In x (nodupN l) <-> In x l.
Proof.
  intros x l. induction l as [|y l IH]; cbn [nodupN]; [tauto|].
  destruct (memN y l) eqn:Em.
  - apply memN_In in Em. rewrite IH. cbn [In]. split; [tauto|]. intros [H|H]; [subst; exact Em|exact H].
  - cbn [In]. rewrite IH. tauto.
Qed.

Lemma nodup_rows_In : forall x l, In x (nodup_rows l) <-> In x l.
Proof.
  intros x l. induction l as [|y l IH]; cbn [nodup_rows]; [tauto|].
  destruct (mem_row y l) eqn:Em.
  - apply mem_row_In in Em. rewrite IH. cbn [In]. split; [tauto|]. intros [H|H]; [subst; exact Em|exact H].
  - cbn [In]. rewrite IH. tauto.
Qed.

Lemma assoc_map_val : forall (A B : Type) (F : A -> B) k (l : list (N * A)),
  assoc k (map (fun kv => (fst kv, F (snd kv))) l) = option_map F (assoc k l).
Proof.
  intros A B F k l. induction l as [|[k' v] l IH]; [reflexivity|].
  cbn [map assoc fst snd]. destruct (k' =? k); [reflexivity | exact IH].
Qed.

Lemma assoc_None_not_In : forall (A : Type) k (l : list (N * A)),
  assoc k l = None -> forall v, ~ In (k, v) l.
Proof.
  intros A k l. induction l as [|[k' v'] l IH]; intros H v Hin; [destruct Hin|].
  cbn [assoc] in H. destruct (k' =? k) eqn:E; [discriminate|]. apply N.eqb_neq in E.
  destruct Hin as [Hin|Hin]; [injection Hin as Hk Hv; contradiction | exact (IH H v Hin)].
Qed.

Lemma In_assoc_Some : forall (A : Type) k v (l : list (N * A)),
  In (k, v) l -> exists v', assoc k l = Some v'.
Proof.
  intros A k v l Hin. destruct (assoc k l) as [v'|] eqn:E; [exists v'; reflexivity|].
  exfalso. exact (assoc_None_not_In _ _ _ E v Hin).
Qed.

Lemma existsb_key_assoc : forall (A : Type) k (l : list (N * A)),
  existsb (fun kv => fst kv =? k) l = false <-> assoc k l = None.
Proof.
  intros A k l. induction l as [|[k' v] l IH]; cbn [existsb assoc fst]; [tauto|].
  destruct (k' =? k); cbn [orb]; [split; discriminate | exact IH].
Qed.

Lemma assoc_app_None : forall (A : Type) k (l1 l2 : list (N * A)),
  assoc k l1 = None -> assoc k (l1 ++ l2) = assoc k l2.
Proof.
  intros A k l1 l2. induction l1 as [|[k' v] l1 IH]; intro H; [reflexivity|].
  cbn [assoc app] in *. destruct (k' =? k); [discriminate | exact (IH H)].
Qed.

Lemma assoc_app_Some : forall (A : Type) k (l1 l2 : list (N * A)) v,
  assoc k l1 = Some v -> assoc k (l1 ++ l2) = Some v.
Proof.
  intros A k l1 l2 v. induction l1 as [|[k' v'] l1 IH]; intro H; [discriminate|].
  cbn [assoc app] in *. destruct (k' =? k); [exact H | exact (IH H)].
Qed.

Lemma assoc_map_upd_other : forall (A : Type) (f : A -> A) r k (l : list (N * A)),
  (k =? r) = false ->
  assoc k (map (fun kv => if fst kv =? r then (r, f (snd kv)) else kv) l) = assoc k l.
Proof.
  intros A f r k l E. induction l as [|[k' v] l IH]; [reflexivity|].
  cbn [map assoc fst snd]. destruct (k' =? r) eqn:Er.
  - apply N.eqb_eq in Er. subst k'. cbn [assoc]. rewrite (N.eqb_sym r k), E. exact IH.
  - cbn [assoc]. destruct (k' =? k); [reflexivity | exact IH].
Qed.

Lemma assoc_map_upd_same : forall (A : Type) (f : A -> A) r (l : list (N * A)),
  assoc r (map (fun kv => if fst kv =? r then (r, f (snd kv)) else kv) l) =
  option_map f (assoc r l).
Proof.
  intros A f r l. induction l as [|[k' v] l IH]; [reflexivity|].
  cbn [map assoc fst snd]. destruct (k' =? r) eqn:Er.
  - cbn [assoc]. rewrite N.eqb_refl. reflexivity.
  - cbn [assoc]. rewrite Er. exact IH.
Qed.

Lemma assoc_upd_assoc : forall (A : Type) (f : A -> A) d r k (l : list (N * A)),
  assoc k (upd_assoc r f d l) = if k =? r then Some (f (assoc_d d r l)) else assoc k l.
Proof.
  intros A f d r k l. unfold upd_assoc.
  destruct (existsb (fun kv => fst kv =? r) l) eqn:Ex.
  - destruct (k =? r) eqn:E.
    + apply N.eqb_eq in E. subst k. rewrite assoc_map_upd_same. unfold assoc_d.
      destruct (assoc r l) as [v|] eqn:Ea; [reflexivity|].
      apply existsb_key_assoc in Ea. rewrite Ea in Ex. discriminate.
    + apply assoc_map_upd_other. exact E.
  - apply existsb_key_assoc in Ex. unfold assoc_d. rewrite Ex.
    destruct (k =? r) eqn:E.
    + apply N.eqb_eq in E. subst k. rewrite (assoc_app_None _ _ _ _ Ex). cbn [assoc].
      rewrite N.eqb_refl. reflexivity.
    + destruct (assoc k l) as [v|] eqn:Ea.
      * exact (assoc_app_Some _ _ _ _ _ Ea).
      * rewrite (assoc_app_None _ _ _ _ Ea). cbn [assoc]. rewrite (N.eqb_sym r k), E. reflexivity.
Qed.

(* entries of an updated association list *)
Lemma upd_assoc_In : forall (A : Type) (f : A -> A) d r k c' (l : list (N * A)),
  In (k, c') (upd_assoc r f d l) ->
  (exists c, In (k, c) l /\ (c' = c \/ (k = r /\ c' = f c))) \/ (k = r /\ c' = f d).
Proof.
  intros A f d r k c' l Hin. unfold upd_assoc in Hin.
  destruct (existsb (fun kv => fst kv =? r) l).
  - left. apply in_map_iff in Hin. destruct Hin as [[k0 c0] [Heq Hin]]. cbn [fst snd] in Heq.
    destruct (k0 =? r) eqn:E.
    + apply N.eqb_eq in E. injection Heq as Hk Hc. subst. exists c0. split; [exact Hin|].
      right. split; reflexivity.
    + injection Heq as Hk Hc. subst. exists c'. split; [exact Hin | left; reflexivity].
  - apply in_app_or in Hin. destruct Hin as [Hin|[Hin|[]]].
    + left. exists c'. split; [exact Hin | left; reflexivity].
    + right. injection Hin as Hk Hc. subst. split; reflexivity.
Qed.

Lemma upd_assoc_old : forall (A : Type) (f : A -> A) d r k c (l : list (N * A)),
  In (k, c) l -> In (k, c) (upd_assoc r f d l) \/ In (k, f c) (upd_assoc r f d l).
Proof.
  intros A f d r k c l Hin. unfold upd_assoc.
  destruct (existsb (fun kv => fst kv =? r) l).
  - destruct (k =? r) eqn:E.
    + right. apply in_map_iff. exists (k, c). cbn [fst snd]. rewrite E.
      apply N.eqb_eq in E. subst. split; [reflexivity | exact Hin].
    + left. apply in_map_iff. exists (k, c). cbn [fst snd]. rewrite E. split; [reflexivity | exact Hin].
  - left. apply in_or_app. left. exact Hin.
Qed.

Lemma upd_assoc_has : forall (A : Type) (f : A -> A) d r (l : list (N * A)),
  exists c, In (r, f c) (upd_assoc r f d l).
Proof.
  intros A f d r l. unfold upd_assoc.
  destruct (existsb (fun kv => fst kv =? r) l) eqn:Ex.
  - apply existsb_exists in Ex. destruct Ex as [[k c] [Hin Hk]]. cbn [fst] in Hk.
    apply N.eqb_eq in Hk. subst k. exists c. apply in_map_iff. exists (r, c).
    cbn [fst snd]. rewrite N.eqb_refl. split; [reflexivity | exact Hin].
  - exists d. apply in_or_app. right. left. reflexivity.
Qed.

(* ---------- model_of ---------- *)

Lemma univ_model_of : forall S x, In x (univ (model_of S)) <->
  exists ty cls el, In (ty, cls) (st_elems S) /\ In (el, x) cls.
Proof.
  intros S x. unfold univ, model_of. cbn [md_cars]. rewrite in_flat_map. split.
  - intros [[ty l] [Hin Hx]]. apply in_map_iff in Hin. destruct Hin as [[ty' cls] [Heq Hin]].
    cbn [fst snd] in Heq. injection Heq as Hty Hl. subst. cbn [snd] in Hx.
    apply (proj1 (nodupN_In _ _)) in Hx. apply in_map_iff in Hx. destruct Hx as [[el r] [Hr Her]].
    cbn [snd] in Hr. subst r. do 3 eexists. split; eassumption.
  - intros [ty [cls [el [Hin Hel]]]]. exists (ty, nodupN (map snd cls)). split.
    + apply in_map_iff. exists (ty, cls). split; [reflexivity | exact Hin].
    + cbn [snd]. apply nodupN_In. apply in_map_iff. exists (el, x). split; [reflexivity | exact Hel].
Qed.

Lemma car_model_of : forall S ty x, In x (car (model_of S) ty) <->
  exists cls el, assoc ty (st_elems S) = Some cls /\ In (el, x) cls.
Proof.
  intros S ty x. unfold car, assoc_d, model_of. cbn [md_cars].
  rewrite (assoc_map_val _ _ (fun cls => nodupN (map snd cls)) ty (st_elems S)).
  destruct (assoc ty (st_elems S)) as [cls|]; cbn [option_map].
  - rewrite nodupN_In, in_map_iff. split.
    + intros [[el r] [Hr Hin]]. cbn [snd] in Hr. subst. exists cls, el. split; [reflexivity|exact Hin].
    + intros [cls' [el [Heq Hin]]]. injection Heq as Hc. subst. exists (el, x). split; [reflexivity|exact Hin].
  - split; [intros [] | intros [cls [el [Heq _]]]; discriminate].
Qed.

Lemma car_sub_univ : forall S ty x, In x (car (model_of S) ty) -> In x (univ (model_of S)).
Proof.
  intros S ty x H. apply car_model_of in H. destruct H as [cls [el [Ha Hin]]].
  apply univ_model_of. exists ty, cls, el. split; [exact (assoc_In _ _ _ _ Ha) | exact Hin].
Qed.

Lemma rws_model_of : forall S r, rws (model_of S) r = srows S r.
Proof. reflexivity. Qed.

(* ---------- find_root_cls ---------- *)

Lemma find_root_cls_Some : forall cls x r, find_root_cls cls x = Some r ->
  exists ty c, In (ty, c) cls /\ In (x, r) c.
Proof.
  intros cls x r. induction cls as [|[ty c] cls IH]; intro H; [discriminate|].
  cbn [find_root_cls snd] in H. destruct (assoc x c) as [r'|] eqn:Ea.
  - injection H as Hr. subst. exists ty, c. split; [left; reflexivity | exact (assoc_In _ _ _ _ Ea)].
  - destruct (IH H) as [ty' [c' [Hin Hx]]]. exists ty', c'. split; [right; exact Hin | exact Hx].
Qed.

Lemma find_root_cls_None : forall cls x, find_root_cls cls x = None ->
  forall ty c r, In (ty, c) cls -> ~ In (x, r) c.
Proof.
  intros cls x. induction cls as [|[ty0 c0] cls IH]; intros H ty c r Hin Hx; [destruct Hin|].
  cbn [find_root_cls snd] in H. destruct (assoc x c0) as [r'|] eqn:Ea; [discriminate|].
  destruct Hin as [Hin|Hin].
  - injection Hin as Hty Hc. subst. exact (assoc_None_not_In _ _ _ Ea r Hx).
  - exact (IH H ty c r Hin Hx).
Qed.

Lemma find_root_univ : forall S x r, find_root_cls (st_elems S) x = Some r ->
  In r (univ (model_of S)).
Proof.
  intros S x r H. destruct (find_root_cls_Some _ _ _ H) as [ty [c [Hin Hx]]].
  apply univ_model_of. exists ty, c, x. split; assumption.
Qed.

Lemma find_root_cls_map : forall (g : N -> N) cls x,
  find_root_cls (map (fun tc => (fst tc, map (fun er => (fst er, g (snd er))) (snd tc))) cls) x =
  option_map g (find_root_cls cls x).
Proof.
  intros g cls x. induction cls as [|[ty c] cls IH]; [reflexivity|].
  cbn [map find_root_cls fst snd]. rewrite (assoc_map_val _ _ g x c).
  destruct (assoc x c); cbn [option_map]; [reflexivity | exact IH].
Qed.

Lemma roots_opt_Forall2 : forall cls row row', roots_opt cls row = Some row' ->
  Forall2 (fun x y => find_root_cls cls x = Some y) row row'.
Proof.
  intros cls row. induction row as [|x row IH]; intros row' H; cbn [roots_opt] in H.
  - injection H as H. subst. constructor.
  - destruct (find_root_cls cls x) as [y|] eqn:Ex; [|discriminate].
    destruct (roots_opt cls row) as [r|]; [|discriminate].
    injection H as H. subst. constructor; [exact Ex | exact (IH r eq_refl)].
Qed.

(* ---------- next_id ---------- *)

Lemma fold_max_ge : forall l m, m <= fold_left (fun m x => N.max m (N.succ x)) l m.
Proof.
  intros l. induction l as [|x l IH]; intro m; cbn [fold_left]; [lia|].
  specialize (IH (N.max m (N.succ x))). lia.
Qed.

Lemma fold_max_gt : forall l m x, In x l -> x < fold_left (fun m x => N.max m (N.succ x)) l m.
Proof.
  intros l. induction l as [|y l IH]; intros m x Hin; [destruct Hin|].
  cbn [fold_left]. destruct Hin as [Hin|Hin].
  - subst. pose proof (fold_max_ge l (N.max m (N.succ x))). lia.
  - exact (IH _ x Hin).
Qed.

Lemma next_id_gt_el : forall S ty c el r, In (ty, c) (st_elems S) -> In (el, r) c ->
  el < next_id S /\ r < next_id S.
Proof.
  intros S ty c el r Hin Her. unfold next_id.
  assert (H : forall z, z = el \/ z = r ->
    In z (flat_map (fun tc => flat_map (fun er => [fst er; snd er]) (snd tc)) (st_elems S) ++ st_handles S)).
  { intros z Hz. apply in_or_app. left. apply in_flat_map. exists (ty, c). split; [exact Hin|].
    cbn [snd]. apply in_flat_map. exists (el, r). split; [exact Her|]. cbn [fst snd In].
    destruct Hz as [Hz|Hz]; subst z; tauto. }
  split; apply fold_max_gt; apply H; tauto.
Qed.

Lemma next_id_gt_handle : forall S a, In a (st_handles S) -> a < next_id S.
Proof.
  intros S a Hin. unfold next_id. apply fold_max_gt. apply in_or_app. right. exact Hin.
Qed.

Lemma next_id_gt_univ : forall S x, In x (univ (model_of S)) -> x < next_id S.
Proof.
  intros S x H. apply univ_model_of in H. destruct H as [ty [c [el [Hin Her]]]].
  exact (proj2 (next_id_gt_el S ty c el x Hin Her)).
Qed.

Lemma next_id_no_entry : forall S, find_root_cls (st_elems S) (next_id S) = None.
Proof.
  intros S. destruct (find_root_cls (st_elems S) (next_id S)) as [r|] eqn:E; [|reflexivity].
  destruct (find_root_cls_Some _ _ _ E) as [ty [c [Hin Hx]]].
  pose proof (proj1 (next_id_gt_el S ty c _ r Hin Hx)). lia.
Qed.
