(* Source-level syntax of the eqlog fragment used by the engine properties (C01-C07).
   This file is the interface between the python generators (which print both the .eql
   text and a Gallina term of type [program]) and the Coq models. Definitions only.

   Concrete syntax correspondence (names are generated from the numbers):
     type   T<i>;                                   i < sg_ntypes
     pred   p<j>(T.., T..);                         rd_func = false, rd_cols = argument types
     func   f<j>(T.., T..) -> T;                    rd_func = true,  rd_cols = argument types ++ [result type]
     rule { if ..; then ..; ... }                   list of statements in source order
     atoms: APred p args   p(t1,..,tn)
            AEq a b        a = b
            ADef t         t!
            ATy x T        x : T            (if only)
            ALet x t       x := t!          (then only)
     terms: Var x | Wild w (the wildcard `_`; w makes occurrences distinct) | App f args
   Relations are numbered by their position in [sg_rels]; functions and predicates share
   one numbering. *)
From Coq Require Import List NArith Bool.
Import ListNotations.

Record rel_decl := { rd_cols : list N; rd_func : bool }.
Record sig := { sg_ntypes : N; sg_rels : list rel_decl }.

Inductive term := Var (x : N) | Wild (w : N) | App (f : N) (args : list term).
Inductive atom :=
  | APred (p : N) (args : list term)
  | AEq (a b : term)
  | ADef (t : term)
  | ATy (x : N) (ty : N)
  | ALet (x : N) (t : term).
Inductive stmt := If (a : atom) | Then (a : atom).
Definition rule := list stmt.
Record program := { pg_sig : sig; pg_rules : list rule }.

(* API histories. Elements are referred to by *handles*: the k-th call of New/Define (counting
   both, from 0) returns handle k. Handles may denote equal elements. *)
Inductive cond :=
  | CPred (p : N) (hs : list N)          (* p(h..) holds *)
  | CDefined (f : N) (hs : list N)       (* f(h..) is defined *)
  | CEqual (ty : N) (a b : N)            (* are_equal *)
  | CAnd (a b : cond) | COr (a b : cond).
Inductive call :=
  | New (ty : N)
  | Insert (r : N) (hs : list N)         (* for a function: arguments followed by the result *)
  | Define (f : N) (hs : list N)
  | Equate (ty : N) (a b : N)
  | Close
  | CloseUntil (c : cond)
  | Dump.                                (* observation point *)

(* A finite structure, as dumped by the implementation or computed by a model:
   st_classes: for each type, the list of (element id, root id) pairs of all elements created so far;
   st_rows:    for each relation, its rows over root ids (any order, no duplicates expected);
   st_handles: the element id of each handle. *)
Record structure := {
  st_elems : list (N * list (N * N));     (* type -> [(el, root)] *)
  st_rows  : list (N * list (list N));    (* relation -> rows *)
  st_handles : list N
}.
