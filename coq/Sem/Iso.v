(* Executable reference semantics, part 3: homomorphism / isomorphism oracles.
   Definitions only.

   A candidate map is computed by PROPAGATION: start with handle k of A |-> handle k of B (roots),
   then for every function row (args, r) of A whose args are mapped, look up the row (args', r')
   of B and add r |-> r'; repeat until nothing is added. The candidate is then CHECKED
   ([hom_map_b] / [iso_map_b]); only the check is relied upon for soundness.
   Elements of A that are not reachable from the handles through function rows stay unmapped and
   make the oracles answer [false] ([iso_code] then reports reason 3). In a state produced by
   API calls and closes every element is a handle element or was created as a function value, so
   this does not happen for the structures the harness compares. *)
From Coq Require Import List NArith Bool.
From Sem Require Import Syntax Model Chase.
Import ListNotations.
Open Scope N_scope.

Definition pmap := list (N * N).

Definition add_pair (m : pmap) (x y : N) : option pmap :=
  match assoc x m with
  | Some y' => if y' =? y then Some m else None
  | None => Some ((x, y) :: m)
  end.

Fixpoint map_opt (m : pmap) (l : list N) : option (list N) :=
  match l with
  | [] => Some []
  | x :: l' =>
      match assoc x m, map_opt m l' with
      | Some y, Some l'' => Some (y :: l'')
      | _, _ => None
      end
  end.

(* one pass over the rows of one function; [None] = conflict *)
Fixpoint prop_rows (rowsA rowsB : list (list N)) (m : pmap) : option pmap :=
  match rowsA with
  | [] => Some m
  | row :: rest =>
      match map_opt m (removelast row) with
      | Some args' =>
          match lookup_fun rowsB args' with
          | Some r' =>
              match add_pair m (last row 0) r' with
              | Some m' => prop_rows rest rowsB m'
              | None => None
              end
          | None => prop_rows rest rowsB m
          end
      | None => prop_rows rest rowsB m
      end
  end.

Fixpoint prop_funcs (fs : list (N * rel_decl)) (A B : structure) (m : pmap) : option pmap :=
  match fs with
  | [] => Some m
  | (f, d) :: fs' =>
      if rd_func d then
        match prop_rows (srows A f) (srows B f) m with
        | Some m' => prop_funcs fs' A B m'
        | None => None
        end
      else prop_funcs fs' A B m
  end.

Fixpoint prop_iter (fuel : nat) (p : program) (A B : structure) (m : pmap) : option pmap :=
  match fuel with
  | O => Some m
  | Datatypes.S n =>
      match prop_funcs (indexed (sg_rels (pg_sig p))) A B m with
      | Some m' => if Nat.eqb (length m') (length m) then Some m' else prop_iter n p A B m'
      | None => None
      end
  end.

Fixpoint init_pairs (A B : structure) (ha hb : list N) (m : pmap) : option pmap :=
  match ha, hb with
  | [], [] => Some m
  | a :: ha', b :: hb' =>
      match add_pair m (find_root A a) (find_root B b) with
      | Some m' => init_pairs A B ha' hb' m'
      | None => None
      end
  | _, _ => None
  end.

Definition candidate (p : program) (A B : structure) : option pmap :=
  match init_pairs A B (st_handles A) (st_handles B) [] with
  | Some m => prop_iter (Datatypes.S (length (univ (model_of A)))) p A B m
  | None => None
  end.

Definition app_map (m : pmap) (x : N) : N := assoc_d 0 x m.

Fixpoint handles_ok (h : N -> N) (A B : structure) (ha hb : list N) : bool :=
  match ha, hb with
  | [], [] => true
  | a :: ha', b :: hb' => (h (find_root A a) =? find_root B b) && handles_ok h A B ha' hb'
  | _, _ => false
  end.

(* [app_map m] is a homomorphism A -> B fixing handles *)
Definition hom_map_b (m : pmap) (A B : structure) : bool :=
  let MA := model_of A in
  let MB := model_of B in
  let h := app_map m in
  forallb (fun x => in_univ MB (h x)) (univ MA) &&
  forallb (fun tc => forallb (fun x => memN (h x) (car MB (fst tc))) (car MA (fst tc)))
          (md_cars MA) &&
  forallb (fun rr => forallb (fun row => mem_row (map h row) (rws MB (fst rr))) (rws MA (fst rr)))
          (md_rows MA) &&
  handles_ok h A B (st_handles A) (st_handles B).

Definition inv_map (m : pmap) : pmap := map (fun xy => (snd xy, fst xy)) m.

Definition iso_map_b (m : pmap) (A B : structure) : bool :=
  let h := app_map m in
  let g := app_map (inv_map m) in
  hom_map_b m A B && hom_map_b (inv_map m) B A &&
  forallb (fun x => g (h x) =? x) (univ (model_of A)) &&
  forallb (fun y => h (g y) =? y) (univ (model_of B)).

Definition hom_b (p : program) (A B : structure) : bool :=
  match candidate p A B with
  | Some m => hom_map_b m A B
  | None => false
  end.

Definition iso_b (p : program) (A B : structure) : bool :=
  match candidate p A B with
  | Some m => iso_map_b m A B
  | None => false
  end.

(* diagnostics: 0 isomorphic; 1 handle lists incompatible (different length, or equal handles
   on one side only in a way that already conflicts); 2 conflict during propagation (two
   different images forced for one element); 3 some element of A is not reached by the
   propagation; 4 the candidate is total but is not an isomorphism *)
Definition iso_code (p : program) (A B : structure) : N :=
  match init_pairs A B (st_handles A) (st_handles B) [] with
  | None => 1
  | Some m0 =>
      match prop_iter (Datatypes.S (length (univ (model_of A)))) p A B m0 with
      | None => 2
      | Some m =>
          if iso_map_b m A B then 0
          else if forallb (fun x => match assoc x m with Some _ => true | None => false end)
                          (univ (model_of A)) then 4 else 3
      end
  end.
