(* Evaluation facts used for the universal property of the chase:
   homomorphisms preserve evaluation, evaluation depends only on the keys of the term,
   evaluation is deterministic in a model whose functions are single-valued. *)
From Coq Require Import List NArith Bool Lia.
From Sem Require Import Syntax Model Spec FactsMatch.
Import ListNotations.
Open Scope N_scope.

Definition hcomp (h : N -> N) (s : asg) : asg := fun k => h (s k).

Record MHom (h : N -> N) (A B : model) : Prop := {
  mh_univ : forall x, In x (univ A) -> In (h x) (univ B);
  mh_car : forall ty x, In x (car A ty) -> In (h x) (car B ty);
  mh_rows : forall r row, In row (rws A r) -> In (map h row) (rws B r) }.

Lemma skipn_map' : forall (h : N -> N) n l, skipn n (map h l) = map h (skipn n l).
Proof.
  intros h n. induction n as [|n IH]; intros [|x l]; cbn [skipn map]; try reflexivity. apply IH.
Qed.

Lemma firstn_map' : forall (h : N -> N) n l, firstn n (map h l) = map h (firstn n l).
Proof.
  intros h n. induction n as [|n IH]; intros [|x l]; cbn [firstn map]; try reflexivity.
  f_equal. apply IH.
Qed.

(* ---------- preservation ---------- *)

Lemma tevals_pre_hom : forall (h : N -> N) A B s ts,
  Forall (fun t => forall v, teval A s t v -> teval B (hcomp h s) t (h v)) ts ->
  forall row, tevals_pre (teval A s) ts row -> tevals_pre (teval B (hcomp h s)) ts (map h row).
Proof.
  intros h A B s ts Hts. induction Hts as [|t ts Ht Hts IH]; intros row Hpre.
  - exact I.
  - cbn [tevals_pre] in Hpre. destruct row as [|x row]; [destruct Hpre|].
    destruct Hpre as [Hx Hpre]. cbn [map tevals_pre]. split; [exact (Ht x Hx) | exact (IH row Hpre)].
Qed.

Lemma teval_hom : forall h A B, MHom h A B -> forall s t v,
  teval A s t v -> teval B (hcomp h s) t (h v).
Proof.
  intros h A B HH s t. induction t as [x|w|f args IH] using term_ind'; intros v Hv.
  - cbn [teval] in *. destruct Hv as [Hs Hu]. split; [unfold hcomp; rewrite Hs; reflexivity|].
    exact (mh_univ _ _ _ HH v Hu).
  - cbn [teval] in *. destruct Hv as [Hs Hu]. split; [unfold hcomp; rewrite Hs; reflexivity|].
    exact (mh_univ _ _ _ HH v Hu).
  - apply teval_App in Hv. destruct Hv as [row [Hrow [Hsk Hpre]]]. apply teval_App.
    exists (map h row). split; [exact (mh_rows _ _ _ HH f row Hrow)|]. split.
    + rewrite skipn_map', Hsk. reflexivity.
    + exact (tevals_pre_hom h A B s args IH row Hpre).
Qed.

Lemma tevals_hom : forall h A B, MHom h A B -> forall s ts row,
  tevals A s ts row -> tevals B (hcomp h s) ts (map h row).
Proof.
  intros h A B HH s ts row [Hsk Hpre]. split.
  - rewrite skipn_map', Hsk. reflexivity.
  - apply (tevals_pre_hom h A B s ts); [|exact Hpre].
    apply Forall_forall. intros t _ v. apply teval_hom. exact HH.
Qed.

Lemma atom_holds_hom : forall h A B, MHom h A B -> forall s a,
  atom_holds A s a -> atom_holds B (hcomp h s) a.
Proof.
  intros h A B HH s [p args|a b|t|x ty|x t] Hh; cbn [atom_holds] in *.
  - destruct Hh as [row [Hrow Hte]]. exists (map h row).
    split; [exact (mh_rows _ _ _ HH p row Hrow) | exact (tevals_hom _ _ _ HH _ _ _ Hte)].
  - destruct Hh as [v [Ha Hb]]. exists (h v). split; apply (teval_hom _ _ _ HH); assumption.
  - destruct Hh as [v Ht]. exists (h v). apply (teval_hom _ _ _ HH). exact Ht.
  - exact (mh_car _ _ _ HH ty _ Hh).
  - destruct Hh as [Ht Hu]. split.
    + exact (teval_hom _ _ _ HH _ _ _ Ht).
    + exact (mh_univ _ _ _ HH _ Hu).
Qed.

(* ---------- coincidence ---------- *)

Lemma tevals_pre_ext : forall M s1 s2 ts,
  Forall (fun t => (forall k, In k (term_keys t) -> s1 k = s2 k) ->
                   forall v, teval M s1 t v -> teval M s2 t v) ts ->
  (forall k, In k (flat_map term_keys ts) -> s1 k = s2 k) ->
  forall row, tevals_pre (teval M s1) ts row -> tevals_pre (teval M s2) ts row.
Proof.
  intros M s1 s2 ts Hts. induction Hts as [|t ts Ht Hts IH]; intros Hk row Hpre.
  - exact I.
  - cbn [tevals_pre] in *. destruct row as [|x row]; [destruct Hpre|].
    destruct Hpre as [Hx Hpre]. cbn [flat_map] in Hk. split.
    + apply Ht; [|exact Hx]. intros k Hin. apply Hk. apply in_or_app. left. exact Hin.
    + apply IH; [|exact Hpre]. intros k Hin. apply Hk. apply in_or_app. right. exact Hin.
Qed.

Lemma teval_ext : forall M s1 s2 t, (forall k, In k (term_keys t) -> s1 k = s2 k) ->
  forall v, teval M s1 t v -> teval M s2 t v.
Proof.
  intros M s1 s2 t. induction t as [x|w|f args IH] using term_ind'; intros Hk v Hv.
  - cbn [teval term_keys] in *. rewrite <- (Hk _ (or_introl eq_refl)). exact Hv.
  - cbn [teval term_keys] in *. rewrite <- (Hk _ (or_introl eq_refl)). exact Hv.
  - apply teval_App in Hv. destruct Hv as [row [Hrow [Hsk Hpre]]]. apply teval_App.
    exists row. split; [exact Hrow|]. split; [exact Hsk|].
    eapply tevals_pre_ext; [exact IH | exact Hk | exact Hpre].
Qed.

Lemma tevals_ext : forall M s1 s2 ts, (forall k, In k (flat_map term_keys ts) -> s1 k = s2 k) ->
  forall row, tevals M s1 ts row -> tevals M s2 ts row.
Proof.
  intros M s1 s2 ts Hk row [Hsk Hpre]. split; [exact Hsk|].
  eapply tevals_pre_ext; [|exact Hk|exact Hpre].
  apply Forall_forall. intros t _. apply teval_ext.
Qed.

Lemma atom_holds_ext : forall M s1 s2 a, (forall k, In k (atom_keys a) -> s1 k = s2 k) ->
  atom_holds M s1 a -> atom_holds M s2 a.
Proof.
  intros M s1 s2 [p args|a b|t|x ty|x t] Hk Hh; cbn [atom_holds atom_keys] in *.
  - destruct Hh as [row [Hrow Hte]]. exists row. split; [exact Hrow|].
    eapply tevals_ext; eassumption.
  - destruct Hh as [v [Ha Hb]]. exists v. split.
    + eapply teval_ext; [|exact Ha]. intros k Hin. apply Hk. apply in_or_app. left. exact Hin.
    + eapply teval_ext; [|exact Hb]. intros k Hin. apply Hk. apply in_or_app. right. exact Hin.
  - destruct Hh as [v Ht]. exists v. eapply teval_ext; eassumption.
  - rewrite <- (Hk _ (or_introl eq_refl)). exact Hh.
  - assert (Hx : s1 (vkey x) = s2 (vkey x)).
    { apply Hk. apply in_or_app. right. left. reflexivity. }
    rewrite <- Hx. destruct Hh as [Ht Hu]. split; [|exact Hu].
    eapply teval_ext; [|exact Ht]. intros k Hin. apply Hk. apply in_or_app. left. exact Hin.
Qed.

(* ---------- determinism ---------- *)

Definition FuncRel (M : model) (f : N) : Prop :=
  forall r1 r2, In r1 (rws M f) -> In r2 (rws M f) -> removelast r1 = removelast r2 -> r1 = r2.

Lemma split_row : forall (row : list N) n v, skipn n row = [v] -> row = firstn n row ++ [v].
Proof. intros row n v H. rewrite <- H. symmetry. apply firstn_skipn. Qed.

Lemma tevals_pre_det : forall M s ts,
  Forall (fun t => forall v1 v2, teval M s t v1 -> teval M s t v2 -> v1 = v2) ts ->
  forall r1 r2, tevals_pre (teval M s) ts r1 -> tevals_pre (teval M s) ts r2 ->
  firstn (length ts) r1 = firstn (length ts) r2.
Proof.
  intros M s ts Hts. induction Hts as [|t ts Ht Hts IH]; intros r1 r2 H1 H2.
  - reflexivity.
  - cbn [tevals_pre] in H1, H2. destruct r1 as [|x1 r1]; [destruct H1|].
    destruct r2 as [|x2 r2]; [destruct H2|]. destruct H1 as [Hx1 H1]. destruct H2 as [Hx2 H2].
    cbn [length firstn]. rewrite (Ht x1 x2 Hx1 Hx2). f_equal. exact (IH r1 r2 H1 H2).
Qed.

Lemma teval_det : forall M s t, (forall f, In f (funcs_in t) -> FuncRel M f) ->
  forall v1 v2, teval M s t v1 -> teval M s t v2 -> v1 = v2.
Proof.
  intros M s t. induction t as [x|w|f args IH] using term_ind'; intros HF v1 v2 H1 H2.
  - cbn [teval] in *. destruct H1 as [H1 _]. destruct H2 as [H2 _]. congruence.
  - cbn [teval] in *. destruct H1 as [H1 _]. destruct H2 as [H2 _]. congruence.
  - apply teval_App in H1. destruct H1 as [r1 [Hr1 [Hs1 Hp1]]].
    apply teval_App in H2. destruct H2 as [r2 [Hr2 [Hs2 Hp2]]].
    assert (Hfst : firstn (length args) r1 = firstn (length args) r2).
    { apply (tevals_pre_det M s args); [|exact Hp1|exact Hp2].
      rewrite Forall_forall in IH. apply Forall_forall. intros t Ht. apply IH; [exact Ht|].
      intros g Hg. apply HF. cbn [funcs_in]. right. apply in_flat_map. exists t. split; assumption. }
    pose proof (split_row _ _ _ Hs1) as E1. pose proof (split_row _ _ _ Hs2) as E2.
    assert (Hrl : removelast r1 = removelast r2).
    { rewrite E1, E2. rewrite !removelast_last. exact Hfst. }
    pose proof (HF f (or_introl eq_refl) r1 r2 Hr1 Hr2 Hrl) as Heq. subst r2.
    rewrite Hs1 in Hs2. injection Hs2 as Hv. exact Hv.
Qed.
