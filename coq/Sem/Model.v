(* Executable reference semantics, part 1: finite models, matching of atoms against a model,
   the closedness checker. Definitions only; proofs are in Facts*.v.

   CONVENTIONS
   * Element ids must be globally unique across types inside one [structure] (an implementation
     dump with per-type id spaces is made unique by the harness, e.g. id*ntypes+ty).
     [canonical_b] checks this.
   * An environment (partial assignment) is an association list key -> element. The key of
     variable [Var x] is [2*x], the key of wildcard [Wild w] is [2*w+1]; witnesses returned by
     [find_violation] use these keys.
   * A [model] is what rules are interpreted in: per type the list of ROOT elements (carrier),
     per relation its rows. [model_of] forgets non-root elements and handles. *)
From Coq Require Import List NArith Bool.
From Sem Require Import Syntax.
Import ListNotations.
Open Scope N_scope.

(* ---------- generic helpers ---------- *)

Fixpoint list_eqb (a b : list N) : bool :=
  match a, b with
  | [], [] => true
  | x :: a', y :: b' => (x =? y) && list_eqb a' b'
  | _, _ => false
  end.

Definition memN (x : N) (l : list N) : bool := existsb (N.eqb x) l.
Definition mem_row (r : list N) (l : list (list N)) : bool := existsb (list_eqb r) l.

Fixpoint assoc {A : Type} (k : N) (l : list (N * A)) : option A :=
  match l with
  | [] => None
  | (k', v) :: l' => if k' =? k then Some v else assoc k l'
  end.

Definition assoc_d {A : Type} (d : A) (k : N) (l : list (N * A)) : A :=
  match assoc k l with Some v => v | None => d end.

Fixpoint index_from {A : Type} (n : N) (l : list A) : list (N * A) :=
  match l with
  | [] => []
  | x :: l' => (n, x) :: index_from (N.succ n) l'
  end.
Definition indexed {A : Type} (l : list A) : list (N * A) := index_from 0 l.

Fixpoint nodupN (l : list N) : list N :=
  match l with
  | [] => []
  | x :: l' => if memN x l' then nodupN l' else x :: nodupN l'
  end.

Fixpoint nodup_rows (l : list (list N)) : list (list N) :=
  match l with
  | [] => []
  | x :: l' => if mem_row x l' then nodup_rows l' else x :: nodup_rows l'
  end.

Definition is_nil {A : Type} (l : list A) : bool := match l with [] => true | _ => false end.

(* ---------- models ---------- *)

Record model := { md_cars : list (N * list N); md_rows : list (N * list (list N)) }.

Definition car (M : model) (ty : N) : list N := assoc_d [] ty (md_cars M).
Definition univ (M : model) : list N := flat_map snd (md_cars M).
Definition rws (M : model) (r : N) : list (list N) := assoc_d [] r (md_rows M).
Definition in_univ (M : model) (v : N) : bool := memN v (univ M).

Definition model_of (S : structure) : model :=
  {| md_cars := map (fun tc => (fst tc, nodupN (map snd (snd tc)))) (st_elems S);
     md_rows := st_rows S |}.

(* ---------- environments ---------- *)

Definition env := list (N * N).
Definition vkey (x : N) : N := N.double x.
Definition wkey (w : N) : N := N.succ_double w.

(* all extensions of [e] in which key [k] has value [v] (and [v] is an element) *)
Definition match_key (M : model) (k v : N) (e : env) : list env :=
  match assoc k e with
  | Some v' => if v' =? v then (if in_univ M v then [e] else []) else []
  | None => if in_univ M v then [(k, v) :: e] else []
  end.

(* all (extension, value) such that key [k] has that value *)
Definition eval_key (M : model) (k : N) (e : env) : list (env * N) :=
  match assoc k e with
  | Some v => if in_univ M v then [(e, v)] else []
  | None => map (fun v => ((k, v) :: e, v)) (univ M)
  end.

(* [match_pre mt ts vs es]: the terms [ts] are matched against the leading columns of [vs]
   ([mt] matches one term); further columns are ignored *)
(* Cheap row pre-selection: the columns whose argument is a variable already bound in [e]
   must carry that value. Only an optimisation: rows that fail it cannot be matched. *)
Definition pat_of (e : env) (t : term) : option N :=
  match t with
  | Var x => assoc (vkey x) e
  | Wild w => assoc (wkey w) e
  | App _ _ => None
  end.

Fixpoint pat_ok (pat : list (option N)) (row : list N) {struct pat} : bool :=
  match pat with
  | [] => true
  | o :: pat' =>
      match row with
      | [] => true
      | x :: row' =>
          match o with
          | Some v => if x =? v then pat_ok pat' row' else false
          | None => pat_ok pat' row'
          end
      end
  end.

Definition sel_rows (pat : list (option N)) (rows : list (list N)) : list (list N) :=
  filter (pat_ok pat) rows.

Section MatchPre.
  Variable mt : term -> N -> env -> list env.
  Fixpoint match_pre (ts : list term) (vs : list N) (es : list env) {struct ts} : list env :=
    match ts with
    | [] => es
    | t' :: ts' => match vs with
                   | v' :: vs' => match_pre ts' vs' (flat_map (mt t' v') es)
                   | [] => []
                   end
    end.
End MatchPre.

(* [match_term M t v e]: all extensions of [e] under which [t] evaluates to [v].
   For [App f args] every row of [f] whose columns after the arguments are exactly [v]
   is tried: arguments are matched against the leading columns. The inner [fix] is
   [match_pre (match_term M)] (lemma [match_term_App]). *)
Fixpoint match_term (M : model) (t : term) (v : N) (e : env) {struct t} : list env :=
  match t with
  | Var x => match_key M (vkey x) v e
  | Wild w => match_key M (wkey w) v e
  | App f args =>
      flat_map (fun row =>
        if list_eqb (skipn (length args) row) [v] then
        (fix pre (ts : list term) (vs : list N) (es : list env) {struct ts} : list env :=
           match ts with
           | [] => es
           | t' :: ts' => match vs with
                          | v' :: vs' => pre ts' vs' (flat_map (match_term M t' v') es)
                          | [] => []
                          end
           end) args row [e]
        else []) (sel_rows (map (pat_of e) args) (rws M f))
  end.

(* arguments against a full row (predicates) *)
Definition match_terms (M : model) (ts : list term) (vs : list N) (e : env) : list env :=
  if is_nil (skipn (length ts) vs) then match_pre (match_term M) ts vs [e] else [].

(* arguments against a function row; returns the result column *)
Definition match_args (M : model) (ts : list term) (vs : list N) (e : env) : list (env * N) :=
  match skipn (length ts) vs with
  | [r] => map (fun e' => (e', r)) (match_pre (match_term M) ts vs [e])
  | _ => []
  end.

Definition eval_term (M : model) (t : term) (e : env) : list (env * N) :=
  match t with
  | Var x => eval_key M (vkey x) e
  | Wild w => eval_key M (wkey w) e
  | App f args => flat_map (fun row => match_args M args row e) (sel_rows (map (pat_of e) args) (rws M f))
  end.

Definition is_app (t : term) : bool := match t with App _ _ => true | _ => false end.

(* all extensions of [e] (binding every variable of [a]) under which atom [a] holds *)
Definition match_atom (M : model) (a : atom) (e : env) : list env :=
  match a with
  | APred p args => flat_map (fun row => match_terms M args row e) (sel_rows (map (pat_of e) args) (rws M p))
  | AEq a b =>
      if is_app a
      then flat_map (fun ev => match_term M b (snd ev) (fst ev)) (eval_term M a e)
      else flat_map (fun ev => match_term M a (snd ev) (fst ev)) (eval_term M b e)
  | ADef t => map fst (eval_term M t e)
  | ATy x ty =>
      match assoc (vkey x) e with
      | Some v => if memN v (car M ty) then [e] else []
      | None => map (fun v => (vkey x, v) :: e) (car M ty)
      end
  | ALet x t => flat_map (fun ev => match_key M (vkey x) (snd ev) (fst ev)) (eval_term M t e)
  end.

(* what a then-atom requires of the current assignment: [x := t!] only requires [t!] *)
Definition then_atom (a : atom) : atom :=
  match a with ALet _ t => ADef t | _ => a end.

(* keys of the variables and wildcards of a term / an atom *)
Fixpoint term_keys (t : term) : list N :=
  match t with
  | Var x => [vkey x]
  | Wild w => [wkey w]
  | App _ args => flat_map term_keys args
  end.

Definition atom_keys (a : atom) : list N :=
  match a with
  | APred _ args => flat_map term_keys args
  | AEq a b => term_keys a ++ term_keys b
  | ADef t => term_keys t
  | ATy x _ => [vkey x]
  | ALet x t => term_keys t ++ [vkey x]
  end.

(* function symbols applied in a term / atom / rule; [wf_prog_b]: all of them are declared
   as functions (a hypothesis of the universal property of the chase) *)
Fixpoint funcs_in (t : term) : list N :=
  match t with
  | App f args => f :: flat_map funcs_in args
  | _ => []
  end.

Definition atom_funcs (a : atom) : list N :=
  match a with
  | APred _ args => flat_map funcs_in args
  | AEq a b => funcs_in a ++ funcs_in b
  | ADef t => funcs_in t
  | ATy _ _ => []
  | ALet _ t => funcs_in t
  end.

Definition stmt_atom (st : stmt) : atom := match st with If a => a | Then a => a end.
Definition rule_funcs (r : rule) : list N := flat_map (fun st => atom_funcs (stmt_atom st)) r.

Definition is_func (p : program) (f : N) : bool :=
  match nth_error (sg_rels (pg_sig p)) (N.to_nat f) with
  | Some d => rd_func d
  | None => false
  end.

Definition wf_prog_b (p : program) : bool :=
  forallb (fun r => forallb (is_func p) (rule_funcs r)) (pg_rules p).

(* walk the statements; [envs] = all assignments satisfying the statements so far *)
Fixpoint check_stmts (M : model) (ss : list stmt) (idx : N) (envs : list env) : option (N * env) :=
  match ss with
  | [] => None
  | If a :: rest => check_stmts M rest (N.succ idx) (flat_map (match_atom M a) envs)
  | Then a :: rest =>
      match find (fun e => is_nil (match_atom M (then_atom a) e)) envs with
      | Some e => Some (idx, e)
      | None =>
          match rest with
          | [] => None   (* do not compute the continuation of the last statement *)
          | _ => check_stmts M rest (N.succ idx) (flat_map (match_atom M a) envs)
          end
      end
  end.

Definition check_rule (M : model) (r : rule) : option (N * env) := check_stmts M r 0 [[]].

Fixpoint find_violation_rules (M : model) (rs : list (N * rule)) : option (N * N * list (N * N)) :=
  match rs with
  | [] => None
  | (i, r) :: rs' =>
      match check_rule M r with
      | Some (j, e) => Some (i, j, e)
      | None => find_violation_rules M rs'
      end
  end.

Definition find_violation (p : program) (S : structure) : option (N * N * list (N * N)) :=
  find_violation_rules (model_of S) (indexed (pg_rules p)).

(* ---------- functionality ---------- *)

Definition func_rows_ok (rows : list (list N)) : bool :=
  forallb (fun r1 => forallb (fun r2 =>
     implb (list_eqb (removelast r1) (removelast r2)) (list_eqb r1 r2)) rows) rows.

Definition functional_model_b (p : program) (M : model) : bool :=
  forallb (fun fd => implb (rd_func (snd fd)) (func_rows_ok (rws M (fst fd))))
          (indexed (sg_rels (pg_sig p))).

Definition functional_b (p : program) (S : structure) : bool := functional_model_b p (model_of S).

Definition closed_b (p : program) (S : structure) : bool :=
  match find_violation p S with
  | None => functional_b p S
  | Some _ => false
  end.

(* ---------- canonicity of a structure ---------- *)

Fixpoint nodup_keys_b {A : Type} (l : list (N * A)) : bool :=
  match l with
  | [] => true
  | (k, _) :: l' => negb (existsb (fun kv => fst kv =? k) l') && nodup_keys_b l'
  end.

Fixpoint nodupN_b (l : list N) : bool :=
  match l with
  | [] => true
  | x :: l' => negb (memN x l') && nodupN_b l'
  end.

Fixpoint nodup_rows_b (l : list (list N)) : bool :=
  match l with
  | [] => true
  | x :: l' => negb (mem_row x l') && nodup_rows_b l'
  end.

Definition all_elems (S : structure) : list N := flat_map (fun tc => map fst (snd tc)) (st_elems S).

Fixpoint row_typed_b (M : model) (cols : list N) (row : list N) : bool :=
  match cols, row with
  | [], [] => true
  | c :: cols', x :: row' => memN x (car M c) && row_typed_b M cols' row'
  | _, _ => false
  end.

(* reason codes of [canonical_code]:
   0 ok; 1 duplicate type key or type out of range; 2 duplicate relation key or relation out of range;
   3 element ids not globally unique; 4 a root is not listed as its own root in the same type;
   5 a row has the wrong arity or mentions a non-root / wrongly typed element; 6 duplicate row;
   7 a handle is not an element *)
Definition canonical_code (p : program) (S : structure) : N :=
  let M := model_of S in
  let sg := pg_sig p in
  if negb (nodup_keys_b (st_elems S) &&
           forallb (fun tc => fst tc <? sg_ntypes sg) (st_elems S)) then 1
  else if negb (nodup_keys_b (st_rows S) &&
                forallb (fun rr => fst rr <? N.of_nat (length (sg_rels sg))) (st_rows S)) then 2
  else if negb (nodupN_b (all_elems S)) then 3
  else if negb (forallb (fun tc =>
                  forallb (fun er => existsb (fun er' => (fst er' =? snd er) && (snd er' =? snd er))
                                             (snd tc)) (snd tc)) (st_elems S)) then 4
  else if negb (forallb (fun rr =>
                  match nth_error (sg_rels sg) (N.to_nat (fst rr)) with
                  | Some d => forallb (row_typed_b M (rd_cols d)) (snd rr)
                  | None => false
                  end) (st_rows S)) then 5
  else if negb (forallb (fun rr => nodup_rows_b (snd rr)) (st_rows S)) then 6
  else if negb (forallb (fun h => memN h (all_elems S)) (st_handles S)) then 7
  else 0.

Definition canonical_b (p : program) (S : structure) : bool := canonical_code p S =? 0.
