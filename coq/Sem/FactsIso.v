(* Soundness of the homomorphism / isomorphism oracles: only the final check matters. *)
From Coq Require Import List NArith Bool Lia.
From Sem Require Import Syntax Model Chase Iso SpecHom FactsMatch.
Import ListNotations.
Open Scope N_scope.

Lemma assoc_In : forall (A : Type) k (l : list (N * A)) v, assoc k l = Some v -> In (k, v) l.
Proof.
  intros A k l. induction l as [|[k' v'] l IH]; intros v H; [discriminate|].
  cbn [assoc] in H. destruct (k' =? k) eqn:E.
  - apply N.eqb_eq in E. injection H as Hv. subst. left. reflexivity.
  - right. apply IH. exact H.
Qed.

Lemma handles_ok_spec : forall h A B ha hb, handles_ok h A B ha hb = true ->
  Forall2 (fun a b => h (find_root A a) = find_root B b) ha hb.
Proof.
  intros h A B ha. induction ha as [|a ha IH]; intros [|b hb] H; cbn [handles_ok] in H;
    try discriminate.
  - constructor.
  - apply andb_true_iff in H. destruct H as [H1 H2]. apply N.eqb_eq in H1.
    constructor; [exact H1 | exact (IH hb H2)].
Qed.

Theorem hom_map_b_sound : forall m A B, hom_map_b m A B = true -> Hom (app_map m) A B.
Proof.
  intros m A B H. unfold hom_map_b in H.
  apply andb_true_iff in H. destruct H as [H Hh].
  apply andb_true_iff in H. destruct H as [H Hr].
  apply andb_true_iff in H. destruct H as [Hu Hc].
  rewrite forallb_forall in Hu. rewrite forallb_forall in Hc. rewrite forallb_forall in Hr.
  constructor.
  - intros x Hx. apply in_univ_In. exact (Hu x Hx).
  - intros ty x Hx. unfold car at 1 in Hx. unfold assoc_d in Hx.
    destruct (assoc ty (md_cars (model_of A))) as [l|] eqn:Ea; [|destruct Hx].
    pose proof (Hc (ty, l) (assoc_In _ _ _ _ Ea)) as Hc1. cbn [fst] in Hc1.
    rewrite forallb_forall in Hc1. apply memN_In. apply Hc1.
    unfold car, assoc_d. rewrite Ea. exact Hx.
  - intros r row Hrow. unfold rws at 1 in Hrow. unfold assoc_d in Hrow.
    destruct (assoc r (md_rows (model_of A))) as [l|] eqn:Ea; [|destruct Hrow].
    pose proof (Hr (r, l) (assoc_In _ _ _ _ Ea)) as Hr1. cbn [fst] in Hr1.
    rewrite forallb_forall in Hr1. apply mem_row_In. apply Hr1.
    unfold rws, assoc_d. rewrite Ea. exact Hrow.
  - apply handles_ok_spec. exact Hh.
Qed.

Theorem iso_map_b_sound : forall m A B, iso_map_b m A B = true -> Iso A B.
Proof.
  intros m A B H. unfold iso_map_b in H.
  apply andb_true_iff in H. destruct H as [H H4].
  apply andb_true_iff in H. destruct H as [H H3].
  apply andb_true_iff in H. destruct H as [H1 H2].
  exists (app_map m), (app_map (inv_map m)).
  split; [apply hom_map_b_sound; exact H1|].
  split; [apply hom_map_b_sound; exact H2|].
  rewrite forallb_forall in H3. rewrite forallb_forall in H4. split.
  - intros x Hx. apply N.eqb_eq. exact (H3 x Hx).
  - intros y Hy. apply N.eqb_eq. exact (H4 y Hy).
Qed.

Theorem iso_b_sound : forall p A B, iso_b p A B = true -> Iso A B.
Proof.
  intros p A B H. unfold iso_b in H. destruct (candidate p A B) as [m|]; [|discriminate].
  eapply iso_map_b_sound. exact H.
Qed.

Theorem hom_b_sound : forall p A B, hom_b p A B = true -> exists h, Hom h A B.
Proof.
  intros p A B H. unfold hom_b in H. destruct (candidate p A B) as [m|]; [|discriminate].
  exists (app_map m). apply hom_map_b_sound. exact H.
Qed.
