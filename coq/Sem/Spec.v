(* Declarative semantics: what it means for a structure to be closed under a program,
   homomorphisms and isomorphisms fixing handles. Definitions only. *)
From Coq Require Import List NArith Bool.
From Sem Require Import Syntax Model.
Import ListNotations.
Open Scope N_scope.

(* total assignments: key -> element (see Model.v for keys) *)
Definition asg := N -> N.

(* [tevals_pre ev ts vs]: the terms [ts] evaluate (by [ev]) to the leading columns of [vs] *)
Section TevalsPre.
  Variable ev : term -> N -> Prop.
  Fixpoint tevals_pre (ts : list term) (vs : list N) {struct ts} : Prop :=
    match ts with
    | [] => True
    | t' :: ts' => match vs with
                   | v' :: vs' => ev t' v' /\ tevals_pre ts' vs'
                   | [] => False
                   end
    end.
End TevalsPre.

(* partial, relational term evaluation: variables range over the elements of the model,
   [f(args)] has value [v] iff some row of [f] consists of values of the args followed by [v].
   The inner [fix] is [tevals_pre (teval M s)]. *)
Fixpoint teval (M : model) (s : asg) (t : term) (v : N) {struct t} : Prop :=
  match t with
  | Var x => s (vkey x) = v /\ In v (univ M)
  | Wild w => s (wkey w) = v /\ In v (univ M)
  | App f args =>
      exists row, In row (rws M f) /\ skipn (length args) row = [v] /\
        (fix pre (ts : list term) (vs : list N) {struct ts} : Prop :=
           match ts with
           | [] => True
           | t' :: ts' => match vs with
                          | v' :: vs' => teval M s t' v' /\ pre ts' vs'
                          | [] => False
                          end
           end) args row
  end.

(* terms against all columns of a row *)
Definition tevals (M : model) (s : asg) (ts : list term) (vs : list N) : Prop :=
  skipn (length ts) vs = [] /\ tevals_pre (teval M s) ts vs.

Definition atom_holds (M : model) (s : asg) (a : atom) : Prop :=
  match a with
  | APred p args => exists row, In row (rws M p) /\ tevals M s args row
  | AEq a b => exists v, teval M s a v /\ teval M s b v
  | ADef t => exists v, teval M s t v
  | ATy x ty => In (s (vkey x)) (car M ty)
  | ALet x t => teval M s t (s (vkey x)) /\ In (s (vkey x)) (univ M)
  end.

(* A then-atom has to hold for SOME values of the variables it introduces ([K] = keys of
   the variables of the earlier statements, whose values are kept). For programs accepted by
   eqlog only [x := t!] introduces a variable in a then-statement, and [then_atom] replaces
   that atom by [t!]; for such programs this is "the atom holds under s". *)
Definition then_holds (M : model) (K : list N) (s : asg) (a : atom) : Prop :=
  exists s', (forall k, In k K -> s' k = s k) /\ atom_holds M s' (then_atom a).

(* [P] = "all earlier atoms hold", [K] = keys of the earlier atoms;
   every then-atom must hold whenever [P] does *)
Fixpoint stmts_hold (M : model) (K : list N) (P : asg -> Prop) (ss : list stmt) : Prop :=
  match ss with
  | [] => True
  | If a :: rest => stmts_hold M (K ++ atom_keys a) (fun s => P s /\ atom_holds M s a) rest
  | Then a :: rest =>
      (forall s, P s -> then_holds M K s a) /\
      stmts_hold M (K ++ atom_keys a) (fun s => P s /\ atom_holds M s a) rest
  end.

Definition rule_holds (M : model) (r : rule) : Prop := stmts_hold M [] (fun _ => True) r.

Definition Functional (p : program) (M : model) : Prop :=
  forall f d, nth_error (sg_rels (pg_sig p)) (N.to_nat f) = Some d -> rd_func d = true ->
  forall r1 r2, In r1 (rws M f) -> In r2 (rws M f) -> removelast r1 = removelast r2 -> r1 = r2.

Definition ClosedM (p : program) (M : model) : Prop :=
  (forall r, In r (pg_rules p) -> rule_holds M r) /\ Functional p M.

Definition Closed (p : program) (S : structure) : Prop := ClosedM p (model_of S).
