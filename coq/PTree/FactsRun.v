(* PTree/FactsRun.v -- facts about the operation language of Run.v: every reachable family of
   trees (both families, clones included) satisfies PInv, the model never reports a panic, and
   an operation changes no handle but its target (persistence, value semantics). *)

From Coq Require Import NArith List Lia Bool.
From PTree Require Import WBT_Model WBT_Spec WBT_FactsInv Model Spec Run FactsLex FactsMap FactsLevel
  FactsBase FactsOps.
Import ListNotations.
Open Scope N_scope.

(* ---------- set_nth ---------- *)

Lemma set_nth_Forall {A} (P : A -> Prop) n x (l : list A) :
  Forall P l -> P x -> Forall P (set_nth n x l).
Proof.
  revert n. induction l as [|y l IH]; intros n Hl Hx; cbn [set_nth]; [constructor|].
  inversion Hl as [|? ? Hy Hl']; subst.
  destruct n; constructor; auto.
Qed.

Lemma set_nth_length {A} n (x : A) l : length (set_nth n x l) = length l.
Proof.
  revert n. induction l as [|y l IH]; intros n; cbn [set_nth]; [reflexivity|].
  destruct n; cbn [length]; [reflexivity|]. rewrite IH. reflexivity.
Qed.

Lemma nth_set_nth_other {A} n n' (x d : A) l :
  n <> n' -> nth n (set_nth n' x l) d = nth n l d.
Proof.
  revert n n'. induction l as [|y l IH]; intros n n' Hne; cbn [set_nth]; [reflexivity|].
  destruct n' as [|n']; destruct n as [|n]; cbn [nth]; try reflexivity; try congruence.
  apply IH. congruence.
Qed.

Lemma nth_set_nth_same {A} n (x d : A) l :
  (n < length l)%nat -> nth n (set_nth n x l) d = x.
Proof.
  revert n. induction l as [|y l IH]; intros n Hn; cbn [length] in Hn; [lia|].
  cbn [set_nth]. destruct n as [|n]; cbn [nth]; [reflexivity|]. apply IH. lia.
Qed.

Lemma nth_Forall {A} (P : A -> Prop) n l d : Forall P l -> P d -> P (nth n l d).
Proof.
  intros Hl Hd0. destruct (nth_in_or_default n l d) as [Hin|Hd]; [|rewrite Hd; exact Hd0].
  rewrite Forall_forall in Hl. apply Hl, Hin.
Qed.

(* ---------- persistence: only the target handle changes ---------- *)

Section Persist.
Context {T S : Type}.
Implicit Types (ot : ops T) (os : ops S) (ro : option (rops T S)) (f : fam (T:=T) (S:=S)).

Lemma get_m_set_m_other ot f h h' t : h <> h' -> get_m ot (set_m f h' t) h = get_m ot f h.
Proof.
  intros Hne. unfold get_m, set_m. cbn [mains]. apply nth_set_nth_other.
  intros E. apply Hne. apply N2Nat.inj, E.
Qed.

Lemma get_s_set_s_other os f h h' s : h <> h' -> get_s os (set_s f h' s) h = get_s os f h.
Proof.
  intros Hne. unfold get_s, set_s. cbn [subs]. apply nth_set_nth_other.
  intros E. apply Hne. apply N2Nat.inj, E.
Qed.

Lemma get_m_set_s ot f h h' s : get_m ot (set_s f h' s) h = get_m ot f h.
Proof. reflexivity. Qed.

Lemma get_s_set_m os f h h' t : get_s os (set_m f h' t) h = get_s os f h.
Proof. reflexivity. Qed.

Lemma get_m_set_m_same ot f h t :
  (N.to_nat h < length (mains f))%nat -> get_m ot (set_m f h t) h = t.
Proof. intros Hh. unfold get_m, set_m. cbn [mains]. apply nth_set_nth_same, Hh. Qed.

Ltac split_matches :=
  repeat match goal with
         | |- context [match ?e with _ => _ end] => destruct e
         end.

Lemma step_other_main ot os ro f o h :
  target_m o <> Some h -> get_m ot (step ot os ro f o) h = get_m ot f h.
Proof.
  intros Hne. unfold step.
  destruct o; cbn [step_ret target_m] in *; split_matches; cbn [fst];
    try reflexivity; try (apply get_m_set_m_other; congruence).
Qed.

Lemma step_other_sub ot os ro f o h :
  target_s o <> Some h -> get_s os (step ot os ro f o) h = get_s os f h.
Proof.
  intros Hne. unfold step.
  destruct o; cbn [step_ret target_s] in *; split_matches; cbn [fst];
    try reflexivity; try (apply get_s_set_s_other; congruence).
Qed.

Lemma step_length ot os ro f o :
  length (mains (step ot os ro f o)) = length (mains f) /\
  length (subs (step ot os ro f o)) = length (subs f).
Proof.
  unfold step. destruct o; cbn [step_ret]; split_matches; cbn [fst]; unfold set_m, set_s;
    cbn [mains subs]; rewrite ?set_nth_length; split; reflexivity.
Qed.

Lemma fold_other_main ot os ro l f h :
  Forall (fun o => target_m o <> Some h) l ->
  get_m ot (fold_left (step ot os ro) l f) h = get_m ot f h.
Proof.
  revert f. induction l as [|o l IH]; intros f Hl; cbn [fold_left]; [reflexivity|].
  inversion Hl; subst. rewrite IH by assumption. apply step_other_main. assumption.
Qed.

Lemma fold_other_sub ot os ro l f h :
  Forall (fun o => target_s o <> Some h) l ->
  get_s os (fold_left (step ot os ro) l f) h = get_s os f h.
Proof.
  revert f. induction l as [|o l IH]; intros f Hl; cbn [fold_left]; [reflexivity|].
  inversion Hl; subst. rewrite IH by assumption. apply step_other_sub. assumption.
Qed.

(* a clone is a snapshot: whatever happens to the other handles (including the original),
   the clone keeps the value the original had *)
Lemma clone_is_snapshot ot os ro f src dst l :
  (N.to_nat dst < length (mains f))%nat ->
  Forall (fun o => target_m o <> Some dst) l ->
  get_m ot (fold_left (step ot os ro) l (step ot os ro f (Clone src dst))) dst = get_m ot f src.
Proof.
  intros Hd Hl. rewrite fold_other_main by exact Hl.
  unfold step. cbn [step_ret fst]. apply get_m_set_m_same, Hd.
Qed.

End Persist.

(* ---------- the column maps built by the driver satisfy PInv ---------- *)

Lemma mk_map2_ok pairs : PInv 2 (mk_map2 pairs).
Proof.
  unfold mk_map2.
  assert (H : forall (acc : pt2), PInv 2 acc ->
            PInv 2 (fold_left (fun (acc : pt2) (p : N * N) =>
                       match o_insert (ops_lvl ops1) acc [fst p; snd p] with
                       | Some (acc', _) => acc'
                       | None => acc
                       end) pairs acc)).
  { induction pairs as [|p pairs IH]; intros acc Hacc; cbn [fold_left]; [exact Hacc|].
    apply IH. destruct (pt_insert_spec 2 acc [fst p; snd p] Hacc eq_refl) as (acc' & He & Hi & _).
    change (o_insert (ops_lvl ops1) acc [fst p; snd p]) with (pt_insert 2 acc [fst p; snd p]).
    rewrite He. exact Hi. }
  apply H. apply (pt_new_spec 2).
Qed.

Lemma mk_maps_ok maps : Forall map_ok (mk_maps maps).
Proof.
  unfold mk_maps. rewrite Forall_forall. intros om Hin. apply in_map_iff in Hin.
  destruct Hin as ([pairs|] & <- & _); [apply mk_map2_ok|exact I].
Qed.

(* ---------- invariants of the interpreter, generic in the two dictionaries ---------- *)

Section Reach.
Context {T S : Type} (ot : ops T) (os : ops S) (ro : option (rops T S))
        (invT : T -> Prop) (invS : S -> Prop) (aT aS : nat).

Definition rops_ok : Prop :=
  match ro with
  | None => True
  | Some r =>
    (forall t k s, invT t -> invS s -> exists t', r_insert_restriction r t k s = Some t' /\ invT t') /\
    (forall t k s, invT t -> invS s -> exists t', r_remove_restriction r t k s = Some t' /\ invT t') /\
    (forall t k s, invT t -> r_get r t k = Some s -> invS s)
  end.

Definition wf_op_gen (o : op) : Prop :=
  match o with
  | Insert _ x | Remove _ x | Contains _ x => length x = aT
  | InsertSub _ x | RemoveSub _ x => length x = aS
  | Get _ _ | IterRestrictions _ | InsertRestriction _ _ _ | RemoveRestriction _ _ _
  | GetClone _ _ _ => ro <> None
  | _ => True
  end.

Definition inv_fam (f : fam) : Prop := Forall invT (mains f) /\ Forall invS (subs f).

Hypothesis LT : laws aT ot invT.
Hypothesis LS : laws aS os invS.
Hypothesis HR : rops_ok.

Lemma inv_fam_init : inv_fam (init_fam ot os).
Proof.
  split; cbn [init_fam mains subs]; repeat constructor;
    try exact (l_new_inv _ _ _ LT); exact (l_new_inv _ _ _ LS).
Qed.

Lemma get_m_inv f h : inv_fam f -> invT (get_m ot f h).
Proof. intros (Hm & _). unfold get_m. apply nth_Forall; [exact Hm|exact (l_new_inv _ _ _ LT)]. Qed.

Lemma get_s_inv f h : inv_fam f -> invS (get_s os f h).
Proof. intros (_ & Hs). unfold get_s. apply nth_Forall; [exact Hs|exact (l_new_inv _ _ _ LS)]. Qed.

Lemma set_m_inv f h t : inv_fam f -> invT t -> inv_fam (set_m f h t).
Proof. intros (Hm & Hs) Ht. split; cbn [set_m mains subs]; [apply set_nth_Forall; assumption|exact Hs]. Qed.

Lemma set_s_inv f h s : inv_fam f -> invS s -> inv_fam (set_s f h s).
Proof. intros (Hm & Hs) Ht. split; cbn [set_s mains subs]; [exact Hm|apply set_nth_Forall; assumption]. Qed.

Lemma step_ret_ok f o :
  inv_fam f -> wf_op_gen o ->
  inv_fam (fst (step_ret ot os ro f o)) /\ snd (step_ret ot os ro f o) <> None.
Proof.
  intros Hf Hwf. unfold rops_ok in HR.
  destruct o; cbn [step_ret wf_op_gen] in *.
  - (* Insert *)
    destruct (l_insert _ _ _ LT _ x (get_m_inv f h Hf) Hwf) as (t' & -> & Hi & _).
    cbn [fst snd]. split; [apply set_m_inv; assumption|discriminate].
  - (* Remove *)
    destruct (l_remove _ _ _ LT _ x (get_m_inv f h Hf) Hwf) as (t' & -> & Hi & _).
    cbn [fst snd]. split; [apply set_m_inv; assumption|discriminate].
  - cbn [fst snd]. split; [exact Hf|discriminate].
  - cbn [fst snd]. split; [exact Hf|discriminate].
  - (* Clear *)
    cbn [fst snd]. split; [apply set_m_inv; [exact Hf|apply (l_clear _ _ _ LT)]|discriminate].
  - cbn [fst snd]. split; [exact Hf|discriminate].
  - (* Get *)
    destruct ro as [r|]; [|congruence].
    destruct (r_get r (get_m ot f h) k); cbn [fst snd]; (split; [exact Hf|discriminate]).
  - (* IterRestrictions *)
    destruct ro as [r|]; [|congruence]. cbn [fst snd]. split; [exact Hf|discriminate].
  - (* Union *)
    cbn [fst snd]. split; [|discriminate]. apply set_m_inv; [exact Hf|].
    apply (l_union _ _ _ LT); apply get_m_inv; exact Hf.
  - (* Difference *)
    cbn [fst snd]. split; [|discriminate]. apply set_m_inv; [exact Hf|].
    apply (l_difference _ _ _ LT); apply get_m_inv; exact Hf.
  - (* InsertRestriction *)
    destruct ro as [r|]; [|congruence]. destruct HR as (Hins & _ & _).
    destruct (Hins (get_m ot f h) k (get_s os f s) (get_m_inv f h Hf) (get_s_inv f s Hf))
      as (t' & -> & Hi).
    cbn [fst snd]. split; [apply set_m_inv; assumption|discriminate].
  - (* RemoveRestriction *)
    destruct ro as [r|]; [|congruence]. destruct HR as (_ & Hrem & _).
    destruct (Hrem (get_m ot f h) k (get_s os f s) (get_m_inv f h Hf) (get_s_inv f s Hf))
      as (t' & -> & Hi).
    cbn [fst snd]. split; [apply set_m_inv; assumption|discriminate].
  - (* Mapped *)
    destruct (l_mapped _ _ _ LT _ (mk_maps maps) (get_m_inv f h Hf) (mk_maps_ok maps))
      as (t' & -> & Hi & _).
    cbn [fst snd]. split; [apply set_m_inv; assumption|discriminate].
  - (* Clone *)
    cbn [fst snd]. split; [apply set_m_inv; [exact Hf|apply get_m_inv, Hf]|discriminate].
  - (* GetClone *)
    destruct ro as [r|]; [|congruence]. destruct HR as (_ & _ & Hget).
    destruct (r_get r (get_m ot f h) k) as [s|] eqn:Hg; cbn [fst snd].
    + split; [|discriminate]. apply set_s_inv; [exact Hf|].
      apply (Hget (get_m ot f h) k s (get_m_inv f h Hf) Hg).
    + split; [exact Hf|discriminate].
  - (* InsertSub *)
    destruct (l_insert _ _ _ LS _ x (get_s_inv f s Hf) Hwf) as (t' & -> & Hi & _).
    cbn [fst snd]. split; [apply set_s_inv; assumption|discriminate].
  - (* RemoveSub *)
    destruct (l_remove _ _ _ LS _ x (get_s_inv f s Hf) Hwf) as (t' & -> & Hi & _).
    cbn [fst snd]. split; [apply set_s_inv; assumption|discriminate].
Qed.

Lemma fold_step_inv l f :
  inv_fam f -> Forall wf_op_gen l -> inv_fam (fold_left (step ot os ro) l f).
Proof.
  revert f. induction l as [|o l IH]; intros f Hf Hl; cbn [fold_left]; [exact Hf|].
  inversion Hl; subst. apply IH; [|assumption]. apply (step_ret_ok f o); assumption.
Qed.

Lemma run_from'_no_error l f pm ps :
  inv_fam f -> Forall wf_op_gen l ->
  Forall (fun x : out => fst (fst x) <> None) (run_from' ot os ro f pm ps l).
Proof.
  revert f pm ps. induction l as [|o l IH]; intros f pm ps Hf Hl; cbn [run_from']; [constructor|].
  inversion Hl; subst. destruct (step_ret_ok f o Hf) as (Hf' & Hr); [assumption|].
  destruct (step_ret ot os ro f o) as [f' r]. cbn [fst snd] in *.
  constructor; [exact Hr|]. apply IH; assumption.
Qed.

End Reach.

(* ---------- instantiation at every arity ---------- *)

Definition wf_op (n : nat) (o : op) : Prop :=
  match o with
  | Insert _ x | Remove _ x | Contains _ x => length x = n
  | InsertSub _ x | RemoveSub _ x => length x = pred n
  | Get _ _ | IterRestrictions _ | InsertRestriction _ _ _ | RemoveRestriction _ _ _
  | GetClone _ _ _ => n <> O
  | _ => True
  end.

Lemma pt_rops_ok m :
  rops_ok (Some (pt_rops m)) (PInv (S m)) (PInv m).
Proof.
  unfold rops_ok. cbn [pt_rops r_insert_restriction r_remove_restriction r_get]. split; [|split].
  - intros t k s Ht Hs. destruct (insert_restriction_mem m t k s Ht Hs) as (t' & He & Hi & _).
    exists t'. auto.
  - intros t k s Ht Hs. destruct (remove_restriction_mem m t k s Ht Hs) as (t' & He & Hi & _).
    exists t'. auto.
  - intros t k s Ht Hg. apply (get_mem_some m t k s Ht Hg).
Qed.

Lemma wf_op_S m o : wf_op (S m) o -> wf_op_gen (Some (pt_rops m)) (S m) m o.
Proof. destruct o; cbn [wf_op wf_op_gen pred]; auto; intros _; discriminate. Qed.

Lemma wf_op_O o : wf_op O o -> wf_op_gen (@None (rops bool bool)) O O o.
Proof. destruct o; cbn [wf_op wf_op_gen pred]; auto; intros H; contradiction. Qed.

(* both families after any well-formed op sequence *)
Definition reach_inv (n : nat) (l : list op) : Prop :=
  match n with
  | O => True
  | S m =>
    let f := fold_left (step (pt_ops (S m)) (pt_ops m) (Some (pt_rops m))) l
                       (init_fam (pt_ops (S m)) (pt_ops m)) in
    Forall (PInv (S m)) (mains f) /\ Forall (PInv m) (subs f)
  end.

Theorem inv_reachable n l : Forall (wf_op n) l -> reach_inv n l.
Proof.
  destruct n as [|m]; intros Hl; cbn [reach_inv]; [exact I|].
  apply (fold_step_inv (pt_ops (S m)) (pt_ops m) (Some (pt_rops m)) (PInv (S m)) (PInv m) (S m) m
           (pt_laws (S m)) (pt_laws m) (pt_rops_ok m)).
  - exact (inv_fam_init (pt_ops (S m)) (pt_ops m) (PInv (S m)) (PInv m) (S m) m (pt_laws (S m)) (pt_laws m)).
  - rewrite Forall_forall in *. intros o Ho. apply wf_op_S, Hl, Ho.
Qed.

Theorem run_ops_no_error n l :
  Forall (wf_op n) l -> Forall (fun x : out => fst (fst x) <> None) (run_ops n l).
Proof.
  destruct n as [|m]; intros Hl; unfold run_ops, run_from.
  - apply (run_from'_no_error ops0 ops0 None (fun _ => True) (fun _ => True) O O laws0 laws0 I).
    + exact (inv_fam_init ops0 ops0 (fun _ => True) (fun _ => True) O O laws0 laws0).
    + rewrite Forall_forall in *. intros o Ho. apply wf_op_O, Hl, Ho.
  - apply (run_from'_no_error (pt_ops (S m)) (pt_ops m) (Some (pt_rops m)) (PInv (S m)) (PInv m)
             (S m) m (pt_laws (S m)) (pt_laws m) (pt_rops_ok m)).
    + exact (inv_fam_init (pt_ops (S m)) (pt_ops m) (PInv (S m)) (PInv m) (S m) m (pt_laws (S m)) (pt_laws m)).
    + rewrite Forall_forall in *. intros o Ho. apply wf_op_S, Hl, Ho.
Qed.
