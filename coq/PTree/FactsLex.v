(* PTree/FactsLex.v -- the lexicographic order on tuples is a strict total order; finite sets of
   tuples as strictly sorted lists: extensionality and the reference set operations of Spec.v. *)

From Coq Require Import NArith List Lia Bool Sorted.
From PTree Require Import WBT_Model WBT_Spec Model Spec.
Import ListNotations.
Open Scope N_scope.

(* ---------- lex_cmp ---------- *)

Lemma lex_cmp_refl x : lex_cmp x x = Eq.
Proof.
  induction x as [|a x IH]; cbn [lex_cmp]; [reflexivity|].
  rewrite N.compare_refl. exact IH.
Qed.

Lemma lex_cmp_eq x y : lex_cmp x y = Eq -> x = y.
Proof.
  revert y. induction x as [|a x IH]; intros [|b y]; cbn [lex_cmp]; try discriminate; [reflexivity|].
  destruct (a ?= b) eqn:Hc; try discriminate.
  intros H. apply N.compare_eq in Hc. subst b. f_equal. apply IH, H.
Qed.

Lemma lex_cmp_antisym x y : lex_cmp y x = CompOpp (lex_cmp x y).
Proof.
  revert y. induction x as [|a x IH]; intros [|b y]; cbn [lex_cmp CompOpp]; try reflexivity.
  rewrite (N.compare_antisym a b).
  destruct (a ?= b); cbn [CompOpp]; [apply IH|reflexivity|reflexivity].
Qed.

Lemma lex_lt_irrefl x : ~ lex_lt x x.
Proof. unfold lex_lt. rewrite lex_cmp_refl. discriminate. Qed.

Lemma lex_lt_trans x y z : lex_lt x y -> lex_lt y z -> lex_lt x z.
Proof.
  unfold lex_lt. revert y z.
  induction x as [|a x IH]; intros [|b y] [|c z]; cbn [lex_cmp]; try discriminate; try reflexivity.
  destruct (a ?= b) eqn:Hab; try discriminate.
  - apply N.compare_eq in Hab. subst b.
    destruct (a ?= c); try discriminate; [apply IH|reflexivity].
  - intros _. destruct (b ?= c) eqn:Hbc; try discriminate.
    + apply N.compare_eq in Hbc. subst c. rewrite Hab. reflexivity.
    + intros _. pose proof (proj1 (N.compare_lt_iff a b) Hab) as H1.
      pose proof (proj1 (N.compare_lt_iff b c) Hbc) as H2.
      assert (Hac : a < c) by lia. apply (proj2 (N.compare_lt_iff a c)) in Hac. rewrite Hac. reflexivity.
Qed.

Lemma lex_gt_lt x y : lex_cmp x y = Gt -> lex_lt y x.
Proof. unfold lex_lt. intros H. rewrite lex_cmp_antisym, H. reflexivity. Qed.

Lemma lex_lt_cons k x y : lex_lt x y -> lex_lt (k :: x) (k :: y).
Proof. unfold lex_lt. cbn [lex_cmp]. rewrite N.compare_refl. trivial. Qed.

Lemma lex_lt_cons_lt k k' x y : k < k' -> lex_lt (k :: x) (k' :: y).
Proof.
  unfold lex_lt. cbn [lex_cmp]. intros H. apply (proj2 (N.compare_lt_iff k k')) in H. rewrite H. reflexivity.
Qed.

Lemma tuple_eqb_eq x y : tuple_eqb x y = true <-> x = y.
Proof.
  unfold tuple_eqb. split.
  - destruct (lex_cmp x y) eqn:Hc; try discriminate. intros _. apply lex_cmp_eq, Hc.
  - intros ->. rewrite lex_cmp_refl. reflexivity.
Qed.

Lemma tuple_eqb_refl x : tuple_eqb x x = true.
Proof. apply tuple_eqb_eq. reflexivity. Qed.

Lemma tuple_eqb_neq x y : tuple_eqb x y = false <-> x <> y.
Proof.
  split.
  - intros H E. apply tuple_eqb_eq in E. congruence.
  - intros H. destruct (tuple_eqb x y) eqn:E; [|reflexivity]. apply tuple_eqb_eq in E. contradiction.
Qed.

Lemma tuple_eq_dec (x y : tuple) : {x = y} + {x <> y}.
Proof.
  destruct (tuple_eqb x y) eqn:E; [left; apply tuple_eqb_eq, E|right; apply tuple_eqb_neq, E].
Qed.

Lemma set_mem_In x l : set_mem x l = true <-> In x l.
Proof.
  unfold set_mem. rewrite existsb_exists. split.
  - intros (y & Hy & E). apply tuple_eqb_eq in E. subst y. exact Hy.
  - intros H. exists x. split; [exact H|apply tuple_eqb_refl].
Qed.

Lemma set_mem_false x l : set_mem x l = false <-> ~ In x l.
Proof.
  rewrite <- set_mem_In. destruct (set_mem x l); split; intros H.
  - discriminate.
  - exfalso. apply H. reflexivity.
  - discriminate.
  - reflexivity.
Qed.

(* ---------- strictly sorted lists ---------- *)

Lemma lsorted_nil : lsorted [].
Proof. constructor. Qed.

Lemma lsorted_cons_iff a l : lsorted (a :: l) <-> lsorted l /\ Forall (lex_lt a) l.
Proof.
  split.
  - intros H. inversion H; subst. split; assumption.
  - intros (H1 & H2). constructor; assumption.
Qed.

Lemma lsorted_not_in_tail a l : lsorted (a :: l) -> ~ In a l.
Proof.
  intros H Hin. apply lsorted_cons_iff in H. destruct H as (_ & Hf).
  rewrite Forall_forall in Hf. exact (lex_lt_irrefl a (Hf a Hin)).
Qed.

Lemma lsorted_NoDup l : lsorted l -> NoDup l.
Proof.
  induction l as [|a l IH]; intros H; constructor.
  - apply lsorted_not_in_tail, H.
  - apply IH. apply lsorted_cons_iff in H. tauto.
Qed.

(* two sets with the same elements are the same list *)
Lemma lsorted_ext l1 l2 :
  lsorted l1 -> lsorted l2 -> (forall y, In y l1 <-> In y l2) -> l1 = l2.
Proof.
  revert l2. induction l1 as [|a l1 IH]; intros l2 H1 H2 Hext.
  - destruct l2 as [|b l2]; [reflexivity|]. exfalso. apply (proj2 (Hext b)). left. reflexivity.
  - destruct l2 as [|b l2]; [exfalso; apply (proj1 (Hext a)); left; reflexivity|].
    pose proof (lsorted_not_in_tail _ _ H1) as Na. pose proof (lsorted_not_in_tail _ _ H2) as Nb.
    apply lsorted_cons_iff in H1, H2. destruct H1 as (S1 & F1). destruct H2 as (S2 & F2).
    rewrite Forall_forall in F1, F2.
    assert (Hab : a = b).
    { destruct (proj1 (Hext a) (or_introl eq_refl)) as [E|Hin]; [symmetry; exact E|].
      destruct (proj2 (Hext b) (or_introl eq_refl)) as [E|Hin']; [exact E|].
      exfalso. apply (lex_lt_irrefl a). eapply lex_lt_trans; [apply F1, Hin'|apply F2, Hin]. }
    subst b. f_equal. apply IH; try assumption.
    intros y. split; intros Hy.
    + destruct (proj1 (Hext y) (or_intror Hy)) as [E|Hin]; [subst y; contradiction|exact Hin].
    + destruct (proj2 (Hext y) (or_intror Hy)) as [E|Hin]; [subst y; contradiction|exact Hin].
Qed.

Lemma Forall_filter {A} (P : A -> Prop) (p : A -> bool) l : Forall P l -> Forall P (filter p l).
Proof.
  intros H. rewrite Forall_forall in *. intros x Hx. apply filter_In in Hx. apply H, Hx.
Qed.

Lemma lsorted_filter (p : tuple -> bool) l : lsorted l -> lsorted (filter p l).
Proof.
  induction l as [|a l IH]; intros H; cbn [filter]; [constructor|].
  apply lsorted_cons_iff in H. destruct H as (Hs & Hf).
  destruct (p a); [|apply IH, Hs].
  constructor; [apply IH, Hs|apply Forall_filter, Hf].
Qed.

Lemma lsorted_app l1 l2 :
  lsorted l1 -> lsorted l2 -> (forall x y, In x l1 -> In y l2 -> lex_lt x y) -> lsorted (l1 ++ l2).
Proof.
  induction l1 as [|a l1 IH]; intros H1 H2 Hlt; cbn [app]; [exact H2|].
  apply lsorted_cons_iff in H1. destruct H1 as (Hs & Hf).
  constructor.
  - apply IH; try assumption. intros x y Hx Hy. apply Hlt; [right; exact Hx|exact Hy].
  - apply Forall_app. split; [exact Hf|].
    rewrite Forall_forall. intros y Hy. apply Hlt; [left; reflexivity|exact Hy].
Qed.

Lemma lsorted_prefix k l : lsorted l -> lsorted (prefix k l).
Proof.
  unfold prefix. induction l as [|a l IH]; intros H; cbn [map]; [constructor|].
  apply lsorted_cons_iff in H. destruct H as (Hs & Hf). constructor; [apply IH, Hs|].
  rewrite Forall_forall in *. intros y Hy. apply in_map_iff in Hy. destruct Hy as (z & <- & Hz).
  apply lex_lt_cons, Hf, Hz.
Qed.

Lemma In_prefix k l y : In y (prefix k l) <-> exists r, y = k :: r /\ In r l.
Proof.
  unfold prefix. rewrite in_map_iff. split; intros (r & H1 & H2); exists r; split; auto.
Qed.

(* ---------- set_insert ---------- *)

Lemma In_set_insert x l y : In y (set_insert x l) <-> y = x \/ In y l.
Proof.
  induction l as [|a l IH]; cbn [set_insert].
  - cbn [In]. intuition.
  - destruct (lex_cmp x a) eqn:Hc.
    + apply lex_cmp_eq in Hc. subst a. cbn [In]. intuition.
    + cbn [In]. intuition.
    + cbn [In]. rewrite IH. intuition.
Qed.

Lemma lsorted_set_insert x l : lsorted l -> lsorted (set_insert x l).
Proof.
  induction l as [|a l IH]; intros H; cbn [set_insert].
  - constructor; constructor.
  - destruct (lex_cmp x a) eqn:Hc.
    + exact H.
    + constructor; [exact H|]. constructor; [exact Hc|].
      apply lsorted_cons_iff in H. destruct H as (_ & Hf).
      rewrite Forall_forall in *. intros y Hy. eapply lex_lt_trans; [exact Hc|apply Hf, Hy].
    + apply lsorted_cons_iff in H. destruct H as (Hs & Hf).
      constructor; [apply IH, Hs|].
      rewrite Forall_forall in *. intros y Hy. apply In_set_insert in Hy. destruct Hy as [->|Hy].
      * apply lex_gt_lt, Hc.
      * apply Hf, Hy.
Qed.

(* ---------- set_remove, set_difference ---------- *)

Lemma In_set_remove x l y : In y (set_remove x l) <-> y <> x /\ In y l.
Proof.
  unfold set_remove. rewrite filter_In. rewrite negb_true_iff, tuple_eqb_neq.
  split; intros (H1 & H2); split; auto.
Qed.

Lemma lsorted_set_remove x l : lsorted l -> lsorted (set_remove x l).
Proof. apply lsorted_filter. Qed.

Lemma In_set_difference a b y : In y (set_difference a b) <-> In y a /\ ~ In y b.
Proof.
  unfold set_difference. rewrite filter_In, negb_true_iff, set_mem_false. reflexivity.
Qed.

Lemma lsorted_set_difference a b : lsorted a -> lsorted (set_difference a b).
Proof. apply lsorted_filter. Qed.

(* ---------- set_union, set_of_list ---------- *)

Lemma In_set_union a b y : In y (set_union a b) <-> In y a \/ In y b.
Proof.
  unfold set_union. induction b as [|x b IH]; cbn [fold_right].
  - cbn [In]. intuition.
  - rewrite In_set_insert, IH. cbn [In]. intuition.
Qed.

Lemma lsorted_set_union a b : lsorted a -> lsorted (set_union a b).
Proof.
  intros Ha. unfold set_union. induction b as [|x b IH]; cbn [fold_right]; [exact Ha|].
  apply lsorted_set_insert, IH.
Qed.

Lemma In_set_of_list l y : In y (set_of_list l) <-> In y l.
Proof.
  unfold set_of_list. induction l as [|x l IH]; cbn [fold_right]; [reflexivity|].
  rewrite In_set_insert, IH. cbn [In]. intuition.
Qed.

Lemma lsorted_set_of_list l : lsorted (set_of_list l).
Proof.
  unfold set_of_list. induction l as [|x l IH]; cbn [fold_right]; [constructor|].
  apply lsorted_set_insert, IH.
Qed.

Lemma In_filter_map {A B} (f : A -> option B) l y :
  In y (filter_map f l) <-> exists x, In x l /\ f x = Some y.
Proof.
  induction l as [|a l IH]; cbn [filter_map].
  - split; [intros []|intros (x & [] & _)].
  - destruct (f a) eqn:Hf; cbn [In]; rewrite IH; split.
    + intros [<-|(x & Hx & Hy)]; [exists a; auto|exists x; auto].
    + intros (x & [<-|Hx] & Hy); [left; congruence|right; exists x; auto].
    + intros (x & Hx & Hy). exists x; auto.
    + intros (x & [<-|Hx] & Hy); [congruence|exists x; auto].
Qed.

(* ---------- restrict ---------- *)

Lemma In_restrict k l y : In y (restrict k l) <-> In (k :: y) l.
Proof.
  unfold restrict. rewrite in_flat_map. split.
  - intros (x & Hx & Hy). destruct x as [|h t]; [destruct Hy|].
    destruct (h =? k) eqn:E; [|destruct Hy]. apply N.eqb_eq in E. subst h.
    destruct Hy as [<-|[]]. exact Hx.
  - intros H. exists (k :: y). split; [exact H|]. rewrite N.eqb_refl. left. reflexivity.
Qed.

Lemma lsorted_restrict k l : lsorted l -> lsorted (restrict k l).
Proof.
  unfold restrict. induction l as [|x l IH]; intros H; cbn [flat_map]; [constructor|].
  apply lsorted_cons_iff in H. destruct H as (Hs & Hf). specialize (IH Hs).
  destruct x as [|h t]; [exact IH|]. destruct (h =? k) eqn:E; [|exact IH].
  apply N.eqb_eq in E. subst h. cbn [app]. constructor; [exact IH|].
  rewrite Forall_forall in *. intros y Hy. apply (In_restrict k l y) in Hy.
  specialize (Hf _ Hy). unfold lex_lt in *. cbn [lex_cmp] in Hf. rewrite N.compare_refl in Hf. exact Hf.
Qed.
