(* PTree/FactsOps.v -- every arity: `pt_laws n` by induction on n from laws0, laws1 and the level
   theorem; then the set laws of property C08 as list equalities over `tuples` (a strictly
   sorted list is determined by its elements: FactsLex.lsorted_ext). *)

From Coq Require Import NArith List Lia Bool Sorted.
From PTree Require Import WBT_Model WBT_Spec WBT_FactsList WBT_FactsInv Model Spec FactsLex FactsMap
  FactsLevel FactsBase.
Import ListNotations.
Open Scope N_scope.

Theorem pt_laws n : laws n (pt_ops n) (PInv n).
Proof.
  induction n as [|m IH].
  - exact laws0.
  - destruct m as [|k].
    + exact laws1.
    + exact (lvl_laws (pt_ops (S k)) (PInv (S k)) (S k) IH).
Qed.

Section AllArities.
Variable n : nat.
Implicit Types (t a b : ptree n) (x y : tuple).

Let L := pt_laws n.

Lemma tuples_len t x : PInv n t -> In x (tuples n t) -> length x = n.
Proof. exact (l_len _ _ _ L t x). Qed.

Lemma tuples_sorted t : PInv n t -> lsorted (tuples n t).
Proof. exact (l_sorted _ _ _ L t). Qed.

Lemma pt_iter_spec t :
  PInv n t ->
  pt_iter n t = tuples n t /\ StronglySorted lex_lt (pt_iter n t) /\ NoDup (pt_iter n t) /\
  Forall (fun x => length x = n) (pt_iter n t).
Proof.
  intros Hi. split; [reflexivity|]. split; [apply tuples_sorted, Hi|].
  split; [apply lsorted_NoDup, tuples_sorted, Hi|].
  rewrite Forall_forall. intros x Hx. apply (tuples_len t x Hi Hx).
Qed.

Lemma pt_new_spec : PInv n (pt_new n) /\ tuples n (pt_new n) = [] /\ pt_is_empty n (pt_new n) = true.
Proof.
  split; [exact (l_new_inv _ _ _ L)|]. split; [exact (l_new_iter _ _ _ L)|].
  apply (l_is_empty _ _ _ L _ (l_new_inv _ _ _ L)). exact (l_new_iter _ _ _ L).
Qed.

Lemma pt_is_empty_spec t : PInv n t -> (pt_is_empty n t = true <-> tuples n t = []).
Proof. exact (l_is_empty _ _ _ L t). Qed.

Lemma pt_contains_In t x :
  PInv n t -> length x = n -> (pt_contains n t x = true <-> In x (tuples n t)).
Proof. exact (l_contains _ _ _ L t x). Qed.

Lemma pt_contains_spec t x :
  PInv n t -> length x = n -> pt_contains n t x = set_mem x (tuples n t).
Proof.
  intros Hi Hx. pose proof (pt_contains_In t x Hi Hx) as H.
  destruct (set_mem x (tuples n t)) eqn:E.
  - apply H. apply set_mem_In, E.
  - destruct (pt_contains n t x) eqn:E'; [|reflexivity].
    apply set_mem_false in E. exfalso. apply E, H. reflexivity.
Qed.

Lemma pt_insert_spec t x :
  PInv n t -> length x = n ->
  exists t', pt_insert n t x = Some (t', negb (set_mem x (tuples n t))) /\ PInv n t' /\
             tuples n t' = set_insert x (tuples n t).
Proof.
  intros Hi Hx. destruct (l_insert _ _ _ L t x Hi Hx) as (t' & He & Hi' & Hm).
  exists t'. split; [|split; [exact Hi'|]].
  - unfold pt_insert. rewrite He. f_equal. f_equal. f_equal. apply (pt_contains_spec t x Hi Hx).
  - apply lsorted_ext.
    + apply tuples_sorted, Hi'.
    + apply lsorted_set_insert, tuples_sorted, Hi.
    + intros y. rewrite In_set_insert. apply Hm.
Qed.

Lemma pt_remove_spec t x :
  PInv n t -> length x = n ->
  exists t', pt_remove n t x = Some (t', set_mem x (tuples n t)) /\ PInv n t' /\
             tuples n t' = set_remove x (tuples n t).
Proof.
  intros Hi Hx. destruct (l_remove _ _ _ L t x Hi Hx) as (t' & He & Hi' & Hm).
  exists t'. split; [|split; [exact Hi'|]].
  - unfold pt_remove. rewrite He. f_equal. f_equal. apply (pt_contains_spec t x Hi Hx).
  - apply lsorted_ext.
    + apply tuples_sorted, Hi'.
    + apply lsorted_set_remove, tuples_sorted, Hi.
    + intros y. rewrite In_set_remove. apply Hm.
Qed.

Lemma pt_clear_spec t :
  PInv n (pt_clear n t) /\ tuples n (pt_clear n t) = [] /\ pt_is_empty n (pt_clear n t) = true.
Proof.
  destruct (l_clear _ _ _ L t) as (Hi & He). split; [exact Hi|]. split; [exact He|].
  apply (pt_is_empty_spec _ Hi). exact He.
Qed.

Lemma pt_union_spec a b :
  PInv n a -> PInv n b ->
  PInv n (pt_union n a b) /\ tuples n (pt_union n a b) = set_union (tuples n a) (tuples n b).
Proof.
  intros Ha Hb. destruct (l_union _ _ _ L a b Ha Hb) as (Hi & Hm). split; [exact Hi|].
  apply lsorted_ext.
  - apply tuples_sorted, Hi.
  - apply lsorted_set_union, tuples_sorted, Ha.
  - intros y. rewrite In_set_union. apply Hm.
Qed.

Lemma pt_difference_spec a b :
  PInv n a -> PInv n b ->
  PInv n (pt_difference n a b) /\
  tuples n (pt_difference n a b) = set_difference (tuples n a) (tuples n b).
Proof.
  intros Ha Hb. destruct (l_difference _ _ _ L a b Ha Hb) as (Hi & Hm). split; [exact Hi|].
  apply lsorted_ext.
  - apply tuples_sorted, Hi.
  - apply lsorted_set_difference, tuples_sorted, Ha.
  - intros y. rewrite In_set_difference. apply Hm.
Qed.

Lemma pt_mapped_spec t maps :
  PInv n t -> Forall map_ok maps ->
  exists t', pt_mapped n t maps = Some t' /\ PInv n t' /\
             tuples n t' = mapped_spec maps (tuples n t).
Proof.
  intros Hi Hmaps. destruct (l_mapped _ _ _ L t maps Hi Hmaps) as (t' & He & Hi' & Hm).
  exists t'. split; [exact He|]. split; [exact Hi'|].
  apply lsorted_ext.
  - apply tuples_sorted, Hi'.
  - apply lsorted_set_of_list.
  - intros y. unfold mapped_spec. rewrite In_set_of_list, In_filter_map. apply Hm.
Qed.

End AllArities.

(* ---------- the methods relating arity n+1 to its restrictions of arity n ---------- *)

Section Restrictions.
Variable n : nat.
Implicit Types (t : ptree (S n)) (r : ptree n) (k : N).

(* membership form, by case distinction on n *)
Lemma insert_restriction_mem t k r :
  PInv (S n) t -> PInv n r ->
  exists t', pt_insert_restriction n t k r = Some t' /\ PInv (S n) t' /\
             forall y, In y (tuples (S n) t') <->
                       In y (tuples (S n) t) \/ exists z0, y = k :: z0 /\ In z0 (tuples n r).
Proof.
  destruct n as [|m].
  - intros Ht _. exact (insert_restriction1_spec t k r Ht).
  - intros Ht Hr.
    exact (lvl_insert_restriction (pt_ops (S m)) (PInv (S m)) (S m) (pt_laws (S m)) t k r Ht Hr).
Qed.

Lemma remove_restriction_mem t k r :
  PInv (S n) t -> PInv n r ->
  exists t', pt_remove_restriction n t k r = Some t' /\ PInv (S n) t' /\
             forall y, In y (tuples (S n) t') <->
                       In y (tuples (S n) t) /\ ~ exists z0, y = k :: z0 /\ In z0 (tuples n r).
Proof.
  destruct n as [|m].
  - intros Ht _. exact (remove_restriction1_spec t k r Ht).
  - intros Ht Hr.
    exact (lvl_remove_restriction (pt_ops (S m)) (PInv (S m)) (S m) (pt_laws (S m)) t k r Ht Hr).
Qed.

Lemma get_mem_some t k r :
  PInv (S n) t -> pt_get n t k = Some r ->
  PInv n r /\ pt_is_empty n r = false /\
  forall z0, In z0 (tuples n r) <-> In (k :: z0) (tuples (S n) t).
Proof.
  destruct n as [|m].
  - intros Ht Hg. destruct (get1_some t k r Ht Hg) as (He & Hm). split; [exact I|]. split; assumption.
  - intros Ht Hg.
    exact (lvl_get_some (pt_ops (S m)) (PInv (S m)) t k r Ht Hg).
Qed.

Lemma get_mem_none t k :
  PInv (S n) t -> pt_get n t k = None -> forall z0, ~ In (k :: z0) (tuples (S n) t).
Proof.
  destruct n as [|m].
  - intros Ht Hg. exact (get1_none t k Ht Hg).
  - intros Ht Hg. exact (lvl_get_none (pt_ops (S m)) (PInv (S m)) t k Ht Hg).
Qed.

Lemma pt_insert_restriction_spec t k r :
  PInv (S n) t -> PInv n r ->
  exists t', pt_insert_restriction n t k r = Some t' /\ PInv (S n) t' /\
             tuples (S n) t' = set_union (tuples (S n) t) (prefix k (tuples n r)).
Proof.
  intros Ht Hr. destruct (insert_restriction_mem t k r Ht Hr) as (t' & He & Hi' & Hm).
  exists t'. split; [exact He|]. split; [exact Hi'|].
  apply lsorted_ext.
  - apply tuples_sorted, Hi'.
  - apply lsorted_set_union, tuples_sorted, Ht.
  - intros y. rewrite In_set_union, In_prefix. apply Hm.
Qed.

Lemma pt_remove_restriction_spec t k r :
  PInv (S n) t -> PInv n r ->
  exists t', pt_remove_restriction n t k r = Some t' /\ PInv (S n) t' /\
             tuples (S n) t' = set_difference (tuples (S n) t) (prefix k (tuples n r)).
Proof.
  intros Ht Hr. destruct (remove_restriction_mem t k r Ht Hr) as (t' & He & Hi' & Hm).
  exists t'. split; [exact He|]. split; [exact Hi'|].
  apply lsorted_ext.
  - apply tuples_sorted, Hi'.
  - apply lsorted_set_difference, tuples_sorted, Ht.
  - intros y. rewrite In_set_difference, In_prefix. apply Hm.
Qed.

(* prefix lookup: exactly the tuples with that first column, in order; None iff there are none *)
Lemma pt_get_spec t k :
  PInv (S n) t ->
  match pt_get n t k with
  | Some r => PInv n r /\ pt_is_empty n r = false /\ tuples n r = restrict k (tuples (S n) t)
  | None => restrict k (tuples (S n) t) = []
  end.
Proof.
  intros Ht. destruct (pt_get n t k) as [r|] eqn:Hg.
  - destruct (get_mem_some t k r Ht Hg) as (Hr & He & Hm). split; [exact Hr|]. split; [exact He|].
    apply lsorted_ext.
    + apply tuples_sorted, Hr.
    + apply lsorted_restrict, tuples_sorted, Ht.
    + intros z0. rewrite In_restrict. apply Hm.
  - destruct (restrict k (tuples (S n) t)) as [|z0 l] eqn:E; [reflexivity|].
    exfalso. apply (get_mem_none t k Ht Hg z0). apply In_restrict. rewrite E. left; reflexivity.
Qed.

Lemma pt_iter_restrictions_spec t :
  PInv (S n) t ->
  tuples (S n) t =
    flat_map (fun kr => prefix (fst kr) (tuples n (snd kr))) (pt_iter_restrictions n t) /\
  StronglySorted N.lt (map fst (pt_iter_restrictions n t)) /\
  forall k r, In (k, r) (pt_iter_restrictions n t) <-> pt_get n t k = Some r.
Proof.
  destruct n as [|m].
  - intros Ht. exact (iter_restrictions1_spec t Ht).
  - intros Ht. exact (lvl_iter_restrictions (pt_ops (S m)) (PInv (S m)) t Ht).
Qed.

End Restrictions.

(* the graph of a column map: first value of a key, read off the map's tuple list *)
Lemma first_val_spec (mp : pt2) k :
  PInv 2 mp -> first_val mp k = first_of (tuples 2 mp) k.
Proof.
  intros Hmp. unfold first_val, first_of.
  pose proof (pt_get_spec 1 mp k Hmp) as Hg.
  change (pt_get 1 mp k) with (@get pt1 k mp) in Hg.
  destruct (@get pt1 k mp) as [s|] eqn:E.
  - destruct Hg as (Hs & He & Ht). rewrite <- Ht.
    change (tuples 1 s) with (map (fun x => [x]) (map fst (iter s))).
    unfold ws_first. destruct (iter s) as [|[v u] l]; reflexivity.
  - rewrite Hg. reflexivity.
Qed.
