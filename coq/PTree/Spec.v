(* PTree/Spec.v -- specification vocabulary for property C08: lexicographic order on tuples,
   finite sets of tuples as strictly sorted lists, the invariant PInv.  Definitions only. *)

From Coq Require Import NArith List Bool Sorted.
From PTree Require Import WBT_Model WBT_Spec Model.
Import ListNotations.
Open Scope N_scope.

(* ---------- lexicographic order on tuples (the order of [u32; K]) ---------- *)

Fixpoint lex_cmp (x y : tuple) : comparison :=
  match x, y with
  | [], [] => Eq
  | [], _ :: _ => Lt
  | _ :: _, [] => Gt
  | a :: x', b :: y' =>
    match a ?= b with
    | Eq => lex_cmp x' y'
    | c => c
    end
  end.

Definition lex_lt (x y : tuple) : Prop := lex_cmp x y = Lt.
Definition tuple_eqb (x y : tuple) : bool :=
  match lex_cmp x y with Eq => true | _ => false end.

(* a set of tuples: strictly increasing, hence duplicate-free *)
Definition lsorted (l : list tuple) : Prop := StronglySorted lex_lt l.

(* ---------- reference sets: operations on strictly sorted lists ---------- *)

Definition set_mem (x : tuple) (l : list tuple) : bool := existsb (tuple_eqb x) l.

Fixpoint set_insert (x : tuple) (l : list tuple) : list tuple :=
  match l with
  | [] => [x]
  | y :: tl =>
    match lex_cmp x y with
    | Lt => x :: l
    | Eq => l
    | Gt => y :: set_insert x tl
    end
  end.

Definition set_remove (x : tuple) (l : list tuple) : list tuple :=
  filter (fun y => negb (tuple_eqb x y)) l.

(* sort + dedup *)
Definition set_of_list (l : list tuple) : list tuple := fold_right set_insert [] l.

Definition set_union (a b : list tuple) : list tuple := fold_right set_insert a b.

Definition set_difference (a b : list tuple) : list tuple :=
  filter (fun x => negb (set_mem x b)) a.

(* the tuples with first column k, without that column *)
Definition restrict (k : N) (l : list tuple) : list tuple :=
  flat_map (fun x => match x with
                     | [] => []
                     | h :: t => if h =? k then [t] else []
                     end) l.

Definition prefix (k : N) (l : list tuple) : list tuple := map (cons k) l.

Fixpoint filter_map {A B} (f : A -> option B) (l : list A) : list B :=
  match l with
  | [] => []
  | a :: tl => match f a with Some b => b :: filter_map f tl | None => filter_map f tl end
  end.

(* ---------- the column maps of `mapped` ---------- *)

(* graph of a PrefixTree2 read as a partial function: the FIRST (least) value of the key *)
Definition first_val (mp : pt2) (k : N) : option N :=
  match get k mp with
  | None => None
  | Some s => ws_first s
  end.

(* the same, read off the tuple list of the map *)
Definition first_of (l : list tuple) (k : N) : option N :=
  match restrict k l with
  | [v] :: _ => Some v
  | _ => None
  end.

Definition map_col (om : option pt2) (k : N) : option N :=
  match om with
  | None => Some k
  | Some mp => first_val mp k
  end.

(* apply the optional graph of each column; None if some component is undefined.
   Missing trailing maps count as None (identity). *)
Fixpoint map_tuple (maps : list (option pt2)) (x : tuple) : option tuple :=
  match x with
  | [] => Some []
  | k :: rest =>
    match map_col (hd None maps) k, map_tuple (tl maps) rest with
    | Some k', Some rest' => Some (k' :: rest')
    | _, _ => None
    end
  end.

Definition mapped_spec (maps : list (option pt2)) (l : list tuple) : list tuple :=
  set_of_list (filter_map (map_tuple maps) l).

(* ---------- the invariant ---------- *)

(* one level: the map is a valid WBTreeMap, every value satisfies the invariant of the level
   below and is not empty *)
Definition inv_lvl {V} (invV : V -> Prop) (emptyV : V -> bool) (m : wbmap V) : Prop :=
  Inv_map m /\ Forall (fun kv => invV (snd kv) /\ emptyV (snd kv) = false) (iter m).

Fixpoint PInv (n : nat) : ptree n -> Prop :=
  match n return ptree n -> Prop with
  | O => fun _ => True
  | S m =>
    match m return (ptree m -> Prop) -> ptree (S m) -> Prop with
    | O => fun _ s => Inv_map s
    | S k => fun invV t => inv_lvl invV (pt_is_empty (S k)) t
    end (PInv m)
  end.

Definition map_ok (om : option pt2) : Prop :=
  match om with None => True | Some mp => PInv 2 mp end.

(* boolean checker (Examples, Regress.v) *)
Definition inv_map_b {V} (m : wbmap V) : bool := inv_b (root m) && (len m =? size (root m)).

Fixpoint pinv_b (n : nat) : ptree n -> bool :=
  match n return ptree n -> bool with
  | O => fun _ => true
  | S m =>
    match m return (ptree m -> bool) -> ptree (S m) -> bool with
    | O => fun _ s => inv_map_b s
    | S k => fun invV t =>
      inv_map_b t &&
      forallb (fun kv => invV (snd kv) && negb (pt_is_empty (S k) (snd kv))) (iter t)
    end (pinv_b m)
  end.
