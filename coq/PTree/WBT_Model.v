(* PTree/WBT_Model.v -- COPY of coq/WBT/Model.v (property C14's library).  Content unchanged except
   (1) this three-line header and (2) every line `From WBT Require Import A B ...` reads
   `From PTree Require Import WBT_A WBT_B ...`.  checks/c08.py re-derives this file from the original and compares sha256.  DO NOT EDIT. *)
(* WBT/Model.v -- executable Gallina model of eqlog-runtime/src/wbtree/map.rs (lines 1-1135).
   NO proofs in this file (Definitions / Fixpoints only).

   Faithfulness contract
   ---------------------
   * `tree V` mirrors `Option<Rc<Node<V>>>` restricted to `Node::Data`:  E = None,
     `T sz l k v r` = Some(Data(DataNode{size=sz,left=l,key=k,value=v,right=r})).
     The size field is the *cached* one; it is recomputed exactly where the Rust code calls
     `update_size_internal` / `new_data_node` (modelled by `node`) and nowhere else.
   * Every function has the case structure of its Rust counterpart, so that not only the
     contents but the tree *shapes* (and cached sizes) coincide; this is what the
     correspondence harness (harness/wbt-driver) compares.
   * Rc sharing / `Rc::make_mut` / `Rc::unwrap_or_clone` are invisible in a value-semantics
     model: a clone is a copy.
   * usize / u32 are modelled by unbounded N (no overflow; trees have < 2^32 nodes).
   * Where Rust would panic (`expect`, `unwrap`, `unreachable!`) the model returns `None`;
     FactsInv.v proves these cases unreachable under the invariant.
   * Recursion that is not structural in Rust terms (join, and union/difference which recurse
     on the results of split) uses explicit fuel; `None` also stands for "out of fuel".
     `join`, `union_t`, `difference_t` instantiate the fuel with a node-count bound and
     FactsOrder.v proves that bound sufficient (unconditionally).  `split` is structural.

   NOT modelled: `Node::Mapping`.  Mapping nodes are created only by `WBTreeMap::mapped`
   (map.rs:902), which is called only from unit tests inside map.rs (the prefix-tree `mapped`
   methods in prefix_tree.rs:1397ff are built from `iter` + insert and never call it).
   Consequently the following are not modelled: `WBTreeMap::mapped`, `apply_single_mapping`,
   `apply_mappings`, `Node::as_data_node`, `Node::wrapped_in_mappings`, `Node::update_size`,
   the `Mapping` arm of `unwrap_to_data`, and the `Node::Mapping` arms of size, rotate_left,
   rotate_right, balance, insert_simple, remove_min, remove_existing_node, get, get_mut,
   Iter, IterMut.  Everything else in map.rs:1-1135 is modelled.
   Also not modelled: partially consumed iterators (iter / iter_mut are modelled as the whole
   in-order traversal), and the Debug impl. *)

From Coq Require Import NArith List.
Import ListNotations.
Open Scope N_scope.

Arguments N.add : simpl never.
Arguments N.sub : simpl never.
Arguments N.mul : simpl never.
Arguments N.eqb : simpl never.
Arguments N.ltb : simpl never.
Arguments N.leb : simpl never.
Arguments N.compare : simpl never.

Inductive tree (V : Type) : Type :=
| E : tree V
| T (sz : N) (l : tree V) (k : N) (v : V) (r : tree V) : tree V.
Arguments E {V}.
Arguments T {V} sz l k v r.

(* Node::size -- reads the cached field *)
Definition size {V} (t : tree V) : N :=
  match t with E => 0 | T sz _ _ _ _ => sz end.

(* new_data_node, and equally "mutate children then update_size_internal" *)
Definition node {V} (l : tree V) (k : N) (v : V) (r : tree V) : tree V :=
  T (1 + size l + size r) l k v r.

(* Node::new *)
Definition singleton {V} (k : N) (v : V) : tree V := T 1 E k v E.

Definition DELTA : N := 3.
Definition GAMMA : N := 2.

(* map.rs:154.  No right child => returned unchanged (cached size untouched). *)
Definition rotate_left {V} (t : tree V) : tree V :=
  match t with
  | T _ l k v (T _ rl rk rv rr) => node (node l k v rl) rk rv rr
  | _ => t
  end.

(* map.rs:198 *)
Definition rotate_right {V} (t : tree V) : tree V :=
  match t with
  | T _ (T _ ll lk lv lr) k v r => node ll lk lv (node lr k v r)
  | _ => t
  end.

(* map.rs:242.  In the double-rotation case the inner rotation replaces the child without
   updating the parent's cached size; the outer rotation then recomputes it. *)
Definition balance {V} (t : tree V) : tree V :=
  match t with
  | E => E
  | T s l k v r =>
    let ls := size l in
    let rs := size r in
    if ls + rs <? 2 then t else
    let lw := ls + 1 in
    let rw := rs + 1 in
    if DELTA * lw <? rw then
      match r with
      | E => t
      | T _ rl _ _ rr =>
        if size rl + 1 <? GAMMA * (size rr + 1)
        then rotate_left t
        else rotate_left (T s l k v (rotate_right r))
      end
    else if DELTA * rw <? lw then
      match l with
      | E => t
      | T _ ll _ _ lr =>
        if size lr + 1 <? GAMMA * (size ll + 1)
        then rotate_right t
        else rotate_right (T s (rotate_left l) k v r)
      end
    else t
  end.

(* map.rs:336.  update_size_internal runs in both non-Equal arms; balance only if a node
   was actually added. *)
Fixpoint insert_simple {V} (t : tree V) (key : N) (value : V) : tree V * option V :=
  match t with
  | E => (singleton key value, None)
  | T s l k v r =>
    match key ?= k with
    | Eq => (T s l k value r, Some v)
    | Lt =>
      let '(l', old) := insert_simple l key value in
      let n := node l' k v r in
      (match old with None => balance n | Some _ => n end, old)
    | Gt =>
      let '(r', old) := insert_simple r key value in
      let n := node l k v r' in
      (match old with None => balance n | Some _ => n end, old)
    end
  end.

(* map.rs:391.  The Rust function takes a non-empty Rc<Node>; the model takes the fields of
   that node, so it is total. *)
Fixpoint remove_min {V} (l : tree V) (k : N) (v : V) (r : tree V) : N * V * tree V :=
  match l with
  | E => (k, v, r)
  | T _ ll lk lv lr =>
    let '(mk, mv, l') := remove_min ll lk lv lr in
    (mk, mv, balance (node l' k v r))
  end.

(* map.rs:442.  None = one of the two `expect("Node with key must exist ...")` fired. *)
Fixpoint remove_existing_node {V} (t : tree V) (key : N) : option (tree V * V) :=
  match t with
  | E => None
  | T _ l k v r =>
    match key ?= k with
    | Eq =>
      let new_node :=
        match l, r with
        | E, E => E
        | _, E => l
        | E, _ => r
        | _, T _ rl rk rv rr =>
          let '(mk, mv, r') := remove_min rl rk rv rr in
          balance (node l mk mv r')
        end in
      Some (new_node, v)
    | Lt =>
      match remove_existing_node l key with
      | None => None
      | Some (l', value) => Some (balance (node l' k v r), value)
      end
    | Gt =>
      match remove_existing_node r key with
      | None => None
      | Some (r', value) => Some (balance (node l k v r'), value)
      end
    end
  end.

(* map.rs:566.  Compares *sizes* (not weights).  None = out of fuel, or one of the two
   `unreachable!` arms. *)
Fixpoint join_f {V} (fuel : nat) (l : tree V) (key : N) (value : V) (r : tree V)
  : option (tree V) :=
  match fuel with
  | O => None
  | S f =>
    let ls := size l in
    let rs := size r in
    if DELTA * ls <? rs then
      match r with
      | E => None
      | T _ rl rk rv rr =>
        match join_f f l key value rl with
        | None => None
        | Some nl => Some (balance (node nl rk rv rr))
        end
      end
    else if DELTA * rs <? ls then
      match l with
      | E => None
      | T _ ll lk lv lr =>
        match join_f f lr key value r with
        | None => None
        | Some nr => Some (balance (node ll lk lv nr))
        end
      end
    else Some (balance (node l key value r))
  end.

(* real node count, used only as fuel *)
Fixpoint card {V} (t : tree V) : nat :=
  match t with E => O | T _ l _ _ r => S (card l + card r) end.

Definition join {V} (l : tree V) (key : N) (value : V) (r : tree V) : option (tree V) :=
  join_f (S (card l + card r)) l key value r.

(* map.rs:535 *)
Fixpoint split {V} (t : tree V) (key : N) : option (tree V * option V * tree V) :=
  match t with
  | E => Some (E, None, E)
  | T _ l k v r =>
    match key ?= k with
    | Eq => Some (l, Some v, r)
    | Lt =>
      match split l key with
      | None => None
      | Some (new_left, found, new_right) =>
        match join new_right k v r with
        | None => None
        | Some joined_right => Some (new_left, found, joined_right)
        end
      end
    | Gt =>
      match split r key with
      | None => None
      | Some (new_left, found, new_right) =>
        match join l k v new_left with
        | None => None
        | Some joined_left => Some (joined_left, found, new_right)
        end
      end
    end
  end.

(* map.rs:613.  merge is always called as merge(key, value_from_left_operand,
   value_from_right_operand), whichever tree is used as base. *)
Fixpoint union_f {V} (fuel : nat) (merge : N -> V -> V -> V) (l r : tree V)
  : option (tree V) :=
  match fuel with
  | O => None
  | S fu =>
    match l, r with
    | E, E => Some E
    | _, E => Some l
    | E, _ => Some r
    | T l_size l_left l_key l_value l_right, T r_size r_left r_key r_value r_right =>
      if r_size <=? l_size then
        match split r l_key with
        | None => None
        | Some (r_left', r_value_opt, r_right') =>
          let new_value :=
            match r_value_opt with
            | Some r_value' => merge l_key l_value r_value'
            | None => l_value
            end in
          match union_f fu merge l_left r_left' with
          | None => None
          | Some new_left =>
            match union_f fu merge l_right r_right' with
            | None => None
            | Some new_right => join new_left l_key new_value new_right
            end
          end
        end
      else
        match split l r_key with
        | None => None
        | Some (l_left', l_value_opt, l_right') =>
          let new_value :=
            match l_value_opt with
            | Some l_value' => merge r_key l_value' r_value
            | None => r_value
            end in
          match union_f fu merge l_left' r_left with
          | None => None
          | Some new_left =>
            match union_f fu merge l_right' r_right with
            | None => None
            | Some new_right => join new_left r_key new_value new_right
            end
          end
        end
    end
  end.

Definition union_t {V} (merge : N -> V -> V -> V) (l r : tree V) : option (tree V) :=
  union_f (S (card l + card r)) merge l r.

(* map.rs:722.  `right` is a non-empty Rc<Node> in Rust; E => None is a type-impossible case. *)
Definition join_without_key {V} (l r : tree V) : option (tree V) :=
  match r with
  | E => None
  | T _ rl rk rv rr =>
    let '(mk, mv, r') := remove_min rl rk rv rr in
    join l mk mv r'
  end.

(* map.rs:670.  diff is called as diff(key, value_from_self, value_from_other). *)
Fixpoint difference_f {V} (fuel : nat) (diff : N -> V -> V -> option V) (l r : tree V)
  : option (tree V) :=
  match fuel with
  | O => None
  | S fu =>
    match l, r with
    | E, _ => Some E
    | _, E => Some l
    | T _ l_left l_key l_value l_right, T _ _ _ _ _ =>
      match split r l_key with
      | None => None
      | Some (r_left, r_value_opt, r_right) =>
        match difference_f fu diff l_left r_left with
        | None => None
        | Some new_left =>
          match difference_f fu diff l_right r_right with
          | None => None
          | Some new_right =>
            match r_value_opt with
            | Some r_value =>
              match diff l_key l_value r_value with
              | None =>
                match new_left, new_right with
                | E, E => Some E
                | _, E => Some new_left
                | E, _ => Some new_right
                | _, _ => join_without_key new_left new_right
                end
              | Some new_value => join new_left l_key new_value new_right
              end
            | None => join new_left l_key l_value new_right
            end
          end
        end
      end
    end
  end.

Definition difference_t {V} (diff : N -> V -> V -> option V) (l r : tree V) : option (tree V) :=
  difference_f (S (card l + card r)) diff l r.

(* WBTreeMap::get without mappings, map.rs:743 *)
Fixpoint get_t {V} (key : N) (t : tree V) : option V :=
  match t with
  | E => None
  | T _ l k v r =>
    match key ?= k with
    | Lt => get_t key l
    | Gt => get_t key r
    | Eq => Some v
    end
  end.

(* get_mut (map.rs:781) followed by a write `r.set(f(r.get()))` (deref-assign) through the returned reference.
   The path is the one of get_mut; nothing but the value changes. *)
Fixpoint modify_t {V} (key : N) (f : V -> V) (t : tree V) : tree V :=
  match t with
  | E => E
  | T s l k v r =>
    match key ?= k with
    | Lt => T s (modify_t key f l) k v r
    | Gt => T s l k v (modify_t key f r)
    | Eq => T s l k (f v) r
    end
  end.

(* Iter (map.rs:933ff), consumed completely: in-order traversal *)
Fixpoint inorder {V} (t : tree V) : list (N * V) :=
  match t with
  | E => []
  | T _ l k v r => inorder l ++ (k, v) :: inorder r
  end.

(* IterMut (map.rs:1008ff), consumed completely, writing `*v = f k *v` for every item *)
Fixpoint map_values_t {V} (f : N -> V -> V) (t : tree V) : tree V :=
  match t with
  | E => E
  | T s l k v r => T s (map_values_t f l) k (f k v) (map_values_t f r)
  end.

(* ------------------------------------------------------------------ *)
(* The public wrapper WBTreeMap<V> (map.rs:729ff).                      *)

Record wbmap (V : Type) : Type := mk_wbmap { root : tree V; len : N }.
Arguments mk_wbmap {V} root len.
Arguments root {V} w.
Arguments len {V} w.

Definition empty {V} : wbmap V := mk_wbmap E 0.            (* new *)

Definition insert {V} (key : N) (value : V) (m : wbmap V) : wbmap V * option V :=
  let '(new_root, old) := insert_simple (root m) key value in
  (mk_wbmap new_root (match old with None => len m + 1 | Some _ => len m end), old).

Definition get {V} (key : N) (m : wbmap V) : option V := get_t key (root m).

Definition contains_key {V} (key : N) (m : wbmap V) : bool :=
  match get key m with Some _ => true | None => false end.

Definition is_empty {V} (m : wbmap V) : bool := len m =? 0.

Definition clear {V} (m : wbmap V) : wbmap V := mk_wbmap E 0.

Definition iter {V} (m : wbmap V) : list (N * V) := inorder (root m).

(* get_mut returns get's answer; the write through the reference is `modify`. *)
Definition get_mut {V} (key : N) (m : wbmap V) : option V := get key m.
Definition modify {V} (key : N) (f : V -> V) (m : wbmap V) : wbmap V :=
  mk_wbmap (modify_t key f (root m)) (len m).

Definition iter_mut_map {V} (f : N -> V -> V) (m : wbmap V) : wbmap V :=
  mk_wbmap (map_values_t f (root m)) (len m).

(* map.rs:862.  outer None = a panic: the `expect` on the root, or the ones inside
   remove_existing_node.  `len -= 1` is N.sub (usize underflow is unreachable, see
   FactsInv.remove_inv). *)
Definition remove {V} (key : N) (m : wbmap V) : option (wbmap V * option V) :=
  if negb (contains_key key m) then Some (m, None) else
  match root m with
  | E => None
  | T _ _ _ _ _ =>
    match remove_existing_node (root m) key with
    | None => None
    | Some (new_root, value) => Some (mk_wbmap new_root (len m - 1), Some value)
    end
  end.

Definition union {V} (merge : N -> V -> V -> V) (a b : wbmap V) : option (wbmap V) :=
  match union_t merge (root a) (root b) with
  | None => None
  | Some t => Some (mk_wbmap t (size t))
  end.

Definition difference {V} (diff : N -> V -> V -> option V) (a b : wbmap V) : option (wbmap V) :=
  match difference_t diff (root a) (root b) with
  | None => None
  | Some t => Some (mk_wbmap t (size t))
  end.

(* Entry API, map.rs:854 and 1085ff.  A `&mut V` result is modelled by the pair
   (map afterwards, current value behind the reference); a later write through it is
   `modify key`.  None = the `unwrap()` panicked. *)
Inductive entry (V : Type) : Type :=
| Occupied (key : N) (m : wbmap V)
| Vacant (key : N) (m : wbmap V).
Arguments Occupied {V} key m.
Arguments Vacant {V} key m.

Definition entry_of {V} (key : N) (m : wbmap V) : entry V :=
  if contains_key key m then Occupied key m else Vacant key m.

Definition occ_into_mut {V} (key : N) (m : wbmap V) : option (wbmap V * V) :=
  match get_mut key m with Some v => Some (m, v) | None => None end.

Definition occ_get_mut {V} (key : N) (m : wbmap V) : option (wbmap V * V) :=
  match get_mut key m with Some v => Some (m, v) | None => None end.

Definition occ_remove {V} (key : N) (m : wbmap V) : option (wbmap V * V) :=
  match remove key m with
  | Some (m', Some v) => Some (m', v)
  | _ => None
  end.

Definition vac_insert {V} (key : N) (m : wbmap V) (value : V) : option (wbmap V * V) :=
  let '(m', _) := insert key value m in
  match get_mut key m' with Some v => Some (m', v) | None => None end.

Definition or_insert {V} (e : entry V) (default : V) : option (wbmap V * V) :=
  match e with
  | Occupied key m => occ_into_mut key m
  | Vacant key m => vac_insert key m default
  end.

Definition or_insert_with {V} (e : entry V) (default : unit -> V) : option (wbmap V * V) :=
  match e with
  | Occupied key m => occ_into_mut key m
  | Vacant key m => vac_insert key m (default tt)
  end.
