(* PTree/FactsMap.v -- the WBTreeMap facts of the copied C14 library, restated pointwise
   (`get key` of the result in terms of `get key` of the arguments).  This is the only interface
   the prefix-tree proofs use. *)

From Coq Require Import NArith List Lia Bool.
From PTree Require Import WBT_Model WBT_Spec WBT_FactsList WBT_FactsBalance WBT_FactsOrder WBT_FactsInv Model.
Import ListNotations.
Open Scope N_scope.

Section MapFacts.
Context {V : Type}.
Implicit Types (m a b : wbmap V) (k key : N) (v : V).

Lemma get_empty k : get k (@empty V) = None.
Proof. reflexivity. Qed.

Lemma iter_empty : iter (@empty V) = [].
Proof. reflexivity. Qed.

Lemma In_iter_get m k v : Inv_map m -> (In (k, v) (iter m) <-> get k m = Some v).
Proof.
  intros Hm. rewrite (get_refines k m Hm). split.
  - apply in_assoc, iter_ssorted, Hm.
  - apply assoc_in.
Qed.

Lemma is_empty_iter m : Inv_map m -> (is_empty m = true <-> iter m = []).
Proof.
  intros Hm. rewrite (is_empty_refines m Hm). destruct (iter m); split; congruence.
Qed.

Lemma is_empty_get m : Inv_map m -> (is_empty m = true <-> forall k, get k m = None).
Proof.
  intros Hm. rewrite (is_empty_iter m Hm). split.
  - intros H k. rewrite (get_refines k m Hm), H. reflexivity.
  - intros H. destruct (iter m) as [|[k v] l] eqn:E; [reflexivity|].
    assert (Hin : In (k, v) (iter m)) by (rewrite E; left; reflexivity).
    apply (In_iter_get m k v Hm) in Hin. rewrite H in Hin. discriminate.
Qed.

Lemma contains_key_get k m :
  contains_key k m = match get k m with Some _ => true | None => false end.
Proof. reflexivity. Qed.

(* ---------- insert ---------- *)

Lemma insert_get k v m :
  Inv_map m ->
  Inv_map (fst (insert k v m)) /\ snd (insert k v m) = get k m /\
  forall k', get k' (fst (insert k v m)) = if k' =? k then Some v else get k' m.
Proof.
  intros Hm. destruct (insert_spec k v m Hm) as (Hm' & Hi & Hs).
  split; [exact Hm'|]. split; [rewrite Hs; symmetry; apply get_refines, Hm|].
  intros k'. rewrite (get_refines k' _ Hm'), Hi, assoc_assoc_insert, (get_refines k' m Hm).
  reflexivity.
Qed.

(* ---------- a write through &mut V ---------- *)

Lemma modify_get k (f : V -> V) m :
  Inv_map m ->
  Inv_map (modify k f m) /\
  forall k', get k' (modify k f m) = if k' =? k then option_map f (get k' m) else get k' m.
Proof.
  intros Hm. destruct (modify_spec k f m Hm) as (Hm' & Hi). split; [exact Hm'|].
  intros k'. rewrite (get_refines k' _ Hm'), Hi, assoc_assoc_modify, (get_refines k' m Hm).
  reflexivity.
Qed.

(* ---------- remove ---------- *)

Lemma remove_get k m :
  Inv_map m ->
  exists m', remove k m = Some (m', get k m) /\ Inv_map m' /\
             forall k', get k' m' = if k' =? k then None else get k' m.
Proof.
  intros Hm. destruct (remove_spec k m Hm) as (m' & Hr & Hm' & Hi).
  exists m'. rewrite (get_refines k m Hm). split; [exact Hr|]. split; [exact Hm'|].
  intros k'. rewrite (get_refines k' _ Hm'), Hi, assoc_assoc_remove, (get_refines k' m Hm).
  reflexivity.
Qed.

(* ---------- union / difference: total, and pointwise ---------- *)

Lemma union_tot_some (f : N -> V -> V -> V) a b : union f a b = Some (union_tot f a b).
Proof.
  unfold union_tot, union. destruct (union_t_total f (root a) (root b)) as (t & ->). reflexivity.
Qed.

Lemma difference_tot_some (g : N -> V -> V -> option V) a b :
  difference g a b = Some (difference_tot g a b).
Proof.
  unfold difference_tot, difference.
  destruct (difference_t_total g (root a) (root b)) as (t & ->). reflexivity.
Qed.

Lemma union_tot_get (f : N -> V -> V -> V) a b :
  Inv_map a -> Inv_map b ->
  Inv_map (union_tot f a b) /\
  forall k, get k (union_tot f a b) = union_law f k (get k a) (get k b).
Proof.
  intros Ha Hb. destruct (union_spec f a b Ha Hb) as (m & Hu & Hm & _ & Hg).
  rewrite union_tot_some in Hu. injection Hu as <-. split; assumption.
Qed.

Lemma difference_tot_get (g : N -> V -> V -> option V) a b :
  Inv_map a -> Inv_map b ->
  Inv_map (difference_tot g a b) /\
  forall k, get k (difference_tot g a b) = difference_law g k (get k a) (get k b).
Proof.
  intros Ha Hb. destruct (difference_spec g a b Ha Hb) as (m & Hu & Hm & _ & Hg).
  rewrite difference_tot_some in Hu. injection Hu as <-. split; assumption.
Qed.

(* ---------- entry API ---------- *)

Lemma entry_of_some k m v : get k m = Some v -> entry_of k m = Occupied k m.
Proof. intros H. unfold entry_of. rewrite contains_key_get, H. reflexivity. Qed.

Lemma entry_of_none k m : get k m = None -> entry_of k m = Vacant k m.
Proof. intros H. unfold entry_of. rewrite contains_key_get, H. reflexivity. Qed.

Lemma occ_get_mut_some k m v : get k m = Some v -> occ_get_mut k m = Some (m, v).
Proof. intros H. unfold occ_get_mut, get_mut. rewrite H. reflexivity. Qed.

Lemma occ_remove_get k m v :
  Inv_map m -> get k m = Some v ->
  exists m', occ_remove k m = Some (m', v) /\ Inv_map m' /\
             forall k', get k' m' = if k' =? k then None else get k' m.
Proof.
  intros Hm Hg. destruct (remove_get k m Hm) as (m' & Hr & Hm' & Hk).
  exists m'. unfold occ_remove. rewrite Hr, Hg. split; [reflexivity|]. split; assumption.
Qed.

Lemma vac_insert_get k m v :
  Inv_map m ->
  exists m', vac_insert k m v = Some (m', v) /\ Inv_map m' /\
             forall k', get k' m' = if k' =? k then Some v else get k' m.
Proof.
  intros Hm. destruct (insert_get k v m Hm) as (Hm' & _ & Hk).
  exists (fst (insert k v m)). rewrite (vac_insert_spec k m v Hm). split; [reflexivity|].
  split; assumption.
Qed.

Lemma or_insert_with_get k m (d : unit -> V) :
  Inv_map m ->
  exists m' x, or_insert_with (entry_of k m) d = Some (m', x) /\ Inv_map m' /\
               x = match get k m with Some y => y | None => d tt end /\
               forall k', get k' m' = if k' =? k then Some x else get k' m.
Proof.
  intros Hm. destruct (get k m) as [y|] eqn:Hg.
  - rewrite (entry_of_some k m y Hg). cbn [or_insert_with].
    unfold occ_into_mut, get_mut. rewrite Hg.
    exists m, y. split; [reflexivity|]. split; [exact Hm|]. split; [reflexivity|].
    intros k'. destruct (k' =? k) eqn:E; [|reflexivity]. apply N.eqb_eq in E. subst k'. exact Hg.
  - rewrite (entry_of_none k m Hg). cbn [or_insert_with].
    destruct (vac_insert_get k m (d tt) Hm) as (m' & Hv & Hm' & Hk).
    exists m', (d tt). split; [exact Hv|]. split; [exact Hm'|]. split; [reflexivity|exact Hk].
Qed.

(* overwrite the value of a present key through &mut V *)
Lemma modify_set_get k v0 v m :
  Inv_map m -> get k m = Some v0 ->
  Inv_map (modify k (fun _ => v) m) /\
  forall k', get k' (modify k (fun _ => v) m) = if k' =? k then Some v else get k' m.
Proof.
  intros Hm Hg. destruct (modify_get k (fun _ => v) m Hm) as (Hm' & Hk). split; [exact Hm'|].
  intros k'. rewrite Hk. destruct (N.eqb_spec k' k) as [->|Hne]; [rewrite Hg; reflexivity|reflexivity].
Qed.

End MapFacts.
