(* PTree/FactsExamples.v -- the boolean invariant checker is sound; concrete samples used as
   non-vacuity witnesses in Props_C08.v (all by vm_compute). *)

From Coq Require Import NArith List Lia Bool Sorted.
From PTree Require Import WBT_Model WBT_Spec WBT_FactsInv Model Spec Run FactsLex FactsMap FactsLevel
  FactsBase FactsOps FactsRun.
Import ListNotations.
Open Scope N_scope.

Lemma inv_map_b_ok {V} (m : wbmap V) : inv_map_b m = true -> Inv_map m.
Proof.
  unfold inv_map_b. intros H. apply andb_true_iff in H. destruct H as (H1 & H2).
  split; [apply inv_b_ok, H1|apply N.eqb_eq, H2].
Qed.

Lemma pinv_b_ok n : forall t : ptree n, pinv_b n t = true -> PInv n t.
Proof.
  induction n as [|m IH]; [intros; exact I|]. destruct m as [|k].
  - intros t H. apply inv_map_b_ok, H.
  - intros t H. change (inv_map_b t &&
      forallb (fun kv => pinv_b (S k) (snd kv) && negb (pt_is_empty (S k) (snd kv))) (iter t) = true) in H.
    apply andb_true_iff in H. destruct H as (H1 & H2).
    change (inv_lvl (PInv (S k)) (pt_is_empty (S k)) t). split; [apply inv_map_b_ok, H1|].
    rewrite forallb_forall in H2. rewrite Forall_forall. intros kv Hin. specialize (H2 kv Hin).
    apply andb_true_iff in H2. destruct H2 as (H3 & H4). split; [apply IH, H3|].
    apply negb_true_iff, H4.
Qed.

(* ---------- samples ---------- *)

Ltac conj := repeat match goal with |- _ /\ _ => split end.

Definition ins_all (n : nat) (l : list tuple) : ptree n :=
  fold_left (fun t x => match pt_insert n t x with Some (t', _) => t' | None => t end) l (pt_new n).

Definition sample3 : ptree 3 := ins_all 3 [[1;2;3]; [1;2;4]; [0;5;5]; [1;0;9]; [1;2;3]].
Definition sample3b : ptree 3 := ins_all 3 [[1;2;4]; [2;2;2]].
Definition sample2 : ptree 2 := ins_all 2 [[2;3]; [2;4]; [7;7]].
Definition sample9 : ptree 9 :=
  ins_all 9 [[1;1;1;1;1;1;1;1;2]; [1;1;1;1;1;1;1;1;1]; [0;1;1;1;1;1;1;1;1]].
(* a partial, non-functional column map: 1 -> {5, 4}, 0 -> {7}; 2 undefined *)
Definition sample_map : pt2 := mk_map2 [(1,5); (1,4); (0,7)].

Lemma sample3_inv : PInv 3 sample3 /\ PInv 3 sample3b /\ PInv 2 sample2 /\ PInv 9 sample9.
Proof. conj; apply pinv_b_ok; vm_compute; reflexivity. Qed.

Lemma sample3_tuples :
  tuples 3 sample3 = [[0;5;5]; [1;0;9]; [1;2;3]; [1;2;4]] /\
  tuples 9 sample9 = [[0;1;1;1;1;1;1;1;1]; [1;1;1;1;1;1;1;1;1]; [1;1;1;1;1;1;1;1;2]].
Proof. conj; vm_compute; reflexivity. Qed.

Lemma sample_insert_remove :
  option_map (fun p => (tuples 3 (fst p), snd p)) (pt_insert 3 sample3 [1;1;1]) =
    Some ([[0;5;5]; [1;0;9]; [1;1;1]; [1;2;3]; [1;2;4]], true) /\
  option_map (fun p => (tuples 3 (fst p), snd p)) (pt_insert 3 sample3 [1;2;3]) =
    Some ([[0;5;5]; [1;0;9]; [1;2;3]; [1;2;4]], false) /\
  option_map (fun p => (tuples 3 (fst p), snd p, pt_enc 3 (fst p))) (pt_remove 3 sample3 [0;5;5]) =
    Some ([[1;0;9]; [1;2;3]; [1;2;4]], true,
          [1; 1;1;1;0;0; 2; 1;2;2; 1;0;1;0;0; 0; 1; 1;9;1;0;0; 2; 1;3;2;0; 1;4;1;0;0]) /\
  option_map (fun p => (tuples 3 (fst p), snd p)) (pt_remove 3 sample3 [9;9;9]) =
    Some ([[0;5;5]; [1;0;9]; [1;2;3]; [1;2;4]], false).
Proof. conj; vm_compute; reflexivity. Qed.

Lemma sample_union_difference :
  tuples 3 (pt_union 3 sample3 sample3b) = [[0;5;5]; [1;0;9]; [1;2;3]; [1;2;4]; [2;2;2]] /\
  tuples 3 (pt_difference 3 sample3 sample3b) = [[0;5;5]; [1;0;9]; [1;2;3]] /\
  tuples 3 (pt_difference 3 sample3b sample3) = [[2;2;2]] /\
  pt_is_empty 3 (pt_difference 3 sample3 sample3) = true.
Proof. conj; vm_compute; reflexivity. Qed.

Lemma sample_get :
  option_map (tuples 2) (pt_get 2 sample3 1) = Some [[0;9]; [2;3]; [2;4]] /\
  restrict 1 (tuples 3 sample3) = [[0;9]; [2;3]; [2;4]] /\
  pt_get 2 sample3 4 = None /\ restrict 4 (tuples 3 sample3) = [] /\
  map (fun kr => (fst kr, tuples 2 (snd kr))) (pt_iter_restrictions 2 sample3) =
    [(0, [[5;5]]); (1, [[0;9]; [2;3]; [2;4]])].
Proof. conj; vm_compute; reflexivity. Qed.

Lemma sample_restrictions :
  option_map (tuples 3) (pt_insert_restriction 2 sample3 0 sample2) =
    Some [[0;2;3]; [0;2;4]; [0;5;5]; [0;7;7]; [1;0;9]; [1;2;3]; [1;2;4]] /\
  option_map (tuples 3) (pt_remove_restriction 2 sample3 1 sample2) =
    Some [[0;5;5]; [1;0;9]] /\
  option_map (fun t => (tuples 3 t, pinv_b 3 t))
    (pt_remove_restriction 2 sample3 0 (ins_all 2 [[5;5]; [6;6]])) =
    Some ([[1;0;9]; [1;2;3]; [1;2;4]], true) /\
  option_map (fun t => (tuples 3 t, pinv_b 3 t)) (pt_insert_restriction 2 sample3 8 (pt_new 2)) =
    Some ([[0;5;5]; [1;0;9]; [1;2;3]; [1;2;4]], true).
Proof. conj; vm_compute; reflexivity. Qed.

Lemma sample_mapped :
  PInv 2 sample_map /\ Forall map_ok [Some sample_map; None; None] /\
  tuples 2 sample_map = [[0;7]; [1;4]; [1;5]] /\
  first_val sample_map 1 = Some 4 /\ first_val sample_map 2 = None /\
  (* first column through the map: 0 -> 7, 1 -> 4 *)
  option_map (fun t => (tuples 3 t, pinv_b 3 t)) (pt_mapped 3 sample3 [Some sample_map; None; None]) =
    Some ([[4;0;9]; [4;2;3]; [4;2;4]; [7;5;5]], true) /\
  (* second column through the map: 5 and 2 undefined -> those tuples are dropped, and the
     subtree of key 0 disappears with them *)
  option_map (fun t => (tuples 3 t, pinv_b 3 t)) (pt_mapped 3 sample3 [None; Some sample_map; None]) =
    Some ([[1;7;9]], true) /\
  mapped_spec [None; Some sample_map; None] (tuples 3 sample3) = [[1;7;9]] /\
  (* collisions are merged: third column 3 |-> 4, 4 |-> 4 *)
  option_map (tuples 3) (pt_mapped 3 sample3 [None; None; Some (mk_map2 [(3,4); (4,4); (5,5); (9,9)])]) =
    Some [[0;5;5]; [1;0;9]; [1;2;4]].
Proof.
  split; [apply pinv_b_ok; vm_compute; reflexivity|].
  split.
  { constructor; [apply pinv_b_ok; vm_compute; reflexivity|].
    constructor; [exact I|]. constructor; [exact I|]. constructor. }
  conj; vm_compute; reflexivity.
Qed.

Definition sample_ops : list op :=
  [Insert 0 [1;2]; InsertSub 0 [2]; Clone 0 1; RemoveRestriction 0 1 0; IsEmpty 0; Iter 1;
   GetClone 2 1 1; InsertSub 2 [9]; Iter 1].

Lemma sample_ops_wf : Forall (wf_op 2) sample_ops.
Proof. repeat constructor; discriminate. Qed.

(* the emptied tree reports is_empty, the clone taken before is untouched, and mutating the
   sub-tree cloned out of it does not change it either *)
Lemma sample_run :
  map (fun o : out => fst (fst o)) (run_ops 2 sample_ops) =
    [Some [[1]]; Some [[1]]; Some []; Some []; Some [[1]]; Some [[1;2]]; Some [[1]]; Some [[1]];
     Some [[1;2]]].
Proof. vm_compute. reflexivity. Qed.

Lemma sample_persistence :
  target_m (Insert 0 [5;5]) <> Some 1 /\
  let f := fold_left (step (pt_ops 2) (pt_ops 1) (Some (pt_rops 1))) [Insert 1 [3;4]]
                     (init_fam (pt_ops 2) (pt_ops 1)) in
  tuples 2 (get_m (pt_ops 2) (step (pt_ops 2) (pt_ops 1) (Some (pt_rops 1)) f (Insert 0 [5;5])) 1)
    = [[3;4]].
Proof. split; [discriminate|vm_compute; reflexivity]. Qed.

Lemma sample_snapshot_hyps :
  (N.to_nat 1 < length (mains (init_fam (pt_ops 2) (pt_ops 1))))%nat /\
  Forall (fun o => target_m o <> Some 1) [Insert 0 [5;6]; RemoveRestriction 0 5 0; Clear 0; InsertSub 1 [6]] /\
  tuples 2 (get_m (pt_ops 2)
     (fold_left (step (pt_ops 2) (pt_ops 1) (Some (pt_rops 1)))
        [Insert 0 [7;7]; Clone 0 1; Insert 0 [5;6]; Clear 0] (init_fam (pt_ops 2) (pt_ops 1))) 1)
  = [[7;7]].
Proof.
  split; [cbn; lia|]. split; [repeat constructor; discriminate|vm_compute; reflexivity].
Qed.
