(* PTree/Regress.v -- regression witnesses (NOT imported by Props_C08.v): the versions of
   `remove_restriction` / `insert_restriction` that prefix_tree.rs had before the repair
   (no prune of an emptied subtree / no skip of an empty restriction), and the concrete runs on
   which they break the invariant:  {(1,2)}.remove_restriction(1, {2})  leaves the key 1 mapped
   to an empty subtree, so the tree has no tuples but is_empty() answers false. *)

From Coq Require Import NArith List Bool.
From PTree Require Import WBT_Model WBT_Spec Model Spec FactsLex FactsMap FactsLevel FactsBase FactsOps
  FactsExamples.
Import ListNotations.
Open Scope N_scope.

Section Old.
Context {V : Type} (sub : ops V).

(* prefix_tree.rs before the repair: no `if occupied_entry.get_mut().is_empty() { remove }` *)
Definition remove_restriction_lvl_old (m : wbmap V) (el0 : N) (restriction : V) : option (wbmap V) :=
  match entry_of el0 m with
  | Occupied key m0 =>
    match occ_get_mut key m0 with
    | None => None
    | Some (m1, v) =>
      match occ_get_mut key m1 with
      | None => None
      | Some (m2, _) => Some (modify key (fun _ => o_difference sub v restriction) m2)
      end
    end
  | Vacant _ _ => Some m
  end.

(* prefix_tree.rs before the repair: no `if restriction.is_empty() { return; }` *)
Definition insert_restriction_lvl_old (m : wbmap V) (el0 : N) (restriction : V) : option (wbmap V) :=
  match entry_of el0 m with
  | Occupied key m0 =>
    match occ_get_mut key m0 with
    | None => None
    | Some (m1, v) =>
      match occ_get_mut key m1 with
      | None => None
      | Some (m2, _) => Some (modify key (fun _ => o_union sub v restriction) m2)
      end
    end
  | Vacant key m0 =>
    match vac_insert key m0 restriction with
    | None => None
    | Some (m1, _) => Some m1
    end
  end.

End Old.

Definition t12 : ptree 2 := ins_all 2 [[1;2]].
Definition r2 : ptree 1 := ins_all 1 [[2]].

Example regress_inputs_ok : PInv 2 t12 /\ PInv 1 r2 /\ PInv 1 (pt_new 1).
Proof. conj; apply pinv_b_ok; vm_compute; reflexivity. Qed.

(* old remove_restriction: no tuples left, yet is_empty = false and an empty subtree is stored *)
Example old_remove_restriction_observed :
  option_map (fun t' => (tuples 2 t', pt_is_empty 2 t', pinv_b 2 t', pt_enc 2 t'))
             (remove_restriction_lvl_old (pt_ops 1) t12 1 r2)
  = Some ([], false, false, [1; 1;1;1;0;0; 0;0]).
Proof. vm_compute. reflexivity. Qed.

Example old_remove_restriction_breaks_PInv :
  forall t', remove_restriction_lvl_old (pt_ops 1) t12 1 r2 = Some t' ->
             ~ PInv 2 t' /\ ~ (pt_is_empty 2 t' = true <-> tuples 2 t' = []).
Proof.
  intros t' H. assert (Hobs : tuples 2 t' = [] /\ pt_is_empty 2 t' = false).
  { vm_compute in H. injection H as <-. split; vm_compute; reflexivity. }
  destruct Hobs as (Ht & He).
  assert (Hn : ~ (pt_is_empty 2 t' = true <-> tuples 2 t' = [])).
  { intros (_ & Hb). rewrite (Hb Ht) in He. discriminate. }
  split; [|exact Hn]. intros Hp. apply Hn. apply pt_is_empty_spec, Hp.
Qed.

(* the repaired method on the same input *)
Example new_remove_restriction_observed :
  option_map (fun t' => (tuples 2 t', pt_is_empty 2 t', pinv_b 2 t', pt_enc 2 t'))
             (pt_remove_restriction 1 t12 1 r2)
  = Some ([], true, true, [0; 0]).
Proof. vm_compute. reflexivity. Qed.

(* old insert_restriction with an empty restriction stores the empty subtree *)
Example old_insert_restriction_observed :
  option_map (fun t' => (tuples 2 t', pt_is_empty 2 t', pinv_b 2 t', pt_enc 2 t'))
             (insert_restriction_lvl_old (pt_ops 1) (pt_new 2) 1 (pt_new 1))
  = Some ([], false, false, [1; 1;1;1;0;0; 0;0]).
Proof. vm_compute. reflexivity. Qed.

Example old_insert_restriction_breaks_PInv :
  forall t', insert_restriction_lvl_old (pt_ops 1) (pt_new 2) 1 (pt_new 1) = Some t' ->
             ~ PInv 2 t' /\ ~ (pt_is_empty 2 t' = true <-> tuples 2 t' = []).
Proof.
  intros t' H. assert (Hobs : tuples 2 t' = [] /\ pt_is_empty 2 t' = false).
  { vm_compute in H. injection H as <-. split; vm_compute; reflexivity. }
  destruct Hobs as (Ht & He).
  assert (Hn : ~ (pt_is_empty 2 t' = true <-> tuples 2 t' = [])).
  { intros (_ & Hb). rewrite (Hb Ht) in He. discriminate. }
  split; [|exact Hn]. intros Hp. apply Hn. apply pt_is_empty_spec, Hp.
Qed.

Example new_insert_restriction_observed :
  option_map (fun t' => (tuples 2 t', pt_is_empty 2 t', pinv_b 2 t', pt_enc 2 t'))
             (pt_insert_restriction 1 (pt_new 2) 1 (pt_new 1))
  = Some ([], true, true, [0; 0]).
Proof. vm_compute. reflexivity. Qed.
