(* PTree/WBT_FactsOrder.v -- COPY of coq/WBT/FactsOrder.v (property C14's library).  Content unchanged except
   (1) this three-line header and (2) every line `From WBT Require Import A B ...` reads
   `From PTree Require Import WBT_A WBT_B ...`.  checks/c08.py re-derives this file from the original and compares sha256.  DO NOT EDIT. *)
(* WBT/FactsOrder.v -- in-order contents of every operation (refinement to association
   lists), search-tree order, and totality (enough fuel, no panics) of join/split/union/
   difference.  Nothing here depends on balance. *)

From Coq Require Import NArith List Lia Bool Arith.
From PTree Require Import WBT_Model WBT_Spec WBT_FactsList WBT_FactsBalance.
Import ListNotations.
Open Scope N_scope.

Section OrderFacts.
Context {V : Type}.
Implicit Types (t l r : tree V) (k key : N) (v : V).

Definition optl (key : N) (fv : option V) : list (N * V) :=
  match fv with Some v => [(key, v)] | None => [] end.

Lemma bst_node_iff s l k v r :
  bst (T s l k v r) <->
  bst l /\ bst r /\ keys_lt (inorder l) k /\ keys_gt (inorder r) k.
Proof. unfold bst. cbn [inorder]. apply ssorted_mid. Qed.

Lemma bst_E : bst (@E V).
Proof. exact I. Qed.

(* ---------- rotations and balance do not change the contents ---------- *)

Lemma inorder_node l k v r : inorder (node l k v r) = inorder l ++ (k, v) :: inorder r.
Proof. reflexivity. Qed.

Lemma inorder_rotate_left t : inorder (rotate_left t) = inorder t.
Proof.
  destruct t as [|s l k v r]; [reflexivity|].
  destruct r as [|rs rl rk rv rr]; [reflexivity|].
  cbn [rotate_left node inorder]. rewrite <- app_assoc. reflexivity.
Qed.

Lemma inorder_rotate_right t : inorder (rotate_right t) = inorder t.
Proof.
  destruct t as [|s l k v r]; [reflexivity|].
  destruct l as [|ls ll lk lv lr]; [reflexivity|].
  cbn [rotate_right node inorder]. rewrite <- app_assoc. reflexivity.
Qed.

Lemma inorder_balance t : inorder (balance t) = inorder t.
Proof.
  destruct t as [|s l k v r]; [reflexivity|].
  unfold balance.
  destruct (size l + size r <? 2); [reflexivity|].
  destruct (DELTA * (size l + 1) <? size r + 1).
  - destruct r as [|rs rl rk rv rr]; [reflexivity|].
    destruct (size rl + 1 <? GAMMA * (size rr + 1)).
    + apply inorder_rotate_left.
    + rewrite inorder_rotate_left. cbn [inorder]. rewrite inorder_rotate_right. reflexivity.
  - destruct (DELTA * (size r + 1) <? size l + 1); [|reflexivity].
    destruct l as [|ls ll lk lv lr]; [reflexivity|].
    destruct (size lr + 1 <? GAMMA * (size ll + 1)).
    + apply inorder_rotate_right.
    + rewrite inorder_rotate_right. cbn [inorder]. rewrite inorder_rotate_left. reflexivity.
Qed.

Opaque balance.

(* ---------- get ---------- *)

Lemma get_t_assoc key t : bst t -> get_t key t = assoc key (inorder t).
Proof.
  induction t as [|s l IHl k v r IHr]; intros Bt; [reflexivity|].
  apply bst_node_iff in Bt. destruct Bt as (Bl & Br & Hl & Hg).
  cbn [get_t inorder]. rewrite assoc_mid by assumption.
  destruct (key ?= k); [reflexivity|apply IHl, Bl|apply IHr, Br].
Qed.

(* ---------- insert ---------- *)

Lemma insert_simple_inorder t key value :
  bst t ->
  inorder (fst (insert_simple t key value)) = assoc_insert key value (inorder t) /\
  snd (insert_simple t key value) = assoc key (inorder t).
Proof.
  induction t as [|s l IHl k v r IHr]; intros Bt.
  - cbn. split; reflexivity.
  - apply bst_node_iff in Bt. destruct Bt as (Bl & Br & Hl & Hg).
    cbn [insert_simple inorder].
    cmp_spec key k Hc.
    + subst k. cbn [fst snd inorder].
      rewrite assoc_insert_app_eq by assumption. rewrite assoc_mid_eq by assumption.
      split; reflexivity.
    + destruct (IHl Bl) as (Il & Ol). clear IHl IHr.
      destruct (insert_simple l key value) as [l' old]. cbn [fst snd] in *.
      rewrite assoc_insert_app_lt by assumption. rewrite assoc_mid_lt by assumption.
      split; [|exact Ol].
      destruct old; rewrite ?inorder_balance, inorder_node, Il; reflexivity.
    + destruct (IHr Br) as (Ir & Or). clear IHl IHr.
      destruct (insert_simple r key value) as [r' old]. cbn [fst snd] in *.
      rewrite assoc_insert_app_gt by assumption. rewrite assoc_mid_gt by assumption.
      split; [|exact Or].
      destruct old; rewrite ?inorder_balance, inorder_node, Ir; reflexivity.
Qed.

(* ---------- remove ---------- *)

Lemma remove_min_inorder l k v r :
  (fst (fst (remove_min l k v r)), snd (fst (remove_min l k v r)))
    :: inorder (snd (remove_min l k v r)) = inorder l ++ (k, v) :: inorder r.
Proof.
  revert k v r. induction l as [|s ll IHll lk lv lr IHlr]; intros k v r.
  - reflexivity.
  - cbn [remove_min]. specialize (IHll lk lv lr). clear IHlr.
    destruct (remove_min ll lk lv lr) as [[mk mv] l']. cbn [fst snd] in *.
    rewrite inorder_balance, inorder_node. cbn [inorder].
    rewrite <- IHll. reflexivity.
Qed.

(* the `expect`s inside remove_existing_node cannot fire when get finds the key *)
Lemma remove_existing_node_total t key value :
  get_t key t = Some value -> exists t', remove_existing_node t key = Some (t', value).
Proof.
  induction t as [|s l IHl k v r IHr]; intros Hget; [discriminate|].
  cbn [get_t] in Hget. cbn [remove_existing_node].
  destruct (key ?= k).
  - injection Hget as <-. eexists. reflexivity.
  - destruct (IHl Hget) as (l' & ->). eexists. reflexivity.
  - destruct (IHr Hget) as (r' & ->). eexists. reflexivity.
Qed.

Lemma remove_existing_node_inorder t key t' value :
  bst t -> remove_existing_node t key = Some (t', value) ->
  inorder t' = assoc_remove key (inorder t) /\ assoc key (inorder t) = Some value.
Proof.
  revert t' value. induction t as [|s l IHl k v r IHr]; intros t' value Bt Hrem.
  - discriminate.
  - apply bst_node_iff in Bt. destruct Bt as (Bl & Br & Hl & Hg).
    cbn [remove_existing_node] in Hrem. cbn [inorder].
    rewrite assoc_remove_mid.
    cmp_spec key k Hc.
    + subst k. rewrite N.eqb_refl. rewrite assoc_mid_eq by assumption.
      rewrite (assoc_remove_id_lt key (inorder l) key Hl) by lia.
      rewrite (assoc_remove_id_gt key (inorder r) key Hg) by lia.
      cbn [app].
      assert (Hv : v = value) by (injection Hrem; auto).
      assert (Ht : t' = match l, r with
                         | E, E => E
                         | _, E => l
                         | E, _ => r
                         | _, T _ rl rk rv rr =>
                           let '(mk, mv, r') := remove_min rl rk rv rr in
                           balance (node l mk mv r')
                         end) by (injection Hrem; auto).
      subst value. split; [|reflexivity]. clear Hrem.
      destruct l as [|ls ll lk lv lr]; destruct r as [|rs rl rk rv rr]; subst t'.
      * reflexivity.
      * reflexivity.
      * cbn [inorder]. rewrite app_nil_r. reflexivity.
      * pose proof (remove_min_inorder rl rk rv rr) as Hm.
        destruct (remove_min rl rk rv rr) as [[mk mv] r']. cbn [fst snd] in Hm.
        rewrite inorder_balance, inorder_node. rewrite Hm. reflexivity.
    + assert (Hne : (k =? key) = false) by (apply N.eqb_neq; lia). rewrite Hne.
      rewrite (assoc_remove_id_gt key (inorder r) k Hg) by lia.
      rewrite assoc_mid_lt by assumption.
      destruct (remove_existing_node l key) as [[l' value']|] eqn:El; [|discriminate].
      destruct (IHl l' value' Bl eq_refl) as (Il & Al).
      assert (Ht : t' = balance (node l' k v r)) by (injection Hrem; auto).
      assert (Hv : value' = value) by (injection Hrem; auto).
      subst t' value'. split; [|exact Al].
      rewrite inorder_balance, inorder_node, Il. reflexivity.
    + assert (Hne : (k =? key) = false) by (apply N.eqb_neq; lia). rewrite Hne.
      rewrite (assoc_remove_id_lt key (inorder l) k Hl) by lia.
      rewrite assoc_mid_gt by assumption.
      destruct (remove_existing_node r key) as [[r' value']|] eqn:Er; [|discriminate].
      destruct (IHr r' value' Br eq_refl) as (Ir & Ar).
      assert (Ht : t' = balance (node l k v r')) by (injection Hrem; auto).
      assert (Hv : value' = value) by (injection Hrem; auto).
      subst t' value'. split; [|exact Ar].
      rewrite inorder_balance, inorder_node, Ir. reflexivity.
Qed.

(* ---------- join ---------- *)

Lemma join_f_inorder fuel l key value r t :
  join_f fuel l key value r = Some t -> inorder t = inorder l ++ (key, value) :: inorder r.
Proof.
  revert l r t. induction fuel as [|f IH]; intros l r t Hj; [discriminate|].
  cbn [join_f] in Hj.
  destruct (DELTA * size l <? size r).
  - destruct r as [|rs rl rk rv rr]; [discriminate|].
    destruct (join_f f l key value rl) as [nl|] eqn:Ej; [|discriminate].
    injection Hj as <-. rewrite inorder_balance, inorder_node, (IH _ _ _ Ej).
    cbn [inorder]. rewrite <- app_assoc. reflexivity.
  - destruct (DELTA * size r <? size l).
    + destruct l as [|ls ll lk lv lr]; [discriminate|].
      destruct (join_f f lr key value r) as [nr|] eqn:Ej; [|discriminate].
      injection Hj as <-. rewrite inorder_balance, inorder_node, (IH _ _ _ Ej).
      cbn [inorder]. rewrite <- app_assoc. reflexivity.
    + injection Hj as <-. rewrite inorder_balance. reflexivity.
Qed.

Lemma join_inorder l key value r t :
  join l key value r = Some t -> inorder t = inorder l ++ (key, value) :: inorder r.
Proof. apply join_f_inorder. Qed.

(* enough fuel, and the two unreachable!() arms really are unreachable -- unconditionally *)
Lemma join_f_total fuel l key value r :
  (card l + card r < fuel)%nat -> exists t, join_f fuel l key value r = Some t.
Proof.
  revert l r. induction fuel as [|f IH]; intros l r Hf; [lia|].
  cbn [join_f]. unfold DELTA.
  destruct (N.ltb_spec (3 * size l) (size r)) as [H1|H1].
  - destruct r as [|rs rl rk rv rr]; [cbn [size] in H1; lia|].
    cbn [card] in Hf. destruct (IH l rl) as (nl & ->); [lia|]. eexists. reflexivity.
  - destruct (N.ltb_spec (3 * size r) (size l)) as [H2|H2].
    + destruct l as [|ls ll lk lv lr]; [cbn [size] in H2; lia|].
      cbn [card] in Hf. destruct (IH lr r) as (nr & ->); [lia|]. eexists. reflexivity.
    + eexists. reflexivity.
Qed.

Lemma join_total l key value r : exists t, join l key value r = Some t.
Proof. apply join_f_total. lia. Qed.

(* ---------- split ---------- *)

Lemma split_total t key : exists a fv b, split t key = Some (a, fv, b).
Proof.
  induction t as [|s l IHl k v r IHr]; cbn [split].
  - do 3 eexists. reflexivity.
  - destruct (key ?= k).
    + do 3 eexists. reflexivity.
    + destruct IHl as (nl & fo & nr & ->).
      destruct (join_total nr k v r) as (jr & ->). do 3 eexists. reflexivity.
    + destruct IHr as (nl & fo & nr & ->).
      destruct (join_total l k v nl) as (jl & ->). do 3 eexists. reflexivity.
Qed.

Lemma split_inorder t key a fv b :
  split t key = Some (a, fv, b) -> inorder t = inorder a ++ optl key fv ++ inorder b.
Proof.
  revert a fv b. induction t as [|s l IHl k v r IHr]; intros a fv b Hs; cbn [split] in Hs.
  - injection Hs as <- <- <-. reflexivity.
  - cmp_spec key k Hc.
    + subst k. injection Hs as <- <- <-. reflexivity.
    + destruct (split l key) as [[[nl fo] nr]|] eqn:El; [|discriminate].
      destruct (join nr k v r) as [jr|] eqn:Ej; [|discriminate].
      injection Hs as <- <- <-.
      cbn [inorder]. rewrite (IHl _ _ _ eq_refl), (join_inorder _ _ _ _ _ Ej).
      rewrite <- !app_assoc. reflexivity.
    + destruct (split r key) as [[[nl fo] nr]|] eqn:Er; [|discriminate].
      destruct (join l k v nl) as [jl|] eqn:Ej; [|discriminate].
      injection Hs as <- <- <-.
      cbn [inorder]. rewrite (IHr _ _ _ eq_refl), (join_inorder _ _ _ _ _ Ej).
      rewrite <- !app_assoc. reflexivity.
Qed.

Lemma split_bounds t key a fv b :
  bst t -> split t key = Some (a, fv, b) ->
  keys_lt (inorder a) key /\ keys_gt (inorder b) key.
Proof.
  revert a fv b. induction t as [|s l IHl k v r IHr]; intros a fv b Bt Hs; cbn [split] in Hs.
  - injection Hs as <- <- <-. split; constructor.
  - apply bst_node_iff in Bt. destruct Bt as (Bl & Br & Hl & Hg).
    cmp_spec key k Hc.
    + subst k. injection Hs as <- <- <-. split; assumption.
    + destruct (split l key) as [[[nl fo] nr]|] eqn:El; [|discriminate].
      destruct (join nr k v r) as [jr|] eqn:Ej; [|discriminate].
      injection Hs as <- <- <-.
      destruct (IHl _ _ _ Bl eq_refl) as (H1 & H2). split; [exact H1|].
      rewrite (join_inorder _ _ _ _ _ Ej). apply keys_gt_mid.
      split; [exact H2|]. split; [exact Hc|]. eapply keys_gt_le; [exact Hg|lia].
    + destruct (split r key) as [[[nl fo] nr]|] eqn:Er; [|discriminate].
      destruct (join l k v nl) as [jl|] eqn:Ej; [|discriminate].
      injection Hs as <- <- <-.
      destruct (IHr _ _ _ Br eq_refl) as (H1 & H2). split; [|exact H2].
      rewrite (join_inorder _ _ _ _ _ Ej). apply keys_lt_mid.
      split; [eapply keys_lt_le; [exact Hl|lia]|]. split; [exact Hc|exact H1].
Qed.

Lemma split_bst t key a fv b :
  bst t -> split t key = Some (a, fv, b) -> bst a /\ bst b.
Proof.
  intros Bt Hs. unfold bst in *. rewrite (split_inorder _ _ _ _ _ Hs) in Bt.
  apply ssorted_app in Bt. destruct Bt as (Ba & Bt).
  apply ssorted_app in Bt. destruct Bt as (_ & Bb). split; assumption.
Qed.

Lemma split_assoc t key a fv b :
  bst t -> split t key = Some (a, fv, b) ->
  forall key', assoc key' (inorder t) =
    match key' ?= key with
    | Lt => assoc key' (inorder a)
    | Eq => fv
    | Gt => assoc key' (inorder b)
    end.
Proof.
  intros Bt Hs key'. destruct (split_bounds _ _ _ _ _ Bt Hs) as (Hl & Hg).
  rewrite (split_inorder _ _ _ _ _ Hs).
  destruct fv as [v|]; cbn [optl app].
  - apply assoc_mid; assumption.
  - apply assoc_app_pivot; assumption.
Qed.

Lemma split_card t key a fv b :
  split t key = Some (a, fv, b) -> (card a + card b <= card t)%nat.
Proof.
  intros Hs. rewrite !card_inorder, (split_inorder _ _ _ _ _ Hs), !app_length. lia.
Qed.

(* ---------- union ---------- *)

Lemma union_f_total fuel (f : N -> V -> V -> V) l r :
  (card l + card r < fuel)%nat -> exists t, union_f fuel f l r = Some t.
Proof.
  revert l r. induction fuel as [|fu IH]; intros l r Hf; [lia|].
  cbn [union_f].
  destruct l as [|ls ll lk lv lr]; destruct r as [|rs rl rk rv rr];
    try (eexists; reflexivity).
  cbn [card] in Hf.
  destruct (rs <=? ls).
  - destruct (split_total (T rs rl rk rv rr) lk) as (r1 & rvo & r2 & Es). rewrite Es.
    apply split_card in Es. cbn [card] in Es.
    destruct (IH ll r1) as (nl & ->); [lia|].
    destruct (IH lr r2) as (nr & ->); [lia|].
    apply join_total.
  - destruct (split_total (T ls ll lk lv lr) rk) as (l1 & lvo & l2 & Es). rewrite Es.
    apply split_card in Es. cbn [card] in Es.
    destruct (IH l1 rl) as (nl & ->); [lia|].
    destruct (IH l2 rr) as (nr & ->); [lia|].
    apply join_total.
Qed.

Lemma union_t_total (f : N -> V -> V -> V) l r : exists t, union_t f l r = Some t.
Proof. apply union_f_total. lia. Qed.

Lemma union_law_none_r (f : N -> V -> V -> V) key (o : option V) : union_law f key o None = o.
Proof. destruct o; reflexivity. Qed.
Lemma union_law_none_l (f : N -> V -> V -> V) key (o : option V) : union_law f key None o = o.
Proof. destruct o; reflexivity. Qed.

Lemma union_f_spec fuel (f : N -> V -> V -> V) l r t :
  bst l -> bst r -> union_f fuel f l r = Some t ->
  bst t /\
  forall key, assoc key (inorder t) =
              union_law f key (assoc key (inorder l)) (assoc key (inorder r)).
Proof.
  revert l r t. induction fuel as [|fu IH]; intros l r t Bl Br Hu; [discriminate|].
  cbn [union_f] in Hu.
  destruct l as [|ls ll lk lv lr]; destruct r as [|rs rl rk rv rr].
  - injection Hu as <-. split; [exact I|]. intros key. reflexivity.
  - injection Hu as <-. split; [exact Br|]. intros key.
    cbn [inorder assoc]. rewrite union_law_none_l. reflexivity.
  - injection Hu as <-. split; [exact Bl|]. intros key.
    cbn [inorder assoc]. rewrite union_law_none_r. reflexivity.
  - destruct (rs <=? ls).
    + (* left tree is the base *)
      destruct (split (T rs rl rk rv rr) lk) as [[[r1 rvo] r2]|] eqn:Es; [|discriminate].
      destruct (split_bst _ _ _ _ _ Br Es) as (Br1 & Br2).
      destruct (split_bounds _ _ _ _ _ Br Es) as (Hr1 & Hr2).
      pose proof (split_assoc _ _ _ _ _ Br Es) as Hview.
      apply bst_node_iff in Bl. destruct Bl as (Bll & Blr & Hll & Hlr).
      destruct (union_f fu f ll r1) as [nl|] eqn:E1; [|discriminate].
      destruct (union_f fu f lr r2) as [nr|] eqn:E2; [|discriminate].
      destruct (IH _ _ _ Bll Br1 E1) as (Bnl & Lnl).
      destruct (IH _ _ _ Blr Br2 E2) as (Bnr & Lnr).
      pose proof (join_inorder _ _ _ _ _ Hu) as Ht.
      assert (Hnl : keys_lt (inorder nl) lk).
      { apply keys_lt_of_assoc; [exact Bnl|]. intros key w Hw. rewrite Lnl in Hw.
        apply union_law_some in Hw. destruct Hw as [(w' & Hw)|(w' & Hw)].
        - eapply assoc_some_keys_lt; [exact Hll|exact Hw].
        - eapply assoc_some_keys_lt; [exact Hr1|exact Hw]. }
      assert (Hnr : keys_gt (inorder nr) lk).
      { apply keys_gt_of_assoc; [exact Bnr|]. intros key w Hw. rewrite Lnr in Hw.
        apply union_law_some in Hw. destruct Hw as [(w' & Hw)|(w' & Hw)].
        - eapply assoc_some_keys_gt; [exact Hlr|exact Hw].
        - eapply assoc_some_keys_gt; [exact Hr2|exact Hw]. }
      split.
      * unfold bst. rewrite Ht. apply ssorted_mid. repeat split; assumption.
      * intros key. rewrite Ht, Hview. cbn [inorder].
        rewrite !assoc_mid by assumption.
        destruct (key ?= lk) eqn:Ec.
        -- apply N.compare_eq_iff in Ec. subst key. destruct rvo; reflexivity.
        -- apply Lnl.
        -- apply Lnr.
    + (* right tree is the base *)
      destruct (split (T ls ll lk lv lr) rk) as [[[l1 lvo] l2]|] eqn:Es; [|discriminate].
      destruct (split_bst _ _ _ _ _ Bl Es) as (Bl1 & Bl2).
      destruct (split_bounds _ _ _ _ _ Bl Es) as (Hl1 & Hl2).
      pose proof (split_assoc _ _ _ _ _ Bl Es) as Hview.
      apply bst_node_iff in Br. destruct Br as (Brl & Brr & Hrl & Hrr).
      destruct (union_f fu f l1 rl) as [nl|] eqn:E1; [|discriminate].
      destruct (union_f fu f l2 rr) as [nr|] eqn:E2; [|discriminate].
      destruct (IH _ _ _ Bl1 Brl E1) as (Bnl & Lnl).
      destruct (IH _ _ _ Bl2 Brr E2) as (Bnr & Lnr).
      pose proof (join_inorder _ _ _ _ _ Hu) as Ht.
      assert (Hnl : keys_lt (inorder nl) rk).
      { apply keys_lt_of_assoc; [exact Bnl|]. intros key w Hw. rewrite Lnl in Hw.
        apply union_law_some in Hw. destruct Hw as [(w' & Hw)|(w' & Hw)].
        - eapply assoc_some_keys_lt; [exact Hl1|exact Hw].
        - eapply assoc_some_keys_lt; [exact Hrl|exact Hw]. }
      assert (Hnr : keys_gt (inorder nr) rk).
      { apply keys_gt_of_assoc; [exact Bnr|]. intros key w Hw. rewrite Lnr in Hw.
        apply union_law_some in Hw. destruct Hw as [(w' & Hw)|(w' & Hw)].
        - eapply assoc_some_keys_gt; [exact Hl2|exact Hw].
        - eapply assoc_some_keys_gt; [exact Hrr|exact Hw]. }
      split.
      * unfold bst. rewrite Ht. apply ssorted_mid. repeat split; assumption.
      * intros key. rewrite Ht, Hview. cbn [inorder].
        rewrite !assoc_mid by assumption.
        destruct (key ?= rk) eqn:Ec.
        -- apply N.compare_eq_iff in Ec. subst key. destruct lvo; reflexivity.
        -- apply Lnl.
        -- apply Lnr.
Qed.

(* ---------- difference ---------- *)

Lemma join_without_key_inorder l r t :
  join_without_key l r = Some t -> inorder t = inorder l ++ inorder r.
Proof.
  unfold join_without_key. destruct r as [|rs rl rk rv rr]; [discriminate|].
  pose proof (remove_min_inorder rl rk rv rr) as Hm.
  destruct (remove_min rl rk rv rr) as [[mk mv] r']. cbn [fst snd] in Hm.
  intros Hj. rewrite (join_inorder _ _ _ _ _ Hj). cbn [inorder]. rewrite Hm. reflexivity.
Qed.

Lemma join_without_key_total l rs rl rk rv rr :
  exists t, join_without_key l (T rs rl rk rv rr) = Some t.
Proof.
  unfold join_without_key. destruct (remove_min rl rk rv rr) as [[mk mv] r'].
  apply join_total.
Qed.

Lemma difference_f_total fuel (g : N -> V -> V -> option V) l r :
  (card l + card r < fuel)%nat -> exists t, difference_f fuel g l r = Some t.
Proof.
  revert l r. induction fuel as [|fu IH]; intros l r Hf; [lia|].
  cbn [difference_f].
  destruct l as [|ls ll lk lv lr]; [eexists; reflexivity|].
  destruct r as [|rs rl rk rv rr]; [eexists; reflexivity|].
  cbn [card] in Hf.
  destruct (split_total (T rs rl rk rv rr) lk) as (r1 & rvo & r2 & Es). rewrite Es.
  apply split_card in Es. cbn [card] in Es.
  destruct (IH ll r1) as (nl & ->); [lia|].
  destruct (IH lr r2) as (nr & ->); [lia|].
  destruct rvo as [rv'|]; [|apply join_total].
  destruct (g lk lv rv'); [apply join_total|].
  destruct nl as [|s1 a1 k1 v1 b1]; destruct nr as [|s2 a2 k2 v2 b2];
    try (eexists; reflexivity).
  apply join_without_key_total.
Qed.

Lemma difference_t_total (g : N -> V -> V -> option V) l r :
  exists t, difference_t g l r = Some t.
Proof. apply difference_f_total. lia. Qed.

Lemma difference_f_spec fuel (g : N -> V -> V -> option V) l r t :
  bst l -> bst r -> difference_f fuel g l r = Some t ->
  bst t /\
  forall key, assoc key (inorder t) =
              difference_law g key (assoc key (inorder l)) (assoc key (inorder r)).
Proof.
  revert l r t. induction fuel as [|fu IH]; intros l r t Bl Br Hd; [discriminate|].
  cbn [difference_f] in Hd.
  destruct l as [|ls ll lk lv lr].
  { injection Hd as <-. split; [exact I|]. intros key. reflexivity. }
  destruct r as [|rs rl rk rv rr].
  { injection Hd as <-. split; [exact Bl|]. intros key. cbn [inorder assoc].
    unfold difference_law. destruct (assoc key (inorder ll ++ (lk, lv) :: inorder lr)); reflexivity. }
  destruct (split (T rs rl rk rv rr) lk) as [[[r1 rvo] r2]|] eqn:Es; [|discriminate].
  destruct (split_bst _ _ _ _ _ Br Es) as (Br1 & Br2).
  destruct (split_bounds _ _ _ _ _ Br Es) as (Hr1 & Hr2).
  pose proof (split_assoc _ _ _ _ _ Br Es) as Hview.
  apply bst_node_iff in Bl. destruct Bl as (Bll & Blr & Hll & Hlr).
  destruct (difference_f fu g ll r1) as [nl|] eqn:E1; [|discriminate].
  destruct (difference_f fu g lr r2) as [nr|] eqn:E2; [|discriminate].
  destruct (IH _ _ _ Bll Br1 E1) as (Bnl & Lnl).
  destruct (IH _ _ _ Blr Br2 E2) as (Bnr & Lnr).
  assert (Hnl : keys_lt (inorder nl) lk).
  { apply keys_lt_of_assoc; [exact Bnl|]. intros key w Hw. rewrite Lnl in Hw.
    apply difference_law_some in Hw. destruct Hw as (w' & Hw).
    eapply assoc_some_keys_lt; [exact Hll|exact Hw]. }
  assert (Hnr : keys_gt (inorder nr) lk).
  { apply keys_gt_of_assoc; [exact Bnr|]. intros key w Hw. rewrite Lnr in Hw.
    apply difference_law_some in Hw. destruct Hw as (w' & Hw).
    eapply assoc_some_keys_gt; [exact Hlr|exact Hw]. }
  (* the two possible outcomes: key kept with some value nv, or key dropped *)
  assert (Hkeep : forall nv,
             inorder t = inorder nl ++ (lk, nv) :: inorder nr ->
             difference_law g lk (Some lv) rvo = Some nv ->
             bst t /\
             forall key, assoc key (inorder t) =
               difference_law g key (assoc key (inorder (T ls ll lk lv lr)))
                                     (assoc key (inorder (T rs rl rk rv rr)))).
  { intros nv Ht Hlaw. split.
    - unfold bst. rewrite Ht. apply ssorted_mid. repeat split; assumption.
    - intros key. rewrite Ht, Hview. cbn [inorder].
      rewrite !assoc_mid by assumption.
      destruct (key ?= lk) eqn:Ec.
      + apply N.compare_eq_iff in Ec. subst key. symmetry. exact Hlaw.
      + apply Lnl.
      + apply Lnr. }
  assert (Hdrop :
             inorder t = inorder nl ++ inorder nr ->
             difference_law g lk (Some lv) rvo = None ->
             bst t /\
             forall key, assoc key (inorder t) =
               difference_law g key (assoc key (inorder (T ls ll lk lv lr)))
                                     (assoc key (inorder (T rs rl rk rv rr)))).
  { intros Ht Hlaw. split.
    - unfold bst. rewrite Ht. apply (ssorted_app_intro _ _ lk); assumption.
    - intros key. rewrite Ht, Hview. cbn [inorder].
      rewrite (assoc_app_pivot key _ _ lk) by assumption.
      rewrite assoc_mid by assumption.
      destruct (key ?= lk) eqn:Ec.
      + apply N.compare_eq_iff in Ec. subst key. symmetry. exact Hlaw.
      + apply Lnl.
      + apply Lnr. }
  destruct rvo as [rv'|].
  - destruct (g lk lv rv') as [nv|] eqn:Eg.
    + apply (Hkeep nv); [apply (join_inorder _ _ _ _ _ Hd)|exact Eg].
    + apply Hdrop; [|exact Eg].
      destruct nl as [|s1 a1 k1 v1 b1]; destruct nr as [|s2 a2 k2 v2 b2].
      * injection Hd as <-. reflexivity.
      * injection Hd as <-. reflexivity.
      * injection Hd as <-. cbn [inorder]. rewrite app_nil_r. reflexivity.
      * apply (join_without_key_inorder _ _ _ Hd).
  - apply (Hkeep lv); [apply (join_inorder _ _ _ _ _ Hd)|reflexivity].
Qed.

(* ---------- value rewriting ---------- *)

Lemma inorder_map_values_t (f : N -> V -> V) t :
  inorder (map_values_t f t) = assoc_map_values f (inorder t).
Proof.
  unfold assoc_map_values.
  induction t as [|s l IHl k v r IHr]; cbn [map_values_t inorder]; [reflexivity|].
  rewrite map_app. cbn [map fst snd]. rewrite IHl, IHr. reflexivity.
Qed.

Lemma assoc_modify_id_lt key (f : V -> V) (a : list (N * V)) x :
  keys_lt a x -> x <= key -> assoc_modify key f a = a.
Proof.
  unfold assoc_modify. induction a as [|[k v] a IH]; intros Hl Hx; cbn [map fst snd]; [reflexivity|].
  apply keys_lt_cons in Hl. cbn [fst] in Hl. destruct Hl as (Hk & Hl).
  eqb_spec k key Hkk; [lia|]. rewrite IH; auto.
Qed.

Lemma assoc_modify_id_gt key (f : V -> V) (a : list (N * V)) x :
  keys_gt a x -> key <= x -> assoc_modify key f a = a.
Proof.
  unfold assoc_modify. induction a as [|[k v] a IH]; intros Hl Hx; cbn [map fst snd]; [reflexivity|].
  apply keys_gt_cons in Hl. cbn [fst] in Hl. destruct Hl as (Hk & Hl).
  eqb_spec k key Hkk; [lia|]. rewrite IH; auto.
Qed.

Lemma inorder_modify_t key (f : V -> V) t :
  bst t -> inorder (modify_t key f t) = assoc_modify key f (inorder t).
Proof.
  induction t as [|s l IHl k v r IHr]; intros Bt; [reflexivity|].
  apply bst_node_iff in Bt. destruct Bt as (Bl & Br & Hl & Hg).
  cbn [modify_t inorder].
  assert (Hmid : assoc_modify key f (inorder l ++ (k, v) :: inorder r) =
                 assoc_modify key f (inorder l)
                 ++ (if k =? key then (k, f v) else (k, v)) :: assoc_modify key f (inorder r)).
  { unfold assoc_modify. rewrite map_app. reflexivity. }
  rewrite Hmid. clear Hmid.
  cmp_spec key k Hc; cbn [inorder].
  - subst k. rewrite N.eqb_refl.
    rewrite (assoc_modify_id_lt key f _ key Hl) by lia.
    rewrite (assoc_modify_id_gt key f _ key Hg) by lia. reflexivity.
  - assert (Hne : (k =? key) = false) by (apply N.eqb_neq; lia). rewrite Hne.
    rewrite (assoc_modify_id_gt key f _ k Hg) by lia. rewrite (IHl Bl). reflexivity.
  - assert (Hne : (k =? key) = false) by (apply N.eqb_neq; lia). rewrite Hne.
    rewrite (assoc_modify_id_lt key f _ k Hl) by lia. rewrite (IHr Br). reflexivity.
Qed.

Transparent balance.

End OrderFacts.
