(* PTree/Run.v -- the operation language shared with harness/ptree-driver, and its interpreter
   over the model.  Definitions only (facts about them are in FactsRun.v).

   STATE.  A sequence fixes an arity n in 0..9.  Two families of 4 handles each, all initially
   empty:   mains 0..3 : PrefixTree<n>        subs 0..3 : PrefixTree<n-1>   (n = 0: PrefixTree0)
   The subs are the arguments of InsertRestriction / RemoveRestriction and the targets of
   GetClone.  Handle arguments must be in 0..3 (the driver rejects anything else; the model
   reads an out-of-range handle as the empty tree and ignores writes to it).  At arity 0 the
   ops Get, IterRestrictions, InsertRestriction, RemoveRestriction, GetClone do not exist
   (PrefixTree0 has no such methods): the model answers `None`, the driver `PANIC`.

   OPS (Coq constructor = driver opcode, see harness/ptree-driver/README.md); x is a tuple of
   the family's arity:
      0 Insert h x                 ret = bool   mains[h].insert(x)           (was new)
      1 Remove h x                 ret = bool   mains[h].remove(x)           (was present)
      2 Contains h x               ret = bool
      3 IsEmpty h                  ret = bool
      4 Clear h                    ret = unit
      5 Iter h                     ret = the tuples of mains[h].iter(), in order
      6 Get h k                    ret = [0] :: []  if mains[h].get(k) is None,
                                         [1] :: tuples of the restriction   otherwise
      7 IterRestrictions h         ret = for every (k, r) of mains[h].iter_restrictions(), in
                                         order:  [k; number of tuples of r] :: tuples of r
      8 Union dst a b              mains[dst] = mains[a].union(&mains[b])
      9 Difference dst a b         mains[dst] = mains[a].difference(&mains[b])
     10 InsertRestriction h k s    mains[h].insert_restriction(k, subs[s].clone())
     11 RemoveRestriction h k s    mains[h].remove_restriction(k, &subs[s])
     12 Mapped dst h maps          mains[dst] = mains[h].mapped(map0, .., map<n-1>);  maps is a
                                   list with one entry per column: None, or Some pairs; the
                                   PrefixTree2 is built by inserting the pairs [k, v] in order
                                   into PrefixTree2::new()
     13 Clone src dst              mains[dst] = mains[src].clone()
     14 GetClone sdst h k          if let Some(r) = mains[h].get(k) { subs[sdst] = r.clone() };
                                   ret = bool (was Some)
     15 InsertSub s x              ret = bool   subs[s].insert(x)      (x has arity n-1)
     16 RemoveSub s x              ret = bool   subs[s].remove(x)
   ret encoding (type `ret = option (list (list N))`): bool = [[0]] / [[1]], unit = [],
   `None` = the model hit a panic / out-of-fuel case (FactsRun.run_ops_no_error: impossible for
   well-formed sequences).

   OUTPUT.  run_ops n ops yields one `out` per op:
        out = (ret, [m0; m1; m2; m3], [s0; s1; s2; s3])
        m_i, s_i = Some hstate, or None if the observation of that handle is the same as in the
                   previous line (lossless delta encoding; the first line prints every handle)
        hstate = (is_empty, tuples in iteration order, enc)
        enc = structure with every len field and every tree shape, arity K:
              K = 0: [1] if Some(()) else [0]
              K = 1: set.len() :: shape(set)
              K >= 2: map.len() :: shape(map) ++ enc of every value, in key order
        shape = pre-order token list: empty subtree = [0];
                data node = 1 :: key :: cached_size :: shape left ++ shape right.
   An empty subtree left behind under a key shows up in enc as a value with len 0.
   TEXT FORMAT.  Printed by Coq (N_scope, ListNotations) an `out` looks like
        (Some [[1]], [Some (false, [[3; 4]], [1; 1; 3; 1; 0; 0; 1; 1; 4; 1; 0; 0]); None; ...], [...])
   The driver prints exactly this term with ALL whitespace removed, one line per op; so
   removing whitespace from Coq's answer to `Eval vm_compute in (run_ops n [...])`, i.e. from
   `= [o1; o2; ...] : list out`, gives "[" ++ join ";" driver_lines ++ "]".
   `run_ops_pre n pre ops` executes `pre` silently first; in the driver's input the pseudo-op
   `99` separates the silent prefix from the printed body. *)

From Coq Require Import NArith List Bool.
From PTree Require Import WBT_Model Model.
Import ListNotations.
Open Scope N_scope.

Inductive op : Type :=
| Insert (h : N) (x : tuple)
| Remove (h : N) (x : tuple)
| Contains (h : N) (x : tuple)
| IsEmpty (h : N)
| Clear (h : N)
| Iter (h : N)
| Get (h k : N)
| IterRestrictions (h : N)
| Union (dst a b : N)
| Difference (dst a b : N)
| InsertRestriction (h k s : N)
| RemoveRestriction (h k s : N)
| Mapped (dst h : N) (maps : list (option (list (N * N))))
| Clone (src dst : N)
| GetClone (sdst h k : N)
| InsertSub (s : N) (x : tuple)
| RemoveSub (s : N) (x : tuple).

(* the methods relating a tree to its restrictions; absent at arity 0 *)
Record rops (T S : Type) : Type := mk_rops {
  r_get : T -> N -> option S;
  r_iter_restrictions : T -> list (N * S);
  r_insert_restriction : T -> N -> S -> option T;
  r_remove_restriction : T -> N -> S -> option T
}.
Arguments r_get {T S} r.
Arguments r_iter_restrictions {T S} r.
Arguments r_insert_restriction {T S} r.
Arguments r_remove_restriction {T S} r.

Definition pt_rops (n : nat) : rops (ptree (S n)) (ptree n) := {|
  r_get := pt_get n;
  r_iter_restrictions := pt_iter_restrictions n;
  r_insert_restriction := pt_insert_restriction n;
  r_remove_restriction := pt_remove_restriction n
|}.

(* PrefixTree2 from pairs: insert [k, v] in order into new() *)
Definition mk_map2 (pairs : list (N * N)) : pt2 :=
  fold_left (fun (acc : pt2) (p : N * N) =>
               match o_insert (ops_lvl ops1) acc [fst p; snd p] with
               | Some (acc', _) => acc'
               | None => acc
               end) pairs empty.
Definition mk_maps (maps : list (option (list (N * N)))) : list (option pt2) :=
  map (fun o => match o with None => None | Some pairs => Some (mk_map2 pairs) end) maps.

Fixpoint set_nth {A} (n : nat) (x : A) (l : list A) {struct l} : list A :=
  match l with
  | [] => []
  | y :: tl => match n with O => x :: tl | S n' => y :: set_nth n' x tl end
  end.

Definition ret : Type := option (list (list N)).
Definition r_bool (b : bool) : ret := Some [[if b then 1 else 0]].
Definition r_unit : ret := Some [].
Definition r_error : ret := None.

Section Interp.
Context {T S : Type} (ot : ops T) (os : ops S) (ro : option (rops T S)).

Record fam : Type := mk_fam { mains : list T; subs : list S }.

Definition init_fam : fam :=
  mk_fam [o_new ot; o_new ot; o_new ot; o_new ot] [o_new os; o_new os; o_new os; o_new os].

Definition get_m (f : fam) (h : N) : T := nth (N.to_nat h) (mains f) (o_new ot).
Definition get_s (f : fam) (h : N) : S := nth (N.to_nat h) (subs f) (o_new os).
Definition set_m (f : fam) (h : N) (t : T) : fam :=
  mk_fam (set_nth (N.to_nat h) t (mains f)) (subs f).
Definition set_s (f : fam) (h : N) (s : S) : fam :=
  mk_fam (mains f) (set_nth (N.to_nat h) s (subs f)).

Definition enc_restrictions (l : list (N * S)) : list (list N) :=
  flat_map (fun kr => [fst kr; N.of_nat (length (o_iter os (snd kr)))] :: o_iter os (snd kr)) l.

Definition step_ret (f : fam) (o : op) : fam * ret :=
  match o with
  | Insert h x =>
    match o_insert ot (get_m f h) x with
    | Some (t', b) => (set_m f h t', r_bool b)
    | None => (f, r_error)
    end
  | Remove h x =>
    match o_remove ot (get_m f h) x with
    | Some (t', b) => (set_m f h t', r_bool b)
    | None => (f, r_error)
    end
  | Contains h x => (f, r_bool (o_contains ot (get_m f h) x))
  | IsEmpty h => (f, r_bool (o_is_empty ot (get_m f h)))
  | Clear h => (set_m f h (o_clear ot (get_m f h)), r_unit)
  | Iter h => (f, Some (o_iter ot (get_m f h)))
  | Get h k =>
    match ro with
    | None => (f, r_error)
    | Some r =>
      match r_get r (get_m f h) k with
      | None => (f, Some [[0]])
      | Some s => (f, Some ([1] :: o_iter os s))
      end
    end
  | IterRestrictions h =>
    match ro with
    | None => (f, r_error)
    | Some r => (f, Some (enc_restrictions (r_iter_restrictions r (get_m f h))))
    end
  | Union dst a b => (set_m f dst (o_union ot (get_m f a) (get_m f b)), r_unit)
  | Difference dst a b => (set_m f dst (o_difference ot (get_m f a) (get_m f b)), r_unit)
  | InsertRestriction h k s =>
    match ro with
    | None => (f, r_error)
    | Some r =>
      match r_insert_restriction r (get_m f h) k (get_s f s) with
      | Some t' => (set_m f h t', r_unit)
      | None => (f, r_error)
      end
    end
  | RemoveRestriction h k s =>
    match ro with
    | None => (f, r_error)
    | Some r =>
      match r_remove_restriction r (get_m f h) k (get_s f s) with
      | Some t' => (set_m f h t', r_unit)
      | None => (f, r_error)
      end
    end
  | Mapped dst h maps =>
    match o_mapped ot (get_m f h) (mk_maps maps) with
    | Some t' => (set_m f dst t', r_unit)
    | None => (f, r_error)
    end
  | Clone src dst => (set_m f dst (get_m f src), r_unit)
  | GetClone sdst h k =>
    match ro with
    | None => (f, r_error)
    | Some r =>
      match r_get r (get_m f h) k with
      | None => (f, r_bool false)
      | Some s => (set_s f sdst s, r_bool true)
      end
    end
  | InsertSub s x =>
    match o_insert os (get_s f s) x with
    | Some (s', b) => (set_s f s s', r_bool b)
    | None => (f, r_error)
    end
  | RemoveSub s x =>
    match o_remove os (get_s f s) x with
    | Some (s', b) => (set_s f s s', r_bool b)
    | None => (f, r_error)
    end
  end.

Definition step (f : fam) (o : op) : fam := fst (step_ret f o).

Definition hstate : Type := bool * list (list N) * list N.
Definition observe_m (t : T) : hstate := (o_is_empty ot t, o_iter ot t, o_enc ot t).
Definition observe_s (s : S) : hstate := (o_is_empty os s, o_iter os s, o_enc os s).

(* delta encoding of the printed states: a handle whose observation did not change since the
   previous printed line is printed as None (lossless; the first line prints every handle) *)
Fixpoint list_eqb {A} (eqb : A -> A -> bool) (l1 l2 : list A) : bool :=
  match l1, l2 with
  | [], [] => true
  | a :: t1, b :: t2 => eqb a b && list_eqb eqb t1 t2
  | _, _ => false
  end.
Definition hstate_eqb (a b : hstate) : bool :=
  Bool.eqb (fst (fst a)) (fst (fst b)) &&
  list_eqb (list_eqb N.eqb) (snd (fst a)) (snd (fst b)) &&
  list_eqb N.eqb (snd a) (snd b).
Definition delta (prev : option (list hstate)) (cur : list hstate) : list (option hstate) :=
  match prev with
  | None => map Some cur
  | Some p => map (fun pc => if hstate_eqb (fst pc) (snd pc) then None else Some (snd pc))
                  (combine p cur)
  end.

Definition out : Type := ret * list (option hstate) * list (option hstate).

Fixpoint run_from' (f : fam) (pm ps : option (list hstate)) (l : list op) : list out :=
  match l with
  | [] => []
  | o :: tl =>
    let '(f', r) := step_ret f o in
    let cm := map observe_m (mains f') in
    let cs := map observe_s (subs f') in
    (r, delta pm cm, delta ps cs) :: run_from' f' (Some cm) (Some cs) tl
  end.
Definition run_from (f : fam) (l : list op) : list out := run_from' f None None l.

End Interp.

(* the main handle written by an op / the sub handle written by an op (reads do not count) *)
Definition target_m (o : op) : option N :=
  match o with
  | Insert h _ | Remove h _ | Clear h | InsertRestriction h _ _ | RemoveRestriction h _ _ => Some h
  | Union dst _ _ | Difference dst _ _ | Mapped dst _ _ | Clone _ dst => Some dst
  | _ => None
  end.
Definition target_s (o : op) : option N :=
  match o with
  | GetClone sdst _ _ => Some sdst
  | InsertSub s _ | RemoveSub s _ => Some s
  | _ => None
  end.

Definition run_ops (n : nat) (l : list op) : list out :=
  match n with
  | O => run_from ops0 ops0 None (init_fam ops0 ops0) l
  | S m => run_from (pt_ops (S m)) (pt_ops m) (Some (pt_rops m))
                    (init_fam (pt_ops (S m)) (pt_ops m)) l
  end.

(* the same after a silently executed prefix (driver: the pseudo-op 99 separates prefix and body) *)
Definition run_ops_pre (n : nat) (pre l : list op) : list out :=
  match n with
  | O => run_from ops0 ops0 None (fold_left (step ops0 ops0 None) pre (init_fam ops0 ops0)) l
  | S m => run_from (pt_ops (S m)) (pt_ops m) (Some (pt_rops m))
                    (fold_left (step (pt_ops (S m)) (pt_ops m) (Some (pt_rops m))) pre
                               (init_fam (pt_ops (S m)) (pt_ops m))) l
  end.
